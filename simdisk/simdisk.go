// Package simdisk tracks, for files written through the os shim (diskpacked's
// pack files), what has been made durable by fsync and which writes are still
// only in the page cache, so that a crash can be materialised as "synced
// content + a chosen subset of later writes". The real files in the scratch
// directory hold the page-cache view. Std-only: imported by the os shim.
package simdisk

import (
	"os"
	"path/filepath"
	"sort"
	"strings"
	"sync"
)

// PendOp is a write that has not been fsynced.
type PendOp struct {
	Kind string // "write" | "truncate"
	Off  int64
	Data []byte
	Size int64 // truncate
	// Append is true when the write starts at or beyond the durable length
	// (it extends the file); otherwise it overwrites durable bytes in place.
	Append bool
}

type fileState struct {
	base []byte
	cur  []byte // page-cache view mirrored in memory
	pend []PendOp
}

// Hook is consulted before every tracked call. It may block (scheduling
// point, crash) and returns a fault kind: "" | "err" | "short-write".
type Hook func(path, op string) string

var (
	mu    sync.Mutex
	files = map[string]*fileState{}
	hook  Hook
	// Stats
	Writes, Syncs, Truncs, Punches int
	// PunchUnsupported makes the shim's Fallocate report ENOSYS.
	PunchUnsupported bool
)

// Reset forgets everything (start of a run).
func Reset() {
	mu.Lock()
	files = map[string]*fileState{}
	hook = nil
	Writes, Syncs, Truncs, Punches = 0, 0, 0, 0
	PunchUnsupported = false
	mu.Unlock()
}

func SetHook(h Hook) {
	mu.Lock()
	hook = h
	mu.Unlock()
}

// Before runs the hook.
func Before(path, op string) string {
	mu.Lock()
	h := hook
	mu.Unlock()
	if h == nil {
		return ""
	}
	return h(path, op)
}

func state(path string) *fileState {
	st, ok := files[path]
	if !ok {
		b, _ := os.ReadFile(path)
		st = &fileState{base: append([]byte(nil), b...), cur: append([]byte(nil), b...)}
		files[path] = st
	}
	return st
}

// OnOpen registers a file (its current content counts as durable if it is
// seen for the first time).
func OnOpen(path string) {
	mu.Lock()
	state(path)
	mu.Unlock()
}

func OnWrite(path string, off int64, data []byte) {
	mu.Lock()
	defer mu.Unlock()
	st := state(path)
	Writes++
	op := PendOp{Kind: "write", Off: off, Data: append([]byte(nil), data...), Append: off >= int64(len(st.base))}
	st.pend = append(st.pend, op)
	apply(&st.cur, op)
}

func OnTruncate(path string, size int64) {
	mu.Lock()
	defer mu.Unlock()
	st := state(path)
	Truncs++
	op := PendOp{Kind: "truncate", Size: size}
	st.pend = append(st.pend, op)
	apply(&st.cur, op)
}

func OnSync(path string) {
	mu.Lock()
	defer mu.Unlock()
	st := state(path)
	Syncs++
	st.base = append([]byte(nil), st.cur...)
	st.pend = nil
}

func apply(buf *[]byte, op PendOp) {
	switch op.Kind {
	case "write":
		end := op.Off + int64(len(op.Data))
		if int64(len(*buf)) < end {
			*buf = append(*buf, make([]byte, end-int64(len(*buf)))...)
		}
		copy((*buf)[op.Off:end], op.Data)
	case "truncate":
		if op.Size < int64(len(*buf)) {
			*buf = (*buf)[:op.Size]
		} else {
			*buf = append(*buf, make([]byte, op.Size-int64(len(*buf)))...)
		}
	}
}

// Pending returns the un-synced operations of every tracked file under dir.
func Pending(dir string) map[string][]PendOp {
	mu.Lock()
	defer mu.Unlock()
	out := map[string][]PendOp{}
	for p, st := range files {
		if strings.HasPrefix(p, dir+string(filepath.Separator)) && len(st.pend) > 0 {
			out[p] = append([]PendOp(nil), st.pend...)
		}
	}
	return out
}

// Choice decides, for one file, which pending operations survive a crash.
// keep[i] says whether in-place overwrite / truncate i is applied; appended
// data survives as a prefix: appendKeep is the number of appended bytes (over
// all append writes, in order) that reach the disk.
type Choice struct {
	Keep       []bool
	AppendKeep int64
}

// AppendedBytes is the total number of bytes in append writes of pend.
func AppendedBytes(pend []PendOp) int64 {
	var n int64
	for _, op := range pend {
		if op.Kind == "write" && op.Append {
			n += int64(len(op.Data))
		}
	}
	return n
}

// Materialise writes the crash image of every file under srcDir into dstDir:
// durable content plus the chosen subset of pending operations. Files that
// were never written through the shim are copied as they are; lock files are
// skipped.
func Materialise(srcDir, dstDir string, choose func(path string, pend []PendOp) Choice) error {
	mu.Lock()
	defer mu.Unlock()
	if err := os.MkdirAll(dstDir, 0o755); err != nil {
		return err
	}
	ents, err := os.ReadDir(srcDir)
	if err != nil {
		return err
	}
	var names []string
	for _, e := range ents {
		if !e.IsDir() {
			names = append(names, e.Name())
		}
	}
	sort.Strings(names)
	for _, name := range names {
		if strings.HasSuffix(name, ".lock") {
			continue
		}
		src := filepath.Join(srcDir, name)
		st, ok := files[src]
		var content []byte
		if !ok {
			content, err = os.ReadFile(src)
			if err != nil {
				return err
			}
		} else {
			content = append([]byte(nil), st.base...)
			if len(st.pend) > 0 {
				ch := choose(src, st.pend)
				left := ch.AppendKeep
				for i, op := range st.pend {
					if op.Kind == "write" && op.Append {
						if left <= 0 {
							continue
						}
						d := op.Data
						if int64(len(d)) > left {
							d = d[:left]
						}
						left -= int64(len(d))
						apply(&content, PendOp{Kind: "write", Off: op.Off, Data: d})
						continue
					}
					if i < len(ch.Keep) && ch.Keep[i] {
						apply(&content, op)
					}
				}
			}
		}
		if err := os.WriteFile(filepath.Join(dstDir, name), content, 0o644); err != nil {
			return err
		}
	}
	return nil
}
