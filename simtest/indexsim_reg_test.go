package simtest

import _ "verif/engines/indexsim"
