package simtest

import _ "verif/engines/schemasim"
