package simtest

import (
	"testing"

	"verif/harness"

	_ "verif/engines/storesim"
)

func TestRun(t *testing.T) { harness.WorkerMain(t) }
