package simtest

import _ "verif/engines/sharesim"
