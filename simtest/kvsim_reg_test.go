package simtest

import _ "verif/engines/kvsim"
