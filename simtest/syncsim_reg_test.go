package simtest

import _ "verif/engines/syncsim"
