package simtest

import _ "verif/engines/httpsim"
