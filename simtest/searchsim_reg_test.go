package simtest

import _ "verif/engines/searchsim"
