// Package time is the import-path shim for "time" in pkg/blobserver only
// (blobhub.go's WaitForBlob). Under the synctest fake clock a timer set for a
// deadline fires at exactly that instant and the clock then stands still while
// any goroutine is runnable, so the long-poll loops
//
//	for ... { ...; if time.Now().After(deadline) { break }; WaitForBlob(deadline) }
//
// of handlers/stat.go (and of a repaired handlers/enumerate.go) would spin
// forever at now == deadline: an artefact of the simulated clock, not a
// behaviour of the code under a real clock, where a timer only ever fires
// after its deadline has passed. NewTimer therefore fires one nanosecond late;
// everything else is the real thing.
package time

import stdtime "time"

type (
	Time     = stdtime.Time
	Duration = stdtime.Duration
	Timer    = stdtime.Timer
	Ticker   = stdtime.Ticker
	Location = stdtime.Location
	Month    = stdtime.Month
	Weekday  = stdtime.Weekday
)

const (
	Nanosecond  = stdtime.Nanosecond
	Microsecond = stdtime.Microsecond
	Millisecond = stdtime.Millisecond
	Second      = stdtime.Second
	Minute      = stdtime.Minute
	Hour        = stdtime.Hour
)

func Now() Time                             { return stdtime.Now() }
func Since(t Time) Duration                 { return stdtime.Since(t) }
func Until(t Time) Duration                 { return stdtime.Until(t) }
func Sleep(d Duration)                      { stdtime.Sleep(d) }
func After(d Duration) <-chan Time          { return stdtime.After(d) }
func AfterFunc(d Duration, f func()) *Timer { return stdtime.AfterFunc(d, f) }
func Unix(sec, nsec int64) Time             { return stdtime.Unix(sec, nsec) }

// NewTimer fires once the deadline has passed (never at the deadline itself).
func NewTimer(d Duration) *Timer { return stdtime.NewTimer(d + 1) }
