// Package sync is the import-path shim the overlay substitutes for the
// standard "sync" in perkeep's own files. Mutex, RWMutex and Once are
// re-implemented on top of a real mutex + sync.Cond so that (a) a goroutine
// waiting for a lock whose holder is parked by the simulator counts as
// durably blocked for testing/synctest, and (b) every acquisition can become a
// scheduling point. Everything else is the real thing.
package sync

import (
	stdsync "sync"

	"verif/simcore"
)

type (
	WaitGroup = stdsync.WaitGroup
	Pool      = stdsync.Pool
	Map       = stdsync.Map
	Cond      = stdsync.Cond
	Locker    = stdsync.Locker
)

func NewCond(l Locker) *Cond { return stdsync.NewCond(l) }

func OnceFunc(f func()) func()             { return stdsync.OnceFunc(f) }
func OnceValue[T any](f func() T) func() T { return stdsync.OnceValue(f) }
func OnceValues[T1, T2 any](f func() (T1, T2)) func() (T1, T2) {
	return stdsync.OnceValues(f)
}

// Mutex has the semantics of sync.Mutex.
type Mutex struct {
	in     stdsync.Mutex
	c      *stdsync.Cond
	locked bool
}

func (m *Mutex) cond() *stdsync.Cond {
	if m.c == nil {
		m.c = stdsync.NewCond(&m.in)
	}
	return m.c
}

func (m *Mutex) Lock() {
	simcore.LockYield("mu")
	m.in.Lock()
	for m.locked {
		m.cond().Wait()
	}
	m.locked = true
	m.in.Unlock()
}

func (m *Mutex) TryLock() bool {
	m.in.Lock()
	defer m.in.Unlock()
	if m.locked {
		return false
	}
	m.locked = true
	return true
}

func (m *Mutex) Unlock() {
	m.in.Lock()
	if !m.locked {
		m.in.Unlock()
		panic("sync: unlock of unlocked mutex")
	}
	m.locked = false
	if m.c != nil {
		m.c.Broadcast()
	}
	m.in.Unlock()
	simcore.UnlockYield("un")
}

// RWMutex has the semantics of sync.RWMutex, including that a waiting writer
// blocks new readers.
type RWMutex struct {
	in       stdsync.Mutex
	c        *stdsync.Cond
	readers  int
	writer   bool
	wwaiting int
}

func (m *RWMutex) cond() *stdsync.Cond {
	if m.c == nil {
		m.c = stdsync.NewCond(&m.in)
	}
	return m.c
}

func (m *RWMutex) Lock() {
	simcore.LockYield("rw")
	m.in.Lock()
	m.wwaiting++
	for m.writer || m.readers > 0 {
		m.cond().Wait()
	}
	m.wwaiting--
	m.writer = true
	m.in.Unlock()
}

func (m *RWMutex) Unlock() {
	m.in.Lock()
	if !m.writer {
		m.in.Unlock()
		panic("sync: Unlock of unlocked RWMutex")
	}
	m.writer = false
	if m.c != nil {
		m.c.Broadcast()
	}
	m.in.Unlock()
	simcore.UnlockYield("unw")
}

func (m *RWMutex) RLock() {
	simcore.LockYield("r")
	m.in.Lock()
	for m.writer || m.wwaiting > 0 {
		m.cond().Wait()
	}
	m.readers++
	m.in.Unlock()
}

func (m *RWMutex) RUnlock() {
	m.in.Lock()
	if m.readers <= 0 {
		m.in.Unlock()
		panic("sync: RUnlock of unlocked RWMutex")
	}
	m.readers--
	if m.readers == 0 && m.c != nil {
		m.c.Broadcast()
	}
	m.in.Unlock()
	simcore.UnlockYield("unr")
}

func (m *RWMutex) TryLock() bool {
	m.in.Lock()
	defer m.in.Unlock()
	if m.writer || m.readers > 0 {
		return false
	}
	m.writer = true
	return true
}

func (m *RWMutex) TryRLock() bool {
	m.in.Lock()
	defer m.in.Unlock()
	if m.writer || m.wwaiting > 0 {
		return false
	}
	m.readers++
	return true
}

type rlocker RWMutex

func (r *rlocker) Lock()   { (*RWMutex)(r).RLock() }
func (r *rlocker) Unlock() { (*RWMutex)(r).RUnlock() }

func (m *RWMutex) RLocker() Locker { return (*rlocker)(m) }

// Once has the semantics of sync.Once.
type Once struct {
	m    Mutex
	done bool
}

func (o *Once) Do(f func()) {
	o.m.Lock()
	if o.done {
		o.m.Unlock()
		return
	}
	defer o.m.Unlock()
	defer func() { o.done = true }()
	f()
}
