// Package syscall is the import-path shim substituted for "syscall" inside
// pkg/blobserver/diskpacked only: Fallocate (hole punching in a deleted
// blob's body) is recorded as an un-synced zero write through the os shim.
package syscall

import (
	stdsyscall "syscall"

	shimos "verif/shim/os"
	"verif/simdisk"
)

type Errno = stdsyscall.Errno

const (
	ENOSYS     = stdsyscall.ENOSYS
	EOPNOTSUPP = stdsyscall.EOPNOTSUPP
	ENOENT     = stdsyscall.ENOENT
	EIO        = stdsyscall.EIO
	ENOSPC     = stdsyscall.ENOSPC
	EINTR      = stdsyscall.EINTR
)

func Fallocate(fd int, mode uint32, off int64, len int64) error {
	if simdisk.PunchUnsupported {
		return ENOSYS
	}
	f := shimos.VerifFileByFd(uintptr(fd))
	if f == nil {
		return stdsyscall.Fallocate(fd, mode, off, len)
	}
	return f.VerifPunch(off, len)
}
