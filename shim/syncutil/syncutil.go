// Package syncutil is the import-path shim for go4.org/syncutil in perkeep's
// own files: Gate is Cond-based (package-level gates are created at init time,
// outside any synctest bubble, so a channel-based gate would not be durably
// blocking) and exposes slot accounting; everything else is the real thing.
package syncutil

import (
	stdsync "sync"
	"sync/atomic"

	real "go4.org/syncutil"

	"verif/simcore"
)

type (
	Group = real.Group
	Sem   = real.Sem
)

// Once is go4.org/syncutil.Once over a Cond-based mutex: goroutines waiting
// for the first caller (pkg/client's prefixOnce/discoOnce around a discovery
// round trip) are then durably blocked, so a discovery that never returns is
// reported as a hang of the simulated run instead of freezing the bubble.
type Once struct {
	mu      stdsync.Mutex
	c       *stdsync.Cond
	running bool
	done    uint32
}

func (o *Once) Do(f func() error) error {
	if atomic.LoadUint32(&o.done) == 1 {
		return nil
	}
	o.mu.Lock()
	if o.c == nil {
		o.c = stdsync.NewCond(&o.mu)
	}
	for o.running {
		o.c.Wait()
	}
	if o.done == 1 {
		o.mu.Unlock()
		return nil
	}
	o.running = true
	o.mu.Unlock()
	defer func() {
		o.mu.Lock()
		o.running = false
		o.c.Broadcast()
		o.mu.Unlock()
	}()
	err := f()
	if err == nil {
		atomic.StoreUint32(&o.done, 1)
	}
	return err
}

func NewSem(max int64) *Sem { return real.NewSem(max) }

type Gate struct {
	mu  stdsync.Mutex
	c   *stdsync.Cond
	max int
	n   int
}

var (
	gatesMu stdsync.Mutex
	gates   []*Gate
	// processEpoch counts simulated process deaths (VerifProcessDied)
	processEpoch atomic.Int64
)

func NewGate(max int) *Gate {
	g := &Gate{max: max}
	g.c = stdsync.NewCond(&g.mu)
	gatesMu.Lock()
	gates = append(gates, g)
	gatesMu.Unlock()
	return g
}

func (g *Gate) Start() {
	simcore.LockYield("gate")
	g.mu.Lock()
	born := processEpoch.Load()
	for g.n >= g.max {
		g.c.Wait()
		if processEpoch.Load() != born {
			// a goroutine of a simulated process that has died meanwhile:
			// it never runs again
			g.mu.Unlock()
			select {}
		}
	}
	g.n++
	g.mu.Unlock()
}

func (g *Gate) Done() {
	g.mu.Lock()
	if g.n == 0 {
		g.mu.Unlock()
		panic("Done called more than Start")
	}
	g.n--
	g.c.Broadcast()
	g.mu.Unlock()
}

// InUse reports the slots currently held (simulator-only accessor).
func (g *Gate) InUse() int {
	g.mu.Lock()
	defer g.mu.Unlock()
	return g.n
}

// VerifProcessDied gives back every slot of every gate: the simulator calls it
// when the simulated process dies. The goroutines of the dead process stay
// blocked for good wherever they were (they are never resumed), and the slots
// they hold in package-level gates - which a real process death resets with
// everything else - would otherwise starve the processes simulated after it.
func VerifProcessDied() {
	processEpoch.Add(1)
	gatesMu.Lock()
	defer gatesMu.Unlock()
	for _, g := range gates {
		g.mu.Lock()
		g.n = 0
		g.c.Broadcast()
		g.mu.Unlock()
	}
}

// VerifGatesInUse is the sum of held slots over every gate ever created.
func VerifGatesInUse() int {
	gatesMu.Lock()
	defer gatesMu.Unlock()
	t := 0
	for _, g := range gates {
		t += g.InUse()
	}
	return t
}
