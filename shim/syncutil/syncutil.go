// Package syncutil is the import-path shim for go4.org/syncutil in perkeep's
// own files: Gate is Cond-based (package-level gates are created at init time,
// outside any synctest bubble, so a channel-based gate would not be durably
// blocking) and exposes slot accounting; everything else is the real thing.
package syncutil

import (
	stdsync "sync"

	real "go4.org/syncutil"

	"verif/simcore"
)

type (
	Group = real.Group
	Once  = real.Once
	Sem   = real.Sem
)

func NewSem(max int64) *Sem { return real.NewSem(max) }

type Gate struct {
	mu  stdsync.Mutex
	c   *stdsync.Cond
	max int
	n   int
}

var (
	gatesMu stdsync.Mutex
	gates   []*Gate
)

func NewGate(max int) *Gate {
	g := &Gate{max: max}
	g.c = stdsync.NewCond(&g.mu)
	gatesMu.Lock()
	gates = append(gates, g)
	gatesMu.Unlock()
	return g
}

func (g *Gate) Start() {
	simcore.LockYield("gate")
	g.mu.Lock()
	for g.n >= g.max {
		g.c.Wait()
	}
	g.n++
	g.mu.Unlock()
}

func (g *Gate) Done() {
	g.mu.Lock()
	if g.n == 0 {
		g.mu.Unlock()
		panic("Done called more than Start")
	}
	g.n--
	g.c.Broadcast()
	g.mu.Unlock()
}

// InUse reports the slots currently held (simulator-only accessor).
func (g *Gate) InUse() int {
	g.mu.Lock()
	defer g.mu.Unlock()
	return g.n
}

// VerifGatesInUse is the sum of held slots over every gate ever created.
func VerifGatesInUse() int {
	gatesMu.Lock()
	defer gatesMu.Unlock()
	t := 0
	for _, g := range gates {
		t += g.InUse()
	}
	return t
}
