// Package os is the import-path shim substituted for "os" inside
// pkg/blobserver/diskpacked only. File wraps a real *os.File in the run's
// scratch directory and reports every write, truncate and sync to simdisk, so
// the simulator knows what is durable and can inject faults and crashes at
// every disk call. Everything else is the real package.
package os

import (
	"errors"
	"io"
	"io/fs"
	stdos "os"
	"sync"

	"verif/simcore"
	"verif/simdisk"
)

type (
	FileInfo  = stdos.FileInfo
	FileMode  = stdos.FileMode
	PathError = stdos.PathError
	DirEntry  = stdos.DirEntry
)

const (
	O_RDONLY = stdos.O_RDONLY
	O_WRONLY = stdos.O_WRONLY
	O_RDWR   = stdos.O_RDWR
	O_APPEND = stdos.O_APPEND
	O_CREATE = stdos.O_CREATE
	O_EXCL   = stdos.O_EXCL
	O_SYNC   = stdos.O_SYNC
	O_TRUNC  = stdos.O_TRUNC

	ModePerm = stdos.ModePerm
	ModeDir  = stdos.ModeDir
)

var (
	ErrNotExist         = stdos.ErrNotExist
	ErrExist            = stdos.ErrExist
	ErrPermission       = stdos.ErrPermission
	ErrClosed           = stdos.ErrClosed
	ErrInvalid          = stdos.ErrInvalid
	ErrDeadlineExceeded = stdos.ErrDeadlineExceeded
	Stdin               = stdos.Stdin
	Stdout              = stdos.Stdout
	Stderr              = stdos.Stderr
)

// ErrInjected marks injected disk faults.
var ErrInjected = errors.New("sim: injected disk fault")

func IsNotExist(err error) bool   { return stdos.IsNotExist(err) }
func IsExist(err error) bool      { return stdos.IsExist(err) }
func IsPermission(err error) bool { return stdos.IsPermission(err) }

func Stat(name string) (FileInfo, error) {
	simcore.Yield("disk:stat")
	if simdisk.Before(name, "Stat") == "err" {
		return nil, &PathError{Op: "stat", Path: name, Err: ErrInjected}
	}
	return stdos.Stat(name)
}
func Lstat(name string) (FileInfo, error)           { return stdos.Lstat(name) }
func Remove(name string) error                      { return stdos.Remove(name) }
func RemoveAll(path string) error                   { return stdos.RemoveAll(path) }
func Mkdir(name string, perm FileMode) error        { return stdos.Mkdir(name, perm) }
func MkdirAll(path string, perm FileMode) error     { return stdos.MkdirAll(path, perm) }
func MkdirTemp(dir, pattern string) (string, error) { return stdos.MkdirTemp(dir, pattern) }
func Symlink(oldname, newname string) error         { return stdos.Symlink(oldname, newname) }
func Rename(oldpath, newpath string) error          { return stdos.Rename(oldpath, newpath) }
func ReadFile(name string) ([]byte, error)          { return stdos.ReadFile(name) }
func ReadDir(name string) ([]DirEntry, error)       { return stdos.ReadDir(name) }
func Getenv(key string) string                      { return stdos.Getenv(key) }
func TempDir() string                               { return stdos.TempDir() }
func Getpid() int                                   { return stdos.Getpid() }
func Exit(code int)                                 { stdos.Exit(code) }
func WriteFile(name string, data []byte, perm FileMode) error {
	return stdos.WriteFile(name, data, perm)
}

// File wraps *os.File.
type File struct {
	f    *stdos.File
	path string
}

var (
	fdMu sync.Mutex
	byFd = map[uintptr]*File{}
)

// VerifFileByFd finds the shim file for a descriptor (syscall shim).
func VerifFileByFd(fd uintptr) *File {
	fdMu.Lock()
	defer fdMu.Unlock()
	return byFd[fd]
}

func wrap(f *stdos.File, name string) *File {
	sf := &File{f: f, path: name}
	simdisk.OnOpen(name)
	return sf
}

func Open(name string) (*File, error) {
	simcore.Yield("disk:open")
	if simdisk.Before(name, "Open") == "err" {
		return nil, &PathError{Op: "open", Path: name, Err: ErrInjected}
	}
	f, err := stdos.Open(name)
	if err != nil {
		return nil, err
	}
	fi, err := f.Stat()
	if err == nil && fi.IsDir() {
		return &File{f: f, path: name}, nil
	}
	return wrap(f, name), nil
}

func Create(name string) (*File, error) {
	return OpenFile(name, O_RDWR|O_CREATE|O_TRUNC, 0666)
}

func OpenFile(name string, flag int, perm FileMode) (*File, error) {
	simcore.Yield("disk:openfile")
	if simdisk.Before(name, "OpenFile") == "err" {
		return nil, &PathError{Op: "open", Path: name, Err: ErrInjected}
	}
	f, err := stdos.OpenFile(name, flag, perm)
	if err != nil {
		return nil, err
	}
	sf := wrap(f, name)
	if flag&O_TRUNC != 0 {
		simdisk.OnTruncate(name, 0)
	}
	return sf, nil
}

func (f *File) Name() string { return f.f.Name() }

func (f *File) Fd() uintptr {
	fd := f.f.Fd()
	fdMu.Lock()
	byFd[fd] = f
	fdMu.Unlock()
	return fd
}

func (f *File) Stat() (FileInfo, error) { return f.f.Stat() }

func (f *File) Read(p []byte) (int, error) { return f.f.Read(p) }

func (f *File) ReadAt(p []byte, off int64) (int, error) { return f.f.ReadAt(p, off) }

func (f *File) Seek(offset int64, whence int) (int64, error) { return f.f.Seek(offset, whence) }

func (f *File) Readdirnames(n int) ([]string, error) { return f.f.Readdirnames(n) }
func (f *File) Readdir(n int) ([]FileInfo, error)    { return f.f.Readdir(n) }
func (f *File) ReadDir(n int) ([]DirEntry, error)    { return f.f.ReadDir(n) }

func (f *File) Write(p []byte) (int, error) {
	simcore.Yield("disk:write")
	fault := simdisk.Before(f.path, "Write")
	if fault == "err" {
		return 0, &PathError{Op: "write", Path: f.path, Err: ErrInjected}
	}
	off, err := f.f.Seek(0, io.SeekCurrent)
	if err != nil {
		return 0, err
	}
	if fault == "short-write" {
		p = p[:len(p)/2]
	}
	n, err := f.f.Write(p)
	if n > 0 {
		simdisk.OnWrite(f.path, off, p[:n])
	}
	if err == nil && fault == "short-write" {
		err = &PathError{Op: "write", Path: f.path, Err: ErrInjected}
	}
	return n, err
}

func (f *File) WriteString(s string) (int, error) { return f.Write([]byte(s)) }

func (f *File) WriteAt(p []byte, off int64) (int, error) {
	simcore.Yield("disk:writeat")
	fault := simdisk.Before(f.path, "WriteAt")
	if fault == "err" {
		return 0, &PathError{Op: "write", Path: f.path, Err: ErrInjected}
	}
	if fault == "short-write" {
		p = p[:len(p)/2]
	}
	n, err := f.f.WriteAt(p, off)
	if n > 0 {
		simdisk.OnWrite(f.path, off, p[:n])
	}
	if err == nil && fault == "short-write" {
		err = &PathError{Op: "write", Path: f.path, Err: ErrInjected}
	}
	return n, err
}

func (f *File) Truncate(size int64) error {
	simcore.Yield("disk:truncate")
	if simdisk.Before(f.path, "Truncate") == "err" {
		return &PathError{Op: "truncate", Path: f.path, Err: ErrInjected}
	}
	if err := f.f.Truncate(size); err != nil {
		return err
	}
	simdisk.OnTruncate(f.path, size)
	return nil
}

func (f *File) Sync() error {
	simcore.Yield("disk:sync")
	if simdisk.Before(f.path, "Sync") == "err" {
		return &PathError{Op: "sync", Path: f.path, Err: ErrInjected}
	}
	if err := f.f.Sync(); err != nil {
		return err
	}
	simdisk.OnSync(f.path)
	return nil
}

func (f *File) Close() error {
	fdMu.Lock()
	for k, v := range byFd {
		if v == f {
			delete(byFd, k)
		}
	}
	fdMu.Unlock()
	return f.f.Close()
}

// VerifPunch records and performs a hole punch as an un-synced in-place
// overwrite with zeros (syscall shim).
func (f *File) VerifPunch(off, size int64) error {
	simcore.Yield("disk:punch")
	if simdisk.Before(f.path, "Punch") == "err" {
		return &PathError{Op: "fallocate", Path: f.path, Err: ErrInjected}
	}
	z := make([]byte, size)
	if _, err := f.f.WriteAt(z, off); err != nil {
		return err
	}
	simdisk.OnWrite(f.path, off, z)
	simdisk.Punches++
	return nil
}

var _ fs.FileInfo = FileInfo(nil)
