package main

func init() {
	specs["C05"] = &propSpec{
		ID: "C05", Engine: "indexsim", Level: "exploration",
		QuickRuns: 30000, ThoroughRuns: 900000, Chunk: 50, WatchdogS: 400,
		Rule: "one evaluation = one world (2-14 blobs drawn from: 1-2 signer keys, planned permanodes, set/add/del-attribute claims incl. camliPath:*, camliMember, camliContent, camliNodeType, values needing escaping, equal and out-of-order dates, delete claims on permanodes/claims/delete claims up to depth 4, files with 1-3 level bytes trees, directories with plain and merged static sets, opaque and duplicate blobs; signed once with the repository's test key rings at a fixed signature time) and one arrival history (deliveries by 1-4 concurrent clients, duplicates, blobs held back and delivered in a second phase or never, restarts of the index over its rows, in 20% of the runs the blob reaches the blob source concurrently with the index receive, in 30% a live corpus); after quiescence (client tasks done, VerifAwaitReindex returned, nothing parked) at every check barrier and at the end the full row dump is compared with the dump of the canonical dependencies-first single-client history of the same blob set and with the dump of Index.Reindex() from the blob source into wiped rows, and the pending blobs named by a dependency model (signing key, delete target, file parts, directory static sets) must each have a missing| row, no |indexed mark and an entry in the in-memory needs map; in 22% of the runs the world has <= 5 blobs and every permutation of the history (incl. its restart) is a sub-run; sub-runs = histories executed incl. oracle histories; non-trivial = at least 2 deliveries; distinct = distinct (mode, corpus, blob-kind sequence of the history, lock-yield rate)",
		Assume: []string{
			"a restart happens at quiescence (a crash in the middle of ReceiveBlob is not modelled here)",
			"rows are compared verbatim; no row family is excluded",
			"residual nondeterminism: indexReadyBlobs pops readyReindex in map order; the oracle is insensitive to it but schedule digests of otherwise equal runs may differ",
		},
		Real:      []string{"pkg/index (ReceiveBlob, populateMutationMap, out-of-order re-indexing, Reindex, New/initNeededMapsLocked, corpus.addBlob)", "pkg/schema (file/dir readers, claims)", "pkg/jsonsign (signing at world construction, verification in the index)", "pkg/blobserver.Receive/EnumerateAll"},
		Stub:      []string{"SimKV index rows (atomic batches, durable per call)", "SimStore blob source", "sync / go4.org/syncutil import-path shims (scheduler yield points)", "injected accessors pkg/index: VerifAwaitReindex, VerifPending, VerifNeeds, VerifSetReindexMaxProcs"},
		MustReach: []string{"missing-dep-fetch", "missing-dep-index", "reindex-goroutine-ran", "restart-mid-history", "restart-with-pending", "out-of-order-claim-date", "delete-chain-depth3", "perm-exhaustive", "race-put", "check-with-pending", "file-bytes-tree", "static-set-merge"},
	}
	specs["C06"] = &propSpec{
		ID: "C06", Engine: "indexsim", Level: "exploration",
		QuickRuns: 40000, ThoroughRuns: 1200000, Chunk: 50, WatchdogS: 400,
		Rule: "one evaluation = one world and arrival history as in C05 (2-12 blobs; concurrent clients, duplicates, held-back dependencies, restarts, racing source puts) on an index with a corpus (KeepInMemory before the first arrival, or at a seeded point of the history: scanned, then incremental); sub-runs = comparison points (quick: 3 seeded prefixes + the end; thorough: in half of the runs every prefix) at which, at quiescence, a fresh index.New over a copy of the rows + KeepInMemory is opened and a battery of exported reads is put to both under the index read lock: for every ref of the world and two absent ones GetBlobMeta, Index.IsDeleted, Corpus.IsDeleted, KeyId, GetFileInfo, GetDirMembers, Corpus.GetDirChildren/GetParentDirs/GetWholeRef/GetBlobMeta/ForeachClaimBack, EdgesTo, PathsOfSignerTarget; for every permanode AppendClaims (signer and attribute filters), PathsLookup, PermanodeModtime, PermanodeAnyTime, ForeachClaim, and PermanodeAttrValue / AppendPermanodeAttrValues / PermanodeHasAttrValue for every claimed attribute, signer filter and instant T in {zero, each claim date -1ns/+0/+1ns, seeded instants}; globally SearchPermanodesWithAttr, PermanodeOfSignerAttrValue, GetRecentPermanodes, EnumerateBlobMeta, EnumeratePermanodesLastModified/Created (sequences), EnumerateCamliBlobs, EnumeratePermanodesByNodeTypes; answers documented as unordered are compared as sets; non-trivial = at least 2 deliveries; distinct = distinct (corpus mode, blob-kind sequence, lock-yield rate)",
		Assume: []string{
			"SimKV is the only key/value backend exercised here (C10 holds the other implementations to the same contract)",
			"search.Handler queries are not part of the battery",
			"differences are attributed to a recorded finding only when the blobs involved match its mechanism (cause tag in the signature); every other difference fails the check",
		},
		Real:      []string{"pkg/index (ReceiveBlob, corpus.addBlob and merge functions, index.New, KeepInMemory/scanFromStorage, every read method of the battery)", "pkg/schema", "pkg/jsonsign"},
		Stub:      []string{"SimKV index rows", "SimStore blob source", "sync / go4.org/syncutil shims"},
		MustReach: []string{"compare-with-pending", "corpus-scanned-mid-history", "restart-mid-history", "out-of-order-claim-date", "delete-before-target", "answers-compared"},
	}
	specs["C07"] = &propSpec{
		ID: "C07", Engine: "indexsim", Level: "exploration",
		QuickRuns: 24000, ThoroughRuns: 720000, Chunk: 50, WatchdogS: 400,
		Rule: "one evaluation = one claim world (1-2 signers, 1-2 permanodes, 1-12 set/add/del-attribute claims with and without value, repeated values, values needing escaping, distinct claim dates, delete/undelete chains of depth <= 4 on claims and permanodes) delivered in a permuted order (date order in a quarter of the runs) by 1-3 clients, in one of three modes (index rows only; corpus loaded from the existing rows at a seeded point; corpus built incrementally) with an optional restart and an optional claim that never arrives; sub-runs = check points (an optional seeded one and the end) at which, at quiescence, every answer is compared with a folding model written from doc/schema/permanode.md and delete.md: Index.IsDeleted and Corpus.IsDeleted for every permanode/claim/delete claim, Index.AppendClaims for every signer and attribute filter (as a set), Corpus.PermanodeModtime (while the permanode is not deleted), and Corpus.PermanodeAttrValue / AppendPermanodeAttrValues (every signer filter incl. none) / PermanodeHasAttrValue for every claimed attribute and T in {zero, each claim date -1ns/+0/+1ns, seeded instants}; without a corpus the same values through search.Handler.Describe with At (which keeps a value once: compared with the model's list deduplicated); non-trivial = at least 2 non-key blobs delivered; distinct = distinct (mode, blob-kind sequence, claim-type sequence)",
		Assume: []string{
			"equal claim dates are not generated here (the documents do not define their order); C06 covers them as a restart difference",
			"a blob takes part in the model once the index can have processed it (delivered, signer's key delivered, delete target known); what happens to waiting blobs is C05's subject",
			"PermanodeModtime is compared only while the permanode itself is not deleted (delete.md: deletions are not modifications; the method's comment speaks of deleted claims only)",
			"signer filter \"\" means claims of every signer folded together in date order (doc comments: the filter is optional)",
			"search.Handler.Query is not exercised here (C08)",
		},
		Real:      []string{"pkg/index (corpus attribute caches, fixupLastClaim/restoreInvariants, valuesAtSigner, claimsIntfAttrValue, IsDeleted, AppendClaims, receive path)", "pkg/search (Handler.Describe)", "pkg/schema", "pkg/jsonsign"},
		Stub:      []string{"SimKV index rows", "SimStore blob source", "sync / go4.org/syncutil shims"},
		MustReach: []string{"mode-rows", "mode-scan", "mode-incr", "restart-mid-history", "out-of-order-claim-date", "delete-chain-depth3", "model-deleted-claim", "corpus-scanned-from-rows"},
	}
}
