package main

import (
	"context"
	"encoding/json"
	"fmt"
	"os"
	"os/exec"
	"path/filepath"
	"regexp"
	"strconv"
	"strings"
	"sync"
	"time"

	"verif/harness"
)

// runRace builds the plain tree with -race (accessor files only, no import
// shims: real sync primitives must stay visible to the detector) and runs the
// property's seeded concurrent programs free-running on real threads. This is
// sampling of real schedules, not deterministic simulation: a report is real
// (the detector has no false positives); its replay is best effort.
func runRace(sp *propSpec, tier string, seed uint64, known *knownFile) (*harness.Violation, string, map[string]any) {
	info := map[string]any{"note": "free-running workloads under the Go race detector; sampling of real schedules, not deterministic simulation"}
	st := time.Now()
	bin, err := buildSim(true)
	if err != nil {
		fmt.Fprintln(os.Stderr, "[check] race binary could not be built (data-race clause not exercised):", err)
		info["built"] = false
		return nil, "", info
	}
	budget := 40 * time.Second
	runsPer := 150
	if tier == "thorough" {
		budget = 12 * time.Minute
		runsPer = 400
	}
	ctx, cancel := context.WithTimeout(context.Background(), budget)
	defer cancel()
	type hit struct {
		from, to int
		report   string
	}
	var (
		mu    sync.Mutex
		hits  []hit
		total int
		wg    sync.WaitGroup
	)
	next := 0
	var nextMu sync.Mutex
	for w := 0; w < 8; w++ {
		wg.Add(1)
		go func() {
			defer wg.Done()
			for ctx.Err() == nil {
				nextMu.Lock()
				from := next
				next += runsPer
				nextMu.Unlock()
				out := filepath.Join(workDir(), "runs", fmt.Sprintf("race-%d.jsonl", from))
				cmd := exec.CommandContext(ctx, bin, "-test.run", "^TestRun$", "-test.timeout", "0",
					"-sim.prop="+sp.ID, "-sim.tier="+tier, "-sim.seed="+strconv.FormatUint(seed, 10),
					"-sim.from="+strconv.Itoa(from), "-sim.to="+strconv.Itoa(from+runsPer), "-sim.race", "-sim.out="+out,
					"-sim.known="+filepath.Join(verifDir, "KNOWN_FINDINGS.json"),
					"-sim.work="+filepath.Join(workDir(), "runs"))
				cmd.Env = append(os.Environ(), "VERIF_FREE=1", "GOMAXPROCS=4", "GORACE=halt_on_error=1 exitcode=66 history_size=3")
				cmd.Dir = verifDir
				var stderr strings.Builder
				cmd.Stderr = &limitedWriter{w: &stderr, n: 1 << 17}
				cmd.Run()
				n := 0
				if b, err := os.ReadFile(out); err == nil {
					n = strings.Count(string(b), "\n")
				}
				os.Remove(out)
				mu.Lock()
				total += n
				if strings.Contains(stderr.String(), "WARNING: DATA RACE") {
					hits = append(hits, hit{from + n, from + runsPer, stderr.String()})
				}
				mu.Unlock()
			}
		}()
	}
	wg.Wait()
	info["programs_run"] = total
	info["wall_s"] = time.Since(st).Seconds()
	info["gomaxprocs"] = 4
	info["races_reported"] = len(hits)
	if len(hits) == 0 {
		return nil, "", info
	}
	h := hits[0]
	rep := h.report
	if i := strings.Index(rep, "WARNING: DATA RACE"); i >= 0 {
		rep = rep[i:]
	}
	if i := strings.Index(rep, "=================="); i > 0 {
		rep = rep[:i]
	}
	// signature: the two top frames inside perkeep
	re := regexp.MustCompile(`(?m)^\s+(perkeep\.org/[^\s(]+)`)
	var frames []string
	for _, m := range re.FindAllStringSubmatch(rep, -1) {
		frames = append(frames, m[1])
		if len(frames) == 4 {
			break
		}
	}
	sig := "data-race@" + strings.Join(frames, "|")
	v := harness.Viol("data-race", sig, "the race detector reported a data race while running the seeded concurrent programs (runs "+strconv.Itoa(h.from)+".."+strconv.Itoa(h.to)+"):\n"+tail(rep, 3000), -1)
	dir := filepath.Join(verifDir, "replays")
	os.MkdirAll(dir, 0o755)
	path := filepath.Join(dir, fmt.Sprintf("%s-%d-race-%d.json", sp.ID, seed, h.from))
	b, _ := json.MarshalIndent(map[string]any{"property": sp.ID, "seed": seed, "race": true, "from": h.from, "to": h.to, "violation": v,
		"note": "re-run with: .work/race.test -test.run '^TestRun$' -sim.prop=" + sp.ID + " -sim.race -sim.from=" + strconv.Itoa(h.from) + " -sim.to=" + strconv.Itoa(h.to) + " (GORACE=halt_on_error=1, VERIF_FREE=1, GOMAXPROCS=4); best-effort: real schedules are sampled, not replayed"}, "", " ")
	os.WriteFile(path, b, 0o644)
	return v, path, info
}
