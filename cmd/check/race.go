package main

import (
	"context"
	"encoding/json"
	"fmt"
	"os"
	"os/exec"
	"path/filepath"
	"regexp"
	"sort"
	"strconv"
	"strings"
	"sync"
	"time"

	"verif/harness"
)

// runRace builds the plain tree with -race (accessor files only, no import
// shims: real sync primitives must stay visible to the detector) and runs the
// property's seeded concurrent programs free-running on real threads. This is
// sampling of real schedules, not deterministic simulation: a report is real
// (the detector has no false positives); its replay is best effort.
//
// The ids run are the property's own and its parts (sp.Also), chunk by chunk in
// turn. The detector does not halt at a report (halt_on_error=0): it prints
// each distinct race once per process and the programmes go on, so that a race
// recorded as a known finding does not hide the others. Every report becomes a
// violation whose signature names the top perkeep frames of the two accesses;
// reports matching a known finding (under matchProp) are counted, the first
// other one is returned.
func runRace(sp *propSpec, tier string, seed uint64, known *knownFile, matchProp string) (*harness.Violation, string, map[string]any, map[string]int) {
	info := map[string]any{"note": "free-running workloads under the Go race detector; sampling of real schedules, not deterministic simulation"}
	st := time.Now()
	bin, err := buildSim(true)
	if err != nil {
		fmt.Fprintln(os.Stderr, "[check] race binary could not be built (data-race clause not exercised):", err)
		info["built"] = false
		return nil, "", info, nil
	}
	budget := 40 * time.Second
	runsPer := 150
	if tier == "thorough" {
		budget = 12 * time.Minute
		runsPer = 400
	}
	ctx, cancel := context.WithTimeout(context.Background(), budget)
	defer cancel()
	type hit struct {
		id       string
		from, to int
		report   string
	}
	ids := append([]string{sp.ID}, sp.Also...)
	nextOf := map[string]int{} // per id: first run index not handed out yet
	totalOf := map[string]int{}
	turn := 0
	var (
		mu    sync.Mutex
		hits  []hit
		total int
		wg    sync.WaitGroup
	)
	var nextMu sync.Mutex
	for w := 0; w < 8; w++ {
		wg.Add(1)
		go func() {
			defer wg.Done()
			for ctx.Err() == nil {
				nextMu.Lock()
				id := ids[turn%len(ids)] // alternate between the property's ids
				turn++
				from := nextOf[id]
				nextOf[id] += runsPer
				nextMu.Unlock()
				out := filepath.Join(workDir(), "runs", fmt.Sprintf("race-%s-%d.jsonl", id, from))
				cmd := exec.CommandContext(ctx, bin, "-test.run", "^TestRun$", "-test.timeout", "0",
					"-sim.prop="+id, "-sim.tier="+tier, "-sim.seed="+strconv.FormatUint(seed, 10),
					"-sim.from="+strconv.Itoa(from), "-sim.to="+strconv.Itoa(from+runsPer), "-sim.race", "-sim.out="+out,
					"-sim.known="+filepath.Join(verifDir, "KNOWN_FINDINGS.json"),
					"-sim.work="+filepath.Join(workDir(), "runs"))
				cmd.Env = append(os.Environ(), "VERIF_FREE=1", "GOMAXPROCS=4", "GORACE=halt_on_error=0 exitcode=66 history_size=3")
				cmd.Dir = verifDir
				var stderr strings.Builder
				cmd.Stderr = &limitedWriter{w: &stderr, n: 1 << 18}
				cmd.Run()
				n := 0
				if b, err := os.ReadFile(out); err == nil {
					n = strings.Count(string(b), "\n")
				}
				os.Remove(out)
				mu.Lock()
				total += n
				totalOf[id] += n
				for _, rep := range strings.Split(stderr.String(), "WARNING: DATA RACE")[1:] {
					if i := strings.Index(rep, "=================="); i > 0 {
						rep = rep[:i]
					}
					hits = append(hits, hit{id, from, from + runsPer, "WARNING: DATA RACE" + rep})
				}
				mu.Unlock()
			}
		}()
	}
	wg.Wait()
	info["programs_run"] = total
	info["programs_run_by_id"] = totalOf
	info["wall_s"] = time.Since(st).Seconds()
	info["gomaxprocs"] = 4
	info["races_reported"] = len(hits)
	knownHits := map[string]int{}
	var first *harness.Violation
	var firstHit hit
	distinct := map[string]int{}
	for _, h := range hits {
		sig := raceSig(h.report)
		distinct[sig]++
		v := harness.Viol("data-race", sig, "the race detector reported a data race while running the seeded concurrent programs of "+h.id+" (runs "+strconv.Itoa(h.from)+".."+strconv.Itoa(h.to)+"):\n"+tail(h.report, 6000), -1)
		if what, ok := known.match(matchProp, v); ok {
			knownHits[what]++
			continue
		}
		if first == nil {
			first, firstHit = v, h
		}
	}
	info["distinct_race_signatures"] = distinct
	if first == nil {
		return nil, "", info, knownHits
	}
	h := firstHit
	dir := filepath.Join(verifDir, "replays")
	os.MkdirAll(dir, 0o755)
	path := filepath.Join(dir, fmt.Sprintf("%s-%d-race-%d.json", h.id, seed, h.from))
	b, _ := json.MarshalIndent(map[string]any{"property": sp.ID, "id": h.id, "seed": seed, "race": true, "from": h.from, "to": h.to, "violation": first,
		"note": "re-run with: .work/race.test -test.run '^TestRun$' -sim.prop=" + h.id + " -sim.race -sim.from=" + strconv.Itoa(h.from) + " -sim.to=" + strconv.Itoa(h.to) + " (GORACE=halt_on_error=0, VERIF_FREE=1, GOMAXPROCS=4); best-effort: real schedules are sampled, not replayed"}, "", " ")
	os.WriteFile(path, b, 0o644)
	return first, path, info, knownHits
}

var raceFrameRE = regexp.MustCompile(`^\s+(perkeep\.org/\S+)\(\)$`)

// raceSig names a race report by the top three perkeep frames of each of its
// two accesses ("Write at ... by goroutine N:" / "Previous read at ..."
// sections), the two accesses in lexical order:
// data-race@<frames of one access joined by |>~<frames of the other>.
func raceSig(rep string) string {
	var accesses []string
	var cur []string
	in := false
	flush := func() {
		if in {
			accesses = append(accesses, strings.Join(cur, "|"))
		}
		cur, in = nil, false
	}
	for _, line := range strings.Split(rep, "\n") {
		t := strings.TrimSpace(line)
		switch {
		case strings.HasSuffix(t, ":") && strings.Contains(t, " by ") && (strings.Contains(t, "rite at ") || strings.Contains(t, "ead at ") || strings.Contains(t, "tomic")):
			flush()
			in = true
		case t == "" || strings.HasPrefix(t, "Goroutine "):
			flush()
		case in:
			if m := raceFrameRE.FindStringSubmatch(line); m != nil && len(cur) < 3 {
				cur = append(cur, m[1])
			}
		}
	}
	flush()
	if len(accesses) > 2 {
		accesses = accesses[:2]
	}
	sort.Strings(accesses)
	return "data-race@" + strings.Join(accesses, "~")
}
