package main

import (
	"bufio"
	"context"
	"encoding/json"
	"fmt"
	"os"
	"os/exec"
	"path/filepath"
	"strings"
	"time"

	"verif/harness"
	"verif/sim"
)

type replayFile struct {
	Property  string             `json:"property"`
	Seed      uint64             `json:"seed"`
	Run       int                `json:"run"`
	Violation *harness.Violation `json:"violation"`
	Plan      *harness.Plan      `json:"plan"`
	Note      string             `json:"note"`
}

// execPlan runs one plan in a fresh process and returns its outcome.
func execPlan(bin string, p *harness.Plan, timeout time.Duration) *harness.Outcome {
	dir := filepath.Join(workDir(), "runs")
	os.MkdirAll(dir, 0o755)
	pf, _ := os.CreateTemp(dir, "plan-*.json")
	json.NewEncoder(pf).Encode(map[string]any{"plan": p})
	pf.Close()
	defer os.Remove(pf.Name())
	out := pf.Name() + ".out"
	defer os.Remove(out)
	ctx, cancel := context.WithTimeout(context.Background(), timeout)
	defer cancel()
	cmd := exec.CommandContext(ctx, bin, "-test.run", "^TestRun$", "-test.timeout", "0", "-sim.plan="+pf.Name(), "-sim.out="+out, "-sim.work="+dir,
		"-sim.known="+filepath.Join(verifDir, "KNOWN_FINDINGS.json"))
	cmd.Env = workerEnv()
	cmd.Dir = verifDir
	cmd.Run()
	f, err := os.Open(out)
	if err != nil {
		return &harness.Outcome{Inconclusive: "no output"}
	}
	defer f.Close()
	sc := bufio.NewScanner(f)
	sc.Buffer(make([]byte, 1<<20), 1<<28)
	for sc.Scan() {
		var r harness.Record
		if json.Unmarshal(sc.Bytes(), &r) == nil && r.Outcome != nil {
			return r.Outcome
		}
	}
	return &harness.Outcome{Inconclusive: "no record"}
}

func clonePlan(p *harness.Plan) *harness.Plan {
	b, _ := json.Marshal(p)
	var q harness.Plan
	json.Unmarshal(b, &q)
	return &q
}

// dropOps removes ops [i,j) and renumbers op-addressed faults.
func dropOps(p *harness.Plan, i, j int) *harness.Plan {
	q := clonePlan(p)
	q.Ops = append(append([]json.RawMessage{}, p.Ops[:i]...), p.Ops[j:]...)
	var fs []sim.Fault
	for _, f := range p.Faults {
		if f.Op >= 0 {
			if f.Op >= i && f.Op < j {
				continue
			}
			if f.Op >= j {
				f.Op -= j - i
			}
		}
		fs = append(fs, f)
	}
	q.Faults = fs
	return q
}

// minimise shrinks the plan while the same violation class recurs.
func minimise(bin string, p *harness.Plan, v *harness.Violation) (*harness.Plan, *harness.Violation, int) {
	deadline := time.Now().Add(4 * time.Minute)
	tried := 0
	cur, curV := p, v
	same := func(q *harness.Plan) (*harness.Violation, bool) {
		if tried >= 400 || time.Now().After(deadline) {
			return nil, false
		}
		tried++
		o := execPlan(bin, q, 90*time.Second)
		if o.Violation != nil && o.Violation.Class == v.Class {
			if len(o.Tape) > 0 {
				q.Tape = o.Tape
			}
			return o.Violation, true
		}
		return nil, false
	}
	// confirm it reproduces at all from the plan
	if vv, ok := same(clonePlan(cur)); ok {
		curV = vv
	} else {
		return cur, curV, tried
	}
	// 1. truncate ops after the failing one
	if curV.OpIndex >= 0 && curV.OpIndex+1 < len(cur.Ops) {
		q := dropOps(cur, curV.OpIndex+1, len(cur.Ops))
		if vv, ok := same(q); ok {
			cur, curV = q, vv
		}
	}
	// 2. ddmin over ops
	for size := len(cur.Ops) / 2; size >= 1; size /= 2 {
		for i := 0; i+size <= len(cur.Ops); {
			q := dropOps(cur, i, i+size)
			if vv, ok := same(q); ok {
				cur, curV = q, vv
				continue
			}
			i += size
		}
	}
	// 3. drop faults
	for i := 0; i < len(cur.Faults); {
		q := clonePlan(cur)
		q.Faults = append(append([]sim.Fault{}, cur.Faults[:i]...), cur.Faults[i+1:]...)
		if vv, ok := same(q); ok {
			cur, curV = q, vv
			continue
		}
		i++
	}
	// 4. simplify the schedule: fewer lock yields, shorter tape, zero choices
	if cur.Bubble {
		if cur.LockYield > 0 {
			q := clonePlan(cur)
			q.LockYield = 0
			q.Tape = nil
			if vv, ok := same(q); ok {
				cur, curV = q, vv
			}
		}
		if cur.UnlockYield > 0 {
			q := clonePlan(cur)
			q.UnlockYield = 0
			q.Tape = nil
			if vv, ok := same(q); ok {
				cur, curV = q, vv
			}
		}
		for n := len(cur.Tape) / 2; n >= 1; n /= 2 {
			if len(cur.Tape) <= n {
				continue
			}
			q := clonePlan(cur)
			q.Tape = append([]int{}, cur.Tape[:len(cur.Tape)-n]...)
			for k := 0; k < 64; k++ {
				q.Tape = append(q.Tape, 0)
			}
			if vv, ok := same(q); ok {
				cur, curV = q, vv
			}
		}
	}
	return cur, curV, tried
}

func writeReplay(prop string, seed uint64, run int, p *harness.Plan, v *harness.Violation) string {
	dir := filepath.Join(verifDir, "replays")
	os.MkdirAll(dir, 0o755)
	name := prop
	if p != nil && p.Prop != "" && p.Prop != prop {
		name = prop + "-" + p.Prop // a part served under another id (e.g. C14-C14X): run indices are per id
	}
	path := filepath.Join(dir, fmt.Sprintf("%s-%d-%d.json", name, seed, run))
	rf := replayFile{Property: prop, Seed: seed, Run: run, Violation: v, Plan: p,
		Note: "re-execute with: bin/check replay " + path}
	b, _ := json.MarshalIndent(rf, "", " ")
	os.WriteFile(path, b, 0o644)
	return path
}

func verifyReplay(bin, path string, v *harness.Violation) (bool, int) {
	b, err := os.ReadFile(path)
	if err != nil {
		return false, 0
	}
	var rf replayFile
	if json.Unmarshal(b, &rf) != nil || rf.Plan == nil {
		return false, 0
	}
	n := 0
	for i := 0; i < 3; i++ {
		o := execPlan(bin, clonePlan(rf.Plan), 120*time.Second)
		if o.Violation != nil && o.Violation.Class == v.Class {
			n++
		}
	}
	return n > 0, n
}

func replayCmd(path string) int {
	b, err := os.ReadFile(path)
	if err != nil {
		fmt.Fprintln(os.Stderr, err)
		return 2
	}
	var rf replayFile
	if err := json.Unmarshal(b, &rf); err != nil || rf.Plan == nil {
		fmt.Fprintln(os.Stderr, "bad replay file:", err)
		return 2
	}
	bin, err := buildSim(false)
	if err != nil {
		fmt.Fprintln(os.Stderr, "BUILD TROUBLE:", err)
		return 2
	}
	o := execPlan(bin, rf.Plan, 300*time.Second)
	if o.Inconclusive != "" {
		fmt.Println("replay inconclusive:", strings.SplitN(o.Inconclusive, "\n", 2)[0])
		return 2
	}
	if o.Violation == nil {
		fmt.Println("replay: no violation on this tree")
		return 0
	}
	fmt.Printf("replay: %s\n", o.Violation.Detail)
	if rf.Violation != nil && o.Violation.Class != rf.Violation.Class {
		fmt.Printf("replay: note: violation class %q differs from recorded %q\n", o.Violation.Class, rf.Violation.Class)
	}
	fmt.Printf("VIOLATION property=%s replay=%s\n", rf.Property, path)
	return 1
}

func selftest(args []string) int {
	fmt.Fprintln(os.Stderr, "selftest: see cmd/check/selftest.go")
	return selftestImpl(args)
}
