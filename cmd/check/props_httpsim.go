package main

func init() {
	specs["C18"] = &propSpec{
		ID: "C18", Engine: "httpsim", Level: "exploration",
		QuickRuns: 3000, ThoroughRuns: 90000, Chunk: 25, WatchdogS: 400,
		Rule: "one evaluation = one perkeep server built by serverinit.Load from a generated high-level configuration (blob storage memory/localdisk/diskpacked/blobpacked x index memory/leveldb/kvfile/sqlite/none, every run index picks the next of the 20 combinations; with or without the server's own public-key blob) and InstallHandlers on a ServeMux, all inside the bubble, driven through SimTransport (no socket; handlers run on bubble goroutines, bodies stream, scheduling points before a handler starts, at body reads and before a response is delivered) by 10-40 operations: pkg/client Upload (stat-first, no stat, unknown size, ReceiveBlob), raw multipart POST with 1-70 parts, raw PUT with and without Content-Length, raw batch stat by GET/POST of 1-1001 refs present/absent, client.StatBlobs, raw GET/HEAD incl. Range, client.Fetch, raw enumerate pages with limit/after, paging along continueAfter to exhaustion, client.EnumerateBlobs/EnumerateBlobsOpts, groups of 2-5 concurrent operations, and long-poll enumerate/stat (maxwaitsec) while another client uploads after a virtual delay; every answer is converted to a reference-map observation and checked at once (sizes, bytes, Content-Length, sorted exactly-once listing, continueAfter iff truncated, 404/absent, long-poll immediate/woken/timed out within the virtual second), then a closing sweep pages the whole store, stats and GETs every blob; non-trivial = at least 3 operations; distinct = distinct (configuration, operation-kind sequence)",
		Assume: []string{
			"long-poll wake-up is only required when the upload goes through the same blob root as the poll (hubs are per handler prefix; the documents do not mention prefixes)",
			"limit=0, repeated refs in one stat batch and Range on GET are not pinned down by doc/protocol and are either not generated or checked against RFC 7233 only (whole blob with 200, exact slice with 206, 416 only when unsatisfiable)",
			"pkg/blobserver's WaitForBlob timer fires 1 ns after its deadline (shim/time): under the fake clock a timer firing exactly at the deadline makes the handlers' 'until after deadline' loops spin forever",
			"mysql/postgres/mongo indexes and cloud storages need services and are not exercised",
		},
		Real:      []string{"pkg/serverinit (Load, genLowLevelConfig, InstallHandlers)", "pkg/blobserver/handlers, gethandler, protocol", "pkg/blobserver (Receive, hub, WaitForBlob)", "pkg/blobserver/{memory,localdisk,diskpacked,blobpacked,cond,replica}", "pkg/index over memory/leveldb/kvfile/sqlite, pkg/server sync-to-index loop, root/discovery, jsonsign", "pkg/client (discovery, Upload, ReceiveBlob, StatBlobs, Fetch, EnumerateBlobs*)", "pkg/auth (userpass)", "net/http client, ServeMux, ServeContent", "scratch directories for disk stores and index files"},
		Stub:      []string{"SimTransport instead of sockets and net/http.Server (response head after 4 KiB, Flush or handler return; Content-Length added when the handler finished first)", "synctest fake clock", "sync / go4.org/syncutil import-path shims (Cond-based locks, Gate, Once)", "os shim under diskpacked (pass-through)"},
		MustReach: []string{"continueAfter-followed", "empty-last-page", "stat-1000", "stat-1001", "multipart-several-parts", "put-no-content-length", "longpoll-stat-woke", "longpoll-timed-out", "longpoll-stat-immediate", "concurrent-group", "upload-skipped-by-stat"},
	}
	specs["C02"] = &propSpec{
		ID: "C02", Engine: "httpsim", Level: "exploration",
		QuickRuns: 400, ThoroughRuns: 12000, Chunk: 10, WatchdogS: 400,
		Rule: "TODO",
	}
}
