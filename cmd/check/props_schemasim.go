package main

func init() {
	specs["C15"] = &propSpec{
		ID: "C15", Engine: "schemasim", Level: "exploration",
		QuickRuns: 36000, ThoroughRuns: 1000000, Chunk: 100, WatchdogS: 300,
		Rule: "one evaluation = one plan in one of four modes (run index mod 20: 7 writer, 4 reader, 5 tree, 4 dir). " +
			"writer (simulation): schema.WriteFileFromReader fed by a SimReader (seeded fragment sizes incl. 1-byte, short and empty reads, EOF with or after the last data, source error at byte k, scheduling points inside reads) uploading to a SimStore whose call order/latency/failures are seeded; on success the file is read back byte-identical with the right Size(), no data chunk exceeds 1 MiB, every reachable ref is stored and the file blob's receive starts after every part's receive returned; a source error must surface as an error; a hang is a violation. " +
			"reader (simulation): a file built by the real writer is read by 1-3 concurrent client tasks (ReadAt/Read/Seek/ReadAll/ForeachChunk at stratified offsets incl. actual chunk boundaries) over a SimStore with transient fetch errors, short reads, wrong sizes and delays: exact bytes or an error, never other bytes, never a short ReadAt without error. " +
			"tree (INPUT GENERATION, no scheduler/faults): hand-built bytes/file part trees of up to 3 schema levels with offsets, sub-ranges, holes and shared sub-trees, stored with the harness's own JSON, every read compared with a reference interpreter of doc/schema/bytes.md.  The parts of a bytes tree are also copied through ByteParts()/PartsSize into a new file map and read back. " +
			"dir (INPUT GENERATION + optional fetch faults): directories with member counts around fan-out, its multiples, its square and cube (fan-out 3-10 through VerifSetMaxStaticSetMembers), written with schema.NewStaticSet/SetStaticSetMembers, checked with the harness's own static-set.md reader and read back through DirReader.StaticSet/Readdir(-1) as multisets.  One directory run in 500 leaves the threshold perkeep ships with as it is (read at run time) and builds a directory of that many members minus one, exactly, plus one. " +
			"non-trivial = non-empty content with at least one operation; distinct = distinct (mode, content kind and length or tree/dir shape, operation-kind sequence or fragmentation shape, fault kinds)",
		Assume: []string{
			"tree and dir modes are input generation, not simulation; only trees whose meaning doc/schema/bytes.md settles are generated (size > 0, offset+size within the referenced blob or bytes schema, at most one of blobRef/bytesRef)",
			"FileReader does not verify chunk digests, so stores returning altered bytes are outside the property; injected read faults are errors, short bodies, wrong reported sizes and delays",
			"after the first injected fault of a run any later error result is accepted (faults are not attributed to individual concurrent reads); wrong bytes are never accepted",
			"an upload fault that leaves the file complete (lost acknowledgement) need not produce an error; what is checked on success is the statement itself (bytes, size, chunk limit, reachability, order)",
			"ForeachChunk is compared with the content only for trees without sub-ranged bytesRef parts (bytes.md does not define chunk enumeration for those)",
			"DirReader.Readdir is exercised with n <= 0 only",
			"thorough tier: 1000000 runs need 15-25 of the 25 budgeted minutes (the driver stops launching at the budget) on 16 cores",
		},
		Real:      []string{"pkg/schema (filewriter.go, filereader.go, dirreader.go, schema.go static-set builder, blob.go)", "pkg/blobserver (Receive, ReceiveNoHash, StatBlob, blob hub)", "pkg/blob", "go4.org/rollsum", "bufio"},
		Stub:      []string{"SimStore leaf store (fault plan + scheduling points)", "SimReader source", "sync / go4.org/syncutil shims (Cond-based Mutex, Gate)", "harness-built schema JSON in tree mode", "VerifSetMaxStaticSetMembers accessor"},
		MustReach: []string{"writer-multichunk", "writer-nested-bytes", "eof-with-data", "eof-alone", "upload-fault", "src-error", "reader-fault", "reader-error-result", "tree-hole", "tree-subrange", "tree-ends-before-source", "tree-depth3", "dir-split", "dir-nosplit", "dir-split-recursive"},
	}
}
