package main

func init() {
	specs["C19"] = &propSpec{
		ID: "C19", Engine: "syncsim", Level: "exploration",
		QuickRuns: 60000, ThoroughRuns: 2400000, Chunk: 100, WatchdogS: 300,
		Rule: "one evaluation = one simulated life of a sync handler (built by blobserver.CreateHandler(\"sync\") as serverinit does, or server.NewSyncHandler; copierPoolSize 1-5; fullSyncOnStart off/on/blocking; rarely validateOnStart) between a source and a destination SimStore with a SimKV queue: 1-10 blobs uploaded through blobserver.Receive on the source as scheduler tasks (incl. re-uploads and the same blob twice at once) interleaved with the copy loop at every seam call, virtual sleeps, 0-3 restarts (the process generation dies at a seeded seam call or at quiescence; a new handler is built over the same durable source/destination/queue), and a call-count addressed fault plan (source fetch: error, short read, corrupt, wrong size; destination receive: error, error-after-effect, wrong size, slow, long outages; source receive: error, error-after-effect; in the queuefaults sub-mode also queue set/delete: error, error-after-effect); then the faults stop and at most 120 virtual seconds pass. Oracles on the recorded history: no queue row deleted before a successful destination receive of that blob in the same generation; destination bytes always hash to their ref; every acknowledged upload, every row present at a crash and every row left at the end is at the destination bit-identical within the bound; rows outliving their delivery must be explained by the history. In the queuefaults sub-mode only the two safety oracles can fail the check. non-trivial = at least one acknowledged upload and two operations; distinct = distinct (configuration, op-kind sequence, fault sites)",
		Assume: []string{
			"the source store reports the true size when it acknowledges an upload (no wrong-size fault on the source's ReceiveBlob: the handler trusts that size for the queue row)",
			"uploads arrive only after the handler constructor returned (serverinit builds handlers before serving)",
			"queue-write failures are outside the statement's quantifier: injected in a separate sub-mode, their liveness consequences are counted (reach probes qf:*), not failed",
			"a queue row that is written after its blob was already delivered (the hook adds the memory entry before the row; the copy can finish in between) stays until the next restart; the statement does not forbid it; counted as stale-row:set-after-delete-race",
			"hourlyCompareBytes is not exercised (it draws its start from crypto/rand)",
			"the order in which the handler copies pending blobs follows Go map iteration inside perkeep: the oracles accept every order, replays of order-dependent histories may need several attempts",
		},
		Real:      []string{"pkg/server (SyncHandler: newSyncFromConfig, NewSyncHandler, syncLoop, runSync, copyBlob, enqueue, readQueueToMemory, full sync, validation)", "pkg/blobserver (Receive, BlobHub receive hooks, CreateHandler, EnumerateAll, ListMissingDestinationBlobs)", "pkg/sorted (NewKeyValueMaybeWipe)"},
		Stub:      []string{"SimStore source and destination", "SimKV queue", "sim.World as blobserver.Loader", "sync / go4.org/syncutil import-path shims"},
		MustReach: []string{"retry-after-failure", "restart-with-pending", "corrupt-read-rejected", "size-mismatch-rejected", "err-after-dup-delivery", "slow-dest", "enqueue-during-copy", "crash-at-seam-call", "redelivered-after-restart"},
	}
}
