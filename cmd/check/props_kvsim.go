package main

func init() {
	specs["C10"] = &propSpec{
		ID: "C10", Engine: "kvsim", Level: "exploration",
		QuickRuns: 8000, ThoroughRuns: 240000, Chunk: 200, WatchdogS: 300,
		Rule: "one evaluation = one seeded sequential history (10-120 operations: get, set, delete, batch with repeated keys, find over seeded [start,end) incl. empty and inverted bounds, partial iteration then Close, buffer Flush, close+reopen; on leveldb also a whole-range compaction through an injected accessor, so that the table layout goleveldb otherwise changes on its own goroutines is a function of the plan; on sqlite a third of the batches contain one statement made to fail by a trigger installed through a second connection: CommitBatch must report the failure and nothing of the batch may be applied) on one implementation (memory, leveldb, kvfile, sqlite, buffer.New over each, SimKV), every result compared at once with an ordered-map model, plus a closing sweep (full scan, Get of every touched key, close+reopen+full scan); keys stress byte order ('|', ':', 0x00, 0xff, high bytes, prefixes of each other) and keys/values sit at 766/767/768 and 62999/63000/63001 bytes; non-trivial = at least 3 operations; distinct = distinct (implementation, operation-kind sequence). One run in 40 is wide: 258-1300 rows under one prefix written in batches of 97 (op fill) and scanned, with range boundaries at rows 100, 256 and 257 (an implementation that pages its scans internally meets a second page)",
		Assume: []string{
			"mysql, postgres and mongo need a server and are not exercised",
			"the empty key is generated for the base stores only: buffer.KeyValue uses it as an iterator sentinel and the contract is silent about it",
			"a hang is reported only when every goroutine of the worker is blocked at two samples; wall-clock time decides when to look, not the verdict",
		},
		Real:      []string{"pkg/sorted (memory, NewKeyValue, CheckSizes)", "pkg/sorted/leveldb + goleveldb on a scratch directory", "pkg/sorted/kvfile + modernc.org/kv on a scratch file", "pkg/sorted/sqlite + pkg/sorted/sqlkv + modernc.org/sqlite on a scratch file", "pkg/sorted/buffer"},
		Stub:      []string{"SimKV (held to the same contract as an implementation under test)", "sync / go4.org/syncutil.Gate import-path shims (no scheduler installed: plain blocking)"},
		MustReach: []string{"oversize-skipped", "buffer-flush", "reopen", "find-empty-range", "batch-same-key-twice", "find-partial-close", "key-at-limit", "value-at-limit", "leveldb-compacted", "batch-failed-atomically"},
	}
}
