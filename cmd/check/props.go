package main

// propSpec is the per-property budget and description table.
type propSpec struct {
	ID     string
	Engine string
	Level  string // evidence level
	// runs per tier
	QuickRuns, ThoroughRuns int
	// runs per worker process
	Chunk int
	// per-worker wall-clock watchdog in seconds
	WatchdogS int
	Rule      string
	Assume    []string
	Real      []string
	Stub      []string
	// Race: also run the property's programs free-running under the race detector.
	Race bool
	// Also lists further ids (pseudo properties served by other engines) whose
	// runs are part of this property: runCheck fans their simulated runs out
	// as well and aggregates them into this property's evidence; runRace
	// alternates between the ids. Their budgets come from their own spec.
	Also []string
	// PartOf marks a spec that only exists as a part of another property
	// (listed in that property's Also); it gets no evidence file of its own.
	PartOf string
	// MustReach lists reach probes that must be non-zero in the thorough tier.
	MustReach []string
}

var commonAssume = []string{
	"a clean batch is evidence, not proof: runs are sampled from the seeded space",
	"residual nondeterminism not owned by the simulator: Go select among ready cases and map iteration order inside perkeep (oracles accept every permitted outcome)",
}

var specs = map[string]*propSpec{
	"C01": {
		ID: "C01", Engine: "storesim", Level: "exploration",
		QuickRuns: 6000, ThoroughRuns: 400000, Chunk: 250, WatchdogS: 240,
		Rule: "one evaluation = one simulated history (composition drawn from the backend grammar, blob pool, 8-60 operations incl. restarts) checked step by step against the reference map plus a closing sweep; non-trivial = at least 3 operations; distinct = distinct (composition shape, operation-kind sequence). Compositions with cond stores get blobs above 1 MiB (the size threshold of the 'isSchema' test), and whole enumerations also go through blobserver.EnumerateAll with a callback slower than the enumerator (no call of the callback may begin after the helper returned)",
		Real: []string{"pkg/blobserver/{memory,files,localdisk,diskpacked,blobpacked,encrypt,replica,shard,cond,overlay,namespace,proxycache,union}", "pkg/blobserver (Receive, MergedEnumerate, StatBlobsParallelHelper)", "filippo.io/age"},
		Stub: []string{"SimStore leaf stores", "SimKV sorted key/value (meta indexes)", "SimVFS under files", "os shim + scratch directory under diskpacked"},
	},
	"C12": {
		ID: "C12", Engine: "storesim", Level: "fault_enumeration",
		QuickRuns: 6000, ThoroughRuns: 300000, Chunk: 200, WatchdogS: 240,
		Rule:      "one evaluation = one replica configuration (n in 1..5, minWritesForSuccess in 1..n, read set equal/subset/with extra store, overlapping pre-seeded contents) driven through one receive per failing subset of replicas (all 2^n subsets for n<=4; failure kind per failing replica: error, error-after-effect, wrong size, slow) interleaved with fetch/stat/enumerate under read-replica faults; completion order of the concurrent uploads is decided by the seeded scheduler; sub-runs = receives; distinct = distinct (n, m, read set size, op/fault sequence). After every history and 30 virtual seconds (stragglers have landed) the bytes every replica keeps are swept: whatever a replica holds under a ref must hash to it. The simulated store fires its fault or delay before it reads the source it was given, so a caller that re-uses a buffer while a straggling replica write is still pending is seen. After a receive with failing replicas the client tries again in a third of the cases, with all replicas back; the quorum oracle counts replicas that already hold the blob",
		Real:      []string{"pkg/blobserver/replica", "pkg/blobserver (ReceiveNoHash, MergedEnumerate)"},
		Stub:      []string{"SimStore replicas with fault plan and scheduling points"},
		MustReach: []string{"ack-with-failed-replicas", "ack-before-stragglers", "recv-refused"},
	},
	"C13": {
		ID: "C13", Engine: "storesim", Level: "fault_enumeration",
		QuickRuns: 3500, ThoroughRuns: 150000, Chunk: 25, WatchdogS: 400,
		Rule: "one evaluation = one history (4-18 operations on a composition whose leaves are simulated stores, files over SimVFS, diskpacked over the os shim, with simulated key/value indexes); sub-runs = re-executions of the history from a fresh world with a single fault (every lower-layer call k of every operation j in a seeded window x every applicable kind: error, error-after-effect, short read, short write, iterator error), each followed by a healthy suffix, a closing sweep, new receives/removes, the store's own recovery procedure (diskpacked.Reindex, blobpacked fast recovery, encrypt meta re-scan over wiped indexes) and a second sweep; non-trivial = at least one single-fault sub-run; distinct = distinct (composition, op kinds, faulted call sites). Whole enumerations also run through blobserver.EnumerateAll with a slow callback (no callback call may begin after the helper returned, error or not); blobpacked compositions receive a packable file inside the fault window; a read that reports success under a fault must be complete. Half of the files stores carry a new-file gate of width 1-2 (as localdisk gives them); a packable file spans several zips in half of the runs that have one; after the recovery from the zips the packed store's own start-up integrity check must pass",
		Real: []string{"pkg/blobserver/{files,diskpacked,blobpacked,encrypt,replica,shard,cond,overlay,namespace,proxycache}", "pkg/blobserver (StatBlobsParallelHelper, MergedEnumerate, Receive)"},
		Stub: []string{"SimStore", "SimKV", "SimVFS", "os shim + simdisk (scratch directory)"},
	},
	"C03": {
		ID: "C03", Engine: "storesim", Level: "fault_enumeration",
		QuickRuns: 3000, ThoroughRuns: 120000, Chunk: 1, WatchdogS: 400,
		Rule: "one evaluation = one receive/remove history on the file-per-blob store (over SimVFS) or the packed disk store (over the os shim with a simulated index) with a designated crash operation; sub-runs = crash images checked: for every lower-layer call c of the crash operation (and the instant right after it returned) the process dies before call c+1, and every crash image is materialised (process death = page cache kept; power loss = synced content + each parser-relevant prefix of appended bytes x each subset of in-place overwrites; for files each un-synced file cut at synced/middle/all), reopened, swept, re-indexed from the pack files alone, driven through a suffix of further operations, swept and re-indexed again; distinct = distinct (store, maxFileSize, op kinds, crash op, call count). One history in eight runs on localdisk over the real osfs.go with a contract-checking VFS in between (RecVFS: a Sync, Close, Rename or MkdirAll that returns without having done its part fails the call) and ends with a clean reopen and sweep. One run in 60 is a bulk removal: 66-140 tiny blobs on the packed disk store and one RemoveBlobs call over nearly all of them as the crash operation (crash points sampled with a stride of 9-17, plus the last four)",
		Real: []string{"pkg/blobserver/files", "pkg/blobserver/diskpacked (incl. Reindex, StreamBlobs, delete)"},
		Stub: []string{"SimVFS (files.VFS)", "os/syscall shim + simdisk crash materialisation", "SimKV index (assumed crash-atomic and durable per call)"},
	},
	"C11": {
		ID: "C11", Engine: "storesim", Level: "exploration",
		QuickRuns: 1500, ThoroughRuns: 60000, Chunk: 25, WatchdogS: 400,
		Rule:      "one evaluation = one history on encrypt(blobs, meta, metaIndex) over simulated stores: receives (in a fifth of the runs more than SmallMetaCountLimit, so the background meta compaction runs under the seeded scheduler), reads, restarts with the meta index wiped (graceful, or a kill right after an operation returned with compaction in flight), process death inside a receive, and tamper operations on stored ciphertext/meta blobs (single-byte flips — every position for blobs up to 1 KiB —, truncations, extension, blob-for-blob swap, removal), each followed by a sweep (every fetch returns the original plaintext or fails), optionally a restart with wiped index (which either refuses to start or, having accepted every meta blob, must have rebuilt the whole mapping: a stat of every blob is then checked strictly), and restoration; in 40% of the runs the compaction limits (SmallMetaCountLimit, FullMetaBlobSize) are lowered through an overlay seam so that multi-group compactions and compactions during the start-up scan happen in short histories; one run in 120 uploads 560-640 tiny blobs so that one packed meta blob exceeds an age payload chunk (64 KiB) and tampers with its tail; a leak scan searches every byte and blob name of the wrapped stores for plaintext refs, digests and 16-byte plaintext windows; sub-runs = tamper variants; distinct = distinct (blob count, op-kind sequence). In three runs out of ten the simulated meta store sends at most 1, 2 or 7 blobs per enumeration call (legal: at most limit); the start-up scan must still see every meta blob",
		Real:      []string{"pkg/blobserver/encrypt (encrypt.go, meta.go)", "filippo.io/age"},
		Stub:      []string{"SimStore blobs/meta", "SimKV metaIndex", "crypto/rand replaced by a seeded DRBG"},
		MustReach: []string{"restart-index-wiped", "meta-compaction-removed-small-metas", "tamper-flipall", "compaction-knobs-lowered", "startup-refused-tampered"},
	},
	"C14": {
		ID: "C14", Engine: "storesim", Level: "exploration",
		QuickRuns: 40000, ThoroughRuns: 600000, Chunk: 250, WatchdogS: 400, Race: true,
		Also: []string{"C14X"}, // the index part (engines/indexsim/c14.go); its rule is under coverage.also.C14X
		Rule: "one evaluation = one concurrent program (2-16 client tasks, 1-5 operations each, on 1-4 overlapping blobs) against a backend composition, executed under the seeded scheduler (every seam call and, with a per-run probability, every lock acquisition is a scheduling point); per-key histories stamped with the global event sequence are checked with porcupine against a present/absent register (sub-runs = key histories checked), enumerations with interval semantics, sequential reads after quiescence are part of each history; a second configuration runs the same programs free-running under the race detector; distinct = distinct (composition, per-client op kinds); the index part of the statement (concurrently feed the index while it is queried) runs under the id C14X with its own rule (coverage.also.C14X); evaluations and distinct_nontrivial are the sums over both parts (per part: evaluations_by_id, distinct_nontrivial_by_id); the race configuration alternates between the two ids",
		Real: []string{"pkg/blobserver/{memory,files,localdisk,diskpacked,blobpacked,encrypt,replica,shard,cond,overlay,namespace,proxycache}", "index part: see coverage.also.C14X"},
		Stub: []string{"SimStore", "SimKV", "SimVFS", "os shim"},
	},
	"C04": {
		ID: "C04", Engine: "storesim", Level: "fault_enumeration",
		QuickRuns: 1200, ThoroughRuns: 40000, Chunk: 10, WatchdogS: 600,
		Rule:      "one evaluation = one history on blobpacked(small, large, meta) over simulated stores: 1-2 files at/above (a few below) the 512 KiB packing threshold cut by the harness's own chunker (fixed or irregular chunks, optional nested bytes schemas, repeated chunks, identical content under two names), uploaded in a seeded order, with the zip size cap lowered through an injected accessor in most runs (multi-zip packs), then removals, re-uploads and restarts in recovery modes none/fast/full with or without wiping meta; sub-runs = re-executions in which the process dies before each mutating lower-layer call of a packing receive (zip stored, meta batch, loose-blob removal per zip, final whole-file row) followed by a restart in each recovery mode, a sweep, a full recovery from the zips alone and another sweep; each sweep checks fetch/sub-fetch/stat/enumerate of every logical blob against the reference map, whole-file reads at several offsets, and every zip (valid blob within the cap, first entry contiguous file content, manifest consistent). StreamBlobs traversals, resumed by continuation token across a pack, are checked against the reference map (every present blob exactly once over a resumed traversal); after a recovery from the zips the blobs removed earlier in the history may be present or absent (removal of a packed blob is recorded in the meta index only, as documented)",
		Real:      []string{"pkg/blobserver/blobpacked (pack, writeAZip, reindex/recovery, wholefetch, subfetch, enumerate)", "pkg/schema FileReader (used by the packer)"},
		Stub:      []string{"SimStore small/large", "SimKV meta", "harness chunker (hand-built file/bytes schema blobs)"},
		MustReach: []string{"multi-zip", "pack-crash-enumerated", "wholeref-read", "zip-validated"},
	},
}
