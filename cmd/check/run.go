package main

import (
	"bufio"
	"context"
	"encoding/json"
	"fmt"
	"os"
	"os/exec"
	"path/filepath"
	"regexp"
	"sort"
	"strconv"
	"strings"
	"sync"
	"sync/atomic"
	"time"

	"verif/harness"
)

type knownFile struct {
	Findings []struct {
		Property string `json:"property"`
		Sig      string `json:"sig"` // regexp matched against Violation.Sig
		What     string `json:"what"`
	} `json:"findings"`
	Fixed []string `json:"fixed"`
}

func loadKnown() *knownFile {
	var k knownFile
	b, err := os.ReadFile(filepath.Join(verifDir, "KNOWN_FINDINGS.json"))
	if err == nil {
		json.Unmarshal(b, &k)
	}
	return &k
}

func (k *knownFile) match(prop string, v *harness.Violation) (string, bool) {
	for _, f := range k.Findings {
		if f.Property != prop {
			continue
		}
		re, err := regexp.Compile(f.Sig)
		if err != nil {
			continue
		}
		if re.MatchString(v.Sig) {
			return f.What, true
		}
	}
	return "", false
}

var workerSeq atomic.Int64

func seedFromEnv() uint64 {
	if s := os.Getenv("VERIF_SEED"); s != "" {
		if v, err := strconv.ParseUint(s, 10, 64); err == nil {
			return v
		}
		if v, err := strconv.ParseInt(s, 10, 64); err == nil {
			return uint64(v)
		}
	}
	return 1
}

func workerEnv() []string {
	env := os.Environ()
	return append(env, "GODEBUG=asyncpreemptoff=1")
}

type agg struct {
	mu         sync.Mutex
	evals      int
	subRuns    int
	ops        int
	inconcl    int
	inconclMsg []string
	shapes     map[string]bool
	nontrivial map[string]bool
	fired      map[string]int
	reached    map[string]int
	schedHash  map[string]bool
	schedSteps int
	yields     int
	virtualMS  int64
	samples    []any
	viols      []harness.Record
	known      map[string]int
	wallMS     float64
	extra      map[string]any
}

func newAgg() *agg {
	return &agg{shapes: map[string]bool{}, nontrivial: map[string]bool{}, fired: map[string]int{}, reached: map[string]int{}, schedHash: map[string]bool{}, known: map[string]int{}}
}

func (a *agg) add(r harness.Record, prop string, known *knownFile) {
	a.mu.Lock()
	defer a.mu.Unlock()
	o := r.Outcome
	if o == nil {
		return
	}
	a.wallMS += r.WallMS
	if o.Inconclusive != "" {
		a.inconcl++
		if len(a.inconclMsg) < 5 {
			a.inconclMsg = append(a.inconclMsg, fmt.Sprintf("run %d: %s", r.Run, firstLine(o.Inconclusive)))
		}
		return
	}
	a.evals++
	a.subRuns += o.SubRuns
	a.ops += o.Ops
	for k, v := range o.Fired {
		a.fired[k] += v
	}
	for k, v := range o.Reached {
		a.reached[k] += v
	}
	a.schedSteps += o.SchedSteps
	a.yields += o.Yields
	a.virtualMS += o.VirtualMS
	if o.SchedHash != "" && o.SchedSteps > 0 {
		a.schedHash[o.SchedHash] = true
	}
	if o.ShapeKey != "" {
		a.shapes[o.ShapeKey] = true
		if o.Nontrivial {
			a.nontrivial[o.ShapeKey] = true
		}
	}
	if o.Sample != nil && len(a.samples) < 4 {
		a.samples = append(a.samples, o.Sample)
	}
	for what, n := range o.KnownHits {
		a.known[what] += n
	}
	if o.Violation != nil {
		if what, ok := known.match(prop, o.Violation); ok {
			a.known[what]++
			return
		}
		a.viols = append(a.viols, r)
	}
}

func firstLine(s string) string {
	if i := strings.IndexByte(s, '\n'); i >= 0 {
		return s[:i]
	}
	return s
}

// runWorker executes run indices [from,to) in one process and streams records.
func runWorker(ctx context.Context, bin, prop, tier string, seed uint64, from, to int, watchdog time.Duration, keepPlans int, emit func(harness.Record)) (done int, err error) {
	ctx, cancel := context.WithTimeout(ctx, watchdog)
	defer cancel()
	out := filepath.Join(workDir(), "runs", fmt.Sprintf("w-%s-%d-%d-%d.jsonl", prop, from, to, workerSeq.Add(1)))
	os.MkdirAll(filepath.Dir(out), 0o755)
	defer os.Remove(out)
	cmd := exec.CommandContext(ctx, bin, "-test.run", "^TestRun$", "-test.timeout", "0",
		"-sim.prop="+prop, "-sim.tier="+tier, "-sim.seed="+strconv.FormatUint(seed, 10),
		"-sim.from="+strconv.Itoa(from), "-sim.to="+strconv.Itoa(to), "-sim.out="+out,
		"-sim.keepplans="+strconv.Itoa(keepPlans),
		"-sim.known="+filepath.Join(verifDir, "KNOWN_FINDINGS.json"),
		"-sim.work="+filepath.Join(workDir(), "runs"))
	cmd.Env = workerEnv()
	cmd.Dir = verifDir
	var stderr strings.Builder
	cmd.Stderr = &limitedWriter{w: &stderr, n: 1 << 16}
	cmd.Stdout = nil
	runErr := cmd.Run()
	f, ferr := os.Open(out)
	if ferr == nil {
		sc := bufio.NewScanner(f)
		sc.Buffer(make([]byte, 1<<20), 1<<28)
		for sc.Scan() {
			var r harness.Record
			if json.Unmarshal(sc.Bytes(), &r) == nil && r.Outcome != nil {
				emit(r)
				done++
			}
		}
		f.Close()
	}
	if runErr != nil && ctx.Err() != nil {
		return done, fmt.Errorf("worker %d-%d: watchdog (%v)", from, to, watchdog)
	}
	if runErr != nil {
		return done, fmt.Errorf("worker %d-%d: %v: %s", from, to, runErr, tail(stderr.String(), 600))
	}
	return done, nil
}

type limitedWriter struct {
	w *strings.Builder
	n int
}

func (l *limitedWriter) Write(p []byte) (int, error) {
	if l.w.Len() < l.n {
		l.w.Write(p)
	}
	return len(p), nil
}

func tail(s string, n int) string {
	if len(s) > n {
		return "…" + s[len(s)-n:]
	}
	return s
}

// fanOut distributes run indices [0,total) of one id over worker processes
// until the deadline, a violation that is not a known finding (matched under
// matchProp) or the end of the range, and aggregates the records into a. It
// returns the worker trouble met.
func fanOut(bin, id, matchProp, tier string, seed uint64, sp *propSpec, total int, deadline time.Time, a *agg, known *knownFile) []string {
	par := 16
	if s := os.Getenv("VERIF_PAR"); s != "" {
		if v, err := strconv.Atoi(s); err == nil && v > 0 {
			par = v
		}
	}
	chunk := sp.Chunk
	type job struct{ from, to int }
	jobs := make(chan job)
	ctx, cancel := context.WithCancel(context.Background())
	defer cancel()
	var wg sync.WaitGroup
	var troubleMu sync.Mutex
	var trouble []string
	stop := false
	var stopMu sync.Mutex
	for w := 0; w < par; w++ {
		wg.Add(1)
		go func() {
			defer wg.Done()
			for j := range jobs {
				from := j.from
				for from < j.to {
					var lastRun = from - 1
					sawViol := false
					_, err := runWorker(ctx, bin, id, tier, seed, from, j.to, time.Duration(sp.WatchdogS)*time.Second, 1, func(r harness.Record) {
						a.add(r, matchProp, known)
						lastRun = r.Run
						if r.Outcome.Violation != nil {
							sawViol = true
							if _, ok := known.match(matchProp, r.Outcome.Violation); !ok {
								stopMu.Lock()
								stop = true
								stopMu.Unlock()
							}
						}
					})
					if err != nil {
						troubleMu.Lock()
						trouble = append(trouble, err.Error())
						troubleMu.Unlock()
						// the run after the last recorded one is the culprit; skip it
						a.mu.Lock()
						a.inconcl++
						a.mu.Unlock()
						from = lastRun + 2
						continue
					}
					if sawViol {
						// the worker stops at a violation; continue after it
						// (only reached for known findings, otherwise stop is set)
						stopMu.Lock()
						s := stop
						stopMu.Unlock()
						if s {
							break
						}
						from = lastRun + 1
						continue
					}
					break
				}
			}
		}()
	}
	for from := 0; from < total; from += chunk {
		stopMu.Lock()
		s := stop
		stopMu.Unlock()
		if s || time.Now().After(deadline) {
			break
		}
		to := from + chunk
		if to > total {
			to = total
		}
		jobs <- job{from, to}
	}
	close(jobs)
	wg.Wait()
	return trouble
}

func runCheck(prop, tier string) int {
	start := time.Now()
	sp, ok := specs[prop]
	if !ok {
		fmt.Fprintf(os.Stderr, "unknown or unclaimed property %q\n", prop)
		return 2
	}
	if tier != "quick" && tier != "thorough" {
		usage()
	}
	seed := seedFromEnv()
	fmt.Printf("[check] property=%s tier=%s VERIF_SEED=%d\n", prop, tier, seed)
	bin, err := buildSim(false)
	if err != nil {
		fmt.Fprintln(os.Stderr, "BUILD TROUBLE (exit 2, not a violation):", err)
		return 2
	}
	total := sp.QuickRuns
	if tier == "thorough" {
		total = sp.ThoroughRuns
	}
	if s := os.Getenv("VERIF_RUNS"); s != "" {
		if v, err := strconv.Atoi(s); err == nil {
			total = v
		}
	}
	budget := 100 * time.Second
	if tier == "thorough" {
		budget = 25 * time.Minute
	}
	if s := os.Getenv("VERIF_BUDGET_S"); s != "" {
		if v, err := strconv.Atoi(s); err == nil {
			budget = time.Duration(v) * time.Second
		}
	}
	known := loadKnown()
	a := newAgg()
	// known findings of a part (PartOf) are recorded under the property it belongs to
	matchProp := prop
	if sp.PartOf != "" {
		matchProp = sp.PartOf
	}
	// The main id gets the whole budget, or 70% of it when further ids
	// (sp.Also) are part of the property; those run afterwards, one after the
	// other, until the budget ends.
	deadline := start.Add(budget)
	if len(sp.Also) > 0 {
		deadline = start.Add(budget * 7 / 10)
	}
	trouble := fanOut(bin, prop, matchProp, tier, seed, sp, total, deadline, a, known)
	// Parts served under other ids (e.g. C14X, the index part of C14): same
	// fan-out, their own run counts, known findings matched under this
	// property; each part keeps its own aggregate for the evidence and its
	// violations / known hits / inconclusive runs are folded into the main one.
	parts := map[string]*agg{}
	for _, id := range sp.Also {
		sub, ok := specs[id]
		if !ok {
			continue
		}
		subTotal := sub.QuickRuns
		if tier == "thorough" {
			subTotal = sub.ThoroughRuns
		}
		if s := os.Getenv("VERIF_RUNS"); s != "" {
			if v, err := strconv.Atoi(s); err == nil {
				// VERIF_RUNS speaks about the main id; keep the quick tier's proportion
				subTotal = min(subTotal, max(v*sub.QuickRuns/max(sp.QuickRuns, 1), 1))
			}
		}
		pa := newAgg()
		parts[id] = pa
		if len(a.viols) > 0 {
			continue // the main part already failed; report that
		}
		trouble = append(trouble, fanOut(bin, id, matchProp, tier, seed, sub, subTotal, start.Add(budget), pa, known)...)
		a.viols = append(a.viols, pa.viols...)
		a.inconcl += pa.inconcl
		a.inconclMsg = append(a.inconclMsg, pa.inconclMsg...)
		for what, n := range pa.known {
			a.known[what] += n
		}
	}

	exit := 0
	var replayPath string
	var reported *harness.Violation
	var raceInfo map[string]any
	if sp.Race && len(a.viols) == 0 {
		// runRace returns the first race report that is not a known finding
		// and counts the known ones
		var rv *harness.Violation
		var raceKnown map[string]int
		rv, replayPath, raceInfo, raceKnown = runRace(sp, tier, seed, known, matchProp)
		for what, n := range raceKnown {
			a.known[what] += n
		}
		if rv != nil {
			reported = rv
			fmt.Printf("  %s\n", rv.Detail)
			fmt.Printf("VIOLATION property=%s replay=%s\n", prop, replayPath)
			exit = 1
		}
	}
	if len(a.viols) > 0 {
		sort.Slice(a.viols, func(i, j int) bool { return a.viols[i].Run < a.viols[j].Run })
		first := a.viols[0]
		fmt.Printf("[check] violation in run %d: %s\n", first.Run, first.Outcome.Violation.Detail)
		minPlan, minViol, tried := minimise(bin, first.Plan, first.Outcome.Violation)
		fmt.Printf("[check] minimised with %d candidate executions: %d ops, %d faults, tape %d\n", tried, len(minPlan.Ops), len(minPlan.Faults), len(minPlan.Tape))
		replayPath = writeReplay(prop, seed, first.Run, minPlan, minViol)
		ok, stable := verifyReplay(bin, replayPath, minViol)
		fmt.Printf("[check] replay in fresh process: reproduced=%v (%d/3)\n", ok, stable)
		// a minimised violation may turn out to be a known finding
		if what, isKnown := known.match(matchProp, minViol); isKnown {
			a.known[what]++
		} else {
			reported = minViol
			fmt.Printf("  %s\n", minViol.Detail)
			fmt.Printf("VIOLATION property=%s replay=%s\n", prop, replayPath)
			exit = 1
		}
	}
	for what, n := range a.known {
		fmt.Printf("KNOWN-FINDING: property=%s %s (seen in %d runs)\n", prop, what, n)
	}
	// totals over the main id and its parts (a.inconcl already holds the sum)
	evals, subRuns, nops, nontrivial := a.evals, a.subRuns, a.ops, len(a.nontrivial)
	for _, pa := range parts {
		evals += pa.evals
		subRuns += pa.subRuns
		nops += pa.ops
		nontrivial += len(pa.nontrivial)
	}
	inconclFrac := 0.0
	if evals+a.inconcl > 0 {
		inconclFrac = float64(a.inconcl) / float64(evals+a.inconcl)
	}
	if exit == 0 {
		if a.evals == 0 {
			fmt.Fprintf(os.Stderr, "TROUBLE: no run completed: %v\n", trouble)
			exit = 2
		} else if inconclFrac > 0.01 {
			fmt.Fprintf(os.Stderr, "TROUBLE: %.1f%% of runs inconclusive: %v %v\n", inconclFrac*100, a.inconclMsg, trouble)
			exit = 2
		}
		if tier == "thorough" && exit == 0 {
			for _, p := range sp.MustReach {
				if a.reached[p] == 0 && a.fired[p] == 0 {
					fmt.Fprintf(os.Stderr, "TROUBLE: reach probe %q stayed at zero in the thorough tier\n", p)
					exit = 2
				}
			}
			for _, id := range sp.Also {
				for _, p := range specs[id].MustReach {
					if pa := parts[id]; pa != nil && pa.reached[p] == 0 && pa.fired[p] == 0 {
						fmt.Fprintf(os.Stderr, "TROUBLE: reach probe %q of part %s stayed at zero in the thorough tier\n", p, id)
						exit = 2
					}
				}
			}
		}
	}
	if len(trouble) > 0 {
		fmt.Fprintf(os.Stderr, "[check] worker trouble (%d): %s\n", len(trouble), tail(strings.Join(trouble, " | "), 1500))
	}
	a.extra = raceInfo
	if sp.PartOf == "" {
		writeEvidence(sp, tier, seed, a, parts, time.Since(start), reported, replayPath)
	} else {
		fmt.Printf("[check] %s is a part of %s: no evidence file written (run `check %s %s`)\n", prop, sp.PartOf, sp.PartOf, tier)
	}
	for _, id := range sp.Also {
		if pa := parts[id]; pa != nil {
			fmt.Printf("[check]   part %s: %d runs (%d sub-runs, %d operations), %d distinct non-trivial\n", id, pa.evals, pa.subRuns, pa.ops, len(pa.nontrivial))
		}
	}
	fmt.Printf("[check] %s %s: %d runs (%d sub-runs, %d operations), %d distinct non-trivial, %d inconclusive, %.1fs, exit %d\n",
		prop, tier, evals, subRuns, nops, nontrivial, a.inconcl, time.Since(start).Seconds(), exit)
	return exit
}

// coverageOf renders one aggregate (the main id's or a part's).
func coverageOf(sp *propSpec, a *agg, wall time.Duration, seed uint64) map[string]any {
	return map[string]any{
		"evaluations":         a.evals,
		"distinct_nontrivial": len(a.nontrivial),
		"rule":                sp.Rule,
		"samples":             a.samples,
		"sub_runs":            a.subRuns,
		"client_operations":   a.ops,
		"distinct_cases":      len(a.shapes),
		"inconclusive_runs":   a.inconcl,
		"faults_fired":        a.fired,
		"reach_probes":        a.reached,
		"scheduler": map[string]any{
			"decisions":              a.schedSteps,
			"yields":                 a.yields,
			"distinct_interleavings": len(a.schedHash),
			"measure":                "hash of the recorded choice tape of runs with at least one decision",
		},
		"simulated_time_s":   float64(a.virtualMS) / 1000,
		"runs_per_hour":      int(float64(a.evals) / wall.Hours()),
		"seeds":              []uint64{seed},
		"real_components":    sp.Real,
		"stub_components":    sp.Stub,
		"known_findings_hit": a.known,
		"exhaustive":         false,
	}
}

// writeEvidence writes evidence/<ID>.json. The top-level coverage describes
// the main id; when the property has parts (sp.Also) each part's coverage is
// nested under coverage.also.<id> and evaluations / distinct_nontrivial are
// the sums over the main id and its parts (the per-id numbers are kept under
// evaluations_by_id / distinct_nontrivial_by_id).
func writeEvidence(sp *propSpec, tier string, seed uint64, a *agg, parts map[string]*agg, wall time.Duration, v *harness.Violation, replay string) {
	cov := coverageOf(sp, a, wall, seed)
	assume := append(append([]string{}, commonAssume...), sp.Assume...)
	if len(sp.Also) > 0 {
		also := map[string]any{}
		evals, nontriv := a.evals, len(a.nontrivial)
		evalsBy := map[string]int{sp.ID: a.evals}
		nontrivBy := map[string]int{sp.ID: len(a.nontrivial)}
		for _, id := range sp.Also {
			pa, sub := parts[id], specs[id]
			if pa == nil || sub == nil {
				continue
			}
			pc := coverageOf(sub, pa, wall, seed)
			pc["assumptions"] = sub.Assume
			if pa.samples == nil {
				pc["samples"] = []any{"(no run completed)"}
			}
			also[id] = pc
			evals += pa.evals
			nontriv += len(pa.nontrivial)
			evalsBy[id], nontrivBy[id] = pa.evals, len(pa.nontrivial)
			for _, as := range sub.Assume {
				assume = append(assume, id+": "+as)
			}
		}
		cov["also"] = also
		cov["evaluations"], cov["distinct_nontrivial"] = evals, nontriv
		cov["evaluations_by_id"], cov["distinct_nontrivial_by_id"] = evalsBy, nontrivBy
		cov["runs_per_hour"] = int(float64(evals) / wall.Hours())
	}
	if a.samples == nil {
		cov["samples"] = []any{"(no run completed)"}
	}
	if a.extra != nil {
		cov["race_detector_configuration"] = a.extra
	}
	nviol := 0
	if v != nil {
		nviol = 1
		cov["violation"] = v
		cov["replay"] = replay
	}
	ev := map[string]any{
		"property_id": sp.ID,
		"tier":        tier,
		"seed":        seed,
		"level":       sp.Level,
		"coverage":    cov,
		"assumptions": assume,
		"wall_s":      wall.Seconds(),
		"violations":  nviol,
	}
	os.MkdirAll(filepath.Join(verifDir, "evidence"), 0o755)
	b, _ := json.MarshalIndent(ev, "", " ")
	os.WriteFile(filepath.Join(verifDir, "evidence", sp.ID+".json"), b, 0o644)
}
