package main

import (
	"bufio"
	"context"
	"encoding/json"
	"fmt"
	"os"
	"os/exec"
	"path/filepath"
	"regexp"
	"sort"
	"strconv"
	"strings"
	"sync"
	"sync/atomic"
	"time"

	"verif/harness"
)

type knownFile struct {
	Findings []struct {
		Property string `json:"property"`
		Sig      string `json:"sig"` // regexp matched against Violation.Sig
		What     string `json:"what"`
	} `json:"findings"`
	Fixed []string `json:"fixed"`
}

func loadKnown() *knownFile {
	var k knownFile
	b, err := os.ReadFile(filepath.Join(verifDir, "KNOWN_FINDINGS.json"))
	if err == nil {
		json.Unmarshal(b, &k)
	}
	return &k
}

func (k *knownFile) match(prop string, v *harness.Violation) (string, bool) {
	for _, f := range k.Findings {
		if f.Property != prop {
			continue
		}
		re, err := regexp.Compile(f.Sig)
		if err != nil {
			continue
		}
		if re.MatchString(v.Sig) {
			return f.What, true
		}
	}
	return "", false
}

var workerSeq atomic.Int64

func seedFromEnv() uint64 {
	if s := os.Getenv("VERIF_SEED"); s != "" {
		if v, err := strconv.ParseUint(s, 10, 64); err == nil {
			return v
		}
		if v, err := strconv.ParseInt(s, 10, 64); err == nil {
			return uint64(v)
		}
	}
	return 1
}

func workerEnv() []string {
	env := os.Environ()
	return append(env, "GODEBUG=asyncpreemptoff=1")
}

type agg struct {
	mu         sync.Mutex
	evals      int
	subRuns    int
	ops        int
	inconcl    int
	inconclMsg []string
	shapes     map[string]bool
	nontrivial map[string]bool
	fired      map[string]int
	reached    map[string]int
	schedHash  map[string]bool
	schedSteps int
	yields     int
	virtualMS  int64
	samples    []any
	viols      []harness.Record
	known      map[string]int
	wallMS     float64
	extra      map[string]any
}

func newAgg() *agg {
	return &agg{shapes: map[string]bool{}, nontrivial: map[string]bool{}, fired: map[string]int{}, reached: map[string]int{}, schedHash: map[string]bool{}, known: map[string]int{}}
}

func (a *agg) add(r harness.Record, prop string, known *knownFile) {
	a.mu.Lock()
	defer a.mu.Unlock()
	o := r.Outcome
	if o == nil {
		return
	}
	a.wallMS += r.WallMS
	if o.Inconclusive != "" {
		a.inconcl++
		if len(a.inconclMsg) < 5 {
			a.inconclMsg = append(a.inconclMsg, fmt.Sprintf("run %d: %s", r.Run, firstLine(o.Inconclusive)))
		}
		return
	}
	a.evals++
	a.subRuns += o.SubRuns
	a.ops += o.Ops
	for k, v := range o.Fired {
		a.fired[k] += v
	}
	for k, v := range o.Reached {
		a.reached[k] += v
	}
	a.schedSteps += o.SchedSteps
	a.yields += o.Yields
	a.virtualMS += o.VirtualMS
	if o.SchedHash != "" && o.SchedSteps > 0 {
		a.schedHash[o.SchedHash] = true
	}
	if o.ShapeKey != "" {
		a.shapes[o.ShapeKey] = true
		if o.Nontrivial {
			a.nontrivial[o.ShapeKey] = true
		}
	}
	if o.Sample != nil && len(a.samples) < 4 {
		a.samples = append(a.samples, o.Sample)
	}
	for what, n := range o.KnownHits {
		a.known[what] += n
	}
	if o.Violation != nil {
		if what, ok := known.match(prop, o.Violation); ok {
			a.known[what]++
			return
		}
		a.viols = append(a.viols, r)
	}
}

func firstLine(s string) string {
	if i := strings.IndexByte(s, '\n'); i >= 0 {
		return s[:i]
	}
	return s
}

// runWorker executes run indices [from,to) in one process and streams records.
func runWorker(ctx context.Context, bin, prop, tier string, seed uint64, from, to int, watchdog time.Duration, keepPlans int, emit func(harness.Record)) (done int, err error) {
	ctx, cancel := context.WithTimeout(ctx, watchdog)
	defer cancel()
	out := filepath.Join(workDir(), "runs", fmt.Sprintf("w-%s-%d-%d-%d.jsonl", prop, from, to, workerSeq.Add(1)))
	os.MkdirAll(filepath.Dir(out), 0o755)
	defer os.Remove(out)
	cmd := exec.CommandContext(ctx, bin, "-test.run", "^TestRun$", "-test.timeout", "0",
		"-sim.prop="+prop, "-sim.tier="+tier, "-sim.seed="+strconv.FormatUint(seed, 10),
		"-sim.from="+strconv.Itoa(from), "-sim.to="+strconv.Itoa(to), "-sim.out="+out,
		"-sim.keepplans="+strconv.Itoa(keepPlans),
		"-sim.known="+filepath.Join(verifDir, "KNOWN_FINDINGS.json"),
		"-sim.work="+filepath.Join(workDir(), "runs"))
	cmd.Env = workerEnv()
	cmd.Dir = verifDir
	var stderr strings.Builder
	cmd.Stderr = &limitedWriter{w: &stderr, n: 1 << 16}
	cmd.Stdout = nil
	runErr := cmd.Run()
	f, ferr := os.Open(out)
	if ferr == nil {
		sc := bufio.NewScanner(f)
		sc.Buffer(make([]byte, 1<<20), 1<<28)
		for sc.Scan() {
			var r harness.Record
			if json.Unmarshal(sc.Bytes(), &r) == nil && r.Outcome != nil {
				emit(r)
				done++
			}
		}
		f.Close()
	}
	if runErr != nil && ctx.Err() != nil {
		return done, fmt.Errorf("worker %d-%d: watchdog (%v)", from, to, watchdog)
	}
	if runErr != nil {
		return done, fmt.Errorf("worker %d-%d: %v: %s", from, to, runErr, tail(stderr.String(), 600))
	}
	return done, nil
}

type limitedWriter struct {
	w *strings.Builder
	n int
}

func (l *limitedWriter) Write(p []byte) (int, error) {
	if l.w.Len() < l.n {
		l.w.Write(p)
	}
	return len(p), nil
}

func tail(s string, n int) string {
	if len(s) > n {
		return "…" + s[len(s)-n:]
	}
	return s
}

func runCheck(prop, tier string) int {
	start := time.Now()
	sp, ok := specs[prop]
	if !ok {
		fmt.Fprintf(os.Stderr, "unknown or unclaimed property %q\n", prop)
		return 2
	}
	if tier != "quick" && tier != "thorough" {
		usage()
	}
	seed := seedFromEnv()
	fmt.Printf("[check] property=%s tier=%s VERIF_SEED=%d\n", prop, tier, seed)
	bin, err := buildSim(false)
	if err != nil {
		fmt.Fprintln(os.Stderr, "BUILD TROUBLE (exit 2, not a violation):", err)
		return 2
	}
	total := sp.QuickRuns
	if tier == "thorough" {
		total = sp.ThoroughRuns
	}
	if s := os.Getenv("VERIF_RUNS"); s != "" {
		if v, err := strconv.Atoi(s); err == nil {
			total = v
		}
	}
	budget := 100 * time.Second
	if tier == "thorough" {
		budget = 25 * time.Minute
	}
	if s := os.Getenv("VERIF_BUDGET_S"); s != "" {
		if v, err := strconv.Atoi(s); err == nil {
			budget = time.Duration(v) * time.Second
		}
	}
	known := loadKnown()
	a := newAgg()
	par := 16
	if s := os.Getenv("VERIF_PAR"); s != "" {
		if v, err := strconv.Atoi(s); err == nil && v > 0 {
			par = v
		}
	}
	chunk := sp.Chunk
	type job struct{ from, to int }
	jobs := make(chan job)
	ctx, cancel := context.WithCancel(context.Background())
	defer cancel()
	var wg sync.WaitGroup
	var troubleMu sync.Mutex
	var trouble []string
	stop := false
	var stopMu sync.Mutex
	launched := 0
	for w := 0; w < par; w++ {
		wg.Add(1)
		go func() {
			defer wg.Done()
			for j := range jobs {
				from := j.from
				for from < j.to {
					var lastRun = from - 1
					sawViol := false
					n, err := runWorker(ctx, bin, prop, tier, seed, from, j.to, time.Duration(sp.WatchdogS)*time.Second, 1, func(r harness.Record) {
						a.add(r, prop, known)
						lastRun = r.Run
						if r.Outcome.Violation != nil {
							sawViol = true
							if _, ok := known.match(prop, r.Outcome.Violation); !ok {
								stopMu.Lock()
								stop = true
								stopMu.Unlock()
							}
						}
					})
					_ = n
					if err != nil {
						troubleMu.Lock()
						trouble = append(trouble, err.Error())
						troubleMu.Unlock()
						// the run after the last recorded one is the culprit; skip it
						a.mu.Lock()
						a.inconcl++
						a.mu.Unlock()
						from = lastRun + 2
						continue
					}
					if sawViol {
						// the worker stops at a violation; continue after it
						// (only reached for known findings, otherwise stop is set)
						stopMu.Lock()
						s := stop
						stopMu.Unlock()
						if s {
							break
						}
						from = lastRun + 1
						continue
					}
					break
				}
			}
		}()
	}
	for from := 0; from < total; from += chunk {
		stopMu.Lock()
		s := stop
		stopMu.Unlock()
		if s || time.Since(start) > budget {
			break
		}
		to := from + chunk
		if to > total {
			to = total
		}
		jobs <- job{from, to}
		launched = to
	}
	close(jobs)
	wg.Wait()
	_ = launched

	exit := 0
	var replayPath string
	var reported *harness.Violation
	var raceInfo map[string]any
	if sp.Race && len(a.viols) == 0 {
		var rv *harness.Violation
		rv, replayPath, raceInfo = runRace(sp, tier, seed, known)
		if rv != nil {
			if what, isKnown := known.match(prop, rv); isKnown {
				a.known[what]++
			} else {
				reported = rv
				fmt.Printf("  %s\n", rv.Detail)
				fmt.Printf("VIOLATION property=%s replay=%s\n", prop, replayPath)
				exit = 1
			}
		}
	}
	if len(a.viols) > 0 {
		sort.Slice(a.viols, func(i, j int) bool { return a.viols[i].Run < a.viols[j].Run })
		first := a.viols[0]
		fmt.Printf("[check] violation in run %d: %s\n", first.Run, first.Outcome.Violation.Detail)
		minPlan, minViol, tried := minimise(bin, first.Plan, first.Outcome.Violation)
		fmt.Printf("[check] minimised with %d candidate executions: %d ops, %d faults, tape %d\n", tried, len(minPlan.Ops), len(minPlan.Faults), len(minPlan.Tape))
		replayPath = writeReplay(prop, seed, first.Run, minPlan, minViol)
		ok, stable := verifyReplay(bin, replayPath, minViol)
		fmt.Printf("[check] replay in fresh process: reproduced=%v (%d/3)\n", ok, stable)
		// a minimised violation may turn out to be a known finding
		if what, isKnown := known.match(prop, minViol); isKnown {
			a.known[what]++
		} else {
			reported = minViol
			fmt.Printf("  %s\n", minViol.Detail)
			fmt.Printf("VIOLATION property=%s replay=%s\n", prop, replayPath)
			exit = 1
		}
	}
	for what, n := range a.known {
		fmt.Printf("KNOWN-FINDING: property=%s %s (seen in %d runs)\n", prop, what, n)
	}
	inconclFrac := 0.0
	if a.evals+a.inconcl > 0 {
		inconclFrac = float64(a.inconcl) / float64(a.evals+a.inconcl)
	}
	if exit == 0 {
		if a.evals == 0 {
			fmt.Fprintf(os.Stderr, "TROUBLE: no run completed: %v\n", trouble)
			exit = 2
		} else if inconclFrac > 0.01 {
			fmt.Fprintf(os.Stderr, "TROUBLE: %.1f%% of runs inconclusive: %v %v\n", inconclFrac*100, a.inconclMsg, trouble)
			exit = 2
		}
		if tier == "thorough" && exit == 0 {
			for _, p := range sp.MustReach {
				if a.reached[p] == 0 && a.fired[p] == 0 {
					fmt.Fprintf(os.Stderr, "TROUBLE: reach probe %q stayed at zero in the thorough tier\n", p)
					exit = 2
				}
			}
		}
	}
	if len(trouble) > 0 {
		fmt.Fprintf(os.Stderr, "[check] worker trouble (%d): %s\n", len(trouble), tail(strings.Join(trouble, " | "), 1500))
	}
	a.extra = raceInfo
	writeEvidence(sp, tier, seed, a, time.Since(start), reported, replayPath)
	fmt.Printf("[check] %s %s: %d runs (%d sub-runs, %d operations), %d distinct non-trivial, %d inconclusive, %.1fs, exit %d\n",
		prop, tier, a.evals, a.subRuns, a.ops, len(a.nontrivial), a.inconcl, time.Since(start).Seconds(), exit)
	return exit
}

func writeEvidence(sp *propSpec, tier string, seed uint64, a *agg, wall time.Duration, v *harness.Violation, replay string) {
	cov := map[string]any{
		"evaluations":         a.evals,
		"distinct_nontrivial": len(a.nontrivial),
		"rule":                sp.Rule,
		"samples":             a.samples,
		"sub_runs":            a.subRuns,
		"client_operations":   a.ops,
		"distinct_cases":      len(a.shapes),
		"inconclusive_runs":   a.inconcl,
		"faults_fired":        a.fired,
		"reach_probes":        a.reached,
		"scheduler": map[string]any{
			"decisions":              a.schedSteps,
			"yields":                 a.yields,
			"distinct_interleavings": len(a.schedHash),
			"measure":                "hash of the recorded choice tape of runs with at least one decision",
		},
		"simulated_time_s":   float64(a.virtualMS) / 1000,
		"runs_per_hour":      int(float64(a.evals) / wall.Hours()),
		"seeds":              []uint64{seed},
		"real_components":    sp.Real,
		"stub_components":    sp.Stub,
		"known_findings_hit": a.known,
		"exhaustive":         false,
	}
	if a.samples == nil {
		cov["samples"] = []any{"(no run completed)"}
	}
	if a.extra != nil {
		cov["race_detector_configuration"] = a.extra
	}
	nviol := 0
	if v != nil {
		nviol = 1
		cov["violation"] = v
		cov["replay"] = replay
	}
	ev := map[string]any{
		"property_id": sp.ID,
		"tier":        tier,
		"seed":        seed,
		"level":       sp.Level,
		"coverage":    cov,
		"assumptions": append(append([]string{}, commonAssume...), sp.Assume...),
		"wall_s":      wall.Seconds(),
		"violations":  nviol,
	}
	os.MkdirAll(filepath.Join(verifDir, "evidence"), 0o755)
	b, _ := json.MarshalIndent(ev, "", " ")
	os.WriteFile(filepath.Join(verifDir, "evidence", sp.ID+".json"), b, 0o644)
}
