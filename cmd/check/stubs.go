package main

func replayCmd(string) int  { return 2 }
func selftest([]string) int { return 2 }
func runCheck(prop, tier string) int { return 2 }
