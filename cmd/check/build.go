package main

import (
	"fmt"
	"os"
	"os/exec"
	"path/filepath"
	"strings"
	"time"

	"verif/overlay"
)

// verifDir is /verif; VERIF_DIR overrides it for development worktrees.
var (
	verifDir = envOr("VERIF_DIR", "/verif")
	repoDir  = envOr("VERIF_REPO", "/repo")
)

func envOr(k, d string) string {
	if v := os.Getenv(k); v != "" {
		return v
	}
	return d
}

func workDir() string { return filepath.Join(verifDir, ".work") }

func goEnv() []string {
	env := os.Environ()
	var out []string
	for _, e := range env {
		// the toolchain switch to go1.25.3 needs GOTOOLCHAIN=auto and a working
		// GOSUMDB setting; these variables break it offline (see DESIGN §2.10)
		if strings.HasPrefix(e, "GOTOOLCHAIN=") || strings.HasPrefix(e, "GOSUMDB=") || strings.HasPrefix(e, "GOFLAGS=") || strings.HasPrefix(e, "GOPROXY=") {
			continue
		}
		out = append(out, e)
	}
	return append(out, "GOFLAGS=-mod=mod", "GOPROXY=off", "CGO_ENABLED=0")
}

// buildSim regenerates the overlay from the repo's working tree and builds
// the simulation binary. race selects the free-running -race binary (no
// overlay).
func buildSim(race bool) (string, error) {
	st := time.Now()
	if err := os.MkdirAll(workDir(), 0o755); err != nil {
		return "", err
	}
	// go.sum must match the repo's (it is the only source of checksums offline)
	if b, err := os.ReadFile(filepath.Join(repoDir, "go.sum")); err == nil {
		cur, _ := os.ReadFile(filepath.Join(verifDir, "go.sum"))
		if !strings.Contains(string(cur), strings.SplitN(string(b), "\n", 2)[0]) {
			os.WriteFile(filepath.Join(verifDir, "go.sum"), b, 0o644)
		}
	}
	bin := filepath.Join(workDir(), "sim.test")
	args := []string{"test", "-c", "-vet=off", "-o", bin}
	if race {
		bin = filepath.Join(workDir(), "race.test")
		args = []string{"test", "-c", "-vet=off", "-race", "-o", bin}
		ov, _, err := overlay.GenerateInjectOnly(repoDir, workDir(), filepath.Join(verifDir, "inject"))
		if err != nil {
			return "", fmt.Errorf("overlay: %w", err)
		}
		args = append(args, "-overlay", ov)
	} else {
		ov, stt, err := overlay.Generate(repoDir, workDir(), filepath.Join(verifDir, "inject"), true)
		if err != nil {
			return "", fmt.Errorf("overlay: %w", err)
		}
		fmt.Fprintf(os.Stderr, "[check] overlay: %d files scanned, %d rewritten, %d injected, %d with fixed-order ranges / seam hooks\n", stt.FilesScanned, stt.FilesRewritten, stt.Injected, stt.OrderedRanges)
		args = append(args, "-overlay", ov)
	}
	if repoDir != "/repo" {
		// development: build against another checkout of perkeep (mutation
		// experiments in a scratch worktree) through an alternate go.mod
		mod, err := os.ReadFile(filepath.Join(verifDir, "go.mod"))
		if err != nil {
			return "", err
		}
		alt := filepath.Join(workDir(), "go.alt.mod")
		os.WriteFile(alt, []byte(strings.Replace(string(mod), "=> /repo", "=> "+repoDir, 1)), 0o644)
		sum, _ := os.ReadFile(filepath.Join(verifDir, "go.sum"))
		os.WriteFile(filepath.Join(workDir(), "go.alt.sum"), sum, 0o644)
		args = append(args, "-modfile="+alt)
	}
	args = append(args, "./simtest")
	cmd := exec.Command("go", args...)
	cmd.Dir = verifDir
	cmd.Env = goEnv()
	if race {
		cmd.Env = append(cmd.Env, "CGO_ENABLED=1")
	}
	out, err := cmd.CombinedOutput()
	if err != nil {
		return "", fmt.Errorf("go %s: %v\n%s", strings.Join(args, " "), err, out)
	}
	fmt.Fprintf(os.Stderr, "[check] built %s in %.1fs\n", bin, time.Since(st).Seconds())
	return bin, nil
}
