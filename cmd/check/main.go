// Command check is the driver of every registered check: it regenerates the
// build overlay from /repo's working tree, builds the simulation binary,
// fans run indices out over worker processes, aggregates their records,
// minimises and replays the first violation, matches known findings, and
// writes the evidence file.
package main

import (
	"fmt"
	"os"
)

func usage() {
	fmt.Fprintln(os.Stderr, `usage:
  check <PROPERTY> quick|thorough     run the check for one property
  check replay <file>                 re-execute a replay file
  check selftest                      determinism self-test
  check build                         only generate the overlay and build`)
	os.Exit(2)
}

func main() {
	if len(os.Args) < 2 {
		usage()
	}
	switch os.Args[1] {
	case "build-race":
		if _, err := buildSim(true); err != nil {
			fmt.Fprintln(os.Stderr, "BUILD TROUBLE:", err)
			os.Exit(2)
		}
	case "build":
		if _, err := buildSim(false); err != nil {
			fmt.Fprintln(os.Stderr, "BUILD TROUBLE:", err)
			os.Exit(2)
		}
	case "replay":
		if len(os.Args) < 3 {
			usage()
		}
		os.Exit(replayCmd(os.Args[2]))
	case "selftest":
		os.Exit(selftest(os.Args[2:]))
	default:
		if len(os.Args) < 3 {
			usage()
		}
		os.Exit(runCheck(os.Args[1], os.Args[2]))
	}
}
