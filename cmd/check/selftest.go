package main

import (
	"fmt"
	"os"
	"strconv"
	"sync"

	"verif/harness"
)

// selftestImpl proves determinism: the same (property, seed, run) executed in
// separate processes under GOMAXPROCS 1/4/16 must produce the same outcome
// digest (violation, operation count, schedule hash, event digest).
func selftestImpl(args []string) int {
	bin, err := buildSim(false)
	if err != nil {
		fmt.Fprintln(os.Stderr, "BUILD TROUBLE:", err)
		return 2
	}
	props := args
	if len(props) == 0 {
		for p := range specs {
			props = append(props, p)
		}
	}
	nseeds := 40
	if s := os.Getenv("VERIF_SELFTEST_N"); s != "" {
		if v, err := strconv.Atoi(s); err == nil {
			nseeds = v
		}
	}
	bad := 0
	for _, prop := range props {
		type key struct{ run, variant int }
		var mu sync.Mutex
		res := map[key]string{}
		var wg sync.WaitGroup
		sem := make(chan struct{}, 16)
		for run := 0; run < nseeds; run++ {
			for variant, procs := range []string{"1", "4", "16", "1"} {
				wg.Add(1)
				sem <- struct{}{}
				go func() {
					defer wg.Done()
					defer func() { <-sem }()
					os.Setenv("GOMAXPROCS_HINT", procs)
					var got string
					runWorkerOnce(bin, prop, run, func(r harness.Record) {
						o := r.Outcome
						v := ""
						if o.Violation != nil {
							v = o.Violation.Class
						}
						got = fmt.Sprintf("viol=%q inc=%q ops=%d sub=%d steps=%d sched=%s digest=%s shape=%s", v, firstLine(o.Inconclusive), o.Ops, o.SubRuns, o.SchedSteps, o.SchedHash, o.Digest, o.ShapeKey)
					})
					mu.Lock()
					res[key{run, variant}] = got
					mu.Unlock()
				}()
			}
		}
		wg.Wait()
		div := 0
		for run := 0; run < nseeds; run++ {
			for variant := 1; variant < 4; variant++ {
				if res[key{run, variant}] != res[key{run, 0}] {
					div++
					if div <= 3 {
						fmt.Printf("DIVERGENCE %s run %d:\n  %s\n  %s\n", prop, run, res[key{run, 0}], res[key{run, variant}])
					}
					break
				}
			}
		}
		fmt.Printf("[selftest] %s: %d runs x 4 executions, %d divergent\n", prop, nseeds, div)
		bad += div
	}
	if bad > 0 {
		return 1
	}
	return 0
}

func runWorkerOnce(bin, prop string, run int, emit func(harness.Record)) {
	runWorker(bgCtx(), bin, prop, "quick", seedFromEnv(), run, run+1, watchdogFor(prop), 0, emit)
}
