package main

import (
	"context"
	"time"
)

func bgCtx() context.Context { return context.Background() }

func watchdogFor(prop string) time.Duration {
	if sp, ok := specs[prop]; ok {
		return time.Duration(sp.WatchdogS) * time.Second
	}
	return 2 * time.Minute
}
