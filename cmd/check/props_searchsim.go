package main

func init() {
	specs["C08"] = &propSpec{
		ID: "C08", Engine: "searchsim", Level: "exploration",
		QuickRuns: 4000, ThoroughRuns: 120000, Chunk: 25, WatchdogS: 400,
		Rule: "TODO",
	}
	specs["C09"] = &propSpec{
		ID: "C09", Engine: "searchsim", Level: "exploration",
		QuickRuns: 2000, ThoroughRuns: 60000, Chunk: 25, WatchdogS: 400,
		Rule: "TODO",
	}
}
