#!/bin/bash
# dev helper: runq.sh PROP FROM TO [SEED]
cd /verif
GODEBUG=asyncpreemptoff=1 .work/sim.test -test.run '^TestRun$' -sim.prop=$1 -sim.seed=${4:-1} -sim.from=$2 -sim.to=$3 -sim.work=/verif/.work/runs 2>/tmp/runq.err | python3 -c "
import sys,json,collections
n=0; inc=0; t=0
for l in sys.stdin:
    try: r=json.loads(l)
    except: 
        if l.strip() not in ('PASS','FAIL'): print('RAW',l[:300])
        continue
    o=r['outcome']; n+=1; t+=r['wallMs']
    if o.get('violation'): print('VIOL run',r['run'], o['violation']['detail'][:600])
    if o.get('inconclusive'): inc+=1; print('INCONCL run',r['run'], o['inconclusive'][:600])
print('runs',n,'inconclusive',inc,'avg ms',round(t/max(n,1),2))
"
