#!/bin/bash
# seedcheck.sh <mutout-dir> <demo-pkg-dir-relative> <PROP> [more PROPs]
# Confirms a seeded change in a scratch worktree (/tmp/repo-seed): applies patch.diff, runs the
# demonstration (must fail), runs the registered quick checks through VERIF_REPO, reverts, runs the
# demonstration again (must pass). Prints a JSON summary on the last line.
export GOFLAGS=-mod=mod GOPROXY=off
D=$1; PKG=$2; shift 2
W=/tmp/repo-seed
KNOWN_FAIL="TestWriteError|TestNonS3Endpoints|TestS3EndpointRedirect${EXTRA_KNOWN_FAIL:+|$EXTRA_KNOWN_FAIL}"
if [ ! -d $W ]; then git -C /repo worktree add -q $W HEAD; fi
git -C $W checkout -q --detach 2>/dev/null; git -C $W reset -q --hard $(git -C /repo rev-parse HEAD); git -C $W clean -fdq
cd $W
if ! git apply $D/patch.diff 2>/tmp/seed-apply.txt; then echo "{\"applies\":false,\"why\":\"$(head -c 300 /tmp/seed-apply.txt | tr '\n"' ' .')\"}"; exit 0; fi
fails() { grep -E "^\s*--- FAIL:" "$1" | grep -vE "$KNOWN_FAIL" | sed 's/ (.*//; s/.*--- FAIL: //' | sort -u | tr '\n' ' '; grep -qE "\[build failed\]|\[setup failed\]" "$1" && echo -n " BUILD-ERROR"; }
mkdir -p $W/$PKG; cp $D/*_test.go $W/$PKG/ 2>/dev/null
BUILD=ok; go build ./pkg/... ./cmd/... >/tmp/seed-build.txt 2>&1 || BUILD=fail
go test -vet=off -count=1 ./$PKG/ > /tmp/seed-demo-with.txt 2>&1
DEMO_WITH=$(fails /tmp/seed-demo-with.txt)
mkdir -p /tmp/seed-demo-hold; rm -f /tmp/seed-demo-hold/*; for f in $D/*_test.go; do mv $W/$PKG/$(basename $f) /tmp/seed-demo-hold/ 2>/dev/null; done
go test -vet=off -count=1 ./${EXISTING_PKG:-$PKG}/ > /tmp/seed-existing.txt 2>&1
EXISTING=$(fails /tmp/seed-existing.txt)
RES=""
# the checks below run against the changed tree: what they write must not replace the evidence files
# (and replay files) of /verif, which describe /repo itself
rm -rf /tmp/seed-evidence-keep; cp -r /verif/evidence /tmp/seed-evidence-keep
for P in "$@"; do
  (cd /verif && VERIF_REPO=$W VERIF_BUDGET_S=${BUDGET:-150} bin/check $P ${TIER:-quick} > /tmp/seed-check-$P.txt 2>&1); RC=$?
  LINE=$(grep -m1 "^  " /tmp/seed-check-$P.txt | head -1 | cut -c1-500 | tr '"\\' "'/")
  RES="$RES\"$P\":{\"exit\":$RC,\"first\":\"$LINE\"},"
done
rm -rf /verif/evidence; mv /tmp/seed-evidence-keep /verif/evidence
find /verif/replays -name '*.json' -delete 2>/dev/null
git -C $W checkout -q -- .
mv /tmp/seed-demo-hold/*_test.go $W/$PKG/ 2>/dev/null
go test -vet=off -count=1 ./$PKG/ > /tmp/seed-demo-without.txt 2>&1
DEMO_WITHOUT=$(fails /tmp/seed-demo-without.txt)
git -C $W clean -fdq
echo "{\"applies\":true,\"build\":\"$BUILD\",\"demo_fails_with_change\":\"$DEMO_WITH\",\"existing_tests_failing_with_change\":\"$EXISTING\",\"demo_fails_without_change\":\"$DEMO_WITHOUT\",\"checks\":{${RES%,}}}"
