// Package simcore is the dependency-free heart of the simulator: the PRNG every
// choice derives from, the cooperative scheduler, and the Yield entry point the
// shims and seam wrappers call. It imports only the standard library so that
// the import-path shims (which are imported by perkeep packages) can use it
// without cycles.
package simcore

import (
	"fmt"
	"hash/fnv"
	"sort"
)

// SortedKeys returns the keys of m ordered by their printed form. The overlay
// puts it where perkeep ranges over a map and the order matters for what
// happens next (see overlay.orderedRanges).
func SortedKeys[K comparable, V any](m map[K]V) []K {
	ks := make([]K, 0, len(m))
	for k := range m {
		ks = append(ks, k)
	}
	sort.Slice(ks, func(i, j int) bool { return fmt.Sprint(ks[i]) < fmt.Sprint(ks[j]) })
	return ks
}

// Rand is splitmix64: tiny, fast, and fully determined by its 64-bit state.
type Rand struct{ s uint64 }

func NewRand(seed uint64) *Rand { return &Rand{s: seed} }

func (r *Rand) Uint64() uint64 {
	r.s += 0x9e3779b97f4a7c15
	z := r.s
	z = (z ^ (z >> 30)) * 0xbf58476d1ce4e5b9
	z = (z ^ (z >> 27)) * 0x94d049bb133111eb
	return z ^ (z >> 31)
}

// Intn returns a value in [0,n). n<=0 returns 0.
func (r *Rand) Intn(n int) int {
	if n <= 1 {
		return 0
	}
	return int(r.Uint64() % uint64(n))
}

func (r *Rand) Int63n(n int64) int64 {
	if n <= 1 {
		return 0
	}
	return int64(r.Uint64() % uint64(n))
}

func (r *Rand) Float() float64 { return float64(r.Uint64()>>11) / (1 << 53) }

// Bool is true with probability p.
func (r *Rand) Bool(p float64) bool { return r.Float() < p }

// Range returns a value in [lo,hi].
func (r *Rand) Range(lo, hi int) int {
	if hi <= lo {
		return lo
	}
	return lo + r.Intn(hi-lo+1)
}

func (r *Rand) Perm(n int) []int {
	p := make([]int, n)
	for i := range p {
		p[i] = i
	}
	for i := n - 1; i > 0; i-- {
		j := r.Intn(i + 1)
		p[i], p[j] = p[j], p[i]
	}
	return p
}

// Fork derives an independent generator; the parent advances by one draw.
func (r *Rand) Fork() *Rand { return NewRand(r.Uint64()) }

// Bytes fills b deterministically.
func (r *Rand) Bytes(b []byte) {
	for i := 0; i < len(b); i += 8 {
		v := r.Uint64()
		for j := 0; j < 8 && i+j < len(b); j++ {
			b[i+j] = byte(v >> (8 * j))
		}
	}
}

// Mix derives a sub-seed from a seed and any printable parts.
func Mix(seed uint64, parts ...any) uint64 {
	h := fnv.New64a()
	fmt.Fprintf(h, "%d", seed)
	for _, p := range parts {
		fmt.Fprintf(h, "|%v", p)
	}
	r := NewRand(h.Sum64())
	return r.Uint64()
}
