package simcore

import (
	"bytes"
	"errors"
	"fmt"
	"hash/fnv"
	"os"
	"runtime"
	"sort"
	"strconv"
	"sync"
	"sync/atomic"
	"testing/synctest"
	"time"
)

// ErrHang is returned by Run when client tasks are unfinished, nothing is
// parked, and the virtual-time budget ran out: some operation never returned.
var ErrHang = errors.New("simcore: tasks unfinished after virtual-time budget (hang)")

// ErrSteps is returned when the scheduling-decision budget is exhausted.
var ErrSteps = errors.New("simcore: scheduling step budget exhausted")

type waiter struct {
	label string
	gid   uint64
	seq   uint64
	ch    chan struct{}
}

// Sched is the cooperative scheduler. Exactly one bubble goroutine runs
// between two decisions; the root goroutine of the synctest bubble executes
// Run and never parks.
type Sched struct {
	mu       sync.Mutex
	parked   []*waiter
	arrivals uint64
	wake     chan struct{}
	running  atomic.Bool

	rng     *Rand
	lockRng *Rand
	// Tape, when non-empty, supplies scheduling choices before the PRNG does.
	Tape    []int
	tapePos int
	// Rec is the sequence of choices actually taken (the replayable tape).
	Rec []int

	Steps     int
	MaxSteps  int
	stepLimit int
	// MaxVirtual bounds the virtual time Run may consume while idle.
	MaxVirtual time.Duration
	// LockYieldPermille is the probability (in 1/1000) that a shim lock
	// acquisition becomes a scheduling point.
	LockYieldPermille int
	// UnlockYieldPermille is the probability (in 1/1000) that a shim lock
	// RELEASE becomes a scheduling point (opt-in per plan, default 0: then
	// nothing is drawn and schedules are exactly what they were without it).
	// A release followed by lock-free code (e.g. an update moved out of its
	// critical section) is otherwise never interleaved with the goroutines
	// the release wakes.
	UnlockYieldPermille int
	unlockRng           *Rand
	// Sticky is the probability (in 1/1000) of continuing with the goroutine
	// that ran last when it is parked again (run-to-completion bias).
	StickyPermille int
	lastGid        uint64
	// Pct > 0 selects priority scheduling (after Burckhardt et al., PCT):
	// every goroutine gets a random priority when it is first seen, the
	// parked goroutine with the highest priority always runs, and at Pct-1
	// random decision numbers below PctHorizon the running goroutine's
	// priority drops below all others. This reaches schedules in which one
	// goroutine runs far ahead of another, which uniform choice almost never
	// produces. Choices are still recorded as indices, so replay is unchanged.
	Pct        int
	PctHorizon int
	pctPrio    map[uint64]float64
	pctChange  map[int]bool
	pctLow     float64

	tasks    atomic.Int64
	evseq    atomic.Uint64
	hash     uint64
	Yields   int
	LockYlds int
	IdleAdv  int
}

var cur atomic.Pointer[Sched]

// Current returns the active scheduler or nil.
func Current() *Sched { return cur.Load() }

// NewSched installs a scheduler for this process. seed decides all choices not
// given by tape.
func NewSched(seed uint64, tape []int) *Sched {
	s := &Sched{
		rng:        NewRand(Mix(seed, "sched")),
		lockRng:    NewRand(Mix(seed, "lock")),
		unlockRng:  NewRand(Mix(seed, "unlock")),
		Tape:       tape,
		MaxSteps:   20000000,
		MaxVirtual: 6 * time.Hour,
		hash:       14695981039346656037,
	}
	cur.Store(s)
	return s
}

// Reseed restarts the choice streams (start of an independent sub-run): the
// sub-run's schedule is then a function of seed alone. The tape, if any,
// applies from its beginning.
func (s *Sched) Reseed(seed uint64) {
	s.mu.Lock()
	s.rng = NewRand(Mix(seed, "sched"))
	s.lockRng = NewRand(Mix(seed, "lock"))
	s.unlockRng = NewRand(Mix(seed, "unlock"))
	s.tapePos = 0
	s.Rec = nil
	s.lastGid = 0
	s.pctPrio, s.pctChange, s.pctLow = nil, nil, 0
	s.mu.Unlock()
}

// AbandonTasks forgets every unfinished task (their goroutines belong to a
// process generation that has just crashed and will never finish).
func (s *Sched) AbandonTasks() {
	s.tasks.Store(0)
	select {
	case s.wake <- struct{}{}:
	default:
	}
}

// Uninstall removes the scheduler (yields become no-ops).
func Uninstall() { cur.Store(nil) }

func goid() uint64 {
	var buf [64]byte
	b := buf[:runtime.Stack(buf[:], false)]
	// "goroutine 123 ["
	b = b[len("goroutine "):]
	i := bytes.IndexByte(b, ' ')
	n, _ := strconv.ParseUint(string(b[:i]), 10, 64)
	return n
}

// Seq returns the next global event sequence number (history stamps).
func (s *Sched) Seq() uint64 { return s.evseq.Add(1) }

// Seq is the package-level convenience; 0 when no scheduler is installed.
var fallbackSeq atomic.Uint64

func Seq() uint64 {
	if s := cur.Load(); s != nil {
		return s.Seq()
	}
	return fallbackSeq.Add(1)
}

// Note folds a string into the run's event digest.
func (s *Sched) Note(ev string) {
	s.mu.Lock()
	s.note(ev)
	s.mu.Unlock()
}

func (s *Sched) note(ev string) {
	h := s.hash
	for i := 0; i < len(ev); i++ {
		h ^= uint64(ev[i])
		h *= 1099511628211
	}
	h ^= 0xff
	h *= 1099511628211
	s.hash = h
}

// Digest is the digest of scheduling decisions and noted events so far.
func (s *Sched) Digest() string {
	s.mu.Lock()
	defer s.mu.Unlock()
	return fmt.Sprintf("%016x", s.hash)
}

// Free selects the free-running mode of the -race binary: no scheduler;
// Yield perturbs the real schedule with seeded Gosched calls and short sleeps.
var Free atomic.Bool

var freeState atomic.Uint64

func freePerturb() {
	x := freeState.Add(0x9e3779b97f4a7c15)
	x ^= x >> 29
	x *= 0xbf58476d1ce4e5b9
	x ^= x >> 32
	switch x % 16 {
	case 0, 1, 2, 3, 4, 5:
		runtime.Gosched()
	case 6:
		time.Sleep(time.Duration(x>>8%50) * time.Microsecond)
	}
}

// SeedFree seeds the perturbation of the free-running mode.
func SeedFree(seed uint64) { freeState.Store(seed) }

// Yield is a scheduling point. It is a no-op unless a scheduler is running.
func Yield(site string) {
	s := cur.Load()
	if s == nil || !s.running.Load() {
		if Free.Load() {
			freePerturb()
		}
		return
	}
	s.yield(site)
}

// LockYield is called by the lock shims before an acquisition; it becomes a
// scheduling point with the run's configured probability.
func LockYield(site string) {
	s := cur.Load()
	if s == nil || s.LockYieldPermille == 0 || !s.running.Load() {
		return
	}
	s.mu.Lock()
	hit := s.lockRng.Intn(1000) < s.LockYieldPermille
	s.mu.Unlock()
	if hit {
		s.LockYlds++
		s.yield(site)
	}
}

// UnlockYield is called by the lock shims after a release; it becomes a
// scheduling point with the run's configured probability (its own choice
// stream, so that runs without it are not perturbed).
func UnlockYield(site string) {
	s := cur.Load()
	if s == nil || s.UnlockYieldPermille == 0 || !s.running.Load() {
		return
	}
	s.mu.Lock()
	hit := s.unlockRng.Intn(1000) < s.UnlockYieldPermille
	s.mu.Unlock()
	if hit {
		s.LockYlds++
		s.yield(site)
	}
}

func (s *Sched) yield(site string) {
	w := &waiter{label: site, gid: goid(), ch: make(chan struct{})}
	s.mu.Lock()
	s.arrivals++
	w.seq = s.arrivals
	s.parked = append(s.parked, w)
	s.Yields++
	s.mu.Unlock()
	select {
	case s.wake <- struct{}{}:
	default:
	}
	<-w.ch
}

// Go starts a client task inside the bubble. Run returns once all tasks have
// finished (and nothing is parked).
func (s *Sched) Go(name string, f func()) {
	s.tasks.Add(1)
	go func() {
		defer func() {
			if s.tasks.Add(-1) < 0 {
				s.tasks.Store(0)
			}
			select {
			case s.wake <- struct{}{}:
			default:
			}
		}()
		// Always park here, also when the root goroutine has not reached Run
		// yet: the root can be descheduled between its go statement and
		// Run's running.Store(true) (time slice, GC assist); a conditional
		// Yield would then let this task start unscheduled and the run's
		// step count and digest would depend on that accident.
		s.yield("task:" + name)
		f()
	}()
}

func (s *Sched) choose(n int) int {
	var v int
	if s.tapePos < len(s.Tape) {
		v = s.Tape[s.tapePos]
		s.tapePos++
		if v < 0 {
			v = -v
		}
		v %= n
	} else {
		v = s.rng.Intn(n)
	}
	s.Rec = append(s.Rec, v)
	return v
}

// RunTasks is like Run but returns as soon as every task has finished, even
// if goroutines they left behind are still parked (they stay parked until the
// next Run/RunTasks): the moment right after an operation returned, with its
// background work still in flight.
func (s *Sched) RunTasks() error { return s.run(true) }

// RunSteps lets parked goroutines proceed for at most n scheduling decisions
// (or until quiescence): a seeded point in the middle of background work.
func (s *Sched) RunSteps(n int) error {
	s.stepLimit = s.Steps + n
	defer func() { s.stepLimit = 0 }()
	return s.run(false)
}

// Run drives the bubble until every task has finished and no goroutine is
// parked. It must be called from the bubble's root goroutine.
func (s *Sched) Run() error { return s.run(false) }

func (s *Sched) run(tasksOnly bool) error {
	if s.wake == nil {
		s.wake = make(chan struct{}, 1)
	}
	s.running.Store(true)
	defer s.running.Store(false)
	start := time.Now()
	for {
		synctest.Wait()
		if tasksOnly && s.tasks.Load() == 0 {
			return nil
		}
		if s.stepLimit > 0 && s.Steps >= s.stepLimit {
			return nil
		}
		s.mu.Lock()
		n := len(s.parked)
		if n == 0 {
			s.mu.Unlock()
			if s.tasks.Load() == 0 {
				return nil
			}
			if time.Since(start) > s.MaxVirtual {
				if os.Getenv("VERIF_DEBUG") != "" {
					buf := make([]byte, 1<<20)
					os.Stderr.Write(buf[:runtime.Stack(buf, true)])
				}
				return ErrHang
			}
			// Everybody is blocked on a timer or on each other: let the fake
			// clock move to the next timer (bounded by the quantum).
			s.IdleAdv++
			t := time.NewTimer(30 * time.Second)
			select {
			case <-s.wake:
			case <-t.C:
			}
			t.Stop()
			continue
		}
		if s.Steps >= s.MaxSteps {
			s.mu.Unlock()
			return ErrSteps
		}
		s.Steps++
		sort.SliceStable(s.parked, func(i, j int) bool {
			a, b := s.parked[i], s.parked[j]
			if a.label != b.label {
				return a.label < b.label
			}
			return a.seq < b.seq
		})
		idx := -1
		if s.Pct > 0 && s.tapePos >= len(s.Tape) && n > 1 {
			idx = s.pctPick()
			s.Rec = append(s.Rec, idx)
		}
		if idx < 0 && s.StickyPermille > 0 && s.tapePos >= len(s.Tape) && n > 1 {
			for i, w := range s.parked {
				if w.gid == s.lastGid {
					if s.rng.Intn(1000) < s.StickyPermille {
						idx = i
						s.Rec = append(s.Rec, i)
					}
					break
				}
			}
		}
		if idx < 0 {
			if n == 1 {
				idx = 0
			} else {
				idx = s.choose(n)
			}
		}
		w := s.parked[idx]
		s.parked = append(s.parked[:idx], s.parked[idx+1:]...)
		s.lastGid = w.gid
		s.note(w.label)
		s.mu.Unlock()
		close(w.ch)
	}
}

// pctPick implements the priority policy; s.mu is held, s.parked is sorted.
func (s *Sched) pctPick() int {
	if s.pctPrio == nil {
		s.pctPrio = map[uint64]float64{}
		s.pctChange = map[int]bool{}
		h := s.PctHorizon
		if h <= 0 {
			h = 2000
		}
		for i := 1; i < s.Pct; i++ {
			s.pctChange[s.Steps+1+s.rng.Intn(h)] = true
		}
	}
	best := -1
	for i, w := range s.parked {
		if _, ok := s.pctPrio[w.gid]; !ok {
			s.pctPrio[w.gid] = 1 + s.rng.Float()
		}
		if best < 0 || s.pctPrio[w.gid] > s.pctPrio[s.parked[best].gid] {
			best = i
		}
	}
	if s.pctChange[s.Steps] {
		s.pctLow -= 1
		s.pctPrio[s.parked[best].gid] = s.pctLow
		best = -1
		for i, w := range s.parked {
			if best < 0 || s.pctPrio[w.gid] > s.pctPrio[s.parked[best].gid] {
				best = i
			}
		}
	}
	return best
}

// Parked reports how many goroutines are waiting to be scheduled.
func (s *Sched) Parked() int {
	s.mu.Lock()
	defer s.mu.Unlock()
	return len(s.parked)
}

// ScheduleHash identifies the interleaving taken (labels in order).
func (s *Sched) ScheduleHash() string {
	h := fnv.New64a()
	for _, v := range s.Rec {
		fmt.Fprintf(h, "%d,", v)
	}
	return fmt.Sprintf("%016x", h.Sum64())
}
