#!/bin/bash
# dev helper: mut.sh PROP file 's/old/new/' : applies sed to /repo file, runs check, reverts
PROP=$1; F=$2; SED=$3
cd /repo && cp $F /tmp/mut.bak && sed -i "$SED" $F && git diff --stat | tail -1
cd /verif && VERIF_BUDGET_S=${BUDGET:-60} bin/check $PROP quick 2>&1 | grep -v "^\[check\] overlay\|built" | cut -c1-600 | tail -${TAILN:-6}
cd /repo && git checkout -- . && git status --short | head -3
