import json,collections,sys
c=collections.Counter(); ex={}
n=0; sub=0
for l in open(sys.argv[1]):
    try: r=json.loads(l)
    except: continue
    n+=1; sub+=r['outcome'].get('subRuns',0)
    v=r['outcome'].get('violation')
    if v:
        key=v['sig'].split('@')[0]
        c[key]+=1; ex.setdefault(key, (r['run'], v['detail'][:700]))
    if r['outcome'].get('inconclusive'): c['INCONCL '+r['outcome']['inconclusive'][:200]]+=1
print('runs',n,'subruns',sub)
for k,v in c.most_common(): print(v,k,'\n    ',ex.get(k))
