#!/usr/bin/env python3
# seedtable.py - rewrites section 8.5 of DESIGN.md (the table of seeded changes) from seeded/*/meta.json.
import json, os, re, glob
rows = ["| change | file touched (under pkg/) | needs, to manifest | caught by | check strengthened first |", "|---|---|---|---|---|"]
n = caught = strengthened = 0
def key(d):
    m = re.match(r'C(\d+)-(\d+)', os.path.basename(d)); return (int(m.group(1)), int(m.group(2)))
for d in sorted(glob.glob('/verif/seeded/*'), key=key):
    sid = os.path.basename(d)
    m = json.load(open(d + '/meta.json'))
    files = sorted(set(re.findall(r'^\+\+\+ b/(\S+)', open(d + '/patch.diff').read(), re.M)))
    files = [f.replace('pkg/', '') for f in files]
    needs = ' '.join(m.get('needs_to_manifest', '').split())
    if len(needs) > 190: needs = needs[:187] + '...'
    needs = needs.replace('|', '\\|')
    cb = m.get('caught_by', [])
    n += 1; caught += bool(cb); strengthened += bool(m.get('history'))
    rows.append("| %s | %s | %s | %s | %s |" % (sid, ', '.join(files), needs, ', '.join(cb) or '(not caught)', 'yes' if m.get('history') else ''))
p = '/verif/DESIGN.md'
s = open(p).read()
a = s.index('### 8.5 Which check catches which seeded change')
head = '### 8.5 Which check catches which seeded change\n\n%d stored changes, %d caught, %d of them only after a check was strengthened (column 5; the `history` field of the change\'s meta.json says how).\n\n' % (n, caught, strengthened)
b = s.find('\n### 8.6', a)
tail = s[b:] if b >= 0 else '\n'
s = s[:a] + head + '\n'.join(rows) + '\n' + tail
open(p, 'w').write(s)
print(n, caught, strengthened)
