// Package overlay generates the `go build -overlay` file that gives the
// simulator its seams without touching /repo: perkeep source files that
// import "sync" or "go4.org/syncutil" (and, inside diskpacked only, "os" and
// "syscall") are copied with nothing but the import string changed to the
// shim package of the same name; accessor files from /verif/inject are added
// to the perkeep package directories they name. The copies are regenerated
// from /repo's working tree on every check, so an edit to /repo is always
// what gets compiled.
package overlay

import (
	"bytes"
	"encoding/json"
	"fmt"
	"go/parser"
	"go/token"
	"os"
	"path/filepath"
	"sort"
	"strconv"
	"strings"
)

type Stats struct {
	FilesScanned   int
	FilesRewritten int
	Injected       int
	// OrderedRanges: files in which a map range was given a fixed order
	OrderedRanges int
}

// rewrite rules: import path -> shim path; Only restricts to directories
// (relative to repo root) when non-empty.
type rule struct {
	from, to string
	only     []string
}

var rules = []rule{
	{from: "sync", to: "verif/shim/sync"},
	{from: "go4.org/syncutil", to: "verif/shim/syncutil"},
	{from: "os", to: "verif/shim/os", only: []string{"pkg/blobserver/diskpacked"}},
	{from: "syscall", to: "verif/shim/syscall", only: []string{"pkg/blobserver/diskpacked"}},
	// WaitForBlob's deadline timer: see shim/time (fake-clock livelock at now == deadline)
	{from: "time", to: "verif/shim/time", only: []string{"pkg/blobserver"}},
}

// orderedRange: places where perkeep ranges over a Go map and the order in
// which it does decides what happens next (which pending blob the sync handler
// copies first, which ready blob the index re-indexes first). Go randomises
// that order from a source no plan reaches; every order is legal, so the
// overlay fixes one (sorted keys) to keep a run a function of its plan. The
// rewrite is textual and applies only while the line reads exactly as listed:
// on a tree where it has changed, nothing is rewritten and the order stays
// Go's (sound, merely less repeatable).
type orderedRange struct {
	file, from, to string
	// noImport: the replacement does not use verif/simcore
	noImport bool
}

var orderedRanges = []orderedRange{
	// (not a map range: OSFS hands out the host-filesystem VFS; routed
	// through the injected hook so that a contract-checking VFS can sit
	// between the files store and osfs.go)
	{file: "pkg/blobserver/files/osfs.go", from: "\treturn osFS{}\n", to: "\treturn verifWrapOSFS(osFS{})\n", noImport: true},
	// (tuning knobs: the two compaction limits of the encrypting store become
	// variables, so that a run can lower them - see inject/.../verif_knobs.*)
	{file: "pkg/blobserver/encrypt/meta.go",
		from: "const (\n\t// FullMetaBlobSize is the number of lines at which we stop compacting a meta blob.\n",
		to:   "var (\n\t// FullMetaBlobSize is the number of lines at which we stop compacting a meta blob.\n", noImport: true},
	// (page size of blobserver.EnumerateAll and the number of pending blobs
	// one round of the sync loop takes: variables, so that a run can lower
	// them and later pages / later rounds carry data in short histories)
	{file: "pkg/blobserver/enumerate.go", from: "\tconst batchSize = 1000\n", to: "\tbatchSize := verifEnumBatch\n", noImport: true},
	{file: "pkg/server/sync.go", from: "\t\tconst maxBatch = 1000\n", to: "\t\tmaxBatch := verifPendingBatch\n", noImport: true},
	{file: "pkg/server/sync.go", from: "\tworkch := make(chan blob.SizedRef, 1000)\n", to: "\tworkch := make(chan blob.SizedRef, verifSyncWorkBuf)\n", noImport: true},
	{file: "pkg/server/sync.go",
		from: "for br, size := range sh.needCopy {",
		to:   "for _, br := range verifsimcore.SortedKeys(sh.needCopy) {\n\t\t\tsize := sh.needCopy[br]"},
	{file: "pkg/index/receive.go",
		from: "for br = range ix.readyReindex {",
		to:   "for _, br = range verifsimcore.SortedKeys(ix.readyReindex) {"},
	{file: "pkg/index/index.go",
		from: "for missing := range x.neededBy {",
		to:   "for _, missing := range verifsimcore.SortedKeys(x.neededBy) {\n\t\t\tif _, still := x.neededBy[missing]; !still {\n\t\t\t\tcontinue // deleted while ranging: Go would not produce it either\n\t\t\t}"},
}

// applyOrderedRanges rewrites the listed range statements of file rel in src.
func applyOrderedRanges(rel string, src []byte) ([]byte, bool) {
	changed, needImport := false, false
	for _, o := range orderedRanges {
		if o.file != rel || bytes.Count(src, []byte(o.from)) != 1 {
			continue
		}
		src = bytes.Replace(src, []byte(o.from), []byte(o.to), 1)
		changed = true
		if !o.noImport {
			needImport = true
		}
	}
	if !changed {
		return src, false
	}
	if !needImport {
		return src, true
	}
	// a second import declaration right after the package clause
	i := bytes.Index(src, []byte("\npackage "))
	if i < 0 {
		if !bytes.HasPrefix(src, []byte("package ")) {
			return src, false
		}
		i = -1
	}
	j := bytes.IndexByte(src[i+1:], '\n')
	if j < 0 {
		return src, false
	}
	at := i + 1 + j + 1
	out := append([]byte(nil), src[:at]...)
	out = append(out, []byte("\nimport verifsimcore \"verif/simcore\"\n")...)
	out = append(out, src[at:]...)
	return out, true
}

// skipDirs are perkeep trees that need services unavailable offline or are
// not linked into the simulator; leaving them alone keeps the overlay small.
var scanRoots = []string{"pkg", "internal"}

func applies(r rule, relDir string) bool {
	if len(r.only) == 0 {
		return true
	}
	for _, o := range r.only {
		if relDir == o {
			return true
		}
	}
	return false
}

// Generate writes the overlay for repo into workDir and returns the path of
// the overlay JSON. injectDir holds <pkgpath-under-repo>/<file>.go trees.
func Generate(repo, workDir, injectDir string, enableOSShim bool) (string, Stats, error) {
	return generate(repo, workDir, injectDir, enableOSShim, true, "overlay")
}

// GenerateInjectOnly writes an overlay that only adds the accessor files (no
// import-path shims): used for the free-running -race binary, where real
// sync primitives must stay visible to the race detector.
func GenerateInjectOnly(repo, workDir, injectDir string) (string, Stats, error) {
	return generate(repo, workDir, injectDir, false, false, "overlay-race")
}

func generate(repo, workDir, injectDir string, enableOSShim, rewrite bool, name string) (string, Stats, error) {
	var st Stats
	outRoot := filepath.Join(workDir, name)
	if err := os.RemoveAll(outRoot); err != nil {
		return "", st, err
	}
	replace := map[string]string{}
	rewritten := map[string]bool{} // files in which a listed textual rewrite applied
	fset := token.NewFileSet()
	roots := scanRoots
	if !rewrite {
		roots = nil
	}
	for _, root := range roots {
		err := filepath.Walk(filepath.Join(repo, root), func(path string, fi os.FileInfo, err error) error {
			if err != nil {
				return err
			}
			if fi.IsDir() {
				if fi.Name() == "testdata" || fi.Name() == "node_modules" {
					return filepath.SkipDir
				}
				return nil
			}
			if !strings.HasSuffix(path, ".go") || strings.HasSuffix(path, "_test.go") {
				return nil
			}
			st.FilesScanned++
			src, err := os.ReadFile(path)
			if err != nil {
				return err
			}
			f, err := parser.ParseFile(fset, path, src, parser.ImportsOnly)
			if err != nil {
				return nil // not our problem; the compiler will say so
			}
			rel, _ := filepath.Rel(repo, path)
			relDir := filepath.ToSlash(filepath.Dir(rel))
			type edit struct {
				start, end int
				text       string
			}
			var edits []edit
			for _, im := range f.Imports {
				p, err := strconv.Unquote(im.Path.Value)
				if err != nil {
					continue
				}
				if p == "C" {
					return nil
				}
				for _, r := range rules {
					if r.from != p || !applies(r, relDir) {
						continue
					}
					if (r.from == "os" || r.from == "syscall") && !enableOSShim {
						continue
					}
					s := fset.Position(im.Path.Pos()).Offset
					e := fset.Position(im.Path.End()).Offset
					text := strconv.Quote(r.to)
					if im.Name == nil {
						// keep the identifier the file uses
						text = filepath.Base(r.from) + " " + text
					}
					edits = append(edits, edit{s, e, text})
				}
			}
			sort.Slice(edits, func(i, j int) bool { return edits[i].start > edits[j].start })
			out := append([]byte(nil), src...)
			for _, e := range edits {
				out = append(out[:e.start], append([]byte(e.text), out[e.end:]...)...)
			}
			out, ordered := applyOrderedRanges(filepath.ToSlash(rel), out)
			if ordered {
				st.OrderedRanges++
				rewritten[filepath.ToSlash(rel)] = true
			}
			if len(edits) == 0 && !ordered {
				return nil
			}
			dst := filepath.Join(outRoot, rel)
			if err := os.MkdirAll(filepath.Dir(dst), 0o755); err != nil {
				return err
			}
			if err := os.WriteFile(dst, out, 0o644); err != nil {
				return err
			}
			replace[path] = dst
			st.FilesRewritten++
			return nil
		})
		if err != nil {
			return "", st, err
		}
	}
	if injectDir != "" {
		err := filepath.Walk(injectDir, func(path string, fi os.FileInfo, err error) error {
			if err != nil {
				return err
			}
			if fi.IsDir() {
				return nil
			}
			rel, _ := filepath.Rel(injectDir, path)
			// <name>.on / <name>.off: two variants of one accessor file, the
			// first for builds in which the overlay's textual rewrite of the
			// package's knobs applied, the second for all others (a tree
			// where the declaration reads differently, or the inject-only
			// overlay of the race configuration)
			// <name>.shim / <name>.noshim: variants for builds with and
			// without the import-path shims (the race configuration links
			// the real sync and go4.org/syncutil)
			if strings.HasSuffix(path, ".shim") || strings.HasSuffix(path, ".noshim") {
				if rewrite != strings.HasSuffix(path, ".shim") {
					return nil
				}
				base := strings.TrimSuffix(strings.TrimSuffix(filepath.Base(rel), ".shim"), ".noshim")
				target := filepath.Join(repo, filepath.Dir(rel), "zz_verif_"+base+".go")
				replace[target] = path
				st.Injected++
				return nil
			}
			if strings.HasSuffix(path, ".on") || strings.HasSuffix(path, ".off") {
				on := false
				for f := range rewritten {
					if filepath.ToSlash(filepath.Dir(f)) == filepath.ToSlash(filepath.Dir(rel)) {
						on = true
					}
				}
				if on != strings.HasSuffix(path, ".on") {
					return nil
				}
				base := strings.TrimSuffix(strings.TrimSuffix(filepath.Base(rel), ".on"), ".off")
				target := filepath.Join(repo, filepath.Dir(rel), "zz_verif_"+base+".go")
				replace[target] = path
				st.Injected++
				return nil
			}
			if !strings.HasSuffix(path, ".go") {
				return nil
			}
			target := filepath.Join(repo, filepath.Dir(rel), "zz_verif_"+filepath.Base(rel))
			if _, err := os.Stat(filepath.Dir(target)); err != nil {
				return fmt.Errorf("inject: package directory for %s missing in repo", rel)
			}
			replace[target] = path
			st.Injected++
			return nil
		})
		if err != nil && !os.IsNotExist(err) {
			return "", st, err
		}
	}
	js, _ := json.MarshalIndent(map[string]any{"Replace": replace}, "", " ")
	ov := filepath.Join(workDir, name+".json")
	if err := os.MkdirAll(workDir, 0o755); err != nil {
		return "", st, err
	}
	if err := os.WriteFile(ov, js, 0o644); err != nil {
		return "", st, err
	}
	return ov, st, nil
}
