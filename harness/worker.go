package harness

import (
	crand "crypto/rand"
	"encoding/json"
	"flag"
	"fmt"
	"io"
	"log"
	"os"
	"path/filepath"
	"runtime"
	"runtime/debug"
	"strings"
	"sync"
	"testing"
	"testing/synctest"
	"time"

	"verif/sim"
	"verif/simcore"
)

var (
	fProp  = flag.String("sim.prop", "", "property id")
	fTier  = flag.String("sim.tier", "quick", "quick|thorough")
	fSeed  = flag.Uint64("sim.seed", 1, "VERIF_SEED")
	fFrom  = flag.Int("sim.from", 0, "first run index")
	fTo    = flag.Int("sim.to", 1, "one past the last run index")
	fOut   = flag.String("sim.out", "", "JSONL output file (default stdout)")
	fPlan  = flag.String("sim.plan", "", "execute this plan file instead of generating")
	fPlans = flag.Int("sim.keepplans", 0, "include the plan in the first N records")
	fWork  = flag.String("sim.work", "", "scratch root")
	fKnown = flag.String("sim.known", "", "KNOWN_FINDINGS.json")
	fRace  = flag.Bool("sim.race", false, "free-running race mode (no scheduler)")
)

// RaceMode reports whether the binary runs the free-running -race workload.
func RaceMode() bool { return *fRace }

// WorkerMain is the body of the simulation binary's single test.
func WorkerMain(t *testing.T) {
	if *fProp == "" && *fPlan == "" {
		t.Skip("simulation worker: no -sim.prop / -sim.plan given")
	}
	if *fKnown != "" {
		LoadKnown(*fKnown)
	}
	if os.Getenv("VERIF_LOG") == "" {
		log.SetOutput(io.Discard)
	}
	out := os.Stdout
	if *fOut != "" {
		f, err := os.Create(*fOut)
		if err != nil {
			t.Fatal(err)
		}
		defer f.Close()
		out = f
	}
	enc := json.NewEncoder(out)
	work := *fWork
	if work == "" {
		work = filepath.Join(os.TempDir(), "verif-sim")
	}
	if *fPlan != "" {
		b, err := os.ReadFile(*fPlan)
		if err != nil {
			t.Fatal(err)
		}
		var holder struct {
			Plan *Plan `json:"plan"`
		}
		if err := json.Unmarshal(b, &holder); err != nil || holder.Plan == nil {
			t.Fatalf("bad plan file %s: %v", *fPlan, err)
		}
		p := holder.Plan
		eng := EngineByName(p.Engine)
		if eng == nil {
			t.Fatalf("no engine %q", p.Engine)
		}
		st := time.Now()
		o := ExecPlan(t, eng, p, work)
		enc.Encode(Record{Run: p.Run, Outcome: o, Plan: p, WallMS: float64(time.Since(st).Microseconds()) / 1000})
		return
	}
	eng := EngineFor(*fProp)
	if eng == nil {
		t.Fatalf("no engine for property %q", *fProp)
	}
	for run := *fFrom; run < *fTo; run++ {
		r := simcore.NewRand(simcore.Mix(*fSeed, *fProp, run))
		p := eng.Gen(*fProp, *fTier, run, r)
		p.Prop, p.Engine, p.Tier, p.Seed, p.Run = *fProp, eng.Name(), *fTier, *fSeed, run
		if p.SchedSeed == 0 {
			p.SchedSeed = simcore.Mix(*fSeed, *fProp, run, "sched")
		}
		if p.Reader == "" {
			p.Reader = []string{"plain", "plain", "eof", "short"}[simcore.NewRand(simcore.Mix(*fSeed, *fProp, run, "reader")).Intn(4)]
		}
		if p.EnumBatch == 0 {
			p.EnumBatch = []int{1000, 1000, 1000, 1000, 1, 2, 3, 7}[simcore.NewRand(simcore.Mix(*fSeed, *fProp, run, "enumbatch")).Intn(8)]
		}
		st := time.Now()
		o := ExecPlan(t, eng, p, work)
		rec := Record{Run: run, Outcome: o, WallMS: float64(time.Since(st).Microseconds()) / 1000}
		if o.Violation != nil || run-*fFrom < *fPlans {
			if len(o.Tape) > 0 {
				p.Tape = o.Tape
			}
			rec.Plan = p
			if o.ReplayPlan != nil {
				rp := o.ReplayPlan
				rp.Prop, rp.Engine, rp.Tier, rp.Seed, rp.Run = p.Prop, p.Engine, p.Tier, p.Seed, p.Run
				if rp.SchedSeed == 0 {
					rp.SchedSeed = p.SchedSeed
				}
				rec.Plan = rp
			}
		}
		o.ReplayPlan = nil
		o.Tape = nil
		enc.Encode(rec)
		if o.Violation != nil {
			// stop this worker at its first violation; the driver minimises
			return
		}
	}
}

// ExecPlan executes one plan with a fresh Env, scratch directory and (when
// the plan asks for it) a synctest bubble driven by the seeded scheduler.
func ExecPlan(t *testing.T, eng Engine, p *Plan, work string) (o *Outcome) {
	scratch := filepath.Join(work, fmt.Sprintf("r%d-%d-%d", os.Getpid(), p.Run, time.Now().UnixNano()))
	os.MkdirAll(scratch, 0o755)
	defer os.RemoveAll(scratch)
	// crypto/rand is replaced by a DRBG keyed from the plan, so that age
	// ciphertexts (and therefore ciphertext blobrefs) replay exactly
	crand.Reader = &drbg{r: simcore.NewRand(simcore.Mix(p.Seed, p.Prop, p.Run, "crand"))}
	env := sim.NewEnv()
	env.Faults = append([]sim.Fault(nil), p.Faults...)
	sim.SetReaderMode(p.Reader)
	rc := &RunCtx{Scratch: scratch, Env: env}
	guard := func(f func()) {
		defer func() {
			if r := recover(); r != nil {
				msg := fmt.Sprint(r)
				if o != nil && (strings.Contains(msg, "deadlock") || strings.Contains(msg, "blocked goroutines remain")) {
					return // leftover background goroutines at the end of a bubble: expected
				}
				st := string(debug.Stack())
				o = &Outcome{Inconclusive: "harness panic: " + msg + "\n" + st}
			}
		}()
		f()
	}
	if !p.Bubble || *fRace {
		if *fRace {
			simcore.Free.Store(true)
			simcore.SeedFree(simcore.Mix(p.Seed, p.Prop, p.Run, "free"))
		}
		guard(func() { o = eng.Exec(rc, p) })
		return o
	}
	guard(func() {
		synctest.Test(t, func(t *testing.T) {
			start := time.Now()
			s := simcore.NewSched(p.SchedSeed, p.Tape)
			s.LockYieldPermille = p.LockYield
			s.UnlockYieldPermille = p.UnlockYield
			s.StickyPermille = p.Sticky
			s.Pct, s.PctHorizon = p.Pct, p.PctHorizon
			rc.Sched = s
			defer simcore.Uninstall()
			var res *Outcome
			func() {
				defer func() {
					if r := recover(); r != nil {
						res = &Outcome{Inconclusive: "harness panic: " + fmt.Sprint(r) + "\n" + string(debug.Stack())}
					}
				}()
				res = eng.Exec(rc, p)
			}()
			res.SchedSteps = s.Steps
			res.Yields = s.Yields
			res.VirtualMS = time.Since(start).Milliseconds()
			res.SchedHash = s.ScheduleHash()
			res.Digest = s.Digest()
			res.Tape = append([]int(nil), s.Rec...)
			o = res
		})
	})
	if o == nil {
		o = &Outcome{Inconclusive: "bubble ended without outcome"}
	}
	return o
}

type drbg struct {
	mu sync.Mutex
	r  *simcore.Rand
}

func (d *drbg) Read(b []byte) (int, error) {
	d.mu.Lock()
	d.r.Bytes(b)
	d.mu.Unlock()
	return len(b), nil
}

func init() {
	// one goroutine at a time; the scheduler decides who
	if os.Getenv("VERIF_FREE") == "" {
		runtime.GOMAXPROCS(1)
	}
}
