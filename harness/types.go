// Package harness defines what an engine is, what a plan, a violation and a
// run record are, and the worker loop executed inside the simulation binary.
package harness

import (
	"encoding/json"
	"os"
	"regexp"
	"sort"
	"sync"

	"verif/sim"
	"verif/simcore"
)

// Plan is the explicit, replayable description of one simulated run. A run is
// a pure function of (tree, plan). Plans are generated from (seed, property,
// run index) and can afterwards be shrunk by dropping Ops and Faults and by
// truncating Tape.
type Plan struct {
	Prop   string `json:"prop"`
	Engine string `json:"engine"`
	Tier   string `json:"tier"`
	Seed   uint64 `json:"seed"`
	Run    int    `json:"run"`
	// Mode is an engine-specific sub-mode (e.g. "exact", "fault", "crash").
	Mode string `json:"mode,omitempty"`
	// Bubble: execute inside a synctest bubble under the seeded scheduler.
	Bubble    bool              `json:"bubble,omitempty"`
	Config    json.RawMessage   `json:"config,omitempty"`
	Ops       []json.RawMessage `json:"ops,omitempty"`
	Faults    []sim.Fault       `json:"faults,omitempty"`
	Tape      []int             `json:"tape,omitempty"`
	SchedSeed uint64            `json:"schedSeed,omitempty"`
	LockYield int               `json:"lockYield,omitempty"`
	// UnlockYield: per-mille probability that a lock release is a scheduling point (default 0).
	UnlockYield int `json:"unlockYield,omitempty"`
	Sticky      int `json:"sticky,omitempty"`
	// Pct > 0: priority scheduling with Pct-1 priority change points within
	// the first PctHorizon decisions (see simcore.Sched.Pct)
	Pct        int `json:"pct,omitempty"`
	PctHorizon int `json:"pctHorizon,omitempty"`
	// Reader: how the bodies handed out by the simulated stores behave as
	// io.Readers ("plain": like a bytes.Reader; "eof": the last bytes come
	// together with io.EOF, as HTTP bodies and multipart parts do; "short":
	// at most a third of the body per Read, the last bytes with io.EOF). All
	// three are legal Readers. Drawn per run when the engine leaves it empty.
	Reader string `json:"reader,omitempty"`
	// EnumBatch: the page size blobserver.EnumerateAll asks stores for (1000
	// in perkeep, any positive size is legal). Drawn per run when the engine
	// leaves it 0; applied by the engines through engines/knobs (the
	// accessor exists only under the overlay). 0 in a replay file = 1000.
	EnumBatch int `json:"enumBatch,omitempty"`
}

// Violation is a property violation found by a run.
type Violation struct {
	// Class is a short stable identifier of what went wrong
	// (e.g. "fetch-wrong-bytes"); minimisation preserves it.
	Class string `json:"class"`
	// Sig is the signature matched against KNOWN_FINDINGS.json: class plus
	// the component/call site/input shape that distinguishes the defect.
	Sig string `json:"sig"`
	// Detail is the human-readable description.
	Detail string `json:"detail"`
	// OpIndex is the client operation at which it was observed (-1 unknown).
	OpIndex int `json:"opIndex"`
}

// Outcome is the result of executing one plan.
type Outcome struct {
	Violation    *Violation     `json:"violation,omitempty"`
	Inconclusive string         `json:"inconclusive,omitempty"`
	Ops          int            `json:"ops"`
	SubRuns      int            `json:"subRuns,omitempty"` // e.g. crash points / fault positions enumerated
	Fired        map[string]int `json:"fired,omitempty"`
	Reached      map[string]int `json:"reached,omitempty"`
	SchedSteps   int            `json:"schedSteps,omitempty"`
	Yields       int            `json:"yields,omitempty"`
	VirtualMS    int64          `json:"virtualMs,omitempty"`
	// ShapeKey identifies the case for distinctness counting
	// (configuration shape | op-kind sequence | fault sites | schedule hash).
	ShapeKey   string `json:"shapeKey,omitempty"`
	Nontrivial bool   `json:"nontrivial,omitempty"`
	Digest     string `json:"digest,omitempty"`
	SchedHash  string `json:"schedHash,omitempty"`
	Tape       []int  `json:"tape,omitempty"`
	// KnownHits counts violations that matched a listed known finding
	// (description -> count); the run went on exploring after them.
	KnownHits map[string]int `json:"knownHits,omitempty"`
	// ReplayPlan, when set with a violation, is the reduced plan that
	// reproduces it (e.g. the single decisive fault out of an enumeration).
	ReplayPlan *Plan `json:"replayPlan,omitempty"`
	// Sample is a compact rendering of the case for the evidence file.
	Sample any `json:"sample,omitempty"`
}

// Record is one line of a worker's output.
type Record struct {
	Run     int      `json:"run"`
	Outcome *Outcome `json:"outcome"`
	Plan    *Plan    `json:"plan,omitempty"`
	WallMS  float64  `json:"wallMs"`
}

// Engine generates and executes plans for one or more properties.
type Engine interface {
	Name() string
	// Props lists the property ids served.
	Props() []string
	// Gen derives the plan for one run from r (already keyed by seed,
	// property and run index).
	Gen(prop, tier string, run int, r *simcore.Rand) *Plan
	// Exec executes a plan.
	Exec(rc *RunCtx, p *Plan) *Outcome
}

// RunCtx gives an engine its per-run facilities.
type RunCtx struct {
	Scratch string         // per-run scratch directory (removed afterwards)
	Sched   *simcore.Sched // non-nil when the plan runs in a bubble
	Env     *sim.Env
}

var (
	regMu   sync.Mutex
	engines = map[string]Engine{}
	byProp  = map[string]Engine{}
)

func Register(e Engine) {
	regMu.Lock()
	defer regMu.Unlock()
	engines[e.Name()] = e
	for _, p := range e.Props() {
		byProp[p] = e
	}
}

func EngineFor(prop string) Engine {
	regMu.Lock()
	defer regMu.Unlock()
	return byProp[prop]
}

func EngineByName(n string) Engine {
	regMu.Lock()
	defer regMu.Unlock()
	return engines[n]
}

func Props() []string {
	regMu.Lock()
	defer regMu.Unlock()
	var out []string
	for p := range byProp {
		out = append(out, p)
	}
	sort.Strings(out)
	return out
}

// Viol is a convenience constructor.
func Viol(class, sig, detail string, op int) *Violation {
	return &Violation{Class: class, Sig: sig, Detail: detail, OpIndex: op}
}

// MustJSON marshals or panics.
func MustJSON(v any) json.RawMessage {
	b, err := json.Marshal(v)
	if err != nil {
		panic(err)
	}
	return b
}

// --- known findings (read-only at run time) ---

type knownFinding struct {
	Property string `json:"property"`
	Sig      string `json:"sig"`
	What     string `json:"what"`
	re       *regexp.Regexp
}

var known []knownFinding

// LoadKnown reads KNOWN_FINDINGS.json.
func LoadKnown(path string) {
	b, err := os.ReadFile(path)
	if err != nil {
		return
	}
	var f struct {
		Findings []knownFinding `json:"findings"`
	}
	if json.Unmarshal(b, &f) != nil {
		return
	}
	for _, k := range f.Findings {
		re, err := regexp.Compile(k.Sig)
		if err != nil {
			continue
		}
		k.re = re
		known = append(known, k)
	}
}

// Known reports whether a violation signature is a listed known finding.
func Known(prop, sig string) (string, bool) {
	for _, k := range known {
		if k.Property == prop && k.re.MatchString(sig) {
			return k.What, true
		}
	}
	return "", false
}

// NoteKnown records a known-finding hit on the outcome.
func (o *Outcome) NoteKnown(what string) {
	if o.KnownHits == nil {
		o.KnownHits = map[string]int{}
	}
	o.KnownHits[what]++
}
