// Injected into perkeep's pkg/blobserver/files by the verification overlay
// (never committed to perkeep).
package files

// VerifWrapOSFS, when set, wraps the host-filesystem VFS that OSFS returns
// (the overlay routes OSFS's return value through verifWrapOSFS): the
// simulator's contract-checking VFS sits between the files store and osfs.go.
var VerifWrapOSFS func(VFS) VFS

func verifWrapOSFS(v VFS) VFS {
	if VerifWrapOSFS != nil {
		return VerifWrapOSFS(v)
	}
	return v
}
