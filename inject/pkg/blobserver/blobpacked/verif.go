package blobpacked

import "perkeep.org/pkg/blobserver"

// VerifSetMaxZipBlobSize lowers the maximum zip size of a blobpacked store so
// that multi-zip packs can be explored with small files. It touches nothing
// but storage.forceMaxZipBlobSize (the knob the package's own tests use).
func VerifSetMaxZipBlobSize(sto blobserver.Storage, n int) bool {
	s, ok := sto.(*storage)
	if ok {
		s.forceMaxZipBlobSize = n
	}
	return ok
}

// VerifCheckLargeIntegrity runs the store's own start-up integrity check (the
// one newFromConfig runs, fatal there unless keepGoing is set) and returns
// its complaint, or "" when the meta index accounts for every zip in large.
func VerifCheckLargeIntegrity(sto blobserver.Storage) string {
	s, ok := sto.(*storage)
	if !ok {
		return ""
	}
	if _, err := s.checkLargeIntegrity(); err != nil {
		return err.Error()
	}
	return ""
}
