package blobpacked

import "perkeep.org/pkg/blobserver"

// VerifSetMaxZipBlobSize lowers the maximum zip size of a blobpacked store so
// that multi-zip packs can be explored with small files. It touches nothing
// but storage.forceMaxZipBlobSize (the knob the package's own tests use).
func VerifSetMaxZipBlobSize(sto blobserver.Storage, n int) bool {
	s, ok := sto.(*storage)
	if ok {
		s.forceMaxZipBlobSize = n
	}
	return ok
}
