// Injected into perkeep's pkg/sorted/leveldb by the verification overlay
// (never committed to perkeep). goleveldb compacts tables on background
// goroutines at a time the simulator does not decide; this lets a run move
// everything past level 0 at a point its plan names, so that behaviour
// depending on the table layout is reached on purpose and replays.
package leveldb

import (
	"github.com/syndtr/goleveldb/leveldb/util"
	"perkeep.org/pkg/sorted"
)

// VerifCompact compacts the whole key range of a store made by this package.
// It reports false for any other store.
func VerifCompact(kv sorted.KeyValue) (bool, error) {
	is, ok := kv.(*kvis)
	if !ok {
		return false, nil
	}
	return true, is.db.CompactRange(util.Range{})
}
