// Injected into perkeep's pkg/auth by the verification overlay (never
// committed to perkeep).
package auth

// VerifFreshProcess forgets the lazily generated process token, as a newly
// started server process has it: the token exists only once something has
// asked for it (an authenticated discovery, the sync status page). A run of
// the simulator is one server process; the worker process that executes many
// runs is not.
func VerifFreshProcess() {
	processRand = ""
	verifZero(&processRandOnce)
}

// verifZero sets *p to its zero value (written without naming the type: under
// the simulator's overlay "sync" is the shim package).
func verifZero[T any](p *T) {
	var z T
	*p = z
}
