package index

// Accessors for the simulator (engines/indexsim). This file exists only in the
// build overlay, never in the repository. It touches nothing but the named
// unexported identifiers of Index: reindexWg, mu, needs, neededBy,
// readyReindex.

import "sort"

// VerifAwaitReindex waits until every asynchronous out-of-order re-indexing
// goroutine (indexReadyBlobs) spawned so far has finished.
func (x *Index) VerifAwaitReindex() { x.reindexWg.Wait() }

// VerifPending reports the sizes of the in-memory dependency maps.
func (x *Index) VerifPending() (needs, neededBy, readyReindex int) {
	x.mu.RLock()
	defer x.mu.RUnlock()
	return len(x.needs), len(x.neededBy), len(x.readyReindex)
}

// VerifNeeds lists the in-memory "have needs missing" edges, sorted, as
// "<have> <missing>" strings, and the refs sitting in readyReindex.
func (x *Index) VerifNeeds() (edges []string, ready []string) {
	x.mu.RLock()
	defer x.mu.RUnlock()
	for have, ms := range x.needs {
		for _, m := range ms {
			edges = append(edges, have.String()+" "+m.String())
		}
	}
	for br := range x.readyReindex {
		ready = append(ready, br.String())
	}
	sort.Strings(edges)
	sort.Strings(ready)
	return
}

// VerifSetReindexMaxProcs sets the number of goroutines Reindex uses.
func VerifSetReindexMaxProcs(n int) { SetReindexMaxProcs(n) }
