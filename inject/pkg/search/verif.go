package search

// Accessor for the simulator (engines/searchsim). This file exists only in
// the build overlay, never in the repository. It touches nothing but the
// unexported test hook candSourceHook.

// VerifSetCandSourceHook installs fn as the candidate-source hook: Query calls
// it with the name of the candidate source the planner picked. The simulator
// uses it only to RECORD which planner branch ran.
func VerifSetCandSourceHook(fn func(string)) { candSourceHook = fn }
