// Injected into perkeep's pkg/schema by the verification overlay (never
// committed to perkeep). Touches nothing but maxStaticSetMembers.
package schema

// VerifSetMaxStaticSetMembers sets the unexported static-set fan-out limit
// (a package variable, "not a const, so we can lower it during tests") and
// returns the previous value.
func VerifSetMaxStaticSetMembers(n int) (old int) {
	old = maxStaticSetMembers
	maxStaticSetMembers = n
	return old
}
