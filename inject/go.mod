module injectignored

go 1.25.3
