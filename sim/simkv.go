package sim

import (
	"errors"
	"sort"
	"sync"

	"go4.org/jsonconfig"
	"perkeep.org/pkg/sorted"

	"verif/simcore"
)

// KVState is the durable content of one simulated sorted key/value store.
type KVState struct {
	mu   sync.Mutex
	Name string
	M    map[string]string
	Log  []KVEvent
}

// KVEvent records a mutation of a KV (used by history oracles such as C19).
type KVEvent struct {
	Seq uint64
	Op  string // "set" | "delete"
	Key string
}

func NewKVState(name string) *KVState { return &KVState{Name: name, M: map[string]string{}} }

func (st *KVState) Snapshot() map[string]string {
	st.mu.Lock()
	defer st.mu.Unlock()
	m := make(map[string]string, len(st.M))
	for k, v := range st.M {
		m[k] = v
	}
	return m
}

func (st *KVState) Restore(m map[string]string) {
	st.mu.Lock()
	defer st.mu.Unlock()
	st.M = make(map[string]string, len(m))
	for k, v := range m {
		st.M[k] = v
	}
}

func (st *KVState) Wipe() {
	st.mu.Lock()
	st.M = map[string]string{}
	st.mu.Unlock()
}

func (st *KVState) Len() int {
	st.mu.Lock()
	defer st.mu.Unlock()
	return len(st.M)
}

// SimKV implements sorted.KeyValue and sorted.Wiper over a KVState.
type SimKV struct {
	Env *Env
	G   *Gen
	St  *KVState
}

var (
	_ sorted.KeyValue = (*SimKV)(nil)
	_ sorted.Wiper    = (*SimKV)(nil)
)

func (kv *SimKV) name() string { return kv.St.Name }

func (kv *SimKV) Get(key string) (string, error) {
	simcore.Yield("kv:" + kv.name() + ":get")
	kind, _ := kv.Env.Enter(kv.G, kv.name(), "Get", false)
	if kind == FErr || kind == FErrAfter {
		return "", injected(kv.name(), "Get", kind)
	}
	kv.St.mu.Lock()
	defer kv.St.mu.Unlock()
	v, ok := kv.St.M[key]
	if !ok {
		return "", sorted.ErrNotFound
	}
	return v, nil
}

func (kv *SimKV) Set(key, value string) error {
	if err := sorted.CheckSizes(key, value); err != nil {
		return nil // documented: silently skipped (see kv.go and every implementation)
	}
	simcore.Yield("kv:" + kv.name() + ":set")
	kind, _ := kv.Env.Enter(kv.G, kv.name(), "Set", true)
	if kind == FErr {
		return injected(kv.name(), "Set", kind)
	}
	kv.St.mu.Lock()
	kv.St.M[key] = value
	kv.St.Log = append(kv.St.Log, KVEvent{Seq: simcore.Seq(), Op: "set", Key: key})
	kv.St.mu.Unlock()
	if kind == FErrAfter {
		return injected(kv.name(), "Set", kind)
	}
	return nil
}

func (kv *SimKV) Delete(key string) error {
	simcore.Yield("kv:" + kv.name() + ":delete")
	kind, _ := kv.Env.Enter(kv.G, kv.name(), "Delete", true)
	if kind == FErr {
		return injected(kv.name(), "Delete", kind)
	}
	kv.St.mu.Lock()
	delete(kv.St.M, key)
	kv.St.Log = append(kv.St.Log, KVEvent{Seq: simcore.Seq(), Op: "delete", Key: key})
	kv.St.mu.Unlock()
	if kind == FErrAfter {
		return injected(kv.name(), "Delete", kind)
	}
	return nil
}

type simBatch struct {
	muts []simMut
}

type simMut struct {
	k, v string
	del  bool
}

func (b *simBatch) Set(key, value string) { b.muts = append(b.muts, simMut{k: key, v: value}) }
func (b *simBatch) Delete(key string)     { b.muts = append(b.muts, simMut{k: key, del: true}) }

func (kv *SimKV) BeginBatch() sorted.BatchMutation { return &simBatch{} }

func (kv *SimKV) CommitBatch(bm sorted.BatchMutation) error {
	b, ok := bm.(*simBatch)
	if !ok {
		return errors.New("simkv: invalid batch type")
	}
	simcore.Yield("kv:" + kv.name() + ":commit")
	kind, _ := kv.Env.Enter(kv.G, kv.name(), "CommitBatch", true)
	if kind == FErr {
		return injected(kv.name(), "CommitBatch", kind)
	}
	kv.St.mu.Lock()
	for _, m := range b.muts {
		if m.del {
			delete(kv.St.M, m.k)
			kv.St.Log = append(kv.St.Log, KVEvent{Seq: simcore.Seq(), Op: "delete", Key: m.k})
			continue
		}
		if sorted.CheckSizes(m.k, m.v) != nil {
			continue
		}
		kv.St.M[m.k] = m.v
		kv.St.Log = append(kv.St.Log, KVEvent{Seq: simcore.Seq(), Op: "set", Key: m.k})
	}
	kv.St.mu.Unlock()
	if kind == FErrAfter {
		return injected(kv.name(), "CommitBatch", kind)
	}
	return nil
}

type simIter struct {
	keys []string
	vals []string
	i    int
	err  error
	k, v string
}

func (it *simIter) Next() bool {
	if it.i >= len(it.keys) {
		return false
	}
	it.k, it.v = it.keys[it.i], it.vals[it.i]
	it.i++
	return true
}
func (it *simIter) Key() string        { return it.k }
func (it *simIter) KeyBytes() []byte   { return []byte(it.k) }
func (it *simIter) Value() string      { return it.v }
func (it *simIter) ValueBytes() []byte { return []byte(it.v) }
func (it *simIter) Close() error       { return it.err }

func (kv *SimKV) Find(start, end string) sorted.Iterator {
	simcore.Yield("kv:" + kv.name() + ":find")
	kind, arg := kv.Env.Enter(kv.G, kv.name(), "Find", false)
	it := &simIter{}
	if kind == FErr || kind == FErrAfter {
		it.err = injected(kv.name(), "Find", kind)
		return it
	}
	kv.St.mu.Lock()
	for k := range kv.St.M {
		if k >= start && (end == "" || k < end) {
			it.keys = append(it.keys, k)
		}
	}
	sort.Strings(it.keys)
	it.vals = make([]string, len(it.keys))
	for i, k := range it.keys {
		it.vals[i] = kv.St.M[k]
	}
	kv.St.mu.Unlock()
	if kind == FIterErr {
		if arg < len(it.keys) {
			it.keys, it.vals = it.keys[:arg], it.vals[:arg]
		}
		it.err = injected(kv.name(), "Find", kind)
	}
	return it
}

func (kv *SimKV) Close() error { return nil }

func (kv *SimKV) Wipe() error {
	kind, _ := kv.Env.Enter(kv.G, kv.name(), "Wipe", true)
	if kind == FErr {
		return injected(kv.name(), "Wipe", kind)
	}
	kv.St.Wipe()
	return nil
}

// KV registry: perkeep constructs index KVs from config {"type":"simkv","name":N}.
var (
	kvRegMu   sync.Mutex
	kvFactory func(name string) sorted.KeyValue
)

// SetKVFactory installs the function that resolves simkv names for the
// current run (the World).
func SetKVFactory(f func(name string) sorted.KeyValue) {
	kvRegMu.Lock()
	kvFactory = f
	kvRegMu.Unlock()
}

func init() {
	sorted.RegisterKeyValue("simkv", func(cfg jsonconfig.Obj) (sorted.KeyValue, error) {
		name := cfg.RequiredString("name")
		if err := cfg.Validate(); err != nil {
			return nil, err
		}
		kvRegMu.Lock()
		f := kvFactory
		kvRegMu.Unlock()
		if f == nil {
			return nil, errors.New("simkv: no factory installed")
		}
		return f(name), nil
	})
}
