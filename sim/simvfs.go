package sim

import (
	"bytes"
	"fmt"
	"io"
	"io/fs"
	"os"
	"path"
	"sort"
	"strings"
	"sync"
	"syscall"
	"time"

	"perkeep.org/pkg/blobserver/files"

	"verif/simcore"
)

// vfile is one regular file of a simulated file system: the page-cache view
// (Data) and how much of it has been fsynced (Synced).
type vfile struct {
	Data   []byte
	Synced int
}

// VFSState is a simulated file system: a set of directories and a map of
// regular files. Directory operations (create, rename, remove) are durable in
// program order; file data beyond the last Sync may be lost at a power-loss
// crash (see Crash).
type VFSState struct {
	mu    sync.Mutex
	Name  string
	Files map[string]*vfile
	Dirs  map[string]bool
	tmpN  int
}

func NewVFSState(name string) *VFSState {
	return &VFSState{Name: name, Files: map[string]*vfile{}, Dirs: map[string]bool{"/": true, "/blobs": true}}
}

// Clone deep-copies the file system (crash enumeration works on copies).
func (st *VFSState) Clone() *VFSState {
	st.mu.Lock()
	defer st.mu.Unlock()
	c := &VFSState{Name: st.Name, Files: map[string]*vfile{}, Dirs: map[string]bool{}, tmpN: st.tmpN}
	for k, v := range st.Files {
		c.Files[k] = &vfile{Data: append([]byte(nil), v.Data...), Synced: v.Synced}
	}
	for k := range st.Dirs {
		c.Dirs[k] = true
	}
	return c
}

// CopyFrom replaces the content of st with that of o.
func (st *VFSState) CopyFrom(o *VFSState) {
	c := o.Clone()
	st.mu.Lock()
	st.Files, st.Dirs, st.tmpN = c.Files, c.Dirs, c.tmpN
	st.mu.Unlock()
}

// Unsynced lists files that have data beyond their last Sync.
func (st *VFSState) Unsynced() []string {
	st.mu.Lock()
	defer st.mu.Unlock()
	var out []string
	for k, v := range st.Files {
		if v.Synced < len(v.Data) {
			out = append(out, k)
		}
	}
	sort.Strings(out)
	return out
}

// SyncedLen returns the durable and the page-cache length of a file.
func (st *VFSState) SyncedLen(name string) (synced, length int) {
	st.mu.Lock()
	defer st.mu.Unlock()
	if v, ok := st.Files[name]; ok {
		return v.Synced, len(v.Data)
	}
	return 0, 0
}

// Crash applies a power-loss: for every file with un-synced data, cut(name,
// synced, len) chooses how many bytes survive (synced <= n <= len).
func (st *VFSState) Crash(cut func(name string, synced, length int) int) {
	st.mu.Lock()
	defer st.mu.Unlock()
	names := make([]string, 0, len(st.Files))
	for k := range st.Files {
		names = append(names, k)
	}
	sort.Strings(names)
	for _, k := range names {
		v := st.Files[k]
		if v.Synced < len(v.Data) {
			n := cut(k, v.Synced, len(v.Data))
			if n < v.Synced {
				n = v.Synced
			}
			if n > len(v.Data) {
				n = len(v.Data)
			}
			v.Data = v.Data[:n]
		}
		v.Synced = len(v.Data)
	}
}

// FileNames lists all regular files.
func (st *VFSState) FileNames() []string {
	st.mu.Lock()
	defer st.mu.Unlock()
	var out []string
	for k := range st.Files {
		out = append(out, k)
	}
	sort.Strings(out)
	return out
}

// SimVFS implements files.VFS over a VFSState.
type SimVFS struct {
	Env *Env
	G   *Gen
	St  *VFSState
}

var _ files.VFS = (*SimVFS)(nil)

func (v *SimVFS) enter(method string, mut bool) error {
	simcore.Yield("vfs:" + v.St.Name + ":" + method)
	kind, _ := v.Env.Enter(v.G, v.St.Name, method, mut)
	if kind == FErr || kind == FErrAfter {
		return &os.PathError{Op: method, Path: v.St.Name, Err: fmt.Errorf("%w: EIO", ErrInjected)}
	}
	return nil
}

func clean(p string) string { return path.Clean("/" + p) }

func notExist(op, p string) error {
	return &os.PathError{Op: op, Path: p, Err: syscall.ENOENT}
}

func (v *SimVFS) Remove(p string) error {
	if err := v.enter("Remove", true); err != nil {
		return err
	}
	p = clean(p)
	v.St.mu.Lock()
	defer v.St.mu.Unlock()
	delete(v.St.Files, p)
	if v.St.Dirs[p] {
		v.removeTreeLocked(p)
	}
	return nil
}

func (v *SimVFS) removeTreeLocked(p string) {
	for k := range v.St.Files {
		if strings.HasPrefix(k, p+"/") {
			delete(v.St.Files, k)
		}
	}
	for k := range v.St.Dirs {
		if k == p || strings.HasPrefix(k, p+"/") {
			delete(v.St.Dirs, k)
		}
	}
}

func (v *SimVFS) RemoveDir(p string) error {
	if err := v.enter("RemoveDir", true); err != nil {
		return err
	}
	p = clean(p)
	v.St.mu.Lock()
	defer v.St.mu.Unlock()
	delete(v.St.Files, p)
	if v.St.Dirs[p] {
		v.removeTreeLocked(p)
	}
	return nil
}

type vinfo struct {
	name string
	size int64
	dir  bool
}

func (i vinfo) Name() string { return i.name }
func (i vinfo) Size() int64  { return i.size }
func (i vinfo) Mode() fs.FileMode {
	if i.dir {
		return fs.ModeDir | 0o700
	}
	return 0o600
}
func (i vinfo) ModTime() time.Time { return time.Unix(946684800, 0) }
func (i vinfo) IsDir() bool        { return i.dir }
func (i vinfo) Sys() any           { return nil }

func (v *SimVFS) stat(method, p string) (os.FileInfo, error) {
	if err := v.enter(method, false); err != nil {
		return nil, err
	}
	p = clean(p)
	v.St.mu.Lock()
	defer v.St.mu.Unlock()
	if f, ok := v.St.Files[p]; ok {
		return vinfo{name: path.Base(p), size: int64(len(f.Data))}, nil
	}
	if v.St.Dirs[p] {
		return vinfo{name: path.Base(p), dir: true}, nil
	}
	return nil, notExist(method, p)
}

func (v *SimVFS) Stat(p string) (os.FileInfo, error)  { return v.stat("Stat", p) }
func (v *SimVFS) Lstat(p string) (os.FileInfo, error) { return v.stat("Lstat", p) }

type vreadable struct {
	*bytes.Reader
}

func (vreadable) Close() error { return nil }

func (v *SimVFS) Open(p string) (files.ReadableFile, error) {
	if err := v.enter("Open", false); err != nil {
		return nil, err
	}
	p = clean(p)
	v.St.mu.Lock()
	defer v.St.mu.Unlock()
	f, ok := v.St.Files[p]
	if !ok {
		return nil, notExist("open", p)
	}
	return vreadable{bytes.NewReader(append([]byte(nil), f.Data...))}, nil
}

func (v *SimVFS) MkdirAll(p string, perm os.FileMode) error {
	if err := v.enter("MkdirAll", true); err != nil {
		return err
	}
	p = clean(p)
	v.St.mu.Lock()
	defer v.St.mu.Unlock()
	for d := p; d != "/" && d != "."; d = path.Dir(d) {
		if _, isFile := v.St.Files[d]; isFile {
			return &os.PathError{Op: "mkdir", Path: d, Err: syscall.ENOTDIR}
		}
		v.St.Dirs[d] = true
	}
	return nil
}

func (v *SimVFS) Rename(oldname, newname string) error {
	if err := v.enter("Rename", true); err != nil {
		return err
	}
	o, n := clean(oldname), clean(newname)
	v.St.mu.Lock()
	defer v.St.mu.Unlock()
	f, ok := v.St.Files[o]
	if !ok {
		return notExist("rename", o)
	}
	if !v.St.Dirs[path.Dir(n)] {
		return notExist("rename", n)
	}
	delete(v.St.Files, o)
	v.St.Files[n] = f
	return nil
}

type vwritable struct {
	v      *SimVFS
	f      *vfile
	name   string
	closed bool
}

func (w *vwritable) Name() string { return w.name }

func (w *vwritable) Write(p []byte) (int, error) {
	simcore.Yield("vfs:" + w.v.St.Name + ":Write")
	kind, _ := w.v.Env.Enter(w.v.G, w.v.St.Name, "Write", true)
	if w.closed {
		return 0, os.ErrClosed
	}
	switch kind {
	case FErr, FErrAfter:
		return 0, &os.PathError{Op: "write", Path: w.name, Err: fmt.Errorf("%w: EIO", ErrInjected)}
	case FShortWrite:
		n := len(p) / 2
		w.v.St.mu.Lock()
		w.f.Data = append(w.f.Data, p[:n]...)
		w.v.St.mu.Unlock()
		return n, &os.PathError{Op: "write", Path: w.name, Err: fmt.Errorf("%w: ENOSPC", ErrInjected)}
	}
	w.v.St.mu.Lock()
	w.f.Data = append(w.f.Data, p...)
	w.v.St.mu.Unlock()
	return len(p), nil
}

func (w *vwritable) Sync() error {
	if err := w.v.enter("Sync", true); err != nil {
		return err
	}
	w.v.St.mu.Lock()
	w.f.Synced = len(w.f.Data)
	w.v.St.mu.Unlock()
	return nil
}

func (w *vwritable) Close() error {
	if err := w.v.enter("Close", true); err != nil {
		w.closed = true
		return err
	}
	if w.closed {
		return os.ErrClosed
	}
	w.closed = true
	return nil
}

func (v *SimVFS) TempFile(dir, prefix string) (files.WritableFile, error) {
	if err := v.enter("TempFile", true); err != nil {
		return nil, err
	}
	d := clean(dir)
	v.St.mu.Lock()
	defer v.St.mu.Unlock()
	if !v.St.Dirs[d] {
		return nil, notExist("open", d)
	}
	v.St.tmpN++
	name := fmt.Sprintf("%s/%s%09d", d, prefix, v.St.tmpN)
	f := &vfile{}
	v.St.Files[name] = f
	return &vwritable{v: v, f: f, name: name}, nil
}

func (v *SimVFS) ReadDirNames(dir string) ([]string, error) {
	if err := v.enter("ReadDirNames", false); err != nil {
		return nil, err
	}
	d := clean(dir)
	v.St.mu.Lock()
	defer v.St.mu.Unlock()
	if !v.St.Dirs[d] {
		return nil, notExist("open", d)
	}
	seen := map[string]bool{}
	for k := range v.St.Files {
		if path.Dir(k) == d {
			seen[path.Base(k)] = true
		}
	}
	for k := range v.St.Dirs {
		if k != d && path.Dir(k) == d {
			seen[path.Base(k)] = true
		}
	}
	names := make([]string, 0, len(seen))
	for k := range seen {
		names = append(names, k)
	}
	// os.File.Readdirnames gives directory order, which is arbitrary; use a
	// deterministic but unsorted-looking order (reverse) so callers that
	// forget to sort are exposed.
	sort.Sort(sort.Reverse(sort.StringSlice(names)))
	return names, nil
}

var _ io.Writer = (*vwritable)(nil)

// ---------------------------------------------------------------------------
// RecVFS: the contract the crash model assumes of a files.VFS, asserted on the
// real one. The crash images of the files store are built over SimVFS, where
// "what a Sync covers" is exact by construction; the store that runs in
// production stands on osfs.go. RecVFS sits between the files store and
// that implementation and fails the call when
//   - Sync returns while bytes written before it are not in the file yet
//     (an fsync can only cover what has reached the file),
//   - Close leaves written bytes out of the file,
//   - Rename returns while the new name is missing or the old one still there,
//   - MkdirAll returns while the directory is missing.
//
// The error names the broken clause; every engine reports a receive that fails
// without an injected fault.
type RecVFS struct {
	Inner files.VFS
}

func (v *RecVFS) Remove(p string) error                     { return v.Inner.Remove(p) }
func (v *RecVFS) RemoveDir(p string) error                  { return v.Inner.RemoveDir(p) }
func (v *RecVFS) Stat(p string) (os.FileInfo, error)        { return v.Inner.Stat(p) }
func (v *RecVFS) Lstat(p string) (os.FileInfo, error)       { return v.Inner.Lstat(p) }
func (v *RecVFS) Open(p string) (files.ReadableFile, error) { return v.Inner.Open(p) }
func (v *RecVFS) ReadDirNames(d string) ([]string, error)   { return v.Inner.ReadDirNames(d) }

func (v *RecVFS) MkdirAll(p string, perm os.FileMode) error {
	if err := v.Inner.MkdirAll(p, perm); err != nil {
		return err
	}
	if fi, err := os.Stat(p); err != nil || !fi.IsDir() {
		return fmt.Errorf("host VFS contract: MkdirAll(%q) returned success but the directory is not there (%v)", p, err)
	}
	return nil
}

func (v *RecVFS) Rename(oldname, newname string) error {
	if err := v.Inner.Rename(oldname, newname); err != nil {
		return err
	}
	if _, err := os.Lstat(newname); err != nil {
		return fmt.Errorf("host VFS contract: Rename(%q, %q) returned success but the new name is missing: %v", oldname, newname, err)
	}
	if _, err := os.Lstat(oldname); err == nil && oldname != newname {
		return fmt.Errorf("host VFS contract: Rename(%q, %q) returned success but the old name is still there", oldname, newname)
	}
	return nil
}

type recWritable struct {
	files.WritableFile
	written int64
}

func (w *recWritable) Write(p []byte) (int, error) {
	n, err := w.WritableFile.Write(p)
	w.written += int64(n)
	return n, err
}

func (w *recWritable) inFile() (int64, error) {
	fi, err := os.Stat(w.Name())
	if err != nil {
		return 0, err
	}
	return fi.Size(), nil
}

func (w *recWritable) Sync() error {
	if err := w.WritableFile.Sync(); err != nil {
		return err
	}
	if n, err := w.inFile(); err != nil || n != w.written {
		return fmt.Errorf("host VFS contract: Sync of %q returned with %d of the %d bytes written so far in the file (%v): the fsync cannot have covered the rest, a power loss after the acknowledgement tears the blob", w.Name(), n, w.written, err)
	}
	return nil
}

func (w *recWritable) Close() error {
	name := w.Name()
	if err := w.WritableFile.Close(); err != nil {
		return err
	}
	if fi, err := os.Stat(name); err == nil && fi.Size() != w.written {
		return fmt.Errorf("host VFS contract: Close of %q left %d of the %d bytes written in the file", name, fi.Size(), w.written)
	}
	return nil
}

func (v *RecVFS) TempFile(dir, prefix string) (files.WritableFile, error) {
	f, err := v.Inner.TempFile(dir, prefix)
	if err != nil {
		return nil, err
	}
	return &recWritable{WritableFile: f}, nil
}
