package sim

import (
	"bytes"
	"fmt"
	"os"
	"sort"

	"perkeep.org/pkg/blob"
)

// Presence of a blob in the reference map.
type Presence int

const (
	Absent Presence = iota
	Present
	Maybe // only in fault-injecting configurations: a faulted mutation's outcome is not yet pinned
)

// Caps describes documented restrictions of the store under test.
type Caps struct {
	NoRemove   bool // RemoveBlobs unsupported (error expected, no effect)
	ReadOnly   bool // ReceiveBlob unsupported
	NoSubFetch bool
	// RemoveErrOK: remove returns an error other than ErrNotImplemented when unsupported.
}

// Model is the reference map from blobref to presence; bytes are determined
// by the ref (the pool), so only presence is stored.
type Model struct {
	Pool  []*TBlob
	State map[string]Presence // by ref string
	Caps  Caps
	byRef map[string]*TBlob
}

func NewModel(pool []*TBlob, caps Caps) *Model {
	m := &Model{Pool: pool, State: map[string]Presence{}, Caps: caps, byRef: map[string]*TBlob{}}
	for _, b := range pool {
		m.byRef[b.Ref.String()] = b
	}
	return m
}

func (m *Model) Get(i int) Presence { return m.State[m.Pool[i].Ref.String()] }
func (m *Model) Set(i int, p Presence) {
	m.State[m.Pool[i].Ref.String()] = p
}

// PresentRefs returns the sorted ref strings that are definitely present.
func (m *Model) PresentRefs() []string {
	var out []string
	for k, v := range m.State {
		if v == Present {
			out = append(out, k)
		}
	}
	sort.Strings(out)
	return out
}

func (m *Model) hasMaybe() bool {
	for _, v := range m.State {
		if v == Maybe {
			return true
		}
	}
	return false
}

// Clone copies the model state.
func (m *Model) Clone() *Model {
	c := &Model{Pool: m.Pool, State: map[string]Presence{}, Caps: m.Caps, byRef: m.byRef}
	for k, v := range m.State {
		c.State[k] = v
	}
	return c
}

// Check compares the result of op with the reference map and applies op's
// effect. faulted says an injected fault fired during the operation: then the
// operation may fail and, if it was a mutation, its targets become Maybe; it
// still may never return wrong data. The returned strings are violations.
// StrictUnderFaults: a read into which a fault was injected may fail, but when
// it reports success its answer must be complete, exactly as without the
// fault: an error must never turn into a shorter listing or an "absent".
// (VERIF_LENIENT_FAULTS=1 switches this off for comparison runs.)
var StrictUnderFaults = os.Getenv("VERIF_LENIENT_FAULTS") == ""

func (m *Model) Check(op Op, res Result, faulted bool) (viol []string) {
	bad := func(format string, args ...any) {
		viol = append(viol, fmt.Sprintf("%s: ", op.String())+fmt.Sprintf(format, args...))
	}
	ec := ErrClass(res.Err)
	if res.Err != nil && isPanic(res.Err) {
		bad("%v", res.Err)
		return
	}
	switch op.Kind {
	case "recv":
		b := m.Pool[op.B[0]]
		if m.Caps.ReadOnly {
			if res.Err == nil {
				bad("receive on read-only store succeeded")
			}
			return
		}
		if res.Err != nil {
			if !faulted {
				bad("receive failed without injected fault: %v", res.Err)
				return
			}
			if m.Get(op.B[0]) != Present {
				m.Set(op.B[0], Maybe)
			}
			return
		}
		if res.Sized.Ref != b.Ref || int(res.Sized.Size) != len(b.Data) {
			if !faulted {
				bad("receive returned %v, want %v size %d", res.Sized, b.Ref, len(b.Data))
			}
			// under a wrong-size fault the wrapper may pass the lie on; presence is unknown
			if m.Get(op.B[0]) != Present {
				m.Set(op.B[0], Maybe)
			}
			return
		}
		m.Set(op.B[0], Present)
	case "fetch":
		b := m.Pool[op.B[0]]
		st := m.Get(op.B[0])
		if res.Err != nil {
			if faulted {
				return
			}
			if st == Present {
				bad("fetch of present blob failed: %v", res.Err)
			} else if ec != "notexist" {
				bad("fetch of absent blob: error %q is not os.ErrNotExist", res.Err)
			}
			if st == Maybe && ec == "notexist" {
				m.Set(op.B[0], Absent)
			}
			return
		}
		if st == Absent {
			bad("fetch of absent blob succeeded (size %d)", res.Size)
			return
		}
		if res.ReadErr != nil {
			if !faulted {
				bad("fetch body read error: %v", res.ReadErr)
			}
			return
		}
		if !bytes.Equal(res.Data, b.Data) {
			bad("fetch returned wrong bytes (got %d bytes, want %d)", len(res.Data), len(b.Data))
			return
		}
		if int(res.Size) != len(b.Data) && !faulted {
			bad("fetch reported size %d, true size %d", res.Size, len(b.Data))
		}
		if st == Maybe {
			m.Set(op.B[0], Present)
		}
	case "sub":
		b := m.Pool[op.B[0]]
		st := m.Get(op.B[0])
		if m.Caps.NoSubFetch {
			return
		}
		if res.Err != nil {
			if faulted {
				return
			}
			neg := op.Off < 0 || op.Len < 0
			switch {
			case ec == "unimpl":
				// documented: treat the store as not implementing SubFetcher
			case neg && ec == "negative":
			case st != Present && ec == "notexist":
			case st != Absent && !neg && op.Off > int64(len(b.Data)) && ec == "outofrange":
			default:
				bad("sub-fetch (present=%v size=%d): unexpected error %v", st == Present, len(b.Data), res.Err)
			}
			return
		}
		if st == Absent {
			bad("sub-fetch of absent blob succeeded")
			return
		}
		if op.Off < 0 || op.Len < 0 {
			bad("sub-fetch with negative argument succeeded")
			return
		}
		if op.Off > int64(len(b.Data)) {
			bad("sub-fetch beyond the blob succeeded")
			return
		}
		if res.ReadErr != nil {
			if !faulted {
				bad("sub-fetch body read error: %v", res.ReadErr)
			}
			return
		}
		end := op.Off + op.Len
		if end > int64(len(b.Data)) {
			end = int64(len(b.Data))
		}
		if !bytes.Equal(res.Data, b.Data[op.Off:end]) {
			bad("sub-fetch returned wrong bytes: got %d bytes, want [%d:%d]", len(res.Data), op.Off, end)
		}
	case "stat":
		if res.Err != nil {
			if !faulted {
				bad("stat failed without injected fault: %v", res.Err)
			}
			// partial results must still be truthful
		}
		seen := map[string]bool{}
		for _, sb := range res.Stat {
			k := sb.Ref.String()
			if seen[k] {
				bad("stat reported %s twice", k)
			}
			seen[k] = true
			b, ok := m.byRef[k]
			if !ok {
				bad("stat reported unknown ref %s", k)
				continue
			}
			asked := false
			for _, bi := range op.B {
				if m.Pool[bi].Ref.String() == k {
					asked = true
				}
			}
			if !asked {
				bad("stat reported %s which was not asked for", k)
			}
			if m.State[k] == Absent {
				idx := -1
				for i, pb := range m.Pool {
					if pb.Ref.String() == k {
						idx = i
					}
				}
				bad("stat reported absent blob %s (blob #%d of the pool)", k, idx)
			}
			if int(sb.Size) != len(b.Data) {
				bad("stat reported size %d for %s, true size %d", sb.Size, k, len(b.Data))
			}
			if m.State[k] == Maybe {
				m.State[k] = Present
			}
		}
		if res.Err == nil && (!faulted || StrictUnderFaults) {
			for _, bi := range op.B {
				k := m.Pool[bi].Ref.String()
				if m.State[k] == Present && !seen[k] {
					bad("stat missed present blob %s", k)
				}
				if m.State[k] == Maybe && !seen[k] {
					m.State[k] = Absent
				}
			}
		}
	case "enum", "page", "enumall":
		if res.Late != nil && res.Late.Load() > 0 {
			bad("blobserver.EnumerateAll returned (error: %v) while its callback was still being called: %d calls began after the return", res.Err, res.Late.Load())
		}
		if res.Err != nil && !faulted {
			bad("enumerate failed without injected fault: %v", res.Err)
		}
		// always: sorted strictly ascending by ref text, after cursor, truthful
		prev := op.After
		for i, sb := range res.Enum {
			k := sb.Ref.String()
			if k <= prev && !(i == 0 && op.After == "" && false) {
				if i == 0 {
					bad("enumerate returned %s which is not after cursor %q", k, op.After)
				} else {
					bad("enumerate not strictly ascending: %s after %s", k, prev)
				}
			}
			prev = k
			b, ok := m.byRef[k]
			if !ok {
				bad("enumerate returned unknown ref %s", k)
				continue
			}
			if m.State[k] == Absent {
				bad("enumerate returned absent blob %s", k)
			}
			if int(sb.Size) != len(b.Data) {
				bad("enumerate reported size %d for %s, true size %d", sb.Size, k, len(b.Data))
			}
		}
		if op.Kind == "enum" && op.Limit > 0 && len(res.Enum) > op.Limit {
			bad("enumerate returned %d > limit %d", len(res.Enum), op.Limit)
		}
		if res.Err == nil && (!faulted || StrictUnderFaults) {
			// exactness: the definite members after the cursor, in order,
			// must appear; Maybe members may or may not.
			var want []string
			for _, k := range m.PresentRefs() {
				if k > op.After {
					want = append(want, k)
				}
			}
			got := map[string]bool{}
			for _, sb := range res.Enum {
				got[sb.Ref.String()] = true
			}
			if op.Kind == "page" || op.Kind == "enumall" || op.Limit <= 0 {
				for _, k := range want {
					if !got[k] {
						bad("enumerate (complete) missed present blob %s", k)
					}
				}
			} else {
				// single page: everything definite that sorts before the last
				// returned element must be there; if fewer than limit were
				// returned, everything must be there.
				full := len(res.Enum) < op.Limit
				last := ""
				if len(res.Enum) > 0 {
					last = res.Enum[len(res.Enum)-1].Ref.String()
				}
				for _, k := range want {
					if (full || k < last) && !got[k] {
						bad("enumerate page (limit %d, got %d) missed present blob %s", op.Limit, len(res.Enum), k)
					}
				}
			}
			if !m.hasMaybe() {
				// fully pinned: exact equality of the sequence
				exp := want
				if op.Kind == "enum" && op.Limit > 0 && len(exp) > op.Limit {
					exp = exp[:op.Limit]
				}
				if len(exp) != len(res.Enum) {
					bad("enumerate returned %d blobs, reference map says %d", len(res.Enum), len(exp))
				}
			}
		}
	case "remove":
		if m.Caps.NoRemove {
			if res.Err == nil {
				// a store without removal support must not pretend
				for _, bi := range op.B {
					if m.Get(bi) == Present {
						m.Set(bi, Maybe)
					}
				}
			}
			return
		}
		if res.Err != nil {
			if !faulted {
				bad("remove failed without injected fault: %v", res.Err)
				return
			}
			for _, bi := range op.B {
				if m.Get(bi) != Absent {
					m.Set(bi, Maybe)
				}
			}
			return
		}
		if faulted {
			for _, bi := range op.B {
				if m.Get(bi) != Absent {
					m.Set(bi, Maybe)
				}
			}
			return
		}
		for _, bi := range op.B {
			m.Set(bi, Absent)
		}
	}
	return
}

func isPanic(err error) bool {
	for e := err; e != nil; {
		if e == ErrPanic {
			return true
		}
		u, ok := e.(interface{ Unwrap() error })
		if !ok {
			return false
		}
		e = u.Unwrap()
	}
	return false
}

var _ = blob.Ref{}
