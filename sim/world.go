package sim

import (
	"fmt"
	"os"
	"path/filepath"
	"sync"
	"sync/atomic"
	shimsyncutil "verif/shim/syncutil"

	"go4.org/jsonconfig"
	"perkeep.org/pkg/blobserver"
	"perkeep.org/pkg/blobserver/files"
	"perkeep.org/pkg/blobserver/memory"
	"perkeep.org/pkg/blobserver/proxycache"
	"perkeep.org/pkg/sorted"

	// every backend the properties name, so CreateStorage knows them
	_ "perkeep.org/pkg/blobserver/blobpacked"
	_ "perkeep.org/pkg/blobserver/cond"
	_ "perkeep.org/pkg/blobserver/diskpacked"
	_ "perkeep.org/pkg/blobserver/encrypt"
	_ "perkeep.org/pkg/blobserver/localdisk"
	_ "perkeep.org/pkg/blobserver/namespace"
	_ "perkeep.org/pkg/blobserver/overlay"
	_ "perkeep.org/pkg/blobserver/replica"
	_ "perkeep.org/pkg/blobserver/shard"
	_ "perkeep.org/pkg/blobserver/union"
)

// Node is one element of a storage composition.
type Node struct {
	// Type: sim | memory | files | localdisk | diskpacked | blobpacked |
	// encrypt | replica | shard | cond | overlay | namespace | proxycache | union
	Type string  `json:"type"`
	Name string  `json:"name"`
	Kids []*Node `json:"kids,omitempty"`
	// Parameters (meaning depends on Type)
	MaxFileSize int   `json:"maxFileSize,omitempty"` // diskpacked
	Min         int   `json:"min,omitempty"`         // replica minWritesForSuccess
	NRead       int   `json:"nread,omitempty"`       // replica: first NRead kids are readBackends (0 = default)
	CacheBytes  int64 `json:"cacheBytes,omitempty"`  // proxycache maxCacheBytes / memory cache size
	// ReadKids (replica): explicit readBackends; may share nodes with Kids.
	ReadKids []*Node `json:"readKids,omitempty"`
	NoRemove bool    `json:"noRemove,omitempty"` // sim leaf without remove / cond without remove target / overlay without deleted
	// ShortPages (sim): see SimStore.ShortPages
	ShortPages int `json:"shortPages,omitempty"`
	// Gate (files): width of the new-file gate (localdisk derives one from
	// the descriptor limit; 0 = none, as files.NewStorage leaves it)
	Gate        int `json:"gate,omitempty"`
	ReadOnlyKid int `json:"-"`
}

// Walk visits n and all descendants.
func (n *Node) Walk(f func(*Node)) {
	f(n)
	for _, k := range n.Kids {
		k.Walk(f)
	}
	for _, k := range n.ReadKids {
		k.Walk(f)
	}
}

// Shape is a compact description of the composition.
func (n *Node) Shape() string {
	s := n.Type
	if len(n.Kids) > 0 {
		s += "("
		for i, k := range n.Kids {
			if i > 0 {
				s += ","
			}
			s += k.Shape()
		}
		s += ")"
	}
	return s
}

// World is the durable state of one simulated run: named leaf stores, named
// KVs, simulated file systems and scratch directories. Wrappers (real perkeep
// storage objects) are rebuilt over it for every process generation.
type World struct {
	Env    *Env
	Stores map[string]*StoreState
	KVs    map[string]*KVState
	VFSs   map[string]*VFSState
	Dir    string // scratch directory for real-file backends
	// DirOf overrides the directory of a real-file node (crash images).
	DirOf   map[string]string
	KeyFile string

	mu      sync.Mutex
	nodes   map[string]*Node // by prefix
	built   map[string]blobserver.Storage
	closers []func()
	gen     *Gen
}

func NewWorld(env *Env, scratch string) *World {
	w := &World{
		Env:    env,
		Stores: map[string]*StoreState{},
		KVs:    map[string]*KVState{},
		VFSs:   map[string]*VFSState{},
		Dir:    scratch,
		nodes:  map[string]*Node{},
		built:  map[string]blobserver.Storage{},
		gen:    env.Gen,
	}
	SetKVFactory(w.KV)
	return w
}

func (w *World) Store(name string) *StoreState {
	w.mu.Lock()
	defer w.mu.Unlock()
	st, ok := w.Stores[name]
	if !ok {
		st = NewStoreState(name)
		w.Stores[name] = st
	}
	return st
}

func (w *World) KVState(name string) *KVState {
	w.mu.Lock()
	defer w.mu.Unlock()
	st, ok := w.KVs[name]
	if !ok {
		st = NewKVState(name)
		w.KVs[name] = st
	}
	return st
}

// KV returns a fresh SimKV wrapper (current generation) over the named state.
func (w *World) KV(name string) sorted.KeyValue {
	st := w.KVState(name)
	w.mu.Lock()
	g := w.gen
	w.mu.Unlock()
	return &SimKV{Env: w.Env, G: g, St: st}
}

func (w *World) VFS(name string) *VFSState {
	w.mu.Lock()
	defer w.mu.Unlock()
	st, ok := w.VFSs[name]
	if !ok {
		st = NewVFSState(name)
		w.VFSs[name] = st
	}
	return st
}

// NodeDir is the directory a real-file node lives in.
func (w *World) NodeDir(name string) string {
	w.mu.Lock()
	defer w.mu.Unlock()
	if d, ok := w.DirOf[name]; ok {
		return d
	}
	return filepath.Join(w.Dir, name)
}

// SetNodeDir points a real-file node at another directory (a crash image).
func (w *World) SetNodeDir(name, dir string) {
	w.mu.Lock()
	defer w.mu.Unlock()
	if w.DirOf == nil {
		w.DirOf = map[string]string{}
	}
	w.DirOf[name] = dir
}

func prefixOf(name string) string { return "/" + name + "/" }

// Register makes every node of the tree known to the loader.
func (w *World) Register(root *Node) {
	w.mu.Lock()
	defer w.mu.Unlock()
	root.Walk(func(n *Node) { w.nodes[prefixOf(n.Name)] = n })
}

// Build constructs (or returns the already built) storage for root in the
// current generation.
func (w *World) Build(root *Node) (blobserver.Storage, error) {
	w.Register(root)
	return w.GetStorage(prefixOf(root.Name))
}

// Restart discards every wrapper and starts a new generation: Closers are
// called when graceful, the old generation's seam handles are killed when not.
func (w *World) Restart(graceful bool) {
	w.mu.Lock()
	closers := w.closers
	w.closers = nil
	old := w.gen
	w.built = map[string]blobserver.Storage{}
	w.mu.Unlock()
	if graceful {
		for i := len(closers) - 1; i >= 0; i-- {
			closers[i]()
		}
	} else {
		old.Kill()
		shimsyncutil.VerifProcessDied()
	}
	g := w.Env.NewGen()
	w.mu.Lock()
	w.gen = g
	w.mu.Unlock()
}

// --- the "verifsim" storage type ---
//
// perkeep's low-level server configuration names storage types; "verifsim" is
// registered here so that a whole server built by serverinit can stand on a
// simulated store (with the run's fault plan) instead of a real one. The hook
// says which store a name means in the current run.

var simStorageHook atomic.Value // func(name string) (blobserver.Storage, error)

// SetSimStorageHook installs the resolver of "verifsim" handler arguments.
func SetSimStorageHook(f func(name string) (blobserver.Storage, error)) { simStorageHook.Store(f) }

func init() {
	blobserver.RegisterStorageConstructor("verifsim", func(_ blobserver.Loader, conf jsonconfig.Obj) (blobserver.Storage, error) {
		name := conf.RequiredString("name")
		if err := conf.Validate(); err != nil {
			return nil, err
		}
		f, _ := simStorageHook.Load().(func(name string) (blobserver.Storage, error))
		if f == nil {
			return nil, fmt.Errorf("verifsim storage %q: no simulated world in this run", name)
		}
		return f(name)
	})
}

// --- blobserver.Loader ---

func (w *World) FindHandlerByType(string) (string, any, error) {
	return "", nil, blobserver.ErrHandlerTypeNotFound
}
func (w *World) AllHandlers() (map[string]string, map[string]any) { return nil, nil }
func (w *World) MyPrefix() string                                 { return "/sim/" }
func (w *World) BaseURL() string                                  { return "http://sim.invalid" }
func (w *World) GetHandlerType(prefix string) string {
	w.mu.Lock()
	defer w.mu.Unlock()
	if n, ok := w.nodes[prefix]; ok {
		return "storage-" + n.Type
	}
	return ""
}
func (w *World) GetHandler(prefix string) (any, error) { return w.GetStorage(prefix) }

func (w *World) GetStorage(prefix string) (blobserver.Storage, error) {
	w.mu.Lock()
	if s, ok := w.built[prefix]; ok {
		w.mu.Unlock()
		return s, nil
	}
	n, ok := w.nodes[prefix]
	g := w.gen
	w.mu.Unlock()
	if !ok {
		return nil, fmt.Errorf("sim loader: unknown prefix %q", prefix)
	}
	s, err := w.construct(n, g)
	if err != nil {
		return nil, fmt.Errorf("sim loader: building %s (%s): %w", prefix, n.Type, err)
	}
	w.mu.Lock()
	w.built[prefix] = s
	if c, ok := s.(interface{ Close() error }); ok {
		w.closers = append(w.closers, func() { c.Close() })
	}
	w.mu.Unlock()
	return s, nil
}

// FilesGateHook, set by an engine package (the accessor it calls exists only
// under the overlay), gives a files store a new-file gate of the given width.
var FilesGateHook func(fs *files.Storage, width int)

func kvConf(name string) map[string]any { return map[string]any{"type": "simkv", "name": name} }

func (w *World) kid(n *Node, i int) string { return prefixOf(n.Kids[i].Name) }

func (w *World) construct(n *Node, g *Gen) (blobserver.Storage, error) {
	switch n.Type {
	case "sim":
		return &SimStore{Env: w.Env, G: g, St: w.Store(n.Name), NoRemove: n.NoRemove, ShortPages: n.ShortPages}, nil
	case "memory":
		// process memory: contents do not survive a restart by design; the
		// engines never restart compositions containing it as a leaf.
		return &memory.Storage{}, nil
	case "files":
		fs := files.NewStorage(&SimVFS{Env: w.Env, G: g, St: w.VFS(n.Name)}, "/blobs")
		if n.Gate > 0 && FilesGateHook != nil {
			FilesGateHook(fs, n.Gate)
		}
		return fs, nil
	case "localdisk":
		dir := filepath.Join(w.Dir, n.Name)
		if err := os.MkdirAll(dir, 0o755); err != nil {
			return nil, err
		}
		return blobserver.CreateStorage("filesystem", w, jsonconfig.Obj{"path": dir})
	case "diskpacked":
		dir := w.NodeDir(n.Name)
		if err := os.MkdirAll(dir, 0o755); err != nil {
			return nil, err
		}
		conf := jsonconfig.Obj{"path": dir, "metaIndex": kvConf(n.Name + ".idx")}
		if n.MaxFileSize > 0 {
			conf["maxFileSize"] = float64(n.MaxFileSize)
		}
		return blobserver.CreateStorage("diskpacked", w, conf)
	case "blobpacked":
		return blobserver.CreateStorage("blobpacked", w, jsonconfig.Obj{
			"smallBlobs": w.kid(n, 0),
			"largeBlobs": w.kid(n, 1),
			"metaIndex":  kvConf(n.Name + ".meta"),
			"keepGoing":  true,
		})
	case "encrypt":
		if w.KeyFile == "" {
			return nil, fmt.Errorf("encrypt: world has no key file")
		}
		return blobserver.CreateStorage("encrypt", w, jsonconfig.Obj{
			"I_AGREE":   "that encryption support hasn't been peer-reviewed, isn't finished, and its format might change.",
			"keyFile":   w.KeyFile,
			"blobs":     w.kid(n, 0),
			"meta":      w.kid(n, 1),
			"metaIndex": kvConf(n.Name + ".idx"),
		})
	case "replica":
		var all []any
		for i := range n.Kids {
			all = append(all, w.kid(n, i))
		}
		conf := jsonconfig.Obj{"backends": all}
		if n.Min > 0 {
			conf["minWritesForSuccess"] = float64(n.Min)
		}
		if n.NRead > 0 {
			conf["readBackends"] = all[:n.NRead]
		}
		if len(n.ReadKids) > 0 {
			var rd []any
			for _, k := range n.ReadKids {
				rd = append(rd, prefixOf(k.Name))
			}
			conf["readBackends"] = rd
		}
		return blobserver.CreateStorage("replica", w, conf)
	case "shard":
		var all []any
		for i := range n.Kids {
			all = append(all, w.kid(n, i))
		}
		return blobserver.CreateStorage("shard", w, jsonconfig.Obj{"backends": all})
	case "union":
		var all []any
		for i := range n.Kids {
			all = append(all, w.kid(n, i))
		}
		return blobserver.CreateStorage("union", w, jsonconfig.Obj{"subsets": all})
	case "cond":
		// kids: [0]=then(schema) [1]=else(other) [2]=read [3]=remove (optional)
		conf := jsonconfig.Obj{
			"write": map[string]any{"if": "isSchema", "then": w.kid(n, 0), "else": w.kid(n, 1)},
			"read":  w.kid(n, 2),
		}
		if len(n.Kids) > 3 {
			conf["remove"] = w.kid(n, 3)
		}
		return blobserver.CreateStorage("cond", w, conf)
	case "overlay":
		conf := jsonconfig.Obj{"lower": w.kid(n, 0), "upper": w.kid(n, 1)}
		if !n.NoRemove {
			conf["deleted"] = kvConf(n.Name + ".deleted")
		}
		return blobserver.CreateStorage("overlay", w, conf)
	case "namespace":
		return blobserver.CreateStorage("namespace", w, jsonconfig.Obj{
			"storage":   w.kid(n, 0),
			"inventory": kvConf(n.Name + ".inv"),
		})
	case "proxycache":
		origin, err := w.GetStorage(w.kid(n, 0))
		if err != nil {
			return nil, err
		}
		// over an evicting memory cache whose own bound is looser than the
		// proxy's accounting bound, as serverinit configures it
		cache := memory.NewCache(n.CacheBytes * 2)
		if n.CacheBytes == 0 {
			cache = memory.NewCache(1)
		}
		return proxycache.New(n.CacheBytes, cache, origin), nil
	}
	return nil, fmt.Errorf("unknown node type %q", n.Type)
}
