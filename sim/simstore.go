package sim

import (
	"bytes"
	"context"
	"errors"
	"fmt"
	"io"
	"os"
	"sort"
	"sync"
	"sync/atomic"

	"perkeep.org/pkg/blob"
	"perkeep.org/pkg/blobserver"

	"verif/simcore"
)

// StoreState is the durable content of one simulated leaf blob store. It
// survives restarts; SimStore wrappers do not.
type StoreState struct {
	mu   sync.Mutex
	Name string
	M    map[string][]byte
	// Log of mutations: "+ref" / "-ref", with the event sequence number.
	Log []StoreEvent
}

type StoreEvent struct {
	Seq uint64
	// Op: "recv" (effect applied) | "recv-ret" (the leaf's ReceiveBlob is about
	// to return; OK = it reports success with the right size) | "remove"
	Op  string
	Ref string
	OK  bool
}

// LogEvent appends to the mutation log.
func (st *StoreState) LogEvent(op, ref string, ok bool) {
	st.mu.Lock()
	st.Log = append(st.Log, StoreEvent{Seq: simcore.Seq(), Op: op, Ref: ref, OK: ok})
	st.mu.Unlock()
}

func NewStoreState(name string) *StoreState {
	return &StoreState{Name: name, M: map[string][]byte{}}
}

func (st *StoreState) Snapshot() map[string][]byte {
	st.mu.Lock()
	defer st.mu.Unlock()
	m := make(map[string][]byte, len(st.M))
	for k, v := range st.M {
		m[k] = v
	}
	return m
}

func (st *StoreState) Restore(m map[string][]byte) {
	st.mu.Lock()
	defer st.mu.Unlock()
	st.M = make(map[string][]byte, len(m))
	for k, v := range m {
		st.M[k] = v
	}
}

func (st *StoreState) Has(ref string) bool {
	st.mu.Lock()
	defer st.mu.Unlock()
	_, ok := st.M[ref]
	return ok
}

func (st *StoreState) Get(ref string) ([]byte, bool) {
	st.mu.Lock()
	defer st.mu.Unlock()
	b, ok := st.M[ref]
	return b, ok
}

func (st *StoreState) Put(ref string, b []byte) {
	st.mu.Lock()
	defer st.mu.Unlock()
	st.M[ref] = b
}

func (st *StoreState) Del(ref string) {
	st.mu.Lock()
	defer st.mu.Unlock()
	delete(st.M, ref)
}

func (st *StoreState) Refs() []string {
	st.mu.Lock()
	defer st.mu.Unlock()
	ks := make([]string, 0, len(st.M))
	for k := range st.M {
		ks = append(ks, k)
	}
	sort.Strings(ks)
	return ks
}

func (st *StoreState) Len() int {
	st.mu.Lock()
	defer st.mu.Unlock()
	return len(st.M)
}

// SimStore is a blobserver.Storage + blob.SubFetcher leaf over a StoreState,
// with a scheduling point and a fault-plan lookup around every call.
type SimStore struct {
	Env *Env
	G   *Gen
	St  *StoreState
	// NoRemove makes RemoveBlobs return ErrNotImplemented.
	NoRemove bool
	// ShortPages > 0: EnumerateBlobs sends at most that many blobs per call,
	// whatever the limit (the BlobEnumerator contract says "at most limit";
	// some remote stores send less while more follow). Only for stores that
	// perkeep reads through blobserver.EnumerateAll alone (which goes on
	// until a call yields nothing): perkeep's merging and paging wrappers
	// take a short page for the end, so it is not used under them.
	ShortPages int
}

var (
	_ blobserver.Storage = (*SimStore)(nil)
	_ blob.SubFetcher    = (*SimStore)(nil)
)

func (s *SimStore) name() string { return s.St.Name }

func (s *SimStore) Fetch(ctx context.Context, br blob.Ref) (io.ReadCloser, uint32, error) {
	simcore.Yield("ss:" + s.name() + ":fetch")
	kind, _ := s.Env.Enter(s.G, s.name(), "Fetch", false)
	switch kind {
	case FErr, FErrAfter:
		return nil, 0, injected(s.name(), "Fetch", kind)
	}
	b, ok := s.St.Get(br.String())
	if !ok {
		return nil, 0, os.ErrNotExist
	}
	switch kind {
	case FShortRead:
		cut := len(b) / 2
		return io.NopCloser(io.MultiReader(bytes.NewReader(b[:cut]), errReader{injected(s.name(), "Fetch", kind)})), uint32(len(b)), nil
	case FCorrupt:
		if len(b) > 0 {
			c := append([]byte(nil), b...)
			c[len(c)/2] ^= 0x20
			b = c
		}
	case FWrongSize:
		return body(b), uint32(len(b)) + 1, nil
	}
	return body(b), uint32(len(b)), nil
}

// readerMode: see harness.Plan.Reader. One value per run (worker processes
// execute runs one after the other).
var readerMode atomic.Value

// SetReaderMode selects how the bodies of Fetch and SubFetch behave as Readers.
func SetReaderMode(m string) { readerMode.Store(m) }

// body wraps stored bytes as the reader a fetch hands out.
func body(b []byte) io.ReadCloser {
	m, _ := readerMode.Load().(string)
	switch m {
	case "eof":
		return io.NopCloser(&quirkReader{b: b})
	case "short":
		return io.NopCloser(&quirkReader{b: b, max: 1 + len(b)/3})
	}
	return io.NopCloser(bytes.NewReader(b))
}

// quirkReader returns its last bytes together with io.EOF and, with max > 0,
// at most max bytes per call.
type quirkReader struct {
	b   []byte
	max int
}

func (q *quirkReader) Read(p []byte) (int, error) {
	if len(p) == 0 {
		return 0, nil
	}
	n := len(q.b)
	if n > len(p) {
		n = len(p)
	}
	if q.max > 0 && n > q.max {
		n = q.max
	}
	copy(p, q.b[:n])
	q.b = q.b[n:]
	if len(q.b) == 0 {
		return n, io.EOF
	}
	return n, nil
}

type errReader struct{ err error }

func (e errReader) Read([]byte) (int, error) { return 0, e.err }

func (s *SimStore) SubFetch(ctx context.Context, br blob.Ref, offset, length int64) (io.ReadCloser, error) {
	simcore.Yield("ss:" + s.name() + ":subfetch")
	kind, _ := s.Env.Enter(s.G, s.name(), "SubFetch", false)
	if kind == FErr || kind == FErrAfter {
		return nil, injected(s.name(), "SubFetch", kind)
	}
	if offset < 0 || length < 0 {
		return nil, blob.ErrNegativeSubFetch
	}
	b, ok := s.St.Get(br.String())
	if !ok {
		return nil, os.ErrNotExist
	}
	if offset > int64(len(b)) {
		return nil, blob.ErrOutOfRangeOffsetSubFetch
	}
	end := offset + length
	if end > int64(len(b)) {
		end = int64(len(b))
	}
	part := b[offset:end]
	switch kind {
	case FShortRead:
		return io.NopCloser(io.MultiReader(bytes.NewReader(part[:len(part)/2]), errReader{injected(s.name(), "SubFetch", kind)})), nil
	case FCorrupt:
		if len(part) > 0 {
			c := append([]byte(nil), part...)
			c[len(c)/2] ^= 0x20
			part = c
		}
	}
	return body(part), nil
}

func (s *SimStore) ReceiveBlob(ctx context.Context, br blob.Ref, source io.Reader) (blob.SizedRef, error) {
	simcore.Yield("ss:" + s.name() + ":recv")
	// (a slow store is slow before it has read what it is given: a caller
	// that hands the same buffer to somebody else meanwhile is found out)
	kind, _ := s.Env.Enter(s.G, s.name(), "ReceiveBlob", true)
	all, err := io.ReadAll(source)
	if err != nil {
		return blob.SizedRef{}, err
	}
	if kind == FErr {
		s.St.LogEvent("recv-ret", br.String(), false)
		return blob.SizedRef{}, injected(s.name(), "ReceiveBlob", kind)
	}
	if kind == FErrNoEnt {
		s.St.LogEvent("recv-ret", br.String(), false)
		return blob.SizedRef{}, fmt.Errorf("%w: open of the blob's directory: %w", injected(s.name(), "ReceiveBlob", kind), os.ErrNotExist)
	}
	if kind == FShortStore && len(all) > 0 {
		short := all[:len(all)-1]
		s.St.mu.Lock()
		if _, had := s.St.M[br.String()]; !had {
			s.St.M[br.String()] = short
		}
		s.St.Log = append(s.St.Log, StoreEvent{Seq: simcore.Seq(), Op: "recv", Ref: br.String(), OK: false})
		s.St.mu.Unlock()
		s.St.LogEvent("recv-ret", br.String(), false)
		return blob.SizedRef{Ref: br, Size: uint32(len(short))}, nil
	}
	s.St.mu.Lock()
	if _, had := s.St.M[br.String()]; !had {
		s.St.M[br.String()] = all
	}
	s.St.Log = append(s.St.Log, StoreEvent{Seq: simcore.Seq(), Op: "recv", Ref: br.String(), OK: kind == "" || kind == FErrAfter})
	s.St.mu.Unlock()
	simcore.Yield("ss:" + s.name() + ":recv-done")
	switch kind {
	case FErrAfter:
		s.St.LogEvent("recv-ret", br.String(), false)
		return blob.SizedRef{}, injected(s.name(), "ReceiveBlob", kind)
	case FWrongSize:
		s.St.LogEvent("recv-ret", br.String(), false)
		return blob.SizedRef{Ref: br, Size: uint32(len(all)) + 1}, nil
	}
	s.St.LogEvent("recv-ret", br.String(), true)
	return blob.SizedRef{Ref: br, Size: uint32(len(all))}, nil
}

func (s *SimStore) StatBlobs(ctx context.Context, blobs []blob.Ref, fn func(blob.SizedRef) error) error {
	simcore.Yield("ss:" + s.name() + ":stat")
	kind, _ := s.Env.Enter(s.G, s.name(), "StatBlobs", false)
	if kind == FErr || kind == FErrAfter {
		return injected(s.name(), "StatBlobs", kind)
	}
	for _, br := range blobs {
		b, ok := s.St.Get(br.String())
		if !ok {
			continue
		}
		if err := fn(blob.SizedRef{Ref: br, Size: uint32(len(b))}); err != nil {
			return err
		}
	}
	return nil
}

func (s *SimStore) EnumerateBlobs(ctx context.Context, dest chan<- blob.SizedRef, after string, limit int) error {
	defer close(dest)
	simcore.Yield("ss:" + s.name() + ":enum")
	kind, arg := s.Env.Enter(s.G, s.name(), "EnumerateBlobs", false)
	if kind == FErr || kind == FErrAfter {
		return injected(s.name(), "EnumerateBlobs", kind)
	}
	snap := s.St.Snapshot()
	refs := make([]string, 0, len(snap))
	for k := range snap {
		if after == "" || k > after {
			refs = append(refs, k)
		}
	}
	sort.Strings(refs)
	n := 0
	for _, r := range refs {
		if kind == FIterErr && n >= arg {
			return injected(s.name(), "EnumerateBlobs", kind)
		}
		br, ok := blob.Parse(r)
		if !ok {
			continue
		}
		select {
		case dest <- blob.SizedRef{Ref: br, Size: uint32(len(snap[r]))}:
		case <-ctx.Done():
			return ctx.Err()
		}
		n++
		if limit > 0 && n == limit {
			break
		}
		if s.ShortPages > 0 && n == s.ShortPages {
			// a store that sends fewer blobs per call than it was asked for
			// ("at most limit"): more follow after the last one sent
			break
		}
	}
	if kind == FIterErr {
		return injected(s.name(), "EnumerateBlobs", kind)
	}
	return nil
}

func (s *SimStore) RemoveBlobs(ctx context.Context, blobs []blob.Ref) error {
	if s.NoRemove {
		return blobserver.ErrNotImplemented
	}
	simcore.Yield("ss:" + s.name() + ":remove")
	kind, _ := s.Env.Enter(s.G, s.name(), "RemoveBlobs", true)
	if kind == FErr {
		return injected(s.name(), "RemoveBlobs", kind)
	}
	s.St.mu.Lock()
	for _, br := range blobs {
		delete(s.St.M, br.String())
		s.St.Log = append(s.St.Log, StoreEvent{Seq: simcore.Seq(), Op: "remove", Ref: br.String(), OK: true})
	}
	s.St.mu.Unlock()
	simcore.Yield("ss:" + s.name() + ":remove-done")
	if kind == FErrAfter {
		return injected(s.name(), "RemoveBlobs", kind)
	}
	return nil
}

// IsInjected reports whether err stems from an injected fault.
func IsInjected(err error) bool { return errors.Is(err, ErrInjected) }
