// Package sim holds the simulated components (SimStore, SimKV, SimVFS, ...),
// the fault plan they consult, the harness Loader that builds compositions of
// real perkeep storage backends over them, and the reference models.
package sim

import (
	"errors"
	"fmt"
	"sort"
	"sync"
	"time"

	"verif/simcore"
)

// ErrInjected is the root of every injected failure.
var ErrInjected = errors.New("sim: injected fault")

// Fault kinds.
const (
	FErr        = "err"        // fail, no effect
	FErrAfter   = "err-after"  // effect applied, then error returned (lost ack)
	FWrongSize  = "wrong-size" // receive reports size+1 (effect applied)
	FShortRead  = "short-read" // fetch body ends early with an error
	FCorrupt    = "corrupt"    // fetch body has one flipped byte
	FSlow       = "slow"       // virtual delay, then normal
	FCrash      = "crash"      // process dies before this call
	FIterErr    = "iter-err"   // KV iterator reports error at Close / enumerate errors after j
	FShortWrite = "short-write"
	FShortStore = "short-store" // receive keeps a copy one byte short and reports that size (a misbehaving replica)
	FErrNoEnt   = "err-noent"   // fail, no effect, with an error that wraps os.ErrNotExist (a directory of the store briefly missing)
)

// Fault addresses one lower-layer call.
type Fault struct {
	// Op/K: the K-th (1-based) lower-layer call made while client operation
	// Op was current. Op < 0 means "Call is a global 1-based call index".
	Op   int    `json:"op"`
	K    int    `json:"k,omitempty"`
	Call int    `json:"call,omitempty"`
	Kind string `json:"kind"`
	// Seam restricts the fault to calls on the named seam ("" = any).
	Seam   string `json:"seam,omitempty"`
	Method string `json:"method,omitempty"`
	// Burst: number of consecutive matching calls that fail (default 1).
	Burst int `json:"burst,omitempty"`
	// Mutating restricts K counting to mutating calls.
	Mutating bool `json:"mut,omitempty"`
	Arg      int  `json:"arg,omitempty"`
}

// CallRec is one recorded lower-layer call.
type CallRec struct {
	Op     int    `json:"op"`
	K      int    `json:"k"`
	Seam   string `json:"seam"`
	Method string `json:"m"`
	Mut    bool   `json:"mut,omitempty"`
}

// Gen is one process generation; a crash kills it.
type Gen struct {
	mu   sync.Mutex
	dead bool
	N    int
}

func (g *Gen) Dead() bool {
	g.mu.Lock()
	defer g.mu.Unlock()
	return g.dead
}

func (g *Gen) Kill() {
	g.mu.Lock()
	g.dead = true
	g.mu.Unlock()
}

// Env is the per-run fault plan, call counters and statistics shared by all
// seams of a run.
type Env struct {
	mu sync.Mutex

	Faults []Fault
	// burst bookkeeping: remaining failures per fault index
	remaining map[int]int

	CurOp    int
	opCalls  int
	opMut    int
	opSeam   map[string]int
	calls    int
	Record   bool
	Trace    []CallRec
	Fired    map[string]int
	Reached  map[string]int
	CallsBy  map[string]int
	FaultsOn bool

	Gen     *Gen
	OnCrash func()
	crashCh chan struct{}

	SlowDur time.Duration
}

func NewEnv() *Env {
	return &Env{
		remaining: map[int]int{},
		Fired:     map[string]int{},
		Reached:   map[string]int{},
		CallsBy:   map[string]int{},
		Gen:       &Gen{},
		CurOp:     -1,
		FaultsOn:  true,
		SlowDur:   3 * time.Second,
		crashCh:   make(chan struct{}, 1),
	}
}

// Reach increments a rare-branch probe.
func (e *Env) Reach(name string) {
	e.mu.Lock()
	e.Reached[name]++
	e.mu.Unlock()
}

// BeginOp marks the start of client operation i (sequential engines).
func (e *Env) BeginOp(i int) {
	e.mu.Lock()
	e.CurOp = i
	e.opCalls = 0
	e.opMut = 0
	e.opSeam = map[string]int{}
	e.mu.Unlock()
}

// NewGen starts a new process generation (after a crash or restart).
func (e *Env) NewGen() *Gen {
	e.mu.Lock()
	defer e.mu.Unlock()
	e.Gen = &Gen{N: e.Gen.N + 1}
	return e.Gen
}

// CrashCh is signalled when a crash fault fires.
func (e *Env) CrashCh() <-chan struct{} { return e.crashCh }

// Calls is the number of lower-layer calls so far.
func (e *Env) Calls() int {
	e.mu.Lock()
	defer e.mu.Unlock()
	return e.calls
}

// Enter is called by every seam method before its effect. It returns the
// fault kind to apply ("" for none). It blocks forever if the generation the
// seam belongs to is dead, or if a crash fault fires here.
func (e *Env) Enter(g *Gen, seam, method string, mutating bool) (kind string, arg int) {
	if g != nil && g.Dead() {
		select {}
	}
	e.mu.Lock()
	e.calls++
	e.opCalls++
	if mutating {
		e.opMut++
	}
	if e.opSeam == nil {
		e.opSeam = map[string]int{}
	}
	e.opSeam[seam]++
	e.opSeam[seam+"."+method]++
	e.CallsBy[seam+"."+method]++
	if e.Record {
		e.Trace = append(e.Trace, CallRec{Op: e.CurOp, K: e.opCalls, Seam: seam, Method: method, Mut: mutating})
	}
	if e.FaultsOn {
		for i := range e.Faults {
			f := &e.Faults[i]
			if f.Seam != "" && f.Seam != seam {
				continue
			}
			hit := false
			if rem, ok := e.remaining[i]; ok {
				if rem > 0 {
					hit = true
					e.remaining[i] = rem - 1
				}
			} else {
				if f.Op >= 0 {
					k := e.opCalls
					if f.Seam != "" {
						// K counts calls on the named seam only; with
						// Method, calls of that method on that seam
						k = e.opSeam[seam]
						if f.Method != "" {
							if f.Method != method {
								continue
							}
							k = e.opSeam[seam+"."+method]
						}
					}
					if f.Mutating {
						k = e.opMut
						if !mutating {
							continue
						}
					}
					hit = f.Op == e.CurOp && f.K == k
				} else {
					hit = f.Call == e.calls
				}
				if hit {
					b := f.Burst
					if b < 1 {
						b = 1
					}
					e.remaining[i] = b - 1
				}
			}
			if hit {
				kind, arg = f.Kind, f.Arg
				e.Fired[kind]++
				break
			}
		}
	}
	e.mu.Unlock()
	if kind == FCrash {
		if g != nil {
			g.Kill()
		} else {
			e.Gen.Kill()
		}
		if e.OnCrash != nil {
			e.OnCrash()
		}
		select {
		case e.crashCh <- struct{}{}:
		default:
		}
		select {}
	}
	if kind == FSlow {
		time.Sleep(e.SlowDur)
		kind = ""
	}
	return kind, arg
}

func injected(seam, method, kind string) error {
	return fmt.Errorf("%w: %s.%s (%s)", ErrInjected, seam, method, kind)
}

// SortedKeys is a helper for deterministic iteration.
func SortedKeys[V any](m map[string]V) []string {
	ks := make([]string, 0, len(m))
	for k := range m {
		ks = append(ks, k)
	}
	sort.Strings(ks)
	return ks
}

var _ = simcore.Yield

// FiredSnapshot returns a copy of the per-kind fault counters.
func (e *Env) FiredSnapshot() map[string]int {
	e.mu.Lock()
	defer e.mu.Unlock()
	m := make(map[string]int, len(e.Fired))
	for k, v := range e.Fired {
		m[k] = v
	}
	return m
}
