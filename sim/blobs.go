package sim

import (
	"crypto/sha1"
	"crypto/sha256"
	"fmt"
	"hash"

	"perkeep.org/pkg/blob"

	"verif/simcore"
)

// BlobSpec describes one generated blob: everything about it is a function
// of these fields.
type BlobSpec struct {
	Size int    `json:"size"`
	Hash string `json:"hash"` // sha224 (default) | sha1 | sha256
	Kind string `json:"kind"` // "raw" | "schema" (small camli JSON) | "text"
	Salt uint64 `json:"salt"`
}

// TBlob is a materialised blob.
type TBlob struct {
	Spec BlobSpec
	Ref  blob.Ref
	Data []byte
}

func (b *TBlob) String() string { return b.Ref.String() }

func hashOf(name string) hash.Hash {
	switch name {
	case "sha1":
		return sha1.New()
	case "sha256":
		return sha256.New()
	}
	return sha256.New224()
}

// Materialise builds the blob for a spec.
func Materialise(sp BlobSpec) *TBlob {
	var data []byte
	r := simcore.NewRand(simcore.Mix(sp.Salt, sp.Size, sp.Kind))
	switch sp.Kind {
	case "schema":
		// looks like a schema blob to schema.IsSchema / blob sniffing:
		// starts with {"camliVersion"
		base := fmt.Sprintf("{\"camliVersion\": 1,\n  \"camliType\": \"bytes\",\n  \"verifSalt\": \"%016x\",\n  \"pad\": \"", sp.Salt)
		tail := "\"\n}"
		n := sp.Size - len(base) - len(tail)
		if n < 0 {
			n = 0
		}
		pad := make([]byte, n)
		for i := range pad {
			pad[i] = "abcdefghijklmnopqrstuvwxyz0123456789"[r.Intn(36)]
		}
		data = append(append([]byte(base), pad...), tail...)
	case "text":
		data = make([]byte, sp.Size)
		for i := range data {
			data[i] = "abcdefghijklmnopqrstuvwxyz \n"[r.Intn(28)]
		}
	default:
		data = make([]byte, sp.Size)
		r.Bytes(data)
	}
	h := hashOf(sp.Hash)
	h.Write(data)
	return &TBlob{Spec: sp, Ref: blob.RefFromHash(h), Data: data}
}

// GenBlobSpecs draws n blob specs with the size/hash mix of DESIGN §2.5.
// maxSize bounds the largest blob.
func GenBlobSpecs(r *simcore.Rand, n int, maxSize int) []BlobSpec {
	// (the first seven are the common ones; the rest are powers of two and
	// their neighbours: buffer and threshold boundaries)
	sizes := []int{0, 1, 2, 17, 100, 511, 1000, 4096, 65535, 65536, 65537, 262144, 1 << 20, 32767, 32768, 32769, 8192, 16384}
	var specs []BlobSpec
	for i := 0; i < n; i++ {
		sp := BlobSpec{Salt: r.Uint64()}
		for {
			if r.Bool(0.75) {
				sp.Size = sizes[r.Intn(7)]
			} else {
				sp.Size = sizes[r.Intn(len(sizes))]
			}
			if sp.Size <= maxSize {
				break
			}
		}
		switch x := r.Intn(10); {
		case x < 6:
			sp.Hash = "sha224"
		case x < 8:
			sp.Hash = "sha1"
		default:
			sp.Hash = "sha256"
		}
		switch x := r.Intn(10); {
		case x < 5:
			sp.Kind = "raw"
		case x < 8:
			sp.Kind = "schema"
			if sp.Size < 80 {
				sp.Size = 80 + r.Intn(200)
			}
		default:
			sp.Kind = "text"
		}
		specs = append(specs, sp)
	}
	return specs
}
