package sim

import (
	"bytes"
	"context"
	"errors"
	"fmt"
	"io"
	"os"
	"sort"
	"sync"
	"sync/atomic"
	"time"

	"perkeep.org/pkg/blob"
	"perkeep.org/pkg/blobserver"

	"verif/simcore"
)

// Op is one client operation against a blobserver.Storage.
type Op struct {
	// Kind: recv | fetch | sub | stat | enum | page | remove | restart | stream
	Kind  string `json:"k"`
	B     []int  `json:"b,omitempty"` // indices into the blob pool
	Off   int64  `json:"off,omitempty"`
	Len   int64  `json:"len,omitempty"`
	After string `json:"after,omitempty"`
	Limit int    `json:"limit,omitempty"`
	// Via selects the receive entry point: "" = blobserver.Receive (verified),
	// "direct" = Storage.ReceiveBlob.
	Via string `json:"via,omitempty"`
	// Mode for restart: "graceful" | "kill"
	Mode string `json:"mode,omitempty"`
}

func (o Op) String() string {
	s := o.Kind
	if len(o.B) > 0 {
		s += fmt.Sprint(o.B)
	}
	switch o.Kind {
	case "sub":
		s += fmt.Sprintf("@%d+%d", o.Off, o.Len)
	case "enum", "page":
		s += fmt.Sprintf("(after=%q,limit=%d)", o.After, o.Limit)
	case "enumall":
		s += "(blobserver.EnumerateAll)"
	}
	return s
}

// Result is what an operation returned.
type Result struct {
	Err     error
	Sized   blob.SizedRef   // recv
	Size    uint32          // fetch
	Data    []byte          // fetch / sub
	ReadErr error           // error while reading the body
	Stat    []blob.SizedRef // stat (in callback order)
	Enum    []blob.SizedRef // enum / page / enumall (concatenated pages)
	Pages   int
	// enumall: calls of the callback that began after blobserver.EnumerateAll
	// had returned (read at quiescence: the helper must not return while its
	// callback may still be called)
	Late *atomic.Int32
	// Call/Return are the global event sequence numbers around the call.
	Call, Return uint64
}

// ErrClass classifies an error for comparison with the model.
func ErrClass(err error) string {
	switch {
	case err == nil:
		return "ok"
	case errors.Is(err, os.ErrNotExist):
		return "notexist"
	case errors.Is(err, blob.ErrNegativeSubFetch):
		return "negative"
	case errors.Is(err, blob.ErrOutOfRangeOffsetSubFetch):
		return "outofrange"
	case errors.Is(err, blob.ErrUnimplemented):
		return "unimpl"
	case errors.Is(err, blobserver.ErrNotImplemented):
		return "notimpl"
	case errors.Is(err, blobserver.ErrCorruptBlob):
		return "corrupt"
	}
	return "other"
}

// OpTimeout bounds every storage call (virtual time inside a bubble).
var OpTimeout = 10 * time.Minute

// ExecOp performs op on sto. It never panics: a panic escaping a public method
// is converted into Result.Err wrapping ErrPanic.
func ExecOp(ctx context.Context, sto blobserver.Storage, pool []*TBlob, op Op) (res Result) {
	res.Call = simcore.Seq()
	defer func() {
		if r := recover(); r != nil {
			res.Err = fmt.Errorf("%w: %v", ErrPanic, r)
		}
		res.Return = simcore.Seq()
	}()
	switch op.Kind {
	case "recv":
		b := pool[op.B[0]]
		if op.Via == "direct" {
			res.Sized, res.Err = sto.ReceiveBlob(ctx, b.Ref, bytes.NewReader(b.Data))
		} else {
			res.Sized, res.Err = blobserver.Receive(ctx, sto, b.Ref, bytes.NewReader(b.Data))
		}
	case "fetch":
		b := pool[op.B[0]]
		rc, size, err := sto.Fetch(ctx, b.Ref)
		res.Err, res.Size = err, size
		if err == nil {
			res.Data, res.ReadErr = io.ReadAll(rc)
			rc.Close()
		}
	case "sub":
		b := pool[op.B[0]]
		sf, ok := sto.(blob.SubFetcher)
		if !ok {
			res.Err = blob.ErrUnimplemented
			return
		}
		rc, err := sf.SubFetch(ctx, b.Ref, op.Off, op.Len)
		res.Err = err
		if err == nil {
			res.Data, res.ReadErr = io.ReadAll(rc)
			rc.Close()
		}
	case "stat":
		// duplicate-free batch (two pool entries may be the same blob, e.g. two empty ones)
		var refs []blob.Ref
		seen := map[blob.Ref]bool{}
		for _, bi := range op.B {
			if r := pool[bi].Ref; !seen[r] {
				seen[r] = true
				refs = append(refs, r)
			}
		}
		res.Err = sto.StatBlobs(ctx, refs, func(sb blob.SizedRef) error {
			res.Stat = append(res.Stat, sb)
			return nil
		})
	case "enum":
		res.Enum, res.Err = enumOnce(ctx, sto, op.After, op.Limit)
		res.Pages = 1
	case "page":
		after := op.After
		for {
			page, err := enumOnce(ctx, sto, after, op.Limit)
			res.Pages++
			res.Enum = append(res.Enum, page...)
			if err != nil {
				res.Err = err
				return
			}
			if len(page) < op.Limit || res.Pages > 10000 {
				break
			}
			after = page[len(page)-1].Ref.String()
		}
	case "enumall":
		// the helper every full scan uses (sync, validation, reindex), with a
		// callback slower than the enumerator
		var returned atomic.Bool
		res.Late = new(atomic.Int32)
		var mu sync.Mutex
		var got []blob.SizedRef
		err := blobserver.EnumerateAll(ctx, sto, func(sb blob.SizedRef) error {
			if returned.Load() {
				res.Late.Add(1)
				return nil
			}
			simcore.Yield("enumall.callback")
			mu.Lock()
			got = append(got, sb)
			mu.Unlock()
			return nil
		})
		returned.Store(true)
		mu.Lock()
		res.Enum = append([]blob.SizedRef(nil), got...)
		mu.Unlock()
		res.Err = err
		res.Pages = 1
	case "remove":
		refs := make([]blob.Ref, len(op.B))
		for i, bi := range op.B {
			refs[i] = pool[bi].Ref
		}
		res.Err = sto.RemoveBlobs(ctx, refs)
	default:
		res.Err = fmt.Errorf("ExecOp: unknown op kind %q", op.Kind)
	}
	return
}

// ErrPanic marks a panic that escaped a public storage method.
var ErrPanic = errors.New("panic escaped public method")

// ErrEnumNotClosed marks an EnumerateBlobs that returned without closing dest.
var ErrEnumNotClosed = errors.New("EnumerateBlobs returned without closing dest")

func enumOnce(ctx context.Context, sto blobserver.BlobEnumerator, after string, limit int) ([]blob.SizedRef, error) {
	ch := make(chan blob.SizedRef, 8)
	errc := make(chan error, 1)
	go func() {
		defer func() {
			if r := recover(); r != nil {
				errc <- fmt.Errorf("%w: %v", ErrPanic, r)
			}
		}()
		errc <- sto.EnumerateBlobs(ctx, ch, after, limit)
	}()
	var out []blob.SizedRef
	var err error
	gotErr := false
	for ch != nil || !gotErr {
		if gotErr {
			// the call has returned: dest must be closed by now
			select {
			case sb, ok := <-ch:
				if !ok {
					ch = nil
				} else {
					out = append(out, sb)
				}
			default:
				return out, ErrEnumNotClosed
			}
			continue
		}
		select {
		case sb, ok := <-ch:
			if !ok {
				ch = nil
			} else {
				out = append(out, sb)
			}
		case err = <-errc:
			gotErr = true
		}
	}
	return out, err
}

// SortedRefs returns the ref strings of m in byte order of their text.
func SortedRefs(m map[string]bool) []string {
	out := make([]string, 0, len(m))
	for k, v := range m {
		if v {
			out = append(out, k)
		}
	}
	sort.Strings(out)
	return out
}
