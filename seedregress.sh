#!/bin/bash
# seedregress.sh [seed-id ...]
# Re-runs the stored seeded changes (/verif/seeded/<id>/patch.diff) against the checks their meta.json
# names under caught_by, in a scratch worktree of /repo (/tmp/repo-regress) and a scratch copy of the
# committed /verif (/tmp/verif-regress), and prints one line per seed: CAUGHT / MISSED. Development aid;
# not registered in MANIFEST.json. Removes both scratch trees at the end.
export GOFLAGS=-mod=mod GOPROXY=off
W=/tmp/repo-regress; V=/tmp/verif-regress
rm -rf $V; git -C /verif worktree prune; git -C /verif worktree add -q --detach $V HEAD || exit 2
git -C /repo worktree prune; [ -d $W ] || git -C /repo worktree add -q --detach $W HEAD || exit 2
git -C $W reset -q --hard $(git -C /repo rev-parse HEAD); git -C $W clean -fdq
(cd $V && go build -o bin/check ./cmd/check) || exit 2
ids="$@"; [ -z "$ids" ] && ids=$(ls /verif/seeded)
for id in $ids; do
  d=/verif/seeded/$id
  [ -f $d/patch.diff ] || continue
  props=$(python3 -c "import json;print(' '.join(json.load(open('$d/meta.json')).get('caught_by',[])))")
  if ! git -C $W apply $d/patch.diff 2>/dev/null; then echo "$id: DOES-NOT-APPLY"; continue; fi
  res=""
  for p in $props; do
    (cd $V && VERIF_DIR=$V VERIF_REPO=$W VERIF_PAR=${VERIF_PAR:-6} VERIF_BUDGET_S=${BUDGET:-200} bin/check $p quick > /tmp/regress-$id-$p.txt 2>&1); rc=$?
    if [ $rc = 1 ]; then res="$res $p:CAUGHT"; else res="$res $p:MISSED(rc=$rc)"; fi
  done
  git -C $W checkout -q -- .; git -C $W clean -fdq
  echo "$id:$res"
done
git -C /repo worktree remove --force $W; git -C /verif worktree remove --force $V
