package storesim

import (
	"bytes"
	"context"
	"encoding/json"
	"fmt"
	"sort"
	"sync"
	"time"

	"github.com/anishathalye/porcupine"

	"verif/harness"
	"verif/sim"
	"verif/simcore"
)

// C14 — concurrent clients see linearizable stores.
//
// 2-16 client tasks issue receive / fetch / sub-fetch / stat / enumerate /
// remove on a small, overlapping blob pool against a C01 composition, fault
// free. Under the seeded scheduler every seam call and (with the run's
// probability) every lock acquisition is a scheduling point. Invoke/return
// events carry the simulator's global event sequence numbers. Per-key
// histories are checked with porcupine against a present/absent register;
// enumerations get interval semantics; after quiescence sequential reads are
// appended to every key's history, so "all acknowledged, unremoved blobs are
// present afterwards" is part of the same check.

type c14Op struct {
	sim.Op
	C int `json:"c"` // client
}

func genC14(tier string, run int, r *simcore.Rand) *harness.Plan {
	g := &genState{r: r.Fork()}
	var root *sim.Node
	forced := []string{"", "memory", "files", "diskpacked", "blobpacked", "encrypt", "replica", "shard", "cond", "overlay", "namespace", "proxycache", "localdisk", "sim", "", "diskpacked", "files"}
	want := forced[run%len(forced)]
	for try := 0; try < 300; try++ {
		root = g.root(r.Range(0, 2))
		if root.Type == "union" {
			continue // read-only: nothing to race
		}
		if want == "" || root.Type == want {
			break
		}
	}
	// replica stragglers (minWritesForSuccess < n) acknowledge before all
	// copies are written: not linearizable by design; C12 covers the quorum
	root.Walk(func(n *sim.Node) {
		if n.Type == "replica" {
			n.Min = len(n.Kids)
		}
	})
	nblobs := r.Range(1, 4)
	specs := sim.GenBlobSpecs(r, nblobs, 3000)
	for i := range specs {
		if specs[i].Size == 0 {
			specs[i].Size = 1 + i // distinct refs keep per-key attribution exact
		}
		specs[i].Salt += uint64(i)
	}
	pool := make([]*sim.TBlob, len(specs))
	for i, sp := range specs {
		pool[i] = sim.Materialise(sp)
	}
	nclients := r.Range(2, 6)
	if r.Bool(0.15) {
		nclients = r.Range(7, 16)
	}
	perClient := r.Range(1, 5)
	weights := map[string]int{"recv": 6, "fetch": 4, "sub": 1, "stat": 3, "enum": 3, "remove": 3}
	if capsOf(root).NoRemove {
		weights["remove"] = 0
	}
	var ops []c14Op
	for c := 0; c < nclients; c++ {
		for _, op := range genOps(r, perClient, pool, specs, false, weights) {
			if op.Kind == "enum" {
				op.Limit = []int{1, 2, 1000, 1000}[r.Intn(4)]
				if r.Bool(0.6) {
					op.After = ""
				}
			}
			ops = append(ops, c14Op{Op: op, C: c})
		}
	}
	cfg := Config{Root: root, Blobs: specs, Clients: nclients}
	if hasType(root, "blobpacked") && r.Bool(0.6) {
		// One client uploads a file at the packing threshold (chunks first,
		// file blob last: its receive packs) while the others read the
		// file's blobs: an acknowledged chunk must stay visible while it
		// moves from the loose store into a zip.
		f := c04File{Name: "c14.dat", Size: (512 << 10) + r.Intn(4000), Chunk: []int{64 << 10, 100000, 256 << 10}[r.Intn(3)], Nested: r.Bool(0.3), Salt: r.Uint64(), SameAs: -1}
		cfg.Files = []c04File{f}
		full := poolOf(&cfg)
		var up []c14Op
		for i := len(specs); i < len(full); i++ {
			up = append(up, c14Op{Op: sim.Op{Kind: "recv", B: []int{i}}, C: 0})
		}
		var reads []c14Op
		for c := 1; c < nclients; c++ {
			for k := r.Range(2, 5); k > 0; k-- {
				bi := len(specs) + r.Intn(len(full)-len(specs))
				op := sim.Op{Kind: []string{"fetch", "stat", "stat", "sub"}[r.Intn(4)], B: []int{bi}}
				if op.Kind == "sub" {
					op.Off, op.Len = int64(r.Intn(100)), int64(1+r.Intn(200))
				}
				reads = append(reads, c14Op{Op: op, C: c})
			}
		}
		// the uploader's receives come first among its own operations; the
		// readers' extra reads are appended to theirs
		var rest []c14Op
		for _, op := range ops {
			if op.C != 0 {
				rest = append(rest, op)
			}
		}
		ops = append(append(up, rest...), reads...)
	}
	p := &harness.Plan{Mode: "concurrent", Config: harness.MustJSON(cfg), Bubble: true}
	p.LockYield = []int{0, 30, 200, 1000}[r.Intn(4)]
	p.Sticky = []int{0, 0, 500, 850}[r.Intn(4)]
	for _, op := range ops {
		p.Ops = append(p.Ops, harness.MustJSON(op))
	}
	return p
}

type keyIn struct {
	kind int // 0 recv, 1 remove, 2 read
}
type keyOut struct {
	present bool
}

var regModel = porcupine.Model{
	Init: func() interface{} { return false },
	Step: func(state, input, output interface{}) (bool, interface{}) {
		st := state.(bool)
		switch input.(keyIn).kind {
		case 0:
			return true, true
		case 1:
			return true, false
		default:
			return output.(keyOut).present == st, st
		}
	},
	DescribeOperation: func(input, output interface{}) string {
		switch input.(keyIn).kind {
		case 0:
			return "recv"
		case 1:
			return "remove"
		}
		if output.(keyOut).present {
			return "read->present"
		}
		return "read->absent"
	},
}

func execC14(rc *harness.RunCtx, p *harness.Plan, cfg *Config) *harness.Outcome {
	ctx := context.Background()
	ops := make([]c14Op, len(p.Ops))
	for i, raw := range p.Ops {
		if err := json.Unmarshal(raw, &ops[i]); err != nil {
			return &harness.Outcome{Inconclusive: "bad op: " + err.Error()}
		}
	}
	out := &harness.Outcome{Ops: len(ops), Reached: map[string]int{}}
	s, err := newSession(rc, cfg)
	if err != nil {
		out.Inconclusive = err.Error()
		return out
	}
	for _, op := range ops {
		if !validOp(op.Op, s.pool) {
			out.Inconclusive = "op refers to blob outside pool"
			return out
		}
	}
	var berr error
	if herr := s.task(func() { berr = s.build() }); herr != nil || berr != nil {
		out.Inconclusive = fmt.Sprint("build: ", herr, berr)
		return out
	}
	caps := capsOf(cfg.Root)
	fail := func(i int, class, msg string) *harness.Outcome {
		out.Violation = harness.Viol(class, class+"@"+cfg.Root.Shape(), fmt.Sprintf("composition %s, %d clients: %s", cfg.Root.Shape(), cfg.Clients, msg), i)
		return out
	}
	// group per client, preserving order
	byClient := map[int][]int{}
	var clients []int
	for i, op := range ops {
		if _, ok := byClient[op.C]; !ok {
			clients = append(clients, op.C)
		}
		byClient[op.C] = append(byClient[op.C], i)
	}
	sort.Ints(clients)
	results := make([]sim.Result, len(ops))
	done := make([]bool, len(ops))
	runClient := func(c int) {
		for _, i := range byClient[c] {
			simcore.Yield(fmt.Sprintf("client%02d", c))
			results[i] = sim.ExecOp(ctx, s.sto, s.pool, ops[i].Op)
			done[i] = true
		}
	}
	if rc.Sched != nil {
		for _, c := range clients {
			c := c
			rc.Sched.Go(fmt.Sprintf("c%02d", c), func() { runClient(c) })
		}
		if err := rc.Sched.Run(); err != nil {
			if err == simcore.ErrSteps {
				out.Inconclusive = "scheduler step budget exhausted"
				return out
			}
			stuck := -1
			for i := range ops {
				if !done[i] {
					stuck = i
					break
				}
			}
			if stuck >= 0 {
				return fail(stuck, "concurrent-hang", fmt.Sprintf("client %d: %s never returned (%v)", ops[stuck].C, ops[stuck].Op.String(), err))
			}
			return fail(0, "concurrent-hang", err.Error())
		}
	} else {
		// free-running race mode: real goroutines
		var wg sync.WaitGroup
		for _, c := range clients {
			c := c
			wg.Add(1)
			go func() { defer wg.Done(); runClient(c) }()
		}
		wg.Wait()
	}
	// sequential reads after quiescence, appended to the history
	type hop struct {
		op  sim.Op
		res sim.Result
		who string
	}
	var hist []hop
	for i := range ops {
		hist = append(hist, hop{ops[i].Op, results[i], fmt.Sprintf("client %d", ops[i].C)})
	}
	for bi := range s.pool {
		op := sim.Op{Kind: "fetch", B: []int{bi}}
		res, herr := s.do(ctx, op)
		if herr != nil {
			return fail(len(ops), "hang-after", op.String()+" never returned after the clients finished")
		}
		hist = append(hist, hop{op, res, "final"})
	}
	all := make([]int, len(s.pool))
	for i := range all {
		all[i] = i
	}
	for _, op := range []sim.Op{{Kind: "stat", B: all}, {Kind: "enum", Limit: 1000}} {
		res, herr := s.do(ctx, op)
		if herr != nil {
			return fail(len(ops), "hang-after", op.String()+" never returned after the clients finished")
		}
		hist = append(hist, hop{op, res, "final"})
	}
	// 1. per-call sanity: no error in a fault-free run (absence excepted), bytes right
	refOf := func(bi int) string { return s.pool[bi].Ref.String() }
	perKey := map[string][]porcupine.Operation{}
	add := func(ref string, cid int, in keyIn, outv keyOut, call, ret uint64) {
		perKey[ref] = append(perKey[ref], porcupine.Operation{ClientId: cid, Input: in, Call: int64(call), Output: outv, Return: int64(ret)})
	}
	type enumRec struct {
		i   int
		op  sim.Op
		res sim.Result
	}
	var enums []enumRec
	for i, h := range hist {
		op, res := h.op, h.res
		cid := 0
		if i < len(ops) {
			cid = ops[i].C
		} else {
			cid = 1000
		}
		ec := sim.ErrClass(res.Err)
		if res.Err != nil && isPanicErr(res.Err) {
			return fail(i, "panic", fmt.Sprintf("%s: %s: %v", h.who, op.String(), res.Err))
		}
		switch op.Kind {
		case "recv":
			b := s.pool[op.B[0]]
			if res.Err != nil {
				return fail(i, "recv-error", fmt.Sprintf("%s: %s failed without any fault: %v", h.who, op.String(), res.Err))
			}
			if res.Sized.Ref != b.Ref || int(res.Sized.Size) != len(b.Data) {
				return fail(i, "recv-wrong-sizedref", fmt.Sprintf("%s: %s returned %v", h.who, op.String(), res.Sized))
			}
			add(refOf(op.B[0]), cid, keyIn{0}, keyOut{}, res.Call, res.Return)
		case "remove":
			if caps.NoRemove {
				continue
			}
			if res.Err != nil {
				return fail(i, "remove-error", fmt.Sprintf("%s: %s failed without any fault: %v", h.who, op.String(), res.Err))
			}
			for _, bi := range dedupInts(op.B) {
				add(refOf(bi), cid, keyIn{1}, keyOut{}, res.Call, res.Return)
			}
		case "fetch", "sub":
			b := s.pool[op.B[0]]
			if op.Kind == "sub" && (caps.NoSubFetch || ec == "unimpl" || op.Off < 0 || op.Len < 0 || op.Off > int64(len(b.Data))) {
				continue
			}
			if res.Err != nil {
				if ec != "notexist" {
					return fail(i, op.Kind+"-error", fmt.Sprintf("%s: %s failed with an error that is not os.ErrNotExist, without any fault: %v", h.who, op.String(), res.Err))
				}
				add(refOf(op.B[0]), cid, keyIn{2}, keyOut{false}, res.Call, res.Return)
				continue
			}
			if res.ReadErr != nil {
				return fail(i, op.Kind+"-read-error", fmt.Sprintf("%s: %s body read failed: %v", h.who, op.String(), res.ReadErr))
			}
			want := b.Data
			if op.Kind == "sub" {
				end := op.Off + op.Len
				if end > int64(len(b.Data)) {
					end = int64(len(b.Data))
				}
				want = b.Data[op.Off:end]
			} else if int(res.Size) != len(b.Data) {
				return fail(i, "fetch-wrong-size", fmt.Sprintf("%s: %s reported size %d, true size %d", h.who, op.String(), res.Size, len(b.Data)))
			}
			if !bytes.Equal(res.Data, want) {
				return fail(i, op.Kind+"-wrong-bytes", fmt.Sprintf("%s: %s returned %d bytes that are not the blob's", h.who, op.String(), len(res.Data)))
			}
			add(refOf(op.B[0]), cid, keyIn{2}, keyOut{true}, res.Call, res.Return)
		case "stat":
			if res.Err != nil {
				return fail(i, "stat-error", fmt.Sprintf("%s: %s failed without any fault: %v", h.who, op.String(), res.Err))
			}
			seen := map[string]int{}
			for _, sb := range res.Stat {
				k := sb.Ref.String()
				seen[k]++
				b := s.byRef(k)
				if b == nil || int(sb.Size) != len(b.Data) {
					return fail(i, "stat-wrong", fmt.Sprintf("%s: %s reported %v", h.who, op.String(), sb))
				}
			}
			for _, bi := range dedupInts(op.B) {
				k := refOf(bi)
				if seen[k] > 1 {
					return fail(i, "stat-duplicate", fmt.Sprintf("%s: %s reported %s twice", h.who, op.String(), k))
				}
				add(k, cid, keyIn{2}, keyOut{seen[k] == 1}, res.Call, res.Return)
			}
		case "enum":
			if res.Err != nil {
				return fail(i, "enum-error", fmt.Sprintf("%s: %s failed without any fault: %v", h.who, op.String(), res.Err))
			}
			enums = append(enums, enumRec{i, op, res})
		}
	}
	// 2. per-key linearizability
	keys := make([]string, 0, len(perKey))
	for k := range perKey {
		keys = append(keys, k)
	}
	sort.Strings(keys)
	for _, k := range keys {
		h := perKey[k]
		if len(h) > 60 {
			out.Reached["key-history-truncated"]++
			continue
		}
		res := porcupine.CheckOperationsTimeout(regModel, h, 10*time.Second)
		switch res {
		case porcupine.Illegal:
			var desc []string
			for _, o := range h {
				desc = append(desc, fmt.Sprintf("[%d,%d]c%d:%s", o.Call, o.Return, o.ClientId, regModel.DescribeOperation(o.Input, o.Output)))
			}
			class := "not-linearizable"
			for _, o := range h {
				if o.Input.(keyIn).kind == 1 {
					class = "not-linearizable+remove" // a remove of this blob is part of the history
					break
				}
			}
			return fail(0, class, fmt.Sprintf("history of %s admits no sequential order consistent with real time: %v", k, desc))
		case porcupine.Unknown:
			out.Reached["porcupine-timeout"]++
		}
		out.SubRuns++
	}
	// 3. enumerate: interval semantics
	type iv struct{ call, ret uint64 }
	recvs, removes := map[string][]iv{}, map[string][]iv{}
	// reads that completed with "present": from such a read on, the blob is
	// there (whoever put it may not even have returned yet) until a remove
	// that is not already over when the read began
	witnessed := map[string][]iv{}
	for i, h := range hist {
		_ = i
		switch h.op.Kind {
		case "fetch":
			if h.res.Err == nil {
				witnessed[refOf(h.op.B[0])] = append(witnessed[refOf(h.op.B[0])], iv{h.res.Call, h.res.Return})
			}
		case "stat":
			for _, sb := range h.res.Stat {
				witnessed[sb.Ref.String()] = append(witnessed[sb.Ref.String()], iv{h.res.Call, h.res.Return})
			}
		}
		switch h.op.Kind {
		case "recv":
			recvs[refOf(h.op.B[0])] = append(recvs[refOf(h.op.B[0])], iv{h.res.Call, h.res.Return})
		case "remove":
			if caps.NoRemove {
				continue
			}
			for _, bi := range dedupInts(h.op.B) {
				removes[refOf(bi)] = append(removes[refOf(bi)], iv{h.res.Call, h.res.Return})
			}
		}
	}
	for _, e := range enums {
		prev := e.op.After
		got := map[string]bool{}
		for _, sb := range e.res.Enum {
			k := sb.Ref.String()
			if k <= prev {
				return fail(e.i, "enum-order-or-duplicate", fmt.Sprintf("%s returned %s after %q", e.op.String(), k, prev))
			}
			prev = k
			got[k] = true
			b := s.byRef(k)
			if b == nil {
				return fail(e.i, "enum-invented", fmt.Sprintf("%s returned unknown ref %s", e.op.String(), k))
			}
			if int(sb.Size) != len(b.Data) {
				return fail(e.i, "enum-wrong-size", fmt.Sprintf("%s reported size %d for %s (true %d)", e.op.String(), sb.Size, k, len(b.Data)))
			}
		}
		if e.op.Limit > 0 && len(e.res.Enum) > e.op.Limit {
			return fail(e.i, "enum-over-limit", fmt.Sprintf("%s returned %d entries", e.op.String(), len(e.res.Enum)))
		}
		full := e.op.Limit <= 0 || len(e.res.Enum) < e.op.Limit
		last := ""
		if n := len(e.res.Enum); n > 0 {
			last = e.res.Enum[n-1].Ref.String()
		}
		for _, b := range s.pool {
			k := b.Ref.String()
			if k <= e.op.After {
				continue
			}
			// stably present: a receive completed before the enumerate began
			// and no remove overlaps anything from that receive to the
			// enumerate's return
			stablePresent := false
			for _, rv := range recvs[k] {
				if rv.ret >= e.res.Call {
					continue
				}
				ok := true
				for _, rm := range removes[k] {
					if rm.ret > rv.call && rm.call < e.res.Return {
						ok = false
					}
				}
				if ok {
					stablePresent = true
				}
			}
			for _, rd := range witnessed[k] {
				if rd.ret >= e.res.Call {
					continue
				}
				ok := true
				for _, rm := range removes[k] {
					if rm.ret > rd.call && rm.call < e.res.Return {
						ok = false
					}
				}
				if ok {
					stablePresent = true
				}
			}
			// stably absent: never received before the enumerate returned, or
			// removed before it began with no receive overlapping since
			stableAbsent := true
			for _, rv := range recvs[k] {
				if rv.call >= e.res.Return {
					continue
				}
				covered := false
				for _, rm := range removes[k] {
					if rm.ret < e.res.Call && rm.call > rv.ret {
						covered = true
					}
				}
				if !covered {
					stableAbsent = false
				}
			}
			if stablePresent && !got[k] && (full || k < last) {
				class := "enum-missed-stable-blob"
				if len(removes[k]) > 0 {
					class += "+remove"
				}
				if len(cfg.Files) > 0 {
					// a blob of the packable file, while the receive of its
					// file blob (which packs) overlaps the enumeration
					isFileBlob := false
					for bi := len(cfg.Blobs); bi < len(s.pool); bi++ {
						if refOf(bi) == k {
							isFileBlob = true
						}
					}
					for _, rv := range recvs[refOf(len(s.pool)-1)] {
						if isFileBlob && rv.call < e.res.Return && rv.ret > e.res.Call {
							class += "+pack-overlaps"
							break
						}
					}
				}
				return fail(e.i, class, fmt.Sprintf("%s [%d,%d] did not list %s, which was present from before it began until after it returned", e.op.String(), e.res.Call, e.res.Return, k))
			}
			if stableAbsent && got[k] {
				return fail(e.i, "enum-listed-absent-blob", fmt.Sprintf("%s [%d,%d] listed %s, which was absent throughout", e.op.String(), e.res.Call, e.res.Return, k))
			}
		}
	}
	kinds := ""
	for _, op := range ops {
		kinds += fmt.Sprintf("%d%s", op.C, op.Kind[:2])
	}
	out.ShapeKey = cfg.Root.Shape() + "|" + kinds
	out.Nontrivial = len(clients) >= 2 && len(ops) >= 3
	out.Sample = map[string]any{"composition": cfg.Root.Shape(), "clients": len(clients), "ops": len(ops), "blobs": len(s.pool), "lockYieldPermille": p.LockYield}
	s.task(func() { s.world.Restart(true) })
	return out
}
