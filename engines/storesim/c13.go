package storesim

import (
	"context"
	"fmt"
	"os"
	"path/filepath"
	"strings"

	"go4.org/jsonconfig"
	"perkeep.org/pkg/blobserver/blobpacked"
	"perkeep.org/pkg/blobserver/diskpacked"

	"verif/harness"
	shimsyncutil "verif/shim/syncutil"
	"verif/sim"
	"verif/simcore"
)

// C13 — a transient lower-layer failure fails one call and nothing else.
//
// Mode "enumerate": the history is executed fault-free once while recording
// every lower-layer call (leaf store, key/value index, VFS, disk) per client
// operation; then for every operation j of a seeded window, every k and every
// fault kind applicable to the k-th call, the history is re-executed from a
// fresh world with that single fault; the suffix of the history and a closing
// sweep run healthy. Mode "single": exactly one (j,k,kind) from Plan.Faults
// (the replay of a violation found by "enumerate", or a seeded burst).

type c13Config struct {
	WinStart int `json:"winStart"`
	WinLen   int `json:"winLen"`
}

func genC13(tier string, run int, r *simcore.Rand) *harness.Plan {
	g := &genState{r: r.Fork(), noMemory: true}
	// leaves: simulated stores, files over SimVFS, diskpacked over the os shim
	leaf := func() *sim.Node {
		switch r.Intn(6) {
		case 0, 1, 2:
			return &sim.Node{Type: "sim", Name: g.name("s")}
		case 3, 4:
			// half of the files stores get a new-file gate, as localdisk
			// gives them (there with a width derived from the descriptor
			// limit): a slot that an error path does not give back makes a
			// later receive wait for good
			return &sim.Node{Type: "files", Name: g.name("f"), Gate: []int{0, 0, 1, 2}[r.Intn(4)]}
		default:
			return &sim.Node{Type: "diskpacked", Name: g.name("d"), MaxFileSize: []int{1, 60, 400, 5000, 1 << 20}[r.Intn(5)]}
		}
	}
	var node func(depth int) *sim.Node
	node = func(depth int) *sim.Node {
		if depth <= 0 || r.Bool(0.3) {
			return leaf()
		}
		switch r.Intn(8) {
		case 0:
			return &sim.Node{Type: "namespace", Name: g.name("ns"), Kids: []*sim.Node{node(depth - 1)}}
		case 1:
			return &sim.Node{Type: "overlay", Name: g.name("ov"), Kids: []*sim.Node{node(depth - 1), node(depth - 1)}}
		case 2:
			n := r.Range(2, 3)
			nd := &sim.Node{Type: "replica", Name: g.name("rep")}
			for i := 0; i < n; i++ {
				nd.Kids = append(nd.Kids, node(depth-1))
			}
			nd.Min = n // stragglers are C12's subject
			return nd
		case 3:
			n := r.Range(2, 3)
			nd := &sim.Node{Type: "shard", Name: g.name("sh")}
			for i := 0; i < n; i++ {
				nd.Kids = append(nd.Kids, node(depth-1))
			}
			return nd
		case 4:
			x, y := node(depth-1), node(depth-1)
			then := &sim.Node{Type: "replica", Name: g.name("rep"), Kids: []*sim.Node{x, y}, Min: 2}
			return &sim.Node{Type: "cond", Name: g.name("cond"), Kids: []*sim.Node{then, x, x, x}}
		case 5:
			return &sim.Node{Type: "proxycache", Name: g.name("pc"), CacheBytes: []int64{0, 1000, 70000, 1 << 22}[r.Intn(4)], Kids: []*sim.Node{node(depth - 1)}}
		case 6:
			return &sim.Node{Type: "blobpacked", Name: g.name("bp"), Kids: []*sim.Node{node(depth - 1), leaf()}}
		default:
			return leaf()
		}
	}
	var root *sim.Node
	forced := []string{"", "files", "diskpacked", "blobpacked", "encrypt", "replica", "shard", "cond", "overlay", "namespace", "proxycache", "sim", "diskpacked", "files"}
	want := forced[run%len(forced)]
	for try := 0; try < 300; try++ {
		if want == "encrypt" {
			root = &sim.Node{Type: "encrypt", Name: g.name("enc"), Kids: []*sim.Node{leaf(), leaf()}}
			break
		}
		root = node(r.Range(0, 2))
		if want == "" || root.Type == want {
			break
		}
	}
	nblobs := r.Range(2, 8)
	specs := sim.GenBlobSpecs(r, nblobs, 70000)
	pool := make([]*sim.TBlob, len(specs))
	for i, sp := range specs {
		pool[i] = sim.Materialise(sp)
	}
	cfg := Config{Root: root, Blobs: specs}
	weights := map[string]int{"recv": 7, "fetch": 3, "sub": 1, "stat": 3, "enum": 3, "page": 1, "remove": 3, "restart": 0}
	nops := r.Range(4, 18)
	ops := genOps(r, nops, pool, specs, false, weights)
	for i := range ops {
		if (ops[i].Kind == "page" || ops[i].Kind == "enum") && r.Bool(0.3) {
			// the helper full scans use (sync, validation, reindex)
			ops[i] = sim.Op{Kind: "enumall"}
		}
		if ops[i].Kind == "stat" && r.Bool(0.3) {
			// batches wider than the stat gates: repeat the pool
			ops[i].B = nil
			for len(ops[i].B) < 60 {
				ops[i].B = append(ops[i].B, r.Perm(len(pool))...)
			}
		}
	}
	win := 3
	if tier == "thorough" {
		win = 6
	}
	if win > len(ops) {
		win = len(ops)
	}
	cc := c13Config{WinStart: r.Intn(len(ops) - win + 1), WinLen: win}
	if hasType(root, "blobpacked") && r.Bool(0.5) {
		// a file at the packing threshold, uploaded chunks first and file
		// blob last, the packing receive inside the fault window: the
		// packer's own lower-layer calls (zip upload, meta batch, removal of
		// the loose copies) get their faults too
		f := c04File{Name: "c13.dat", Size: (512 << 10) + r.Intn(4000), Chunk: []int{100000, 256 << 10}[r.Intn(2)], Salt: r.Uint64(), SameAs: -1}
		if r.Bool(0.5) {
			// several zips for the one file: a fault can land between them
			f.Chunk = []int{50000, 100000}[r.Intn(2)]
			cfg.ZipMax = f.Chunk*4 + r.Intn(f.Chunk)
		}
		cfg.Files = []c04File{f}
		full := poolOf(&cfg)
		at := r.Intn(len(ops) + 1)
		var up []sim.Op
		for i := len(specs); i < len(full); i++ {
			up = append(up, sim.Op{Kind: "recv", B: []int{i}})
		}
		ops = append(ops[:at:at], append(up, ops[at:]...)...)
		last := at + len(up) - 1 // the file blob's receive
		cc.WinStart = last - r.Intn(2)
		if cc.WinStart < 0 {
			cc.WinStart = 0
		}
		if cc.WinStart+win > len(ops) {
			cc.WinStart = len(ops) - win
		}
	}
	cfg.C13 = &cc
	p := &harness.Plan{Mode: "enumerate", Config: harness.MustJSON(cfg), Bubble: true}
	p.LockYield = []int{0, 0, 30, 300}[r.Intn(4)]
	p.Sticky = []int{0, 600, 900}[r.Intn(3)]
	for _, op := range ops {
		p.Ops = append(p.Ops, harness.MustJSON(op))
	}
	return p
}

// faultKindsFor lists the transient failures applicable to a lower-layer call.
func faultKindsFor(c sim.CallRec) []string {
	switch c.Method {
	case "Fetch", "SubFetch":
		return []string{sim.FErr, sim.FShortRead}
	case "ReceiveBlob", "RemoveBlobs", "Set", "Delete", "CommitBatch":
		return []string{sim.FErr, sim.FErrAfter}
	case "EnumerateBlobs", "Find":
		return []string{sim.FErr, sim.FIterErr}
	case "Write", "WriteAt":
		return []string{sim.FErr, sim.FShortWrite}
	}
	return []string{sim.FErr}
}

type subResult struct {
	viol    string // "" = held
	class   string
	opIdx   int
	calls   [][]sim.CallRec // per op (only when recording)
	fired   map[string]int
	hang    bool
	gateUse int
}

// runHistory executes the history once in a fresh world with the given faults.
func runHistory(rc *harness.RunCtx, cfg *Config, ops []sim.Op, faults []sim.Fault, record bool, sub int, subSeed uint64) *subResult {
	ctx := context.Background()
	res := &subResult{opIdx: -1}
	env := sim.NewEnv()
	env.Faults = append([]sim.Fault(nil), faults...)
	env.Record = record
	if rc.Sched != nil {
		rc.Sched.Reseed(subSeed)
	}
	s, err := newSessionEnv(rc, cfg, env, filepath.Join(rc.Scratch, fmt.Sprintf("sub%d", sub)))
	if err != nil {
		res.viol, res.class = "harness: "+err.Error(), "harness"
		return res
	}
	defer func() { res.fired = env.Fired }()
	env.FaultsOn = false
	var berr error
	if herr := s.task(func() { berr = s.build() }); herr != nil || berr != nil {
		res.viol, res.class = fmt.Sprint("harness: build: ", herr, berr), "harness"
		return res
	}
	env.FaultsOn = true
	firedTotal := func() int {
		n := 0
		for _, v := range env.Fired {
			n += v
		}
		return n
	}
	if record {
		res.calls = make([][]sim.CallRec, len(ops))
	}
	// blobs that were the target of a mutation during which a fault fired:
	// the statement leaves their fate open (the call failed or not), also
	// across a rebuild, so they are un-pinned again before the recovery sweep
	var uncertain []int
	for i, op := range ops {
		for _, bi := range op.B {
			if bi >= len(s.pool) {
				res.viol, res.class = "harness: op refers to blob outside pool", "harness"
				return res
			}
		}
		if op.Kind == "restart" {
			continue
		}
		env.BeginOp(i)
		before := firedTotal()
		t0 := len(env.Trace)
		r, herr := s.do(ctx, op)
		if record {
			res.calls[i] = append([]sim.CallRec(nil), env.Trace[t0:]...)
		}
		if herr != nil {
			res.viol = fmt.Sprintf("%s never returned (%v)", op.String(), herr)
			res.class, res.opIdx, res.hang = "hang", i, true
			return res
		}
		faulted := firedTotal() > before
		if faulted && (op.Kind == "recv" || op.Kind == "remove") {
			uncertain = append(uncertain, op.B...)
		}
		if v := s.model.Check(op, r, faulted); len(v) > 0 {
			res.viol, res.class, res.opIdx = v[0], classOf(v[0]), i
			return res
		}
		if op.Kind == "recv" && !faulted && r.Err == nil {
			uncertain = dropInts(uncertain, op.B)
		}
		if faulted && op.Kind == "recv" && r.Err != nil {
			// first look at what the refused upload left behind: whatever it
			// is, every view of the store must agree on it (no blob that
			// stat/fetch show and enumerate does not, or vice versa)
			for _, pop := range []sim.Op{{Kind: "stat", B: op.B}, {Kind: "fetch", B: op.B}, {Kind: "enum", Limit: 100000}, {Kind: "stat", B: op.B}} {
				pr, herr := s.do(ctx, pop)
				if herr != nil {
					res.viol = fmt.Sprintf("%s after the refused upload never returned (%v)", pop.String(), herr)
					res.class, res.opIdx, res.hang = "hang-after", i, true
					return res
				}
				if v := s.model.Check(pop, pr, false); len(v) > 0 {
					res.viol, res.class, res.opIdx = "after the refused upload: "+v[0], "after-refusal:"+classOf(v[0]), i
					return res
				}
			}
			// what a client does after a refused upload: try again. The
			// failure was transient, so the retry must be served like any
			// other receive, and its acknowledgement counts.
			r2, herr := s.do(ctx, op)
			if herr != nil {
				res.viol = fmt.Sprintf("retry of %s after the transient failure never returned (%v)", op.String(), herr)
				res.class, res.opIdx, res.hang = "hang-after", i, true
				return res
			}
			faulted2 := firedTotal() > before+1
			if v := s.model.Check(op, r2, faulted2); len(v) > 0 {
				res.viol, res.class, res.opIdx = "retry after the transient failure: "+v[0], "retry:"+classOf(v[0]), i
				return res
			}
			if !faulted2 && r2.Err == nil {
				uncertain = dropInts(uncertain, op.B)
			}
		}
	}
	// healthy closing sweep: pin every undetermined blob by observation, then
	// demand exact reference-map behaviour, also from the recovery procedures
	env.FaultsOn = false
	env.BeginOp(len(ops))
	all := make([]int, len(s.pool))
	for i := range all {
		all[i] = i
	}
	sweep := func(tag string) bool {
		seq := []sim.Op{{Kind: "stat", B: all}}
		for i := range s.pool {
			seq = append(seq, sim.Op{Kind: "fetch", B: []int{i}})
		}
		seq = append(seq, sim.Op{Kind: "page", Limit: 2}, sim.Op{Kind: "enum", Limit: 1000})
		for _, op := range seq {
			r, herr := s.do(ctx, op)
			if herr != nil {
				res.viol = fmt.Sprintf("%s: %s never returned after the faults stopped (%v)", tag, op.String(), herr)
				res.class, res.opIdx, res.hang = "hang-after", len(ops), true
				return false
			}
			if v := s.model.Check(op, r, false); len(v) > 0 {
				res.viol, res.class, res.opIdx = tag+": "+v[0], tag+":"+classOf(v[0]), len(ops)
				return false
			}
		}
		return true
	}
	if !sweep("after-faults") {
		return res
	}
	// new receives and removes must work again
	if !s.model.Caps.ReadOnly {
		probe := []sim.Op{{Kind: "recv", B: []int{0}}, {Kind: "fetch", B: []int{0}}}
		if !s.model.Caps.NoRemove {
			probe = append(probe, sim.Op{Kind: "remove", B: []int{0}}, sim.Op{Kind: "fetch", B: []int{0}}, sim.Op{Kind: "recv", B: []int{0}})
		}
		for _, op := range probe {
			r, herr := s.do(ctx, op)
			if herr != nil {
				res.viol = fmt.Sprintf("after-faults: %s never returned (%v)", op.String(), herr)
				res.class, res.opIdx, res.hang = "hang-after", len(ops), true
				return res
			}
			if v := s.model.Check(op, r, false); len(v) > 0 {
				res.viol, res.class, res.opIdx = "after-faults: "+v[0], "after-faults:"+classOf(v[0]), len(ops)
				return res
			}
		}
	}
	// recovery procedures: the store must still be rebuildable from what it keeps
	if rv := s.recoverAll(ctx); rv != "" {
		if strings.HasPrefix(rv, "harness:") {
			res.viol, res.class = rv, "harness"
		} else {
			res.viol, res.class, res.opIdx = rv, "recovery-failed", len(ops)
		}
		return res
	}
	for _, bi := range uncertain {
		s.model.Set(bi, sim.Maybe)
	}
	if !sweep("after-recovery") {
		return res
	}
	s.task(func() { s.world.Restart(true) })
	res.gateUse = shimsyncutil.VerifGatesInUse()
	return res
}

func dropInts(a, drop []int) []int {
	var out []int
	for _, x := range a {
		keep := true
		for _, d := range drop {
			if x == d {
				keep = false
			}
		}
		if keep {
			out = append(out, x)
		}
	}
	return out
}

// recoverAll wipes every rebuildable local index of the composition, runs the
// store's own recovery procedure, and rebuilds the wrappers.
func (s *session) recoverAll(ctx context.Context) string {
	var did bool
	var msg string
	herr := s.task(func() {
		s.world.Restart(true)
		s.cfg.Root.Walk(func(n *sim.Node) {
			if msg != "" {
				return
			}
			switch n.Type {
			case "diskpacked":
				did = true
				s.world.KVState(n.Name + ".idx").Wipe()
				dir := s.world.NodeDir(n.Name)
				if err := diskpacked.Reindex(ctx, dir, true, jsonconfig.Obj{"type": "simkv", "name": n.Name + ".idx"}); err != nil {
					msg = "diskpacked.Reindex failed after a transient fault: " + err.Error()
					if os.Getenv("VERIF_DEBUG") != "" {
						b, _ := os.ReadFile(filepath.Join(dir, "pack-00000.blobs"))
						if len(b) > 600 {
							b = b[:600]
						}
						msg += fmt.Sprintf(" PACK=%q", b)
					}
				}
			case "blobpacked":
				did = true
				s.world.KVState(n.Name + ".meta").Wipe()
			case "encrypt":
				did = true
				s.world.KVState(n.Name + ".idx").Wipe()
			}
		})
		if msg != "" {
			return
		}
		if hasType(s.cfg.Root, "blobpacked") {
			blobpacked.SetRecovery(blobpacked.FastRecovery)
			defer blobpacked.SetRecovery(blobpacked.NoRecovery)
		}
		if err := s.build(); err != nil {
			msg = "re-creating the store for recovery failed: " + err.Error()
			return
		}
		// a store that recovery rebuilt must pass its own start-up check
		// (the simulated configuration sets keepGoing, which only logs it)
		s.cfg.Root.Walk(func(n *sim.Node) {
			if n.Type != "blobpacked" || msg != "" {
				return
			}
			if st, gerr := s.world.GetStorage("/" + n.Name + "/"); gerr == nil {
				if complaint := blobpacked.VerifCheckLargeIntegrity(st); complaint != "" {
					msg = "after recovery from the zips the packed store's own start-up integrity check fails (a start without keepGoing would refuse): " + complaint
				}
			}
		})
	})
	if herr != nil {
		return "recovery never finished: " + herr.Error()
	}
	_ = did
	return msg
}

func execC13(rc *harness.RunCtx, p *harness.Plan, cfg *Config, ops []sim.Op) *harness.Outcome {
	out := &harness.Outcome{Ops: len(ops), Fired: map[string]int{}, Reached: map[string]int{}}
	addFired := func(m map[string]int) {
		for k, v := range m {
			out.Fired[k] += v
		}
	}
	mkViol := func(sr *subResult, f *sim.Fault) *harness.Outcome {
		where := "fault-free"
		if f != nil {
			where = fmt.Sprintf("fault %s at lower-layer call #%d of op #%d", f.Kind, f.K, f.Op)
		}
		sig := sr.class + "@" + cfg.Root.Shape()
		if f != nil {
			sig = sr.class + "|" + f.Kind + ":" + f.Seam + "." + f.Method + "@" + cfg.Root.Shape()
		}
		out.Violation = harness.Viol(sr.class, sig, fmt.Sprintf("composition %s, %s: op #%d: %s", cfg.Root.Shape(), where, sr.opIdx, sr.viol), sr.opIdx)
		if f != nil {
			rp := *p
			rp.Mode = "single"
			rp.Faults = []sim.Fault{*f}
			out.ReplayPlan = &rp
		}
		return out
	}
	if p.Mode == "single" {
		sr := runHistory(rc, cfg, ops, p.Faults, false, 0, p.SchedSeed)
		addFired(sr.fired)
		out.SubRuns = 1
		if sr.class == "harness" {
			out.Inconclusive = sr.viol
			return out
		}
		if sr.viol != "" {
			var f *sim.Fault
			if len(p.Faults) > 0 {
				f = &p.Faults[0]
			}
			o := mkViol(sr, f)
			o.ReplayPlan = nil
			return o
		}
		out.ShapeKey = shapeKey(cfg, ops, "single")
		return out
	}
	// 1. fault-free recording pass
	base := runHistory(rc, cfg, ops, nil, true, 0, simcore.Mix(p.SchedSeed, "base"))
	out.SubRuns++
	if base.class == "harness" {
		out.Inconclusive = base.viol
		return out
	}
	if base.viol != "" {
		// a fault-free failure is C01's subject; it is still a failure of
		// "exactly as the reference map would" and is reported
		base.class = "faultfree:" + base.class
		return mkViol(base, nil)
	}
	cc := c13Config{WinStart: 0, WinLen: len(ops)}
	if cfg.C13 != nil {
		cc = *cfg.C13
	}
	sub := 0
	sites := ""
	for j := cc.WinStart; j < cc.WinStart+cc.WinLen && j < len(ops); j++ {
		for k, call := range base.calls[j] {
			for _, kind := range faultKindsFor(call) {
				sub++
				f := sim.Fault{Op: j, K: k + 1, Kind: kind, Arg: 1}
				fsite := sim.Fault{Op: j, K: k + 1, Kind: kind, Arg: 1, Seam: siteSeam(call.Seam), Method: call.Method}
				subSeed := simcore.Mix(p.SchedSeed, "base") // same schedule as the recording pass up to the fault
				sr := runHistory(rc, cfg, ops, []sim.Fault{f}, false, sub, subSeed)
				out.SubRuns++
				addFired(sr.fired)
				if sr.class == "harness" {
					out.Inconclusive = sr.viol
					return out
				}
				if sr.viol != "" {
					o := mkViol(sr, &fsite)
					if what, ok := harness.Known(p.Prop, o.Violation.Sig); ok {
						out.NoteKnown(what)
						out.Violation, out.ReplayPlan = nil, nil
						continue
					}
					o.ReplayPlan.Faults = []sim.Fault{f}
					o.ReplayPlan.SchedSeed = subSeed
					return o
				}
				out.Reached["fault@"+call.Method]++
				if sr.gateUse > 0 {
					// conservation probe: never reported on its own — amplify
					// until the leak becomes the hang the property forbids
					out.Reached["gate-slots-in-use-when-idle"]++
					for rep := 0; rep < 64; rep++ {
						sub++
						sr2 := runHistory(rc, cfg, ops, []sim.Fault{f}, false, sub, subSeed)
						out.SubRuns++
						if sr2.class == "harness" {
							break
						}
						if sr2.viol != "" {
							sr2.viol = fmt.Sprintf("after %d repetitions of the same single fault (gate slots leaked: %d in use when idle): %s", rep+2, sr2.gateUse, sr2.viol)
							sr2.class = "hang-after-repeated-fault"
							o := mkViol(sr2, &fsite)
							o.ReplayPlan.Faults = []sim.Fault{f}
							o.ReplayPlan.SchedSeed = subSeed
							o.ReplayPlan.Mode = "amplify"
							return o
						}
					}
				}
			}
			sites += call.Method[:2]
		}
	}
	out.ShapeKey = shapeKey(cfg, ops, sites)
	out.Nontrivial = out.SubRuns > 1
	out.Sample = map[string]any{"composition": cfg.Root.Shape(), "ops": opStrings(ops, 10), "window": []int{cc.WinStart, cc.WinLen}, "single_fault_subruns": out.SubRuns - 1}
	return out
}

// siteSeam reduces a seam name to its kind (names carry generated numbers).
func siteSeam(seam string) string {
	return strings.TrimRight(strings.SplitN(seam, ".", 2)[0], "0123456789") + func() string {
		if i := strings.Index(seam, "."); i >= 0 {
			return seam[i:]
		}
		return ""
	}()
}

// execC13Amplify replays a leak-amplification violation: the same single
// fault repeated until the hang.
func execC13Amplify(rc *harness.RunCtx, p *harness.Plan, cfg *Config, ops []sim.Op) *harness.Outcome {
	out := &harness.Outcome{Ops: len(ops), Fired: map[string]int{}}
	for rep := 0; rep < 70; rep++ {
		sr := runHistory(rc, cfg, ops, p.Faults, false, rep, p.SchedSeed)
		out.SubRuns++
		if sr.class == "harness" {
			out.Inconclusive = sr.viol
			return out
		}
		if sr.viol != "" {
			cl := "hang-after-repeated-fault"
			out.Violation = harness.Viol(cl, cl+"@"+cfg.Root.Shape(), fmt.Sprintf("composition %s: after %d repetitions of fault %+v: %s", cfg.Root.Shape(), rep+1, p.Faults, sr.viol), sr.opIdx)
			return out
		}
	}
	return out
}
