package storesim

import (
	"bytes"
	"context"
	"fmt"
	"sort"
	"time"

	"verif/harness"
	"verif/sim"
	"verif/simcore"
)

// C12 — replicated writes are acknowledged only at quorum; reads survive
// replica loss. Root: replica(backends = n SimStores, minWritesForSuccess = m,
// readBackends = equal / subset / partly disjoint). Per receive every failing
// subset of replicas is enumerated (all 2^n for n <= 4) with a failure kind
// per failing replica; the completion order of the n concurrent uploads is a
// scheduler choice. The oracle works on the recorded history: the leaf
// stores' completion events, stamped with the global event sequence, against
// the sequence number at which the replica store's ReceiveBlob returned.

type c12Op struct {
	sim.Op
	// Fail: replica index -> fault kind for this operation
	Fail map[int]string `json:"fail,omitempty"`
}

func genC12(tier string, run int, r *simcore.Rand) *harness.Plan {
	n := r.Range(1, 5)
	if r.Bool(0.6) {
		n = r.Range(2, 4)
	}
	m := r.Range(1, n)
	root := &sim.Node{Type: "replica", Name: "rep", Min: m}
	for i := 0; i < n; i++ {
		root.Kids = append(root.Kids, &sim.Node{Type: "sim", Name: fmt.Sprintf("r%d", i)})
	}
	// read set: equal (default), subset, or subset + extra read-only store
	switch r.Intn(4) {
	case 1:
		k := r.Range(1, n)
		for _, i := range r.Perm(n)[:k] {
			root.ReadKids = append(root.ReadKids, root.Kids[i])
		}
	case 2:
		k := r.Range(1, n)
		for _, i := range r.Perm(n)[:k] {
			root.ReadKids = append(root.ReadKids, root.Kids[i])
		}
		root.ReadKids = append(root.ReadKids, &sim.Node{Type: "sim", Name: "x0"})
	}
	// blobs: one fresh blob per enumerated subset + a few extra
	subsets := 1 << n
	var masks []int
	if n <= 4 {
		for s := 0; s < subsets; s++ {
			masks = append(masks, s)
		}
	} else {
		for i := 0; i < 20; i++ {
			masks = append(masks, r.Intn(subsets))
		}
	}
	pm := r.Perm(len(masks))
	extra := r.Range(2, 5)
	specs := sim.GenBlobSpecs(r, len(masks)+extra, 5000)
	for i := range specs {
		// distinct contents (no two empty blobs): the oracle attributes
		// completion events to operations by ref
		if specs[i].Size < 8 {
			specs[i].Size = 8 + i
		}
	}
	cfg := Config{Root: root, Blobs: specs, Preseed: map[string][]int{}}
	// overlapping pre-seeded contents from the extra blobs
	names := []string{}
	root.Walk(func(x *sim.Node) {
		if x.Type == "sim" {
			names = append(names, x.Name)
		}
	})
	sort.Strings(names)
	names = dedup(names)
	for e := 0; e < extra; e++ {
		bi := len(masks) + e
		for _, nm := range names {
			if r.Bool(0.5) {
				cfg.Preseed[nm] = append(cfg.Preseed[nm], bi)
			}
		}
	}
	kinds := []string{sim.FErr, sim.FErr, sim.FErrAfter, sim.FWrongSize, sim.FSlow, sim.FShortStore}
	var ops []c12Op
	all := make([]int, len(specs))
	for i := range all {
		all[i] = i
	}
	for oi, mi := range pm {
		mask := masks[mi]
		op := c12Op{Op: sim.Op{Kind: "recv", B: []int{oi}}, Fail: map[int]string{}}
		if r.Bool(0.3) {
			op.Via = "direct"
		}
		for i := 0; i < n; i++ {
			if mask&(1<<i) != 0 {
				op.Fail[i] = kinds[r.Intn(len(kinds))]
			}
		}
		ops = append(ops, op)
		if len(op.Fail) > 0 && r.Bool(0.35) {
			// the client tries again, the replicas are back
			ops = append(ops, c12Op{Op: sim.Op{Kind: "recv", B: []int{oi}, Via: op.Via}, Fail: map[int]string{}})
		}
		// interleave reads
		for r.Bool(0.6) {
			switch r.Intn(4) {
			case 0:
				ops = append(ops, c12Op{Op: sim.Op{Kind: "fetch", B: []int{r.Intn(len(specs))}}, Fail: readFail(r, root)})
			case 1:
				ops = append(ops, c12Op{Op: sim.Op{Kind: "stat", B: r.Perm(len(specs))[:r.Range(1, len(specs))]}, Fail: readFail(r, root)})
			case 2:
				ops = append(ops, c12Op{Op: sim.Op{Kind: "enum", After: "", Limit: []int{1, 3, 1000}[r.Intn(3)]}, Fail: readFail(r, root)})
			case 3:
				ops = append(ops, c12Op{Op: sim.Op{Kind: "page", Limit: r.Range(1, 4)}})
			}
		}
		if r.Bool(0.08) {
			ops = append(ops, c12Op{Op: sim.Op{Kind: "remove", B: []int{r.Intn(len(specs))}}})
		}
	}
	p := &harness.Plan{Mode: "quorum", Config: harness.MustJSON(cfg), Bubble: true}
	p.LockYield = []int{0, 0, 50, 1000}[r.Intn(4)]
	p.Sticky = []int{0, 0, 500}[r.Intn(3)]
	for _, op := range ops {
		p.Ops = append(p.Ops, harness.MustJSON(op))
	}
	return p
}

func dedup(s []string) []string {
	var out []string
	for i, x := range s {
		if i == 0 || x != s[i-1] {
			out = append(out, x)
		}
	}
	return out
}

// readFail draws read-side faults: index into the read replica list.
func readFail(r *simcore.Rand, root *sim.Node) map[int]string {
	if r.Bool(0.6) {
		return nil
	}
	rd := readNodes(root)
	f := map[int]string{}
	for i := range rd {
		if r.Bool(0.35) {
			f[i] = []string{sim.FErr, sim.FSlow}[r.Intn(2)]
		}
	}
	return f
}

func readNodes(root *sim.Node) []*sim.Node {
	if len(root.ReadKids) > 0 {
		return root.ReadKids
	}
	return root.Kids
}

func execC12(rc *harness.RunCtx, p *harness.Plan, cfg *Config, rawOps []c12Op) *harness.Outcome {
	ctx := context.Background()
	out := &harness.Outcome{Ops: len(rawOps), Reached: map[string]int{}}
	if cfg.Root == nil || cfg.Root.Type != "replica" {
		out.Inconclusive = "C12 needs a replica root"
		return out
	}
	s, err := newSession(rc, cfg)
	if err != nil {
		out.Inconclusive = err.Error()
		return out
	}
	root := cfg.Root
	n, m := len(root.Kids), root.Min
	if m == 0 {
		m = n
	}
	rd := readNodes(root)
	// preseed by writing leaf state directly (leaves are SimStores)
	for _, nm := range sim.SortedKeys(cfg.Preseed) {
		for _, bi := range cfg.Preseed[nm] {
			if bi < len(s.pool) {
				s.world.Store(nm).Put(s.pool[bi].Ref.String(), s.pool[bi].Data)
			}
		}
	}
	var berr error
	if herr := s.task(func() { berr = s.build() }); herr != nil || berr != nil {
		out.Inconclusive = fmt.Sprint("build: ", herr, berr)
		return out
	}
	fail := func(i int, class, msg string) *harness.Outcome {
		sig := fmt.Sprintf("%s@replica(n=%d)", class, n)
		out.Violation = harness.Viol(class, sig, fmt.Sprintf("replica n=%d min=%d read=%d, op #%d %s: %s", n, m, len(rd), i, rawOps[i].Op.String(), msg), i)
		return out
	}
	held := func(ref string) (byRead []bool, any bool) {
		byRead = make([]bool, len(rd))
		for i, nd := range rd {
			if s.world.Store(nd.Name).Has(ref) {
				byRead[i] = true
				any = true
			}
		}
		return
	}
	// divergent: some replica keeps a copy of the ref with other bytes (a
	// misbehaving replica stored a short copy): which copy a read returns is
	// the replica's business; exactly-once still holds
	divergent := func(ref string) bool {
		b := s.byRef(ref)
		if b == nil {
			return false
		}
		for _, nd := range append(append([]*sim.Node{}, root.Kids...), rd...) {
			if d, ok := s.world.Store(nd.Name).Get(ref); ok && len(d) != len(b.Data) {
				return true
			}
		}
		return false
	}
	for i, op := range rawOps {
		for _, bi := range op.B {
			if bi >= len(s.pool) {
				out.Inconclusive = "op refers to blob outside pool"
				return out
			}
		}
		// install this operation's faults
		rc.Env.Faults = nil
		failing := map[string]string{}
		for idx, kind := range op.Fail {
			var nd *sim.Node
			if op.Kind == "recv" {
				if idx >= n {
					continue
				}
				nd = root.Kids[idx]
			} else {
				if idx >= len(rd) {
					continue
				}
				nd = rd[idx]
			}
			failing[nd.Name] = kind
			rc.Env.Faults = append(rc.Env.Faults, sim.Fault{Op: i, K: 1, Seam: nd.Name, Kind: kind})
		}
		// deterministic fault order
		sort.Slice(rc.Env.Faults, func(a, b int) bool { return rc.Env.Faults[a].Seam < rc.Env.Faults[b].Seam })
		rc.Env.BeginOp(i)
		// ground truth before the operation (the store is quiescent)
		pre := map[string][]bool{}
		for _, bi := range op.B {
			ref := s.pool[bi].Ref.String()
			h, _ := held(ref)
			pre[ref] = h
		}
		// which write replicas hold the blob already (a retry of a receive
		// that failed below the quorum finds it on a minority)
		preKid := map[string]bool{}
		if op.Kind == "recv" {
			for _, k := range root.Kids {
				_, preKid[k.Name] = s.world.Store(k.Name).Get(s.pool[op.B[0]].Ref.String())
			}
		}
		var res sim.Result
		var retSeq uint64
		herr := s.task(func() {
			res = sim.ExecOp(ctx, s.sto, s.pool, op.Op)
			retSeq = res.Return
		})
		if herr != nil {
			return fail(i, "replica-hang", "operation never returned: "+herr.Error())
		}
		if res.Err != nil && isPanicErr(res.Err) {
			return fail(i, "replica-panic", res.Err.Error())
		}
		// A replica write of an earlier, refused receive that was still
		// asleep (a slow replica) when that receive returned may land while
		// this operation runs: what a replica holds afterwards was not
		// invented by a read that reports it.
		heldAfter := func(ref string) bool {
			h, _ := held(ref)
			for _, x := range h {
				if x {
					return true
				}
			}
			return false
		}
		switch op.Kind {
		case "recv":
			b := s.pool[op.B[0]]
			ref := b.Ref.String()
			// count replica completions with success, overall and before the return
			okBefore, okTotal := 0, 0
			for _, k := range root.Kids {
				st := s.world.Store(k.Name)
				done := false
				for _, ev := range st.Log {
					if ev.Op == "recv-ret" && ev.Ref == ref && ev.OK && ev.Seq > res.Call {
						okTotal++
						if ev.Seq < retSeq {
							okBefore++
						}
						done = true
						break
					}
				}
				if !done && preKid[k.Name] {
					// held since an earlier receive: counts as stored
					okTotal++
					okBefore++
					out.Reached["recv-finds-blob-on-a-replica"]++
				}
			}
			if res.Err == nil {
				out.Reached["recv-acked"]++
				if okBefore < m {
					return fail(i, "ack-below-quorum", fmt.Sprintf("receive acknowledged when only %d of the required %d replicas had stored the blob (failing: %v; eventually %d)", okBefore, m, failing, okTotal))
				}
				if res.Sized.Ref != b.Ref || int(res.Sized.Size) != len(b.Data) {
					return fail(i, "ack-wrong-sizedref", fmt.Sprintf("receive returned %v, want %v/%d", res.Sized, b.Ref, len(b.Data)))
				}
				if okTotal < n {
					out.Reached["ack-with-failed-replicas"]++
				}
				if okBefore < okTotal {
					out.Reached["ack-before-stragglers"]++
				}
			} else {
				out.Reached["recv-refused"]++
				if okTotal >= m {
					return fail(i, "error-despite-quorum", fmt.Sprintf("receive reported %v although %d >= %d replicas stored the blob with the right size (failing: %v)", res.Err, okTotal, m, failing))
				}
			}
		case "fetch":
			b := s.pool[op.B[0]]
			h := pre[b.Ref.String()]
			// sequential fallback: succeeds iff some read replica holds the
			// blob and is not failing in this operation
			want := false
			for ri, nd := range rd {
				if h[ri] && failing[nd.Name] != sim.FErr {
					want = true
				}
			}
			if res.Err == nil {
				anyHeld := false
				for _, x := range h {
					anyHeld = anyHeld || x
				}
				if !anyHeld && heldAfter(b.Ref.String()) {
					out.Reached["read-saw-a-straggling-replica-write"]++
					break
				}
				if !anyHeld {
					return fail(i, "fetch-invented", "fetch succeeded although no read replica holds the blob")
				}
				if divergent(b.Ref.String()) {
					out.Reached["read-of-divergent-copies"]++
				} else if res.ReadErr != nil || !bytes.Equal(res.Data, b.Data) || int(res.Size) != len(b.Data) {
					return fail(i, "fetch-wrong-bytes", fmt.Sprintf("fetch returned %d bytes (size %d, read error %v), want %d", len(res.Data), res.Size, res.ReadErr, len(b.Data)))
				}
			} else if want {
				return fail(i, "fetch-lost", fmt.Sprintf("fetch failed (%v) although a healthy read replica holds the blob (held %v, failing %v)", res.Err, h, failing))
			}
		case "stat":
			seen := map[string]int{}
			for _, sb := range res.Stat {
				seen[sb.Ref.String()]++
			}
			for _, bi := range dedupInts(op.B) {
				b := s.pool[bi]
				ref := b.Ref.String()
				_, anyHeld := false, false
				for _, x := range pre[ref] {
					anyHeld = anyHeld || x
				}
				if seen[ref] > 1 {
					return fail(i, "stat-duplicate", "stat reported "+ref+" more than once")
				}
				if seen[ref] == 1 && !anyHeld && heldAfter(ref) {
					out.Reached["read-saw-a-straggling-replica-write"]++
					continue
				}
				if seen[ref] == 1 && !anyHeld {
					return fail(i, "stat-invented", "stat reported "+ref+" which no read replica holds")
				}
				if res.Err == nil && len(failing) == 0 && anyHeld && seen[ref] == 0 {
					return fail(i, "stat-missed", "stat missed "+ref+" held by a read replica")
				}
			}
			for _, sb := range res.Stat {
				b := s.byRef(sb.Ref.String())
				if b != nil && divergent(sb.Ref.String()) {
					continue
				}
				if b == nil || int(sb.Size) != len(b.Data) {
					return fail(i, "stat-wrong-size", fmt.Sprintf("stat reported %v", sb))
				}
			}
		case "enum", "page":
			union := map[string]bool{}
			for _, nd := range rd {
				for _, ref := range s.world.Store(nd.Name).Refs() {
					union[ref] = true
				}
			}
			prev := op.After
			got := map[string]bool{}
			for _, sb := range res.Enum {
				k := sb.Ref.String()
				if k <= prev {
					return fail(i, "enum-order-or-duplicate", fmt.Sprintf("enumerate returned %s after %q", k, prev))
				}
				prev = k
				if !union[k] {
					return fail(i, "enum-invented", "enumerate returned "+k+" which no read replica holds")
				}
				got[k] = true
			}
			if res.Err == nil && len(failing) == 0 {
				want := sim.SortedRefs(union)
				var exp []string
				for _, k := range want {
					if k > op.After {
						exp = append(exp, k)
					}
				}
				if op.Kind == "enum" && len(exp) > op.Limit {
					exp = exp[:op.Limit]
				}
				if len(exp) != len(res.Enum) {
					return fail(i, "enum-incomplete", fmt.Sprintf("enumerate returned %d blobs, the read replicas hold %d after the cursor (limit %d)", len(res.Enum), len(exp), op.Limit))
				}
				for _, k := range exp {
					if !got[k] {
						return fail(i, "enum-incomplete", "enumerate missed "+k)
					}
				}
			} else if res.Err != nil && len(failing) == 0 {
				return fail(i, "enum-error", "enumerate failed without a failing replica: "+res.Err.Error())
			}
		}
	}
	rc.Env.Faults = nil
	// Afterwards, once every straggling replica write has landed: what a
	// replica keeps under a ref is that blob - or, where a short-store fault
	// was injected into some receive of this run, that blob cut short (the
	// misbehaving replica of the fault model); never other bytes.
	anyShort := false
	for _, op := range rawOps {
		for _, k := range op.Fail {
			if k == sim.FShortStore {
				anyShort = true
			}
		}
	}
	if herr := s.task(func() { time.Sleep(30 * time.Second) }); herr == nil {
		for _, nd := range root.Kids {
			st := s.world.Store(nd.Name)
			for _, ref := range st.Refs() {
				b := s.byRef(ref)
				d, _ := st.Get(ref)
				if b == nil || bytes.Equal(d, b.Data) {
					continue
				}
				if anyShort && len(d) < len(b.Data) && bytes.Equal(d, b.Data[:len(d)]) {
					continue
				}
				return fail(len(rawOps), "replica-holds-foreign-bytes", fmt.Sprintf("replica %s keeps %d bytes under %s that are not that blob's (%d bytes)", nd.Name, len(d), ref, len(b.Data)))
			}
		}
		out.Reached["replica-contents-swept"]++
	}
	kinds := ""
	for _, op := range rawOps {
		kinds += op.Kind[:1]
		ks := make([]int, 0, len(op.Fail))
		for k := range op.Fail {
			ks = append(ks, k)
		}
		sort.Ints(ks)
		for _, k := range ks {
			kinds += fmt.Sprintf("%d%s", k, op.Fail[k][:1])
		}
	}
	out.ShapeKey = fmt.Sprintf("n%d m%d r%d|%s", n, m, len(rd), kinds)
	out.Nontrivial = len(rawOps) >= 2
	out.Fired = rc.Env.Fired
	out.SubRuns = 0
	for _, op := range rawOps {
		if op.Kind == "recv" {
			out.SubRuns++
		}
	}
	out.Sample = map[string]any{"replicas": n, "min": m, "read": len(rd), "ops": len(rawOps), "first_ops": sampleC12(rawOps, 6)}
	return out
}

func sampleC12(ops []c12Op, n int) []string {
	var out []string
	for i, op := range ops {
		if i >= n {
			break
		}
		out = append(out, fmt.Sprintf("%s fail=%v", op.Op.String(), op.Fail))
	}
	return out
}

func dedupInts(a []int) []int {
	seen := map[int]bool{}
	var out []int
	for _, x := range a {
		if !seen[x] {
			seen[x] = true
			out = append(out, x)
		}
	}
	return out
}

func (s *session) byRef(ref string) *sim.TBlob {
	for _, b := range s.pool {
		if b.Ref.String() == ref {
			return b
		}
	}
	return nil
}

func isPanicErr(err error) bool {
	for e := err; e != nil; {
		if e == sim.ErrPanic {
			return true
		}
		u, ok := e.(interface{ Unwrap() error })
		if !ok {
			return false
		}
		e = u.Unwrap()
	}
	return false
}
