// Package storesim drives real perkeep storage backends, composed through
// blobserver.CreateStorage over simulated leaves, against the reference map.
package storesim

import (
	"fmt"

	"verif/sim"
	"verif/simcore"
)

// Config is the engine-specific part of a plan.
type Config struct {
	Root  *sim.Node      `json:"root"`
	Blobs []sim.BlobSpec `json:"blobs"`
	// Preseed: leaf/kid node name -> blob indices received directly into that
	// node before the history starts.
	Preseed map[string][]int `json:"preseed,omitempty"`
	// Clients > 1: concurrent mode (C14); ops are dealt round-robin.
	Clients int `json:"clients,omitempty"`
	// MetaFull, MetaSmall (C11): the encrypting store's two compaction knobs
	// for this run (0 = the shipped values 10000 and 100)
	// ZipMax > 0 (C13): maximum zip size of every blobpacked store of the
	// composition (the knob blobpacked's own tests use), so that a file at
	// the packing threshold spans several zips
	ZipMax    int `json:"zipMax,omitempty"`
	MetaFull  int `json:"metaFull,omitempty"`
	MetaSmall int `json:"metaSmall,omitempty"`
	// Files: packable files (chunks, nested bytes schemas, file blob) appended
	// to the blob pool, so that compositions containing blobpacked really pack
	Files []c04File `json:"files,omitempty"`
	// C13: window of operations whose lower-layer calls are fault-enumerated
	C13 *c13Config `json:"c13,omitempty"`
	C03 *c03Config `json:"c03,omitempty"`
	C04 *c04Config `json:"c04,omitempty"`
	// C04Replay: [op index, mutating call] of the crash to replay
	C04Replay []int `json:"c04Replay,omitempty"`
}

type genState struct {
	r        *simcore.Rand
	n        int
	noMemory bool // restartable compositions only
	simOnly  bool // leaves are SimStores only (fault engines)
}

func (g *genState) name(t string) string {
	g.n++
	return fmt.Sprintf("%s%d", t, g.n)
}

func (g *genState) leaf() *sim.Node {
	if g.simOnly {
		return &sim.Node{Type: "sim", Name: g.name("s")}
	}
	for {
		switch g.r.Intn(8) {
		case 0, 1, 2:
			return &sim.Node{Type: "sim", Name: g.name("s")}
		case 3:
			if g.noMemory {
				continue
			}
			return &sim.Node{Type: "memory", Name: g.name("m")}
		case 4, 5:
			return &sim.Node{Type: "files", Name: g.name("f"), Gate: []int{0, 0, 0, 1, 3}[g.r.Intn(5)]}
		case 6:
			sizes := []int{1, 50, 300, 5000, 70000, 1 << 20}
			return &sim.Node{Type: "diskpacked", Name: g.name("d"), MaxFileSize: sizes[g.r.Intn(len(sizes))]}
		case 7:
			return &sim.Node{Type: "localdisk", Name: g.name("l")}
		}
	}
}

// subFetchLeaf returns a leaf that implements blob.SubFetcher (blobpacked's
// large store requires it).
func (g *genState) subFetchLeaf() *sim.Node {
	for {
		n := g.leaf()
		if n.Type != "memory" || true {
			return n
		}
	}
}

// removable reports whether RemoveBlobs on the node works and has map semantics.
func removable(n *sim.Node) bool {
	switch n.Type {
	case "sim":
		return !n.NoRemove
	case "memory", "files", "diskpacked", "localdisk", "namespace", "blobpacked":
		return true
	case "encrypt", "union":
		return false
	case "overlay":
		return !n.NoRemove
	case "replica", "shard":
		for _, k := range n.Kids {
			if !removable(k) {
				return false
			}
		}
		return true
	case "cond":
		return len(n.Kids) > 3
	case "proxycache":
		return removable(n.Kids[0])
	}
	return false
}

// node draws a composition of the given depth budget whose removal works.
func (g *genState) node(depth int) *sim.Node {
	if depth <= 0 || g.r.Bool(0.25) {
		return g.leaf()
	}
	switch g.r.Intn(9) {
	case 0:
		return &sim.Node{Type: "namespace", Name: g.name("ns"), Kids: []*sim.Node{g.node(depth - 1)}}
	case 1:
		lower := g.node(depth - 1)
		upper := g.node(depth - 1)
		return &sim.Node{Type: "overlay", Name: g.name("ov"), Kids: []*sim.Node{lower, upper}}
	case 2:
		n := g.r.Range(1, 4)
		nd := &sim.Node{Type: "replica", Name: g.name("rep")}
		for i := 0; i < n; i++ {
			nd.Kids = append(nd.Kids, g.node(depth-1))
		}
		nd.Min = g.r.Range(1, n)
		return nd
	case 3:
		n := g.r.Range(1, 4)
		nd := &sim.Node{Type: "shard", Name: g.name("sh")}
		for i := 0; i < n; i++ {
			nd.Kids = append(nd.Kids, g.node(depth-1))
		}
		return nd
	case 4:
		// cond: schema blobs to replica(X,Y), others to X; read and remove X
		x := g.node(depth - 1)
		y := g.node(depth - 1)
		then := &sim.Node{Type: "replica", Name: g.name("rep"), Kids: []*sim.Node{x, y}, Min: 2}
		return &sim.Node{Type: "cond", Name: g.name("cond"), Kids: []*sim.Node{then, x, x, x}}
	case 5:
		sizes := []int64{0, 1, 1000, 70000, 1 << 22}
		return &sim.Node{Type: "proxycache", Name: g.name("pc"), CacheBytes: sizes[g.r.Intn(len(sizes))], Kids: []*sim.Node{g.node(depth - 1)}}
	case 6:
		small := g.node(depth - 1)
		large := g.leaf()
		for large.Type == "memory" && g.noMemory {
			large = g.leaf()
		}
		return &sim.Node{Type: "blobpacked", Name: g.name("bp"), Kids: []*sim.Node{small, large}}
	case 7:
		return &sim.Node{Type: "diskpacked", Name: g.name("d"), MaxFileSize: []int{1, 50, 300, 5000, 70000, 1 << 20}[g.r.Intn(6)]}
	default:
		return g.leaf()
	}
}

// root draws a root composition. Roots additionally may be encrypt and union,
// which have no removal.
func (g *genState) root(depth int) *sim.Node {
	switch x := g.r.Intn(14); x {
	case 0:
		return &sim.Node{Type: "encrypt", Name: g.name("enc"), Kids: []*sim.Node{g.node(depth - 1), g.node(depth - 1)}}
	case 1:
		n := g.r.Range(1, 3)
		nd := &sim.Node{Type: "union", Name: g.name("un")}
		for i := 0; i < n; i++ {
			nd.Kids = append(nd.Kids, g.node(depth-1))
		}
		return nd
	case 2:
		// read-only lower may be anything, also a union
		lower := &sim.Node{Type: "union", Name: g.name("un"), Kids: []*sim.Node{g.node(depth - 2), g.node(depth - 2)}}
		return &sim.Node{Type: "overlay", Name: g.name("ov"), Kids: []*sim.Node{lower, g.node(depth - 1)}}
	case 3:
		return &sim.Node{Type: "namespace", Name: g.name("ns"), Kids: []*sim.Node{
			{Type: "encrypt", Name: g.name("enc"), Kids: []*sim.Node{g.leaf(), g.leaf()}}}}
	default:
		return g.node(depth)
	}
}

func hasType(n *sim.Node, t string) bool {
	found := false
	n.Walk(func(x *sim.Node) {
		if x.Type == t {
			found = true
		}
	})
	return found
}

// cursors for enumerate: any string, not only blobrefs.
func genCursor(r *simcore.Rand, pool []sim.BlobSpec, refs []string) string {
	switch r.Intn(12) {
	case 0, 1, 2:
		return ""
	case 3, 4, 5:
		if len(refs) > 0 {
			return refs[r.Intn(len(refs))]
		}
		return ""
	case 6:
		if len(refs) > 0 {
			return refs[r.Intn(len(refs))] + "0"
		}
		return "sha224-"
	case 7:
		if len(refs) > 0 {
			s := refs[r.Intn(len(refs))]
			return s[:r.Range(1, len(s)-1)]
		}
		return "sha1"
	case 8:
		return []string{"sha1", "sha224-", "sha256-", "sha1-", "sha2"}[r.Intn(5)]
	case 9:
		return []string{"zzz", "a", "s", "t", "sha3", "\x00", "~"}[r.Intn(7)]
	case 10:
		if len(refs) > 0 {
			// the predecessor string of an existing ref
			s := refs[r.Intn(len(refs))]
			return s[:len(s)-1]
		}
		return "b"
	default:
		if len(refs) > 0 {
			s := []byte(refs[r.Intn(len(refs))])
			i := r.Range(len(s)-8, len(s)-1)
			s[i] = "0123456789abcdef"[r.Intn(16)]
			return string(s)
		}
		return ""
	}
}

func genOps(r *simcore.Rand, nops int, pool []*sim.TBlob, specs []sim.BlobSpec, canRestart bool, weights map[string]int) []sim.Op {
	refs := make([]string, len(pool))
	for i, b := range pool {
		refs[i] = b.Ref.String()
	}
	kinds := []string{}
	for k, w := range weights {
		_ = k
		_ = w
	}
	order := []string{"recv", "fetch", "sub", "stat", "enum", "page", "remove", "restart"}
	for _, k := range order {
		w := weights[k]
		if k == "restart" && !canRestart {
			w = 0
		}
		for i := 0; i < w; i++ {
			kinds = append(kinds, k)
		}
	}
	var ops []sim.Op
	pick := func() int { return r.Intn(len(pool)) }
	for i := 0; i < nops; i++ {
		k := kinds[r.Intn(len(kinds))]
		op := sim.Op{Kind: k}
		switch k {
		case "recv":
			op.B = []int{pick()}
			if r.Bool(0.2) {
				op.Via = "direct"
			}
		case "fetch":
			op.B = []int{pick()}
		case "sub":
			b := pick()
			op.B = []int{b}
			size := int64(len(pool[b].Data))
			offs := []int64{0, 0, 1, size / 2, size - 1, size, size + 1, size + 100, -1}
			lens := []int64{0, 1, size / 2, size, size + 1, 1 << 30, -1, 5}
			op.Off = offs[r.Intn(len(offs))]
			op.Len = lens[r.Intn(len(lens))]
			if r.Bool(0.85) {
				// mostly valid ranges
				if op.Off < 0 {
					op.Off = 0
				}
				if op.Len < 0 {
					op.Len = 3
				}
			}
		case "stat":
			n := r.Range(1, len(pool))
			if r.Bool(0.3) {
				n = len(pool)
			}
			op.B = r.Perm(len(pool))[:n]
		case "enum":
			op.After = genCursor(r, specs, refs)
			op.Limit = []int{1, 2, 3, 7, 1000}[r.Intn(5)]
		case "page":
			op.After = ""
			if r.Bool(0.3) {
				op.After = genCursor(r, specs, refs)
			}
			op.Limit = r.Range(1, 5)
		case "remove":
			n := 1
			if r.Bool(0.3) {
				n = r.Range(1, 3)
			}
			op.B = r.Perm(len(pool))[:min(n, len(pool))]
		case "restart":
			op.Mode = "graceful"
		}
		ops = append(ops, op)
	}
	return ops
}
