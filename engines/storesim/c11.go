package storesim

import (
	"bytes"
	"context"
	"encoding/json"
	"fmt"
	"perkeep.org/pkg/blobserver/encrypt"
	"sort"
	"strings"

	"verif/harness"
	"verif/sim"
	"verif/simcore"
)

// C11 — the encrypting store leaks no plaintext, detects tampering, and is
// recoverable from the wrapped stores alone.
//
// Root: encrypt(blobs = SimStore "eb", meta = SimStore "em", metaIndex =
// SimKV). Histories of receives (more than SmallMetaCountLimit in a share of
// runs, so the background meta compaction — scheduled by the simulator —
// fires), reads, restarts with the meta index wiped (graceful, or a kill at
// the instant an operation returned, with compaction still in flight), a
// process death inside a receive, and tamper operations applied to the
// wrapped stores' bytes.

type c11Op struct {
	// K: recv | fetch | stat | enum | restart | tamper | leakscan
	K string `json:"k"`
	B []int  `json:"b,omitempty"`
	// restart: Wipe the local index; Kill = do not quiesce/close first
	Wipe bool `json:"wipe,omitempty"`
	Kill bool `json:"kill,omitempty"`
	// Steps: scheduling decisions background work may take before a kill
	Steps int `json:"steps,omitempty"`
	// recv: the process dies before the CrashAt-th lower-layer call (0 = no crash)
	CrashAt int `json:"crashAt,omitempty"`
	// CrashMut: CrashAt counts mutating lower-layer calls only (this reaches
	// the background compaction the receive started: its calls are made
	// while the receive is the current operation)
	CrashMut bool `json:"crashMut,omitempty"`
	// FaultKind: "" = the process dies there (crash); "err" / "err-after" =
	// that lower-layer call fails transiently instead (C13's subject, placed
	// here because only long histories reach the background compaction)
	FaultKind string `json:"faultKind,omitempty"`
	// tamper
	Store  string `json:"store,omitempty"`  // "eb" | "em"
	Target int    `json:"target,omitempty"` // index into the store's sorted refs (mod len)
	Kind   string `json:"kind,omitempty"`   // flip | flipall | trunc | extend | swap | drop
	Pos    int    `json:"pos,omitempty"`
	Mask   int    `json:"mask,omitempty"`
	Other  int    `json:"other,omitempty"`
	// after tampering: also restart with a wiped index and check again
	ThenRestart bool `json:"thenRestart,omitempty"`
	// Largest: the target is the largest blob of the store (a packed meta
	// blob); Tail: flips and cuts happen near the end of it (beyond its
	// first authenticated chunk); Full: every blob is looked at afterwards
	Largest bool `json:"largest,omitempty"`
	Tail    bool `json:"tail,omitempty"`
	Full    bool `json:"full,omitempty"`
}

func (o c11Op) String() string {
	switch o.K {
	case "tamper":
		return fmt.Sprintf("tamper(%s#%d %s pos=%d other=%d restart=%v)", o.Store, o.Target, o.Kind, o.Pos, o.Other, o.ThenRestart)
	case "restart":
		return fmt.Sprintf("restart(wipe=%v kill=%v)", o.Wipe, o.Kill)
	case "recv":
		if o.CrashAt > 0 {
			return fmt.Sprintf("recv%v crash@%d", o.B, o.CrashAt)
		}
	}
	return fmt.Sprintf("%s%v", o.K, o.B)
}

func genC11(tier string, run int, r *simcore.Rand) *harness.Plan {
	root := &sim.Node{Type: "encrypt", Name: "enc", Kids: []*sim.Node{{Type: "sim", Name: "eb"}, {Type: "sim", Name: "em"}}}
	compaction := run%5 == 0
	nblobs := r.Range(1, 10)
	maxSize := 3000
	if compaction {
		nblobs = r.Range(101, 130)
		if tier == "thorough" && r.Bool(0.3) {
			nblobs = r.Range(200, 260)
		}
		maxSize = 200
	}
	// one run in 120: enough blobs for a packed meta blob larger than one
	// authenticated chunk of the encryption (64 KiB)
	large := run%120 == 61
	if large {
		compaction = true
		nblobs, maxSize = r.Range(560, 640), 60
	}
	specs := sim.GenBlobSpecs(r, nblobs, maxSize)
	for i := range specs {
		// distinct, non-trivial contents so leak windows are meaningful
		if specs[i].Size < 40 {
			specs[i].Size = 40 + r.Intn(60)
		}
		specs[i].Kind = "raw"
	}
	var ops []c11Op
	recvd := 0
	tamperKinds := []string{"flip", "flip", "flipall", "trunc", "extend", "swap", "drop"}
	for recvd < nblobs {
		op := c11Op{K: "recv", B: []int{recvd}}
		if !compaction && r.Bool(0.12) {
			op.CrashAt = r.Range(1, 6)
		}
		if compaction && !large && recvd%100 == 0 && recvd > 0 && r.Bool(0.7) {
			// the receive that triggers meta compaction: die before one of
			// the compaction's own writes (packed meta upload, small meta removal)
			op.CrashAt = r.Range(3, 6)
			op.CrashMut = true
			if r.Bool(0.5) {
				op.FaultKind = []string{sim.FErr, sim.FErrAfter}[r.Intn(2)]
			}
		}
		ops = append(ops, op)
		recvd++
		if large {
			continue
		}
		if compaction && r.Bool(0.9) {
			if recvd > 100 && r.Bool(0.2) {
				ops = append(ops, c11Op{K: "restart", Wipe: true, Kill: r.Bool(0.7), Steps: r.Intn(400)})
			}
			continue
		}
		for r.Bool(0.5) {
			switch r.Intn(8) {
			case 0:
				ops = append(ops, c11Op{K: "fetch", B: []int{r.Intn(nblobs)}})
			case 1:
				ops = append(ops, c11Op{K: "stat", B: r.Perm(nblobs)[:r.Range(1, nblobs)]})
			case 2:
				ops = append(ops, c11Op{K: "enum"})
			case 3:
				ops = append(ops, c11Op{K: "restart", Wipe: r.Bool(0.8), Kill: r.Bool(0.5)})
			case 4:
				ops = append(ops, c11Op{K: "recv", B: []int{r.Intn(recvd)}}) // duplicate
			default:
				st := []string{"eb", "em"}[r.Intn(2)]
				ops = append(ops, c11Op{K: "tamper", Store: st, Target: r.Intn(1000), Kind: tamperKinds[r.Intn(len(tamperKinds))],
					Pos: r.Intn(1 << 20), Mask: 1 + r.Intn(255), Other: r.Intn(1000), ThenRestart: r.Bool(0.5)})
			}
		}
	}
	if large {
		for _, k := range []string{"flip", "trunc", "trunc"} {
			ops = append(ops, c11Op{K: "tamper", Store: "em", Largest: true, Tail: true, Full: true, Kind: k, Pos: r.Intn(1 << 20), Mask: 1 + r.Intn(255), ThenRestart: true})
		}
	}
	ops = append(ops, c11Op{K: "leakscan"}, c11Op{K: "restart", Wipe: true}, c11Op{K: "enum"})
	cfg := Config{Root: root, Blobs: specs}
	// four runs in ten lower the two knobs of the meta compaction (shipped:
	// a compaction after 100 small meta blobs, a meta blob full at 10000
	// lines), so that short histories compact, and compact more than one
	// full group at once
	if !large && r.Bool(0.4) {
		cfg.MetaSmall = []int{2, 3, 5, 10}[r.Intn(4)]
		cfg.MetaFull = []int{3, 8, 20, 50}[r.Intn(4)]
	}
	// three runs in ten: the meta store sends fewer blobs per enumeration
	// call than it is asked for (legal: "at most limit"); the start-up scan
	// reads it through blobserver.EnumerateAll and must still see them all
	if r.Bool(0.3) {
		root.Kids[1].ShortPages = []int{1, 2, 7}[r.Intn(3)]
	}
	p := &harness.Plan{Mode: "encrypt", Config: harness.MustJSON(cfg), Bubble: true}
	p.LockYield = []int{0, 0, 50}[r.Intn(3)]
	p.Sticky = []int{0, 700}[r.Intn(2)]
	if compaction && r.Bool(0.5) {
		// let the background compaction run far ahead of (or behind) the
		// receive that started it
		p.Pct, p.PctHorizon = r.Range(1, 3), 4000
	}
	for _, op := range ops {
		p.Ops = append(p.Ops, harness.MustJSON(op))
	}
	return p
}

func execC11(rc *harness.RunCtx, p *harness.Plan, cfg *Config) *harness.Outcome {
	ctx := context.Background()
	ops := make([]c11Op, len(p.Ops))
	for i, raw := range p.Ops {
		if err := json.Unmarshal(raw, &ops[i]); err != nil {
			return &harness.Outcome{Inconclusive: "bad op: " + err.Error()}
		}
	}
	out := &harness.Outcome{Ops: len(ops), Fired: map[string]int{}, Reached: map[string]int{}}
	s, err := newSession(rc, cfg)
	if err != nil {
		out.Inconclusive = err.Error()
		return out
	}
	env := rc.Env
	if rc.Sched != nil {
		env.OnCrash = rc.Sched.AbandonTasks
	}
	if cfg.MetaFull > 0 || cfg.MetaSmall > 0 {
		// tuning knobs of the meta compaction, lowered for this run
		if of, os, ok := encrypt.VerifSetMetaLimits(cfg.MetaFull, cfg.MetaSmall); ok {
			defer encrypt.VerifSetMetaLimits(of, os)
			out.Reached["compaction-knobs-lowered"]++
		}
	}
	var berr error
	if herr := s.task(func() { berr = s.build() }); herr != nil || berr != nil {
		out.Inconclusive = fmt.Sprint("build: ", herr, berr)
		return out
	}
	eb, em := s.world.Store("eb"), s.world.Store("em")
	emMax := 0
	fail := func(i int, class, msg string) *harness.Outcome {
		out.Violation = harness.Viol(class, class+"@encrypt", fmt.Sprintf("encrypt(sim,sim), op #%d %s: %s", i, ops[i].String(), msg), i)
		return out
	}
	// sweep: every blob the model knows must read back exactly (or, when
	// tolerant, fail) — never different bytes
	all := make([]int, len(s.pool))
	for i := range all {
		all[i] = i
	}
	var only []int // when non-nil, the tolerant sweep looks at these blobs only
	sweep := func(tolerant bool) string {
		seq := []sim.Op{{Kind: "stat", B: all}, {Kind: "enum", Limit: 100000}}
		idxs := all
		if tolerant && only != nil {
			idxs = only
			seq = []sim.Op{{Kind: "stat", B: only}}
		}
		for _, i := range idxs {
			seq = append(seq, sim.Op{Kind: "fetch", B: []int{i}})
		}
		for _, op := range seq {
			res, herr := s.do(ctx, op)
			if herr != nil {
				return op.String() + " never returned"
			}
			if tolerant {
				// tampered state: a call may fail, data may never be wrong
				if res.Err == nil && op.Kind == "fetch" && res.ReadErr == nil {
					if !bytes.Equal(res.Data, s.pool[op.B[0]].Data) {
						return fmt.Sprintf("%s returned %d bytes that are not the original plaintext", op.String(), len(res.Data))
					}
				}
				continue
			}
			if v := s.model.Check(op, res, false); len(v) > 0 {
				return v[0]
			}
		}
		return ""
	}
	restart := func(wipe, kill bool) string {
		var msg string
		herr := s.task(func() {
			s.world.Restart(!kill)
			if wipe {
				s.world.KVState("enc.idx").Wipe()
			}
			if err := s.build(); err != nil {
				msg = "the store cannot be re-created from the wrapped stores: " + err.Error()
			}
		})
		if herr != nil {
			return "restart never finished"
		}
		return msg
	}
	leakScan := func() string {
		var hay bytes.Buffer
		for _, st := range []*sim.StoreState{eb, em} {
			snap := st.Snapshot()
			for _, name := range sim.SortedKeys(snap) {
				hay.WriteString(name)
				hay.WriteByte(0)
				hay.Write(snap[name])
				hay.WriteByte(0)
			}
		}
		h := hay.Bytes()
		for _, b := range s.pool {
			ref := b.Ref.String()
			if bytes.Contains(h, []byte(ref)) || bytes.Contains(h, []byte(b.Ref.Digest())) {
				return "plaintext blobref " + ref + " appears in the wrapped stores"
			}
			if len(b.Data) >= 32 {
				for _, off := range []int{0, len(b.Data)/2 - 8, len(b.Data) - 16} {
					if bytes.Contains(h, b.Data[off:off+16]) {
						return fmt.Sprintf("16 bytes of the plaintext of %s (offset %d) appear in the wrapped stores", ref, off)
					}
				}
			}
		}
		return ""
	}
	for i, op := range ops {
		for _, bi := range op.B {
			if bi >= len(s.pool) {
				out.Inconclusive = "op refers to blob outside pool"
				return out
			}
		}
		env.BeginOp(i)
		switch op.K {
		case "recv":
			env.Faults = nil
			if op.CrashAt > 0 {
				kind := sim.FCrash
				if op.FaultKind != "" {
					kind = op.FaultKind
				}
				env.Faults = []sim.Fault{{Op: i, K: op.CrashAt, Kind: kind, Mutating: op.CrashMut}}
			}
			firedBefore := env.Fired[op.FaultKind]
			sop := sim.Op{Kind: "recv", B: op.B}
			// when a kill follows, return the instant the receive returns:
			// the compaction it may have started is still in flight
			killNext := i+1 < len(ops) && ops[i+1].K == "restart" && ops[i+1].Kill
			var res sim.Result
			var herr error
			if killNext && rc.Sched != nil {
				rc.Sched.Go("c0", func() { res = sim.ExecOp(ctx, s.sto, s.pool, sop) })
				herr = rc.Sched.RunTasks()
			} else {
				res, herr = s.do(ctx, sop)
			}
			if herr != nil {
				return fail(i, "hang", "receive never returned")
			}
			if s.crashed(env) {
				s.sawCrash = false
				out.Fired["crash"]++
				if res.Return > 0 && res.Err == nil {
					// the receive had been acknowledged; the process died in
					// the background work it left behind
					out.Reached["crash-in-background-compaction"]++
					if v := s.model.Check(sop, res, false); len(v) > 0 {
						return fail(i, classOf(v[0]), v[0])
					}
				} else if s.model.Get(op.B[0]) != sim.Present {
					s.model.Set(op.B[0], sim.Maybe)
				}
				if msg := restart(true, true); msg != "" {
					return fail(i, "recover-failed", "after a process death inside a receive: "+msg)
				}
				if v := sweep(false); v != "" {
					return fail(i, "after-crash:"+classOf(v), "after a process death inside a receive and recovery from the wrapped stores: "+v)
				}
				continue
			}
			faulted := op.FaultKind != "" && env.Fired[op.FaultKind] > firedBefore
			if v := s.model.Check(sop, res, faulted); len(v) > 0 {
				return fail(i, classOf(v[0]), v[0])
			}
			if faulted {
				// a transient failure inside the receive or the compaction it
				// started: nothing acknowledged earlier may be lost, also not
				// after the mapping is rebuilt from the wrapped stores alone
				out.Fired["transient-"+op.FaultKind]++
				env.Faults = nil
				if msg := restart(true, false); msg != "" {
					return fail(i, "recover-failed", "after a transient lower-layer failure: "+msg)
				}
				if v := sweep(false); v != "" {
					return fail(i, "after-transient-fault:"+classOf(v), "after a transient lower-layer failure and a re-scan of the meta blobs: "+v)
				}
			}
		case "fetch", "stat", "enum":
			sop := sim.Op{Kind: op.K, B: op.B, Limit: 100000}
			res, herr := s.do(ctx, sop)
			if herr != nil {
				return fail(i, "hang", sop.String()+" never returned")
			}
			if v := s.model.Check(sop, res, false); len(v) > 0 {
				return fail(i, classOf(v[0]), v[0])
			}
		case "restart":
			if op.Kill && rc.Sched != nil && rc.Sched.Parked() > 0 {
				if op.Steps > 0 {
					rc.Sched.RunSteps(op.Steps)
				}
				if rc.Sched.Parked() > 0 {
					out.Reached["kill-with-background-work-in-flight"]++
				}
			}
			before := em.Len()
			if msg := restart(op.Wipe, op.Kill); msg != "" {
				return fail(i, "recover-failed", msg)
			}
			if op.Wipe {
				out.Reached["restart-index-wiped"]++
			}
			if v := sweep(false); v != "" {
				return fail(i, "after-restart:"+classOf(v), fmt.Sprintf("after restart (index wiped=%v, kill=%v, %d meta blobs): %s", op.Wipe, op.Kill, before, v))
			}
		case "leakscan":
			if v := leakScan(); v != "" {
				return fail(i, "plaintext-leak", v)
			}
		case "tamper":
			st := eb
			if op.Store == "em" {
				st = em
			}
			refs := st.Refs()
			if len(refs) == 0 {
				continue
			}
			// quiesce background work first so the snapshot is stable
			if rc.Sched != nil {
				rc.Sched.Run()
			}
			snapB, snapM, snapIdx := eb.Snapshot(), em.Snapshot(), s.world.KVState("enc.idx").Snapshot()
			target := refs[op.Target%len(refs)]
			if op.Largest {
				for _, r := range refs {
					a, _ := st.Get(r)
					b, _ := st.Get(target)
					if len(a) > len(b) {
						target = r
					}
				}
			}
			orig, _ := st.Get(target)
			if op.Tail && len(orig) > 70000 {
				out.Reached["tamper-beyond-the-first-chunk-of-a-packed-meta"]++
			}
			variants := [][]byte{}
			switch op.Kind {
			case "flip":
				if len(orig) == 0 {
					continue
				}
				c := append([]byte(nil), orig...)
				pos := op.Pos % len(c)
				if op.Tail {
					pos = len(c) - 1 - op.Pos%min(len(c), 200)
				}
				c[pos] ^= byte(op.Mask)
				variants = append(variants, c)
			case "flipall":
				// every position for small blobs, stratified otherwise
				step := 1
				if len(orig) > 1024 || op.Store == "em" {
					step = len(orig)/24 + 1
				}
				for pos := 0; pos < len(orig); pos += step {
					c := append([]byte(nil), orig...)
					c[pos] ^= byte(op.Mask)
					variants = append(variants, c)
				}
			case "trunc":
				cuts := []int{0, 1, len(orig) / 2, len(orig) - 16, len(orig) - 1}
				if op.Tail {
					cuts = []int{len(orig) - 100, len(orig) - 5000, len(orig) - 1}
				}
				n := cuts[op.Pos%len(cuts)]
				if n < 0 {
					n = 0
				}
				variants = append(variants, append([]byte(nil), orig[:n]...))
			case "extend":
				variants = append(variants, append(append([]byte(nil), orig...), byte(op.Mask), 0, 1))
			case "swap":
				other := refs[op.Other%len(refs)]
				ob, _ := st.Get(other)
				variants = append(variants, append([]byte(nil), ob...))
			case "drop":
				variants = append(variants, nil)
			}
			// which plaintexts can a tampered ciphertext affect? those whose
			// index row names it (a tampered meta blob matters at restart)
			only = nil
			if op.Store == "eb" {
				only = []int{}
				for bi, b := range s.pool {
					if v, ok := snapIdx[b.Ref.String()]; ok && strings.HasSuffix(v, "/"+target) {
						only = append(only, bi)
					}
				}
				if len(only) == 0 {
					only = []int{0}
				}
			} else if len(s.pool) > 30 {
				only = []int{0, len(s.pool) / 2, len(s.pool) - 1}
				if len(variants) > 6 {
					variants = variants[:6]
				}
			}
			restartFull := only
			if op.Store == "em" {
				restartFull = nil
				if len(s.pool) > 30 {
					restartFull = only
				}
			}
			if op.Full {
				only, restartFull = nil, nil
			}
			out.SubRuns += len(variants)
			out.Fired["tamper-"+op.Kind] += len(variants)
			for vi, v := range variants {
				if op.Kind == "drop" {
					st.Del(target)
				} else {
					st.Put(target, v)
				}
				desc := fmt.Sprintf("stored blob %s of %q tampered (%s variant %d/%d)", target, op.Store, op.Kind, vi, len(variants))
				if msg := sweep(true); msg != "" {
					return fail(i, "tamper-undetected", desc+": "+msg)
				}
				if op.ThenRestart && (vi == 0 || (op.Store == "em" && vi < 8)) {
					only = restartFull
					if msg := restart(true, false); msg != "" {
						// start-up may refuse tampered meta; that is detection
						out.Reached["startup-refused-tampered"]++
					} else if msg := sweep(true); msg != "" {
						return fail(i, "tamper-undetected-after-restart", desc+", then restart with wiped index: "+msg)
					} else if op.Store == "em" && op.Kind != "drop" && !bytes.Equal(v, orig) {
						// the start-up scan accepted every meta blob, the
						// tampered one included: then the mapping it rebuilt
						// must be the whole mapping. Coming up without a word
						// and with part of the store gone is not detection.
						out.Reached["startup-accepted-tampered-meta"]++
						sop := sim.Op{Kind: "stat", B: all}
						res, herr := s.do(ctx, sop)
						if herr != nil {
							return fail(i, "hang", "stat never returned")
						}
						if vv := s.model.Clone().Check(sop, res, false); len(vv) > 0 {
							return fail(i, "tampered-meta-accepted-mapping-incomplete", desc+", then restart with wiped index succeeded without complaint, but: "+vv[0])
						}
					}
				}
				restarted := op.ThenRestart && (vi == 0 || (op.Store == "em" && vi < 8))
				// restore; a refused start-up may have left a compaction of
				// the instance that never came up in flight (a real process
				// would have exited): let it finish before time is turned back
				if rc.Sched != nil {
					rc.Sched.Run()
				}
				eb.Restore(snapB)
				em.Restore(snapM)
				s.world.KVState("enc.idx").Restore(snapIdx)
				if restarted {
					if msg := restart(false, false); msg != "" {
						return fail(i, "recover-failed", "after restoring the original bytes: "+msg)
					}
				}
			}
			only = nil
			if v := sweep(false); v != "" {
				return fail(i, "after-untamper:"+classOf(v), "after restoring the original bytes: "+v)
			}
		}
		if em.Len() < emMax {
			out.Reached["meta-compaction-removed-small-metas"]++
		}
		if em.Len() > emMax {
			emMax = em.Len()
		}
	}
	if v := leakScan(); v != "" {
		return fail(len(ops)-1, "plaintext-leak", v)
	}
	kinds := make([]string, 0, len(ops))
	for _, op := range ops {
		k := op.K
		if op.K == "tamper" {
			k += ":" + op.Store + ":" + op.Kind
		}
		kinds = append(kinds, k)
	}
	sort.Strings(kinds)
	seq := ""
	for _, op := range ops {
		seq += op.K[:2]
	}
	out.ShapeKey = fmt.Sprintf("n%d|%s|%s", len(s.pool), seq, strings.Join(kinds[:min(len(kinds), 0)], ","))
	out.Nontrivial = len(ops) >= 3
	var sample []string
	for i, op := range ops {
		if i > 10 {
			break
		}
		sample = append(sample, op.String())
	}
	out.Sample = map[string]any{"blobs": len(s.pool), "ops": len(ops), "first_ops": sample}
	return out
}
