package storesim

import (
	"archive/zip"
	"bytes"
	"context"
	"encoding/json"
	"errors"
	"fmt"
	"io"
	"os"
	"sort"
	"strings"

	"perkeep.org/pkg/blob"
	"perkeep.org/pkg/blobserver"
	"perkeep.org/pkg/blobserver/blobpacked"

	"verif/harness"
	"verif/sim"
	"verif/simcore"
)

// C04 — packing files into zips is invisible to clients and recoverable from
// the zips.
//
// Root: blobpacked(small = SimStore "bs", large = SimStore "bl", meta =
// SimKV). Files at/above the 512 KiB packing threshold are cut into chunks by
// the harness's own chunker (so packing does not depend on perkeep's writer),
// uploaded in a seeded order (the file blob may arrive before its chunks: then
// no pack happens and none is expected). The pack runs synchronously inside
// the ReceiveBlob of the file blob: its mutating lower-layer calls (zip into
// large, meta batch, loose-blob removal per zip, final whole-file row) are
// counted, and the history is re-executed with the process dying before each
// of them, followed by a restart in each recovery mode.

type c04File struct {
	Name   string `json:"name"`
	Size   int    `json:"size"`
	Chunk  int    `json:"chunk"`  // nominal chunk size
	Irreg  bool   `json:"irreg"`  // irregular chunk sizes
	Nested bool   `json:"nested"` // group chunks under nested bytes schemas
	// NestTail: the nested group covers the file's last chunks instead of its
	// middle, so that with a lowered zip cap its schema blobs belong to a
	// later zip than the first
	NestTail bool   `json:"nestTail,omitempty"`
	Salt     uint64 `json:"salt"`
	// SameAs >= 0: identical content as file SameAs under another name
	SameAs int `json:"sameAs"`
	// Repeat: repeat the first chunk's content several times inside the file
	Repeat bool `json:"repeat,omitempty"`
}

type c04Config struct {
	Files  []c04File `json:"files"`
	ZipMax int       `json:"zipMax"` // 0 = real 16 MiB
}

type c04Op struct {
	// K: up (upload blob index B of the derived pool) | remove | restart | check |
	// stream (a consumer of StreamBlobs reads up to N more blobs of its
	// traversal - started by the first stream op, resumed by the following
	// ones from the token of the last blob it read - and, at the end of the
	// traversal, must have been handed every blob that was present from its
	// start to its end, each with its bytes)
	K    string `json:"k"`
	B    int    `json:"b,omitempty"`
	N    int    `json:"n,omitempty"`
	Mode string `json:"mode,omitempty"` // restart: none | fast | full ; Wipe
	Wipe bool   `json:"wipe,omitempty"`
}

type c04World struct {
	pool   []*sim.TBlob
	files  []c04FileInfo
	isFile map[int]int // pool index of a file blob -> file index
}

type c04FileInfo struct {
	spec      c04File
	data      []byte
	wholeRef  blob.Ref
	fileIdx   int   // pool index of the file schema blob
	chunkIdx  []int // pool indices of data chunks in file order
	schemaIdx []int // pool indices of nested bytes schema blobs
}

func rawBlob(data []byte) *sim.TBlob {
	h := blob.NewHash()
	h.Write(data)
	return &sim.TBlob{Ref: blob.RefFromHash(h), Data: data, Spec: sim.BlobSpec{Size: len(data), Kind: "raw"}}
}

type partJSON struct {
	BlobRef  string `json:"blobRef,omitempty"`
	BytesRef string `json:"bytesRef,omitempty"`
	Size     int    `json:"size"`
}

func schemaBlob(typ, name string, parts []partJSON) *sim.TBlob {
	m := map[string]any{"camliVersion": 1, "camliType": typ, "parts": parts}
	if typ == "file" {
		m["fileName"] = name
		m["unixPermission"] = "0644"
	}
	b, _ := json.MarshalIndent(m, "", "  ")
	// schema blobs must start with {"camliVersion"
	s := string(b)
	s = "{\"camliVersion\": 1,\n" + strings.TrimPrefix(strings.Replace(s, "\"camliVersion\": 1,\n", "", 1), "{\n")
	t := rawBlob([]byte(s))
	t.Spec.Kind = "schema"
	return t
}

// buildC04 derives the blob pool from the declarative file list.
func buildC04(cc *c04Config) *c04World {
	w := &c04World{isFile: map[int]int{}}
	byRef := map[string]int{}
	add := func(t *sim.TBlob) int {
		if i, ok := byRef[t.Ref.String()]; ok {
			return i
		}
		byRef[t.Ref.String()] = len(w.pool)
		w.pool = append(w.pool, t)
		return len(w.pool) - 1
	}
	for fi, f := range cc.Files {
		info := c04FileInfo{spec: f}
		if f.SameAs >= 0 && f.SameAs < fi {
			info.data = w.files[f.SameAs].data
		} else {
			info.data = make([]byte, f.Size)
			simcore.NewRand(simcore.Mix(f.Salt, "c04")).Bytes(info.data)
			if f.Repeat && f.Size > 3*f.Chunk {
				copy(info.data[f.Chunk:2*f.Chunk], info.data[:f.Chunk])
				copy(info.data[2*f.Chunk:3*f.Chunk], info.data[:f.Chunk])
			}
		}
		h := blob.NewHash()
		h.Write(info.data)
		info.wholeRef = blob.RefFromHash(h)
		r := simcore.NewRand(simcore.Mix(f.Salt, "cuts", fi))
		var parts []partJSON
		for off := 0; off < len(info.data); {
			n := f.Chunk
			if f.Irreg {
				n = f.Chunk/2 + r.Intn(f.Chunk)
			}
			if off+n > len(info.data) {
				n = len(info.data) - off
			}
			ci := add(rawBlob(info.data[off : off+n]))
			info.chunkIdx = append(info.chunkIdx, ci)
			parts = append(parts, partJSON{BlobRef: w.pool[ci].Ref.String(), Size: n})
			off += n
		}
		if f.Nested && len(parts) >= 4 {
			// group chunks under a bytes schema, and half of those under a
			// second level: the middle chunks, or (NestTail) the last ones
			lo, hi := 1, len(parts)-1
			if f.NestTail {
				lo, hi = len(parts)/2+1, len(parts)
			}
			mid := parts[lo:hi]
			half := len(mid) / 2
			if half == 0 {
				half = 1
			}
			inner := schemaBlob("bytes", "", mid[:half])
			ii := add(inner)
			info.schemaIdx = append(info.schemaIdx, ii)
			innerSize := 0
			for _, p := range mid[:half] {
				innerSize += p.Size
			}
			outerParts := append([]partJSON{{BytesRef: inner.Ref.String(), Size: innerSize}}, mid[half:]...)
			outer := schemaBlob("bytes", "", outerParts)
			oi := add(outer)
			info.schemaIdx = append(info.schemaIdx, oi)
			outerSize := 0
			for _, p := range mid {
				outerSize += p.Size
			}
			np := append([]partJSON{}, parts[:lo]...)
			np = append(np, partJSON{BytesRef: outer.Ref.String(), Size: outerSize})
			np = append(np, parts[hi:]...)
			parts = np
		}
		fb := schemaBlob("file", f.Name, parts)
		info.fileIdx = add(fb)
		w.isFile[info.fileIdx] = fi
		w.files = append(w.files, info)
	}
	return w
}

func genC04(tier string, run int, r *simcore.Rand) *harness.Plan {
	cc := &c04Config{}
	nfiles := 1
	if r.Bool(0.35) {
		nfiles = 2
	}
	cc.ZipMax = []int{200 << 10, 300 << 10, 450 << 10, 0}[r.Intn(4)]
	if r.Bool(0.15) {
		cc.ZipMax = 0
	}
	for i := 0; i < nfiles; i++ {
		f := c04File{Name: fmt.Sprintf("file%d.dat", i), Salt: r.Uint64(), SameAs: -1}
		f.Size = (512 << 10) + []int{0, 1, 1000, 70000, 200000}[r.Intn(5)]
		if r.Bool(0.12) {
			f.Size = (512 << 10) - 1 - r.Intn(1000) // control: below the threshold
		}
		f.Chunk = []int{32 << 10, 64 << 10, 100000, 256 << 10}[r.Intn(4)]
		// the lowered zip cap is a simulator knob: keep every chunk (and the
		// schema blobs that travel with it) well below it, as chunks (<= 1 MiB)
		// are below the real 16 MiB cap; otherwise the packer cannot make
		// progress, which no real configuration can cause
		for cc.ZipMax > 0 && f.Chunk*4 > cc.ZipMax {
			f.Chunk /= 2
		}
		f.Irreg = r.Bool(0.4)
		f.Nested = r.Bool(0.45)
		f.NestTail = r.Bool(0.5)
		f.Repeat = r.Bool(0.2)
		if i == 1 && r.Bool(0.4) {
			f = cc.Files[0]
			f.Name = "other-name.bin"
			f.SameAs = 0
		}
		cc.Files = append(cc.Files, f)
	}
	w := buildC04(cc)
	// upload order: mostly dependencies first (then the file blob packs),
	// sometimes fully permuted (the file blob may come before its chunks)
	var ops []c04Op
	order := r.Perm(len(w.pool))
	if r.Bool(0.75) {
		// file blobs last, in file order
		var first, last []int
		for _, i := range order {
			if _, ok := w.isFile[i]; ok {
				last = append(last, i)
			} else {
				first = append(first, i)
			}
		}
		sort.Ints(last)
		order = append(first, last...)
	}
	streamed := r.Bool(0.35)
	started := false
	for k, i := range order {
		if _, isFile := w.isFile[i]; streamed && !started && (isFile || k == len(order)-1) && k > 0 {
			// a StreamBlobs consumer reads a few blobs, the next upload
			// (typically a file blob: it packs) happens, the consumer resumes
			ops = append(ops, c04Op{K: "stream", N: r.Range(1, 4)})
			started = true
		}
		ops = append(ops, c04Op{K: "up", B: i})
		if started && r.Bool(0.3) {
			ops = append(ops, c04Op{K: "stream", N: r.Range(1, 6)})
		}
	}
	if started {
		ops = append(ops, c04Op{K: "stream", N: 1 << 20})
	}
	ops = append(ops, c04Op{K: "check"})
	modes := []string{"none", "fast", "full"}
	for n := r.Range(1, 4); n > 0; n-- {
		switch r.Intn(4) {
		case 0:
			ops = append(ops, c04Op{K: "remove", B: r.Intn(len(w.pool))})
		case 1:
			ops = append(ops, c04Op{K: "restart", Mode: modes[r.Intn(3)], Wipe: r.Bool(0.5)})
		case 2:
			ops = append(ops, c04Op{K: "up", B: r.Intn(len(w.pool))})
		default:
			ops = append(ops, c04Op{K: "check"})
		}
	}
	ops = append(ops, c04Op{K: "restart", Mode: "full", Wipe: true}, c04Op{K: "check"})
	cfg := Config{Root: &sim.Node{Type: "blobpacked", Name: "bp", Kids: []*sim.Node{{Type: "sim", Name: "bs"}, {Type: "sim", Name: "bl"}}}, C04: cc}
	p := &harness.Plan{Mode: "pack", Config: harness.MustJSON(cfg), Bubble: true}
	p.Sticky = 900
	for _, op := range ops {
		p.Ops = append(p.Ops, harness.MustJSON(op))
	}
	return p
}

type c04Run struct {
	s       *session
	w       *c04World
	cc      *c04Config
	env     *sim.Env
	rc      *harness.RunCtx
	removed map[string]bool // logical blobs removed (acknowledged) — may resurrect after a full recovery (documented)
	// the StreamBlobs consumer (stream ops)
	strActive bool
	strToken  string
	strSeen   map[string]bool
	strBase   map[string]bool // present when the traversal began
}

// streamStep reads up to n more blobs of the consumer's traversal.
func (r *c04Run) streamStep(ctx context.Context, n int) (class, msg string) {
	s := r.s
	bs, ok := s.sto.(blobserver.BlobStreamer)
	if !ok {
		return "stream:not-a-streamer", "the packed store does not implement BlobStreamer"
	}
	if !r.strActive {
		r.strActive, r.strToken, r.strSeen, r.strBase = true, "", map[string]bool{}, map[string]bool{}
		for ref, st := range s.model.State {
			if st == sim.Present {
				r.strBase[ref] = true
			}
		}
	}
	var serr error
	ended := false
	bad := ""
	herr := s.task(func() {
		cctx, cancel := context.WithCancel(ctx)
		defer cancel()
		ch := make(chan blobserver.BlobAndToken, 1)
		errc := make(chan error, 1)
		go func() { errc <- bs.StreamBlobs(cctx, ch, r.strToken) }()
		got := 0
		for bt := range ch {
			ref := bt.Blob.Ref().String()
			b := s.byRef(ref)
			if b == nil {
				// zips of large are not logical blobs of this store
				bad = "StreamBlobs presented " + ref + ", which was never uploaded"
				cancel()
				break
			}
			rc, rerr := bt.Blob.ReadAll(cctx)
			if rerr != nil {
				bad = fmt.Sprintf("StreamBlobs presented %s but reading it failed: %v", ref, rerr)
				cancel()
				break
			}
			data := slurp(rc)
			if !bytes.Equal(data, b.Data) {
				bad = fmt.Sprintf("StreamBlobs presented %s with %d bytes that are not the blob's (%d bytes)", ref, len(data), len(b.Data))
				cancel()
				break
			}
			r.strSeen[ref] = true
			r.strToken = bt.Token
			got++
			if got >= n {
				cancel()
				break
			}
		}
		for range ch {
		}
		serr = <-errc
		if got < n && bad == "" && (serr == nil) {
			ended = true
		}
	})
	if herr != nil {
		return "stream:hang", "StreamBlobs never returned"
	}
	if bad != "" {
		return "stream:wrong-item", bad
	}
	if serr != nil && !errors.Is(serr, context.Canceled) {
		return "stream:error", fmt.Sprintf("StreamBlobs(token %q) failed: %v", r.strToken, serr)
	}
	r.rcReach("stream-step")
	if !ended {
		return "", ""
	}
	// the traversal is over: everything present throughout was delivered
	r.strActive = false
	for _, ref := range sim.SortedKeys(r.strBase) {
		if s.model.State[ref] != sim.Present || r.removed[ref] || r.strSeen[ref] {
			continue
		}
		return "stream:missed-blob", fmt.Sprintf("a StreamBlobs traversal (resumed by continuation token, %d blobs delivered) never delivered %s, which was present from before it began until after it ended", len(r.strSeen), ref)
	}
	r.rcReach("stream-traversal-complete")
	return "", ""
}

func (r *c04Run) applyKnobs() {
	if r.cc.ZipMax > 0 {
		blobpacked.VerifSetMaxZipBlobSize(r.s.sto, r.cc.ZipMax)
	}
}

func (r *c04Run) restart(mode string, wipe, graceful bool) string {
	var msg string
	herr := r.s.task(func() {
		r.s.world.Restart(graceful)
		if wipe {
			r.s.world.KVState("bp.meta").Wipe()
		}
		switch mode {
		case "fast":
			blobpacked.SetRecovery(blobpacked.FastRecovery)
		case "full":
			blobpacked.SetRecovery(blobpacked.FullRecovery)
		default:
			blobpacked.SetRecovery(blobpacked.NoRecovery)
		}
		defer blobpacked.SetRecovery(blobpacked.NoRecovery)
		if err := r.s.build(); err != nil {
			msg = "the packed store cannot be re-created: " + err.Error()
			return
		}
		r.applyKnobs()
		if mode == "fast" || mode == "full" {
			// a store that recovery rebuilt must pass its own start-up
			// check (keepGoing, set in the simulated configuration, only
			// logs it)
			if complaint := blobpacked.VerifCheckLargeIntegrity(r.s.sto); complaint != "" {
				msg = "after recovery from the zips the store's own start-up integrity check fails (a start without keepGoing would refuse): " + complaint
			}
		}
	})
	if herr != nil {
		return "restart never finished"
	}
	return msg
}

// sweep checks every logical blob against the reference map, whole-file reads
// and the zips in large.
func (r *c04Run) sweep(ctx context.Context, tag string) (class, msg string) {
	s := r.s
	all := make([]int, len(s.pool))
	for i := range all {
		all[i] = i
	}
	seq := []sim.Op{{Kind: "stat", B: all}, {Kind: "enum", Limit: 100000}, {Kind: "page", Limit: 3}}
	for i, b := range s.pool {
		seq = append(seq, sim.Op{Kind: "fetch", B: []int{i}})
		if len(b.Data) > 10 {
			seq = append(seq, sim.Op{Kind: "sub", B: []int{i}, Off: int64(len(b.Data) / 3), Len: int64(len(b.Data)/2 + 5)})
		}
	}
	for _, op := range seq {
		res, herr := s.do(ctx, op)
		if herr != nil {
			return tag + ":hang", op.String() + " never returned"
		}
		if v := s.model.Check(op, res, false); len(v) > 0 {
			if os.Getenv("VERIF_DEBUG") != "" {
				dbg := ""
				for i, b := range s.pool {
					ref := b.Ref.String()
					_, inMeta := s.world.KVState("bp.meta").Snapshot()["b:"+ref]
					dbg += fmt.Sprintf("\n  pool[%d] %s size=%d small=%v meta=%v model=%v", i, ref[:16], len(b.Data), s.world.Store("bs").Has(ref), inMeta, s.model.State[ref])
				}
				return tag + ":" + classOf(v[0]), v[0] + dbg
			}
			return tag + ":" + classOf(v[0]), v[0]
		}
	}
	// whole-file reads
	wf, ok := s.sto.(blobserver.WholeRefFetcher)
	if !ok {
		return tag + ":no-wholeref", "blobpacked store does not implement WholeRefFetcher"
	}
	meta := s.world.KVState("bp.meta").Snapshot()
	for _, f := range r.w.files {
		_, packed := meta["w:"+f.wholeRef.String()]
		for _, off := range []int64{0, 1, int64(len(f.data) / 2), int64(len(f.data)) - 1} {
			var got []byte
			var size int64
			var err error
			herr := s.task(func() {
				var rc io.ReadCloser
				rc, size, err = wf.OpenWholeRef(f.wholeRef, off)
				if err == nil {
					got, err = io.ReadAll(rc)
					rc.Close()
				}
			})
			if herr != nil {
				return tag + ":hang", "OpenWholeRef never returned"
			}
			if err != nil {
				if packed && !r.anyRemoved(f) {
					return tag + ":wholeref-failed", fmt.Sprintf("OpenWholeRef(%s, %d) failed although the whole-file row exists: %v", f.spec.Name, off, err)
				}
				if !packed && !os.IsNotExist(err) && err != os.ErrNotExist {
					// before the whole-file row exists the documented answer is not-exist
					if !strings.Contains(err.Error(), "not exist") {
						return tag + ":wholeref-error", fmt.Sprintf("OpenWholeRef(%s, %d) before packing: %v (want not-exist)", f.spec.Name, off, err)
					}
				}
				continue
			}
			if size != int64(len(f.data)) || !bytes.Equal(got, f.data[off:]) {
				return tag + ":wholeref-wrong-bytes", fmt.Sprintf("OpenWholeRef(%s, %d) returned %d bytes (whole size %d), want %d (whole size %d)", f.spec.Name, off, len(got), size, len(f.data)-int(off), len(f.data))
			}
			r.rcReach("wholeref-read")
		}
	}
	// every blob in large is a valid zip within the limit whose first entry
	// is contiguous file content and whose manifest matches
	zipMax := r.cc.ZipMax
	if zipMax == 0 {
		zipMax = 16 << 20
	}
	large := s.world.Store("bl").Snapshot()
	for _, name := range sim.SortedKeys(large) {
		zb := large[name]
		if len(zb) > zipMax {
			return tag + ":zip-too-large", fmt.Sprintf("zip %s has %d bytes, limit %d", name, len(zb), zipMax)
		}
		if br, ok := blob.Parse(name); !ok || blob.RefFromBytes(zb) != br {
			return tag + ":zip-not-a-valid-blob", fmt.Sprintf("large blob %s does not hash to its ref", name)
		}
		zr, err := zip.NewReader(bytes.NewReader(zb), int64(len(zb)))
		if err != nil || len(zr.File) < 2 {
			return tag + ":zip-invalid", fmt.Sprintf("large blob %s is not a valid zip: %v", name, err)
		}
		var mf blobpacked.Manifest
		found := false
		for _, zf := range zr.File {
			if zf.Name == "camlistore/camlistore-pack-manifest.json" {
				rc, _ := zf.Open()
				b, _ := io.ReadAll(rc)
				rc.Close()
				if json.Unmarshal(b, &mf) == nil {
					found = true
				}
			}
		}
		if !found {
			return tag + ":zip-no-manifest", "zip " + name + " has no readable manifest"
		}
		var file *c04FileInfo
		for i := range r.w.files {
			if r.w.files[i].wholeRef == mf.WholeRef {
				file = &r.w.files[i]
				break
			}
		}
		if file == nil {
			return tag + ":zip-unknown-whole", "zip " + name + " manifest names unknown wholeRef " + mf.WholeRef.String()
		}
		rc, err := zr.File[0].Open()
		if err != nil {
			return tag + ":zip-invalid", "first entry unreadable: " + err.Error()
		}
		first, _ := io.ReadAll(rc)
		rc.Close()
		// the manifest's data blobs, concatenated, must be the first entry and
		// a contiguous run of the file's chunks
		var cat []byte
		for _, db := range mf.DataBlobs {
			b := s.byRef(db.Ref.String())
			if b == nil {
				return tag + ":zip-manifest-wrong", "manifest of " + name + " lists unknown blob " + db.Ref.String()
			}
			if db.Offset != int64(len(cat)) || int(db.Size) != len(b.Data) {
				return tag + ":zip-manifest-wrong", fmt.Sprintf("manifest of %s: blob %s at offset %d size %d, want offset %d size %d", name, db.Ref, db.Offset, db.Size, len(cat), len(b.Data))
			}
			cat = append(cat, b.Data...)
		}
		if !bytes.Equal(first, cat) {
			return tag + ":zip-first-entry-wrong", fmt.Sprintf("first entry of zip %s (%d bytes) is not the concatenation of the manifest's data blobs (%d bytes)", name, len(first), len(cat))
		}
		if !bytes.Contains(file.data, first) || len(first) == 0 {
			return tag + ":zip-first-entry-wrong", fmt.Sprintf("first entry of zip %s is not contiguous content of %s", name, file.spec.Name)
		}
		if int64(len(file.data)) != mf.WholeSize {
			return tag + ":zip-manifest-wrong", fmt.Sprintf("manifest of %s: wholeSize %d, want %d", name, mf.WholeSize, len(file.data))
		}
		r.rcReach("zip-validated")
	}
	if len(large) > 1 {
		r.rcReach("multi-zip")
	}
	return "", ""
}

// unpinRemoved: the removal of a packed blob is recorded in the meta index
// only (blobpacked's RemoveBlobs comment: the zip stays in large), so a
// recovery that rebuilds the index from the zips brings the blob back. That is
// the documented behaviour, not demanded to be otherwise: blobs removed
// earlier in the history may be present or absent after such a recovery.
func (r *c04Run) unpinRemoved() {
	for ref := range r.removed {
		if r.s.model.State[ref] == sim.Absent {
			r.s.model.State[ref] = sim.Maybe
		}
	}
}

// release drops the sub-run's stored bytes (zombie goroutines of crashed
// generations keep the wrappers alive otherwise).
func (r *c04Run) release() {
	for _, st := range r.s.world.Stores {
		st.Restore(nil)
	}
	for _, kv := range r.s.world.KVs {
		kv.Restore(nil)
	}
}

func (r *c04Run) anyRemoved(f c04FileInfo) bool {
	for _, ci := range append(append([]int{f.fileIdx}, f.chunkIdx...), f.schemaIdx...) {
		if r.removed[r.s.pool[ci].Ref.String()] {
			return true
		}
	}
	return false
}

var c04Reach map[string]int

func (r *c04Run) rcReach(k string) { c04Reach[k]++ }

func execC04(rc *harness.RunCtx, p *harness.Plan, cfg *Config) *harness.Outcome {
	ctx := context.Background()
	ops := make([]c04Op, len(p.Ops))
	for i, raw := range p.Ops {
		if err := json.Unmarshal(raw, &ops[i]); err != nil {
			return &harness.Outcome{Inconclusive: "bad op: " + err.Error()}
		}
	}
	out := &harness.Outcome{Ops: len(ops), Fired: map[string]int{}, Reached: map[string]int{}}
	c04Reach = out.Reached
	cc := cfg.C04
	if cc == nil {
		out.Inconclusive = "C04 config missing"
		return out
	}
	w := buildC04(cc)
	for _, op := range ops {
		if (op.K == "up" || op.K == "remove") && op.B >= len(w.pool) {
			out.Inconclusive = "op refers to blob outside pool"
			return out
		}
	}
	crashOnly, crashK := -1, -1
	if cc2 := cfg.C04Replay; cc2 != nil {
		crashOnly, crashK = cc2[0], cc2[1]
	}
	// run executes the history; crashOp/crashK >= 0: the process dies before
	// the crashK-th mutating lower-layer call of op crashOp, followed by a
	// restart in mode afterMode; returns the mutating-call counts per op
	run := func(crashOp, crashAt int, afterMode string, sub int) (viol *harness.Violation, mutCalls []int, inconcl string) {
		env := sim.NewEnv()
		env.Record = true
		if rc.Sched != nil {
			rc.Sched.Reseed(simcore.Mix(p.SchedSeed, "c04"))
			env.OnCrash = rc.Sched.AbandonTasks
		}
		s, err := newSessionEnv(rc, cfg, env, fmt.Sprintf("%s/sub%d", rc.Scratch, sub))
		if err != nil {
			return nil, nil, err.Error()
		}
		s.pool = w.pool
		s.model = sim.NewModel(w.pool, sim.Caps{})
		r := &c04Run{s: s, w: w, cc: cc, env: env, rc: rc, removed: map[string]bool{}}
		var berr error
		if herr := s.task(func() { berr = s.build(); r.applyKnobs() }); herr != nil || berr != nil {
			return nil, nil, fmt.Sprint("build: ", herr, berr)
		}
		mk := func(i int, class, msg, where string) *harness.Violation {
			sig := class + "@blobpacked"
			if strings.Contains(msg, "looked like duplicates at first") {
				sig = class + "|reindex-hasDups-panic@blobpacked"
			}
			return harness.Viol(class, sig, fmt.Sprintf("blobpacked(zipMax=%d) files=%v, op #%d %s%s: %s", cc.ZipMax, fileNames(cc), i, opStr(ops[i]), where, msg), i)
		}
		mutCalls = make([]int, len(ops))
		afterCrash := false
		for i, op := range ops {
			env.BeginOp(i)
			t0 := len(env.Trace)
			switch op.K {
			case "up":
				env.Faults = nil
				if i == crashOp {
					env.Faults = []sim.Fault{{Op: i, K: crashAt, Kind: sim.FCrash, Mutating: true}}
				}
				sop := sim.Op{Kind: "recv", B: []int{op.B}}
				res, herr := s.do(ctx, sop)
				if herr != nil {
					return mk(i, "hang", "receive never returned", ""), nil, ""
				}
				for _, c := range env.Trace[t0:] {
					if c.Mut {
						mutCalls[i]++
					}
					if os.Getenv("VERIF_C04_TRACE") != "" {
						fmt.Fprintf(os.Stderr, "c04trace op=%d %+v\n", i, c)
					}
				}
				if s.crashed(env) {
					s.sawCrash = false
					out.Fired["crash"]++
					if s.model.Get(op.B) != sim.Present {
						s.model.Set(op.B, sim.Maybe)
					}
					where := fmt.Sprintf(" [process died before mutating lower-layer call #%d, restart with recovery=%s]", crashAt, afterMode)
					if msg := r.restart(afterMode, false, false); msg != "" {
						return mk(i, "recover-failed", msg, where), nil, ""
					}
					if afterMode == "fast" || afterMode == "full" {
						r.unpinRemoved()
					}
					if cl, msg := r.sweep(ctx, "after-crash"); cl != "" {
						return mk(i, cl, msg, where), nil, ""
					}
					// the zips alone must rebuild everything: wipe meta, full recovery
					if msg := r.restart("full", true, true); msg != "" {
						return mk(i, "recover-failed", "full recovery from the zips alone: "+msg, where), nil, ""
					}
					r.unpinRemoved()
					if cl, msg := r.sweep(ctx, "after-crash-full-recovery"); cl != "" {
						return mk(i, cl, msg, where), nil, ""
					}
					// a later removal must still make the blob disappear (the
					// loose copy and the packed copy may both exist now)
					victim := op.B
					if s.model.Get(victim) == sim.Present && !s.model.Caps.NoRemove {
						rop := sim.Op{Kind: "remove", B: []int{victim}}
						res, herr := s.do(ctx, rop)
						if herr != nil {
							return mk(i, "hang", "remove after recovery never returned", where), nil, ""
						}
						if v := s.model.Check(rop, res, false); len(v) > 0 {
							return mk(i, "after-crash:"+classOf(v[0]), v[0], where), nil, ""
						}
						r.removed[s.pool[victim].Ref.String()] = true
						for _, fop := range []sim.Op{{Kind: "fetch", B: []int{victim}}, {Kind: "stat", B: []int{victim}}, {Kind: "enum", Limit: 100000}} {
							res, herr := s.do(ctx, fop)
							if herr != nil {
								return mk(i, "hang", fop.String()+" never returned", where), nil, ""
							}
							if v := s.model.Check(fop, res, false); len(v) > 0 {
								return mk(i, "after-crash-remove:"+classOf(v[0]), v[0], where), nil, ""
							}
						}
					}
					if len(cc.Files) < 2 {
						r.release()
						return nil, nil, ""
					}
					// a second file follows: go on with the history (the same
					// bytes may be packed again under another name), then a
					// recovery and a final sweep
					afterCrash = true
					continue
				}
				if v := s.model.Check(sop, res, false); len(v) > 0 {
					return mk(i, classOf(v[0]), v[0], ""), nil, ""
				}
				delete(r.removed, s.pool[op.B].Ref.String())
			case "remove":
				sop := sim.Op{Kind: "remove", B: []int{op.B}}
				res, herr := s.do(ctx, sop)
				if herr != nil {
					return mk(i, "hang", "remove never returned", ""), nil, ""
				}
				if v := s.model.Check(sop, res, false); len(v) > 0 {
					return mk(i, classOf(v[0]), v[0], ""), nil, ""
				}
				r.removed[s.pool[op.B].Ref.String()] = true
			case "restart":
				r.strActive = false // a traversal does not survive the process
				if msg := r.restart(op.Mode, op.Wipe, true); msg != "" {
					return mk(i, "recover-failed", msg, ""), nil, ""
				}
				if op.Mode == "full" || op.Mode == "fast" {
					// documented: removals of packed blobs live only in meta; a
					// recovery from the zips brings them back. Not demanded.
					r.unpinRemoved()
				}
				if op.Wipe && op.Mode == "none" {
					// meta lost and not rebuilt: packed blobs are legitimately
					// unreachable until a recovery runs; rebuild now
					if msg := r.restart("fast", false, true); msg != "" {
						return mk(i, "recover-failed", msg, ""), nil, ""
					}
					r.unpinRemoved()
				}
				if cl, msg := r.sweep(ctx, "after-restart-"+op.Mode); cl != "" {
					return mk(i, cl, msg, ""), nil, ""
				}
			case "check":
				if cl, msg := r.sweep(ctx, "check"); cl != "" {
					return mk(i, cl, msg, ""), nil, ""
				}
			case "stream":
				if afterCrash {
					continue // the consumer died with the process
				}
				if cl, msg := r.streamStep(ctx, op.N); cl != "" {
					return mk(i, cl, msg, ""), nil, ""
				}
			}
		}
		if afterCrash {
			mode := []string{"fast", "full"}[crashAt%2]
			last := len(ops) - 1
			mkEnd := func(class, msg string) *harness.Violation {
				return mk(last, class, msg, fmt.Sprintf(" [after a process death before mutating call #%d of op #%d, the rest of the history, and a restart with recovery=%s]", crashAt, crashOp, mode))
			}
			if msg := r.restart(mode, false, true); msg != "" {
				return mkEnd("recover-failed", msg), nil, ""
			}
			r.unpinRemoved()
			if cl, msg := r.sweep(ctx, "end-after-crash"); cl != "" {
				return mkEnd(cl, msg), nil, ""
			}
		}
		s.task(func() { s.world.Restart(true) })
		r.release()
		return nil, mutCalls, ""
	}
	sub := 0
	v, mutCalls, inc := run(-1, -1, "", sub)
	out.SubRuns++
	if inc != "" {
		out.Inconclusive = inc
		return out
	}
	if v != nil {
		out.Violation = v
		return out
	}
	// crash enumeration over the receives that packed (more mutating calls
	// than the plain receive into small)
	modes := []string{"none", "fast", "full"}
	sites := ""
	for i, op := range ops {
		if op.K != "up" || mutCalls[i] <= 1 {
			continue
		}
		if _, isFile := w.isFile[op.B]; !isFile {
			continue
		}
		if crashOnly >= 0 && i != crashOnly {
			continue
		}
		out.Reached["pack-crash-enumerated"]++
		for k := 1; k <= mutCalls[i]; k++ {
			if crashK >= 0 && k != crashK {
				continue
			}
			for mi, mode := range modes {
				if crashK < 0 && mutCalls[i] > 4 && mi != 0 && (k+mi)%2 != 0 {
					continue // longer packs: always the default restart (no recovery), fast/full alternating
				}
				sub++
				v, _, inc := run(i, k, mode, sub)
				out.SubRuns++
				if inc != "" {
					out.Inconclusive = inc
					return out
				}
				if v != nil {
					if what, ok := harness.Known(p.Prop, v.Sig); ok {
						out.NoteKnown(what)
						continue
					}
					out.Violation = v
					rp := *p
					cfg2 := *cfg
					cfg2.C04Replay = []int{i, k}
					rp.Config = harness.MustJSON(cfg2)
					out.ReplayPlan = &rp
					return out
				}
			}
		}
		sites += fmt.Sprintf("%d:%d,", i, mutCalls[i])
	}
	kinds := ""
	for _, op := range ops {
		kinds += op.K[:2]
	}
	out.ShapeKey = fmt.Sprintf("z%d|%v|%s|%s", cc.ZipMax, fileShapes(cc), kinds, sites)
	out.Nontrivial = out.SubRuns > 1
	out.Sample = map[string]any{"zipMax": cc.ZipMax, "files": cc.Files, "logical_blobs": len(w.pool), "ops": len(ops), "crash_subruns": out.SubRuns - 1}
	return out
}

func opStr(o c04Op) string {
	switch o.K {
	case "restart":
		return fmt.Sprintf("restart(%s,wipe=%v)", o.Mode, o.Wipe)
	case "check":
		return "check"
	case "stream":
		return fmt.Sprintf("stream(%d more)", o.N)
	}
	return fmt.Sprintf("%s[%d]", o.K, o.B)
}

func fileNames(cc *c04Config) []string {
	var out []string
	for _, f := range cc.Files {
		out = append(out, fmt.Sprintf("%s:%d/%d", f.Name, f.Size, f.Chunk))
	}
	return out
}

func fileShapes(cc *c04Config) []string {
	var out []string
	for _, f := range cc.Files {
		out = append(out, fmt.Sprintf("%d/%d/%v/%v/%d", f.Size, f.Chunk, f.Irreg, f.Nested, f.SameAs))
	}
	return out
}
