package storesim

import (
	"context"
	"fmt"
	"os"
	"path/filepath"
	"perkeep.org/pkg/blobserver/files"
	"sort"
	"strings"

	"go4.org/jsonconfig"
	"perkeep.org/pkg/blob"
	"perkeep.org/pkg/blobserver"
	"perkeep.org/pkg/blobserver/diskpacked"

	"verif/harness"
	"verif/sim"
	"verif/simcore"
	"verif/simdisk"
)

// C03 — disk stores survive a crash at any instant.
//
// Root is `files` over SimVFS or `diskpacked` over the os shim (simdisk) with
// a simulated index. A history of receives and removes runs fault-free up to
// operation j; then, for every c, the process dies before the (c+1)-th
// lower-layer call (VFS / disk / index call) of operation j (c = N: right
// after the operation returned). For every crash point every crash image is
// materialised: process death keeps the page cache; power loss keeps the
// synced content plus a chosen subset of later writes (appended bytes survive
// as a prefix at parser-relevant cut points; each in-place overwrite survives
// or not). Every image is reopened and checked, the pack files are re-indexed
// from scratch and checked again, a suffix of further operations runs, and
// everything is checked once more.

type c03Config struct {
	CrashOp int `json:"crashOp"`
	// Suffix operations executed after every reopen.
	Suffix []sim.Op `json:"suffix"`
	// PunchUnsupported: Fallocate reports ENOSYS (zero-fill path).
	PunchUnsupported bool `json:"punchUnsupported,omitempty"`
	// MaxVariants bounds the crash images per crash point.
	MaxVariants int `json:"maxVariants,omitempty"`
	// Only (replay): crash point and variant to execute; -1 = all.
	OnlyPoint int `json:"onlyPoint"`
	// PointStride > 1: only every PointStride-th crash point (phase
	// PointPhase) and the last four are taken (bulk histories whose crash
	// operation makes hundreds of lower-layer calls).
	PointStride int `json:"pointStride,omitempty"`
	PointPhase  int `json:"pointPhase,omitempty"`
	OnlyVariant int `json:"onlyVariant"`
}

func init() {
	// the host-filesystem VFS (osfs.go, under localdisk) is held to the
	// contract the crash model assumes of a VFS: see sim.RecVFS
	files.VerifWrapOSFS = func(v files.VFS) files.VFS { return &sim.RecVFS{Inner: v} }
	if os.Getenv("VERIF_NOGATE") == "" { // (switch for comparison runs)
		sim.FilesGateHook = files.VerifSetNewFileGate
	}
}

func genC03(tier string, run int, r *simcore.Rand) *harness.Plan {
	var root *sim.Node
	if run%8 == 7 {
		// the files store on the real host filesystem: no crash images
		// here (they are built over SimVFS), but every Sync, Close, Rename
		// and MkdirAll of osfs.go is checked against what those images
		// assume (sim.RecVFS)
		root = &sim.Node{Type: "localdisk", Name: "l1"}
	} else if run%2 == 0 {
		root = &sim.Node{Type: "files", Name: "f1"}
	} else {
		root = &sim.Node{Type: "diskpacked", Name: "d1", MaxFileSize: []int{1, 40, 150, 600, 5000, 1 << 20}[r.Intn(6)]}
	}
	if run%60 == 33 {
		return genC03Bulk(tier, run, r)
	}
	nblobs := r.Range(2, 7)
	specs := sim.GenBlobSpecs(r, nblobs, 5000)
	pool := make([]*sim.TBlob, len(specs))
	for i, sp := range specs {
		pool[i] = sim.Materialise(sp)
	}
	nops := r.Range(1, 10)
	weights := map[string]int{"recv": 6, "remove": 3}
	ops := genOps(r, nops, pool, specs, false, weights)
	// the crash operation: biased to the last, a remove, a duplicate receive
	j := len(ops) - 1
	if r.Bool(0.4) {
		j = r.Intn(len(ops))
	}
	if r.Bool(0.3) {
		// make the crash operation a remove of something received earlier
		for i := 0; i < j; i++ {
			if ops[i].Kind == "recv" {
				ops[j] = sim.Op{Kind: "remove", B: []int{ops[i].B[0]}}
				break
			}
		}
	}
	if r.Bool(0.15) && j > 0 && ops[j-1].Kind == "recv" {
		ops[j] = sim.Op{Kind: "recv", B: ops[j-1].B} // duplicate receive
	}
	cc := &c03Config{CrashOp: j, OnlyPoint: -1, OnlyVariant: -1, PunchUnsupported: r.Bool(0.4), MaxVariants: 24}
	if tier == "thorough" {
		cc.MaxVariants = 64
	}
	// suffix: re-receive what was in flight, more appends, removes, reads
	var suffix []sim.Op
	if len(ops[j].B) > 0 && r.Bool(0.7) {
		suffix = append(suffix, sim.Op{Kind: "recv", B: []int{ops[j].B[0]}})
	}
	sw := map[string]int{"recv": 5, "remove": 2, "fetch": 2, "stat": 1, "enum": 1}
	suffix = append(suffix, genOps(r, r.Range(1, 5), pool, specs, false, sw)...)
	cc.Suffix = suffix
	cfg := Config{Root: root, Blobs: specs, C03: cc}
	p := &harness.Plan{Mode: "crash", Config: harness.MustJSON(cfg), Bubble: true}
	p.Sticky = 900
	for _, op := range ops {
		p.Ops = append(p.Ops, harness.MustJSON(op))
	}
	return p
}

// genC03Bulk: one RemoveBlobs call over 66-140 tiny blobs on the packed disk
// store is the crash operation (an implementation that works through a long
// list in slices has intermediate states a short list never shows); crash
// points are sampled with a stride.
func genC03Bulk(tier string, run int, r *simcore.Rand) *harness.Plan {
	root := &sim.Node{Type: "diskpacked", Name: "d1", MaxFileSize: []int{600, 5000, 1 << 20}[r.Intn(3)]}
	n := r.Range(66, 140)
	specs := make([]sim.BlobSpec, n)
	for i := range specs {
		specs[i] = sim.BlobSpec{Size: 5 + i%23, Hash: "sha224", Kind: "raw", Salt: r.Uint64()}
	}
	var ops []sim.Op
	for i := 0; i < n; i++ {
		ops = append(ops, sim.Op{Kind: "recv", B: []int{i}})
	}
	// not everything is removed: a few blobs stay
	all := r.Perm(n)
	keep := r.Intn(5)
	ops = append(ops, sim.Op{Kind: "remove", B: append([]int(nil), all[keep:]...)})
	stride := r.Range(9, 17)
	cc := &c03Config{CrashOp: len(ops) - 1, OnlyPoint: -1, OnlyVariant: -1, PunchUnsupported: r.Bool(0.4), MaxVariants: 6,
		PointStride: stride, PointPhase: r.Intn(stride)}
	cc.Suffix = []sim.Op{{Kind: "recv", B: []int{all[len(all)-1]}}, {Kind: "fetch", B: []int{all[len(all)/2]}}}
	cfg := Config{Root: root, Blobs: specs, C03: cc}
	p := &harness.Plan{Mode: "crash", Config: harness.MustJSON(cfg), Bubble: true}
	p.Sticky = 900
	for _, op := range ops {
		p.Ops = append(p.Ops, harness.MustJSON(op))
	}
	return p
}

// crashImage is one way the disk may look after the crash.
type crashImage struct {
	name string
	// files: cut per un-synced file
	cuts map[string]int
	// diskpacked: per pack file the simdisk choice
	choices map[string]simdisk.Choice
	power   bool
}

// appendCuts returns the parser-relevant prefix lengths of an appended byte
// stream consisting of diskpacked entries ("[ref size]" + body).
func appendCuts(pend []simdisk.PendOp) []int64 {
	var stream []byte
	for _, op := range pend {
		if op.Kind == "write" && op.Append {
			stream = append(stream, op.Data...)
		}
	}
	total := int64(len(stream))
	set := map[int64]bool{0: true, total: true}
	// walk entries
	i := int64(0)
	for i < total {
		if stream[i] != '[' {
			// body bytes of an entry whose header was written before the last sync
			set[i+1] = true
			set[(i+total)/2] = true
			break
		}
		set[i+1] = true // inside the header
		end := int64(strings.IndexByte(string(stream[i:]), ']'))
		if end < 0 {
			set[(i+total)/2] = true
			break
		}
		hdrEnd := i + end + 1
		set[hdrEnd-1] = true // header without ']'
		set[hdrEnd] = true   // header complete, no body
		var size int64
		fmt.Sscanf(string(stream[i+1 : hdrEnd-1][strings.IndexByte(string(stream[i+1:hdrEnd-1]), ' ')+1:]), "%d", &size)
		bodyEnd := hdrEnd + size
		if bodyEnd > total {
			bodyEnd = total
		}
		if bodyEnd > hdrEnd {
			set[hdrEnd+1] = true
			set[(hdrEnd+bodyEnd)/2] = true
			set[bodyEnd-1] = true
		}
		set[bodyEnd] = true
		i = bodyEnd
	}
	var out []int64
	for k := range set {
		if k >= 0 && k <= total {
			out = append(out, k)
		}
	}
	sort.Slice(out, func(a, b int) bool { return out[a] < out[b] })
	return out
}

func execC03(rc *harness.RunCtx, p *harness.Plan, cfg *Config, ops []sim.Op) *harness.Outcome {
	out := &harness.Outcome{Ops: len(ops), Fired: map[string]int{}, Reached: map[string]int{}}
	cc := cfg.C03
	if cc == nil || cfg.Root == nil {
		out.Inconclusive = "C03 config missing"
		return out
	}
	if len(ops) == 0 {
		return out
	}
	j := cc.CrashOp
	if j >= len(ops) {
		j = len(ops) - 1
	}
	ops = ops[:j+1]
	isFiles := cfg.Root.Type == "files"
	ctx := context.Background()

	// 1. recording pass: how many lower-layer calls does operation j make?
	ncalls := -1
	{
		env := sim.NewEnv()
		env.Record = true
		s, err := newSessionEnv(rc, cfg, env, filepath.Join(rc.Scratch, "rec"))
		if err != nil {
			out.Inconclusive = err.Error()
			return out
		}
		simdisk.PunchUnsupported = cc.PunchUnsupported
		if rc.Sched != nil {
			rc.Sched.Reseed(simcore.Mix(p.SchedSeed, "c03"))
		}
		var berr error
		if herr := s.task(func() { berr = s.build() }); herr != nil || berr != nil {
			out.Inconclusive = fmt.Sprint("build: ", herr, berr)
			return out
		}
		for i, op := range ops {
			if !validOp(op, s.pool) {
				out.Inconclusive = "op refers to blob outside pool"
				return out
			}
			env.BeginOp(i)
			t0 := len(env.Trace)
			res, herr := s.do(ctx, op)
			if herr != nil {
				out.Violation = harness.Viol("faultfree-hang", "faultfree-hang@"+cfg.Root.Type, op.String()+" never returned", i)
				return out
			}
			if v := s.model.Check(op, res, false); len(v) > 0 {
				cl := "faultfree:" + classOf(v[0])
				out.Violation = harness.Viol(cl, cl+"@"+cfg.Root.Type, v[0], i)
				return out
			}
			if i == j {
				ncalls = len(env.Trace) - t0
			}
		}
		if cfg.Root.Type == "localdisk" {
			// a clean restart over the same directory: what was
			// acknowledged is served by the re-opened store
			var rerr error
			if herr := s.task(func() { s.world.Restart(true); rerr = s.build() }); herr != nil || rerr != nil {
				out.Violation = harness.Viol("reopen-failed", "reopen-failed@localdisk", fmt.Sprint("re-opening the store over its own directory failed: ", herr, rerr), len(ops))
				return out
			}
			all := make([]int, len(s.pool))
			for i := range all {
				all[i] = i
			}
			sweep := []sim.Op{{Kind: "stat", B: all}, {Kind: "enum", Limit: 100000}}
			for i := range s.pool {
				sweep = append(sweep, sim.Op{Kind: "fetch", B: []int{i}})
			}
			for _, op := range sweep {
				res, herr := s.do(ctx, op)
				if herr != nil {
					out.Violation = harness.Viol("after-reopen:hang", "after-reopen:hang@localdisk", op.String()+" never returned", len(ops))
					return out
				}
				if v := s.model.Check(op, res, false); len(v) > 0 {
					cl := "after-reopen:" + classOf(v[0])
					out.Violation = harness.Viol(cl, cl+"@localdisk", "after a clean restart over the same directory: "+v[0], len(ops))
					return out
				}
			}
		}
		s.task(func() { s.world.Restart(true) })
	}
	out.SubRuns++
	if cfg.Root.Type == "localdisk" {
		out.Reached["host-vfs-contract-history"]++
		out.ShapeKey = fmt.Sprintf("localdisk|%d ops", len(ops))
		out.Nontrivial = len(ops) > 0
		out.Sample = map[string]any{"store": "localdisk (files store over osfs.go under the contract-checking VFS)", "history": opStrings(ops, 12)}
		return out
	}

	// 2. crash points
	for c := 0; c <= ncalls; c++ {
		if cc.OnlyPoint >= 0 && c != cc.OnlyPoint {
			continue
		}
		if cc.OnlyPoint < 0 && cc.PointStride > 1 && c%cc.PointStride != cc.PointPhase%cc.PointStride && c < ncalls-3 {
			continue
		}
		if v := crashPoint(rc, p, cfg, cc, ops, j, c, ncalls, isFiles, out); v != nil {
			out.Violation = v
			return out
		}
	}
	// distinct = distinct history (operation kinds with their blob sizes),
	// store parameters, crash operation and crash-point count
	kinds := ""
	for _, op := range ops {
		kinds += op.Kind[:2]
		for _, bi := range op.B {
			kinds += fmt.Sprintf("%d.", cfg.Blobs[bi%len(cfg.Blobs)].Size)
		}
	}
	out.ShapeKey = fmt.Sprintf("%s/%d|%s|j%d n%d|p%v|s%d", cfg.Root.Type, cfg.Root.MaxFileSize, kinds, j, ncalls, cc.PunchUnsupported, len(cc.Suffix))
	out.Nontrivial = ncalls > 0
	out.Sample = map[string]any{"store": cfg.Root.Shape(), "maxFileSize": cfg.Root.MaxFileSize, "history": opStrings(ops, 12), "crash_op": j, "crash_points": ncalls + 1, "suffix": opStrings(cc.Suffix, 6)}
	return out
}

func validOp(op sim.Op, pool []*sim.TBlob) bool {
	for _, bi := range op.B {
		if bi >= len(pool) {
			return false
		}
	}
	return true
}

// crashPoint executes the history with the process dying before lower-layer
// call c+1 of operation j and checks every crash image.
func crashPoint(rc *harness.RunCtx, p *harness.Plan, cfg *Config, cc *c03Config, ops []sim.Op, j, c, ncalls int, isFiles bool, out *harness.Outcome) *harness.Violation {
	ctx := context.Background()
	env := sim.NewEnv()
	scratch := filepath.Join(rc.Scratch, fmt.Sprintf("cp%d", c))
	s, err := newSessionEnv(rc, cfg, env, scratch)
	if err != nil {
		out.Inconclusive = err.Error()
		return nil
	}
	simdisk.PunchUnsupported = cc.PunchUnsupported
	if rc.Sched != nil {
		rc.Sched.Reseed(simcore.Mix(p.SchedSeed, "c03"))
		env.OnCrash = rc.Sched.AbandonTasks
	}
	if c < ncalls {
		env.Faults = []sim.Fault{{Op: j, K: c + 1, Kind: sim.FCrash}}
	}
	var berr error
	if herr := s.task(func() { berr = s.build() }); herr != nil || berr != nil {
		out.Inconclusive = fmt.Sprint("build: ", herr, berr)
		return nil
	}
	mk := func(class, detail string, opi int, image string) *harness.Violation {
		where := fmt.Sprintf("crash before lower-layer call #%d/%d of op #%d %s, image %q", c+1, ncalls, j, ops[j].String(), image)
		if c == ncalls {
			where = fmt.Sprintf("crash right after op #%d %s returned, image %q", j, ops[j].String(), image)
		}
		ik := "process-death"
		if strings.HasPrefix(image, "power-loss") {
			ik = "power-loss"
		}
		sig := fmt.Sprintf("%s|crash-in:%s|%s@%s", class, ops[j].Kind, ik, cfg.Root.Type)
		return harness.Viol(class, sig, fmt.Sprintf("%s (maxFileSize %d): %s: %s", cfg.Root.Type, cfg.Root.MaxFileSize, where, detail), opi)
	}
	for i, op := range ops {
		env.BeginOp(i)
		res, herr := s.do(ctx, op)
		if herr != nil {
			return mk("hang-before-crash", op.String()+" never returned", i, "")
		}
		if i == j && s.crashed(env) {
			// in flight at the crash: fate open
			s.inflight = map[string]bool{}
			for _, bi := range op.B {
				s.inflight[s.pool[bi].Ref.String()] = true
				switch op.Kind {
				case "recv":
					if s.model.Get(bi) != sim.Present {
						s.model.Set(bi, sim.Maybe)
					}
				case "remove":
					if s.model.Get(bi) == sim.Present {
						s.model.Set(bi, sim.Maybe)
					}
				}
			}
			out.Fired["crash"]++
			break
		}
		if v := s.model.Check(op, res, false); len(v) > 0 {
			return mk("before-crash:"+classOf(v[0]), v[0], i, "")
		}
	}
	if c < ncalls && !s.crashed(env) {
		// the call sequence was shorter than recorded (cannot happen with a
		// deterministic schedule); nothing to check at this point
		out.Reached["crash-point-not-reached"]++
		return nil
	}
	// the old generation is dead now (crash after return: kill it here)
	s.world.Restart(false)
	if rc.Sched != nil {
		rc.Sched.AbandonTasks()
	}
	baseModel := s.model.Clone()
	kvSnap := map[string]map[string]string{}
	for name, st := range s.world.KVs {
		kvSnap[name] = st.Snapshot()
	}
	// enumerate crash images
	images := s.crashImages(cfg, cc, isFiles)
	out.Reached[fmt.Sprintf("images-%s", cfg.Root.Type)] += len(images)
	var vfsSnap *sim.VFSState
	if isFiles {
		vfsSnap = s.world.VFS(cfg.Root.Name).Clone()
	}
	srcDir := s.world.NodeDir(cfg.Root.Name)
	s.deadDirs = append(s.deadDirs, srcDir)
	for vi, img := range images {
		if cc.OnlyVariant >= 0 && vi != cc.OnlyVariant {
			continue
		}
		out.SubRuns++
		s.model = baseModel.Clone()
		s.reacked = map[string]bool{}
		for name, snap := range kvSnap {
			s.world.KVState(name).Restore(snap)
		}
		if isFiles {
			st := vfsSnap.Clone()
			if img.power {
				st.Crash(func(name string, synced, length int) int {
					if n, ok := img.cuts[name]; ok {
						return n
					}
					return synced
				})
			}
			s.world.VFS(cfg.Root.Name).CopyFrom(st)
		} else {
			dst := filepath.Join(scratch, fmt.Sprintf("img%d", vi))
			err := simdisk.Materialise(srcDir, dst, func(path string, pend []simdisk.PendOp) simdisk.Choice {
				if !img.power {
					keep := make([]bool, len(pend))
					for i := range keep {
						keep[i] = true
					}
					return simdisk.Choice{Keep: keep, AppendKeep: simdisk.AppendedBytes(pend)}
				}
				return img.choices[path]
			})
			if err != nil {
				out.Inconclusive = "materialise: " + err.Error()
				return nil
			}
			s.world.SetNodeDir(cfg.Root.Name, dst)
		}
		v := s.afterCrash(ctx, cfg, cc, mk, img.name, vi, j, c, p)
		s.noteStream(out)
		if v != nil {
			if what, ok := harness.Known(p.Prop, v.Sig); ok && cc.OnlyVariant < 0 {
				out.NoteKnown(what)
				v = nil
			}
		}
		if v != nil {
			// make the replay address exactly this crash point and image
			rp := *p
			cfg2 := *cfg
			cc2 := *cc
			cc2.OnlyPoint, cc2.OnlyVariant = c, vi
			cfg2.C03 = &cc2
			rp.Config = harness.MustJSON(cfg2)
			out.ReplayPlan = &rp
			return v
		}
		// next image: new generation
		s.world.Restart(false)
		if rc.Sched != nil {
			rc.Sched.AbandonTasks()
		}
		if !isFiles {
			s.deadDirs = append(s.deadDirs, s.world.NodeDir(cfg.Root.Name))
		}
	}
	return nil
}

func (s *session) crashed(env *sim.Env) bool {
	select {
	case <-env.CrashCh():
		s.sawCrash = true
	default:
	}
	return s.sawCrash
}

// crashImages lists the disk states the crash may leave.
func (s *session) crashImages(cfg *Config, cc *c03Config, isFiles bool) []crashImage {
	images := []crashImage{{name: "process-death (page cache kept)"}}
	if isFiles {
		st := s.world.VFS(cfg.Root.Name)
		uns := st.Unsynced()
		if len(uns) == 0 {
			return images
		}
		// every un-synced file cut at {synced, middle, all}; files vary together
		for _, frac := range []int{0, 1, 2} {
			img := crashImage{name: fmt.Sprintf("power-loss cut=%d/2", frac), power: true, cuts: map[string]int{}}
			for _, name := range uns {
				synced, length := st.SyncedLen(name)
				img.cuts[name] = synced + (length-synced)*frac/2
			}
			images = append(images, img)
		}
		return images
	}
	pend := simdisk.Pending(s.world.NodeDir(cfg.Root.Name))
	if len(pend) == 0 {
		return images
	}
	paths := make([]string, 0, len(pend))
	for p := range pend {
		paths = append(paths, p)
	}
	sort.Strings(paths)
	// per file: the list of choices; files are combined by index (zip), the
	// last file (the one being appended to) varying fastest
	type fileChoices struct {
		path string
		list []simdisk.Choice
		desc []string
	}
	var fcs []fileChoices
	for _, path := range paths {
		ops := pend[path]
		var inplace []int
		for i, op := range ops {
			if !(op.Kind == "write" && op.Append) {
				inplace = append(inplace, i)
			}
		}
		cuts := appendCuts(ops)
		fc := fileChoices{path: path}
		nsub := 1 << len(inplace)
		if len(inplace) > 4 {
			nsub = 16
		}
		for _, cut := range cuts {
			for sub := 0; sub < nsub; sub++ {
				keep := make([]bool, len(ops))
				d := fmt.Sprintf("%s: %d/%d appended bytes", filepath.Base(path), cut, simdisk.AppendedBytes(ops))
				for bi, idx := range inplace {
					if sub&(1<<bi) != 0 {
						keep[idx] = true
						d += fmt.Sprintf(" +overwrite#%d", idx)
					}
				}
				fc.list = append(fc.list, simdisk.Choice{Keep: keep, AppendKeep: cut})
				fc.desc = append(fc.desc, d)
			}
		}
		fcs = append(fcs, fc)
	}
	maxN := 0
	for _, fc := range fcs {
		if len(fc.list) > maxN {
			maxN = len(fc.list)
		}
	}
	step := 1
	if cc.MaxVariants > 0 && maxN > cc.MaxVariants {
		step = (maxN + cc.MaxVariants - 1) / cc.MaxVariants
	}
	for i := 0; i < maxN; i += step {
		img := crashImage{power: true, choices: map[string]simdisk.Choice{}}
		var names []string
		for _, fc := range fcs {
			k := i % len(fc.list)
			img.choices[fc.path] = fc.list[k]
			names = append(names, fc.desc[k])
		}
		img.name = "power-loss " + strings.Join(names, "; ")
		images = append(images, img)
	}
	return images
}

type mkViolFn func(class, detail string, opi int, image string) *harness.Violation

// afterCrash reopens the store on the crash image and checks it, its
// re-index, a suffix of operations, and the re-index again.
func (s *session) afterCrash(ctx context.Context, cfg *Config, cc *c03Config, mk mkViolFn, image string, vi, j, c int, p *harness.Plan) *harness.Violation {
	var berr error
	if herr := s.task(func() { berr = s.build() }); herr != nil {
		return mk("reopen-hang", "reopening the store never finished", j, image)
	}
	if berr != nil {
		return mk("reopen-failed", "the store cannot be reopened: "+berr.Error(), j, image)
	}
	all := make([]int, len(s.pool))
	for i := range all {
		all[i] = i
	}
	sweep := func(tag string) *harness.Violation {
		seq := []sim.Op{{Kind: "stat", B: all}}
		for i := range s.pool {
			seq = append(seq, sim.Op{Kind: "fetch", B: []int{i}})
		}
		seq = append(seq, sim.Op{Kind: "page", Limit: 2}, sim.Op{Kind: "enum", Limit: 1000})
		for _, op := range seq {
			r, herr := s.do(ctx, op)
			if herr != nil {
				return mk(tag+":hang", op.String()+" never returned", j, image)
			}
			if v := s.model.Check(op, r, false); len(v) > 0 {
				return mk(tag+":"+classOf(v[0]), v[0], j, image)
			}
		}
		if v := s.streamCheck(ctx, tag); v != "" {
			return mk(tag+":stream", v, j, image)
		}
		return nil
	}
	if v := sweep("after-reopen"); v != nil {
		return v
	}
	reindex := func(tag string) *harness.Violation {
		if cfg.Root.Type != "diskpacked" {
			return nil
		}
		var msg string
		herr := s.task(func() {
			s.world.Restart(true)
			name := cfg.Root.Name + ".idx"
			s.world.KVState(name).Wipe()
			if err := diskpacked.Reindex(ctx, s.world.NodeDir(cfg.Root.Name), true, jsonconfig.Obj{"type": "simkv", "name": name}); err != nil {
				msg = "diskpacked.Reindex over the pack files failed: " + err.Error()
				return
			}
			if err := s.build(); err != nil {
				msg = "reopening after Reindex failed: " + err.Error()
			}
		})
		if herr != nil {
			return mk(tag+":reindex-hang", "Reindex never finished", j, image)
		}
		if msg != "" {
			return mk(tag+":reindex-failed", msg, j, image)
		}
		// the pack files alone must give exactly the acknowledged,
		// non-removed blobs; the blob in flight at the crash may be there or
		// not (the index view and the pack view of it may differ), unless an
		// operation after the crash has been acknowledged for it
		s.unpinInflight()
		return sweep(tag + ":reindexed")
	}
	// Reindex on a copy of the situation would be cleaner, but the rebuilt
	// index must be equivalent, so continuing on it is part of the check.
	if v := reindex("after-reopen"); v != nil {
		return v
	}
	for si, op := range cc.Suffix {
		if !validOp(op, s.pool) {
			continue
		}
		r, herr := s.do(ctx, op)
		if herr != nil {
			return mk("suffix:hang", fmt.Sprintf("suffix op #%d %s never returned", si, op.String()), j, image)
		}
		if v := s.model.Check(op, r, false); len(v) > 0 {
			return mk("suffix:"+classOf(v[0]), fmt.Sprintf("suffix op #%d: %s", si, v[0]), j, image)
		}
		if op.Kind == "recv" && r.Err == nil {
			for _, bi := range op.B {
				s.reacked[s.pool[bi].Ref.String()] = true
			}
		}
	}
	if v := sweep("after-suffix"); v != nil {
		return v
	}
	if v := reindex("after-suffix"); v != nil {
		return v
	}
	return nil
}

// streamCheck: StreamBlobs (where implemented) yields only complete blobs
// that the reference map allows, each with its true bytes.
func (s *session) streamCheck(ctx context.Context, tag string) string {
	st, ok := s.sto.(blobserver.BlobStreamer)
	if !ok {
		return ""
	}
	var msg string
	herr := s.task(func() {
		ch := make(chan blobserver.BlobAndToken, 16)
		errc := make(chan error, 1)
		go func() { errc <- st.StreamBlobs(ctx, ch, "") }()
		seen := map[string]bool{}
		for bt := range ch {
			ref := bt.Blob.Ref().String()
			b := s.byRef(ref)
			if b == nil {
				msg = "StreamBlobs yielded unknown blob " + ref
				continue
			}
			if s.model.State[ref] == sim.Absent {
				// a removed or never acknowledged blob may legitimately still be
				// in a pack (removal is by overwrite); presenting it is only
				// wrong if its bytes are not the blob's
			}
			data, err := bt.Blob.ReadAll(ctx)
			if err != nil {
				msg = "StreamBlobs blob unreadable: " + err.Error()
				continue
			}
			var want blob.Ref = b.Ref
			_ = want
			if string(slurp(data)) != string(b.Data) {
				msg = fmt.Sprintf("StreamBlobs presented %s with bytes that are not the blob's (%d bytes, want %d)", ref, data.Len(), len(b.Data))
			}
			seen[ref] = true
		}
		if err := <-errc; err != nil {
			// The statement forbids presenting a partial blob; it does not
			// promise that streaming over a torn tail succeeds. What was
			// yielded before the error has been checked above.
			s.streamErrs++
			return
		}
		for _, ref := range s.model.PresentRefs() {
			if s.inflight[ref] && !s.reacked[ref] {
				continue
			}
			if !seen[ref] && msg == "" {
				msg = "StreamBlobs missed present blob " + ref
			}
		}
	})
	if herr != nil {
		return "StreamBlobs never finished"
	}
	return msg
}

// unpinInflight makes the targets of the operation that was in flight at the
// crash undetermined again, unless a later receive of them was acknowledged.
func (s *session) unpinInflight() {
	for ref := range s.inflight {
		if !s.reacked[ref] {
			s.model.State[ref] = sim.Maybe
		}
	}
}

func (s *session) noteStream(out *harness.Outcome) {
	if s.streamErrs > 0 {
		out.Reached["stream-error-on-torn-pack"] += s.streamErrs
	}
}

func slurp(r interface{ Read([]byte) (int, error) }) []byte {
	var out []byte
	buf := make([]byte, 32<<10)
	for {
		n, err := r.Read(buf)
		out = append(out, buf[:n]...)
		if err != nil {
			return out
		}
	}
}

var _ = os.Remove
