package storesim

import (
	"context"
	"encoding/json"
	"errors"
	"fmt"
	"os"
	"path/filepath"
	"perkeep.org/pkg/blobserver/blobpacked"
	"strings"
	"verif/engines/knobs"

	"perkeep.org/pkg/blobserver"

	"verif/harness"
	"verif/sim"
	"verif/simcore"
	"verif/simdisk"
)

// TestKey is a fixed age identity used for every encrypt composition.
const TestKey = "AGE-SECRET-KEY-1FSHC0YC7XUCUJ7JWRT0LDHY4EWTM5M60APTCXTM2ZQ5YCTEEFCXSKSMYMJ"

type engine struct{}

func init() { harness.Register(engine{}) }

func (engine) Name() string    { return "storesim" }
func (engine) Props() []string { return []string{"C01", "C03", "C04", "C11", "C12", "C13", "C14"} }

func (e engine) Gen(prop, tier string, run int, r *simcore.Rand) *harness.Plan {
	switch prop {
	case "C01":
		return genC01(tier, run, r)
	case "C03":
		return genC03(tier, run, r)
	case "C04":
		return genC04(tier, run, r)
	case "C11":
		return genC11(tier, run, r)
	case "C12":
		return genC12(tier, run, r)
	case "C13":
		return genC13(tier, run, r)
	case "C14":
		return genC14(tier, run, r)
	}
	return nil
}

func genC01(tier string, run int, r *simcore.Rand) *harness.Plan {
	g := &genState{r: r.Fork()}
	wantRestart := r.Bool(0.5)
	g.noMemory = wantRestart
	depth := r.Range(0, 3)
	var root *sim.Node
	// every backend of the property's list is root at least once per batch:
	// cycle the forced root type through run index
	forced := []string{"", "memory", "files", "diskpacked", "blobpacked", "encrypt", "replica", "shard", "cond", "overlay", "namespace", "proxycache", "union", "localdisk", "", ""}
	want := forced[run%len(forced)]
	for try := 0; ; try++ {
		root = g.root(depth)
		if want == "" || root.Type == want || try > 200 {
			break
		}
		if want == "memory" {
			g.noMemory = false
			wantRestart = false
		}
	}
	maxSize := 1 << 20
	if r.Bool(0.8) {
		maxSize = 70000
	}
	nblobs := r.Range(2, 14)
	specs := sim.GenBlobSpecs(r, nblobs, maxSize)
	if hasType(root, "cond") && r.Bool(0.3) {
		// beyond what a schema blob may measure (1 MiB): the cond store's
		// schema sniffer stops reading there and must hand on the rest
		specs[r.Intn(len(specs))].Size = (1 << 20) + 2 + r.Intn(200000)
	}
	pool := make([]*sim.TBlob, len(specs))
	for i, sp := range specs {
		pool[i] = sim.Materialise(sp)
	}
	cfg := Config{Root: root, Blobs: specs}
	if hasType(root, "blobpacked") && r.Bool(0.5) {
		// a file at/above the packing threshold, chunks and schema blobs in
		// the pool: when its file blob is received after its chunks, the
		// composition really packs, and later operations hit packed blobs
		f := c04File{Name: "c01.dat", Size: (512 << 10) + r.Intn(4000), Chunk: []int{64 << 10, 100000, 256 << 10}[r.Intn(3)], Irreg: r.Bool(0.3), Nested: r.Bool(0.4), Salt: r.Uint64(), SameAs: -1}
		cfg.Files = []c04File{f}
		pool = poolOf(&cfg)
	}
	// preseed direct kids of a union / replica / overlay root
	switch root.Type {
	case "union", "replica", "overlay":
		cfg.Preseed = map[string][]int{}
		var targets []*sim.Node
		for ki, k := range root.Kids {
			if root.Type == "overlay" && ki == 1 && r.Bool(0.5) {
				continue
			}
			if k.Type == "union" {
				targets = append(targets, k.Kids...)
				continue
			}
			targets = append(targets, k)
		}
		for _, k := range targets {
			if k.Type == "union" || k.Type == "encrypt" {
				continue
			}
			var idx []int
			for i := range specs {
				if r.Bool(0.35) {
					idx = append(idx, i)
				}
			}
			if len(idx) > 0 {
				cfg.Preseed[k.Name] = idx
			}
		}
	}
	weights := map[string]int{"recv": 6, "fetch": 4, "sub": 3, "stat": 3, "enum": 4, "page": 2, "remove": 3, "restart": 1}
	canRestart := wantRestart && !hasType(root, "memory")
	nops := r.Range(8, 60)
	ops := genOps(r, nops, pool, specs, canRestart, weights)
	for i := range ops {
		if ops[i].Kind == "page" && r.Bool(0.25) {
			ops[i] = sim.Op{Kind: "enumall"}
		}
	}
	if len(cfg.Files) > 0 && r.Bool(0.8) {
		// upload the file's blobs in dependency order (file blob last) at a
		// seeded point, so the pack happens and the rest of the history runs
		// against packed blobs
		at := r.Intn(len(ops)/2 + 1)
		var up []sim.Op
		for i := len(specs); i < len(pool); i++ {
			up = append(up, sim.Op{Kind: "recv", B: []int{i}})
		}
		ops = append(ops[:at:at], append(up, ops[at:]...)...)
	}
	p := &harness.Plan{Mode: "exact", Config: harness.MustJSON(cfg), Bubble: true}
	p.LockYield = []int{0, 0, 20, 200, 1000}[r.Intn(5)]
	p.Sticky = []int{0, 500, 900}[r.Intn(3)]
	for _, op := range ops {
		p.Ops = append(p.Ops, harness.MustJSON(op))
	}
	return p
}

func (e engine) Exec(rc *harness.RunCtx, p *harness.Plan) (out *harness.Outcome) {
	knobsDone := knobs.Apply(p)
	defer func() { knobsDone(out) }()
	defer func() {
		if r := recover(); r != nil {
			if r == errStepBudget {
				out = &harness.Outcome{Inconclusive: "scheduler step budget exhausted"}
				return
			}
			panic(r)
		}
	}()
	var cfg Config
	if err := json.Unmarshal(p.Config, &cfg); err != nil {
		return &harness.Outcome{Inconclusive: "bad config: " + err.Error()}
	}
	if p.Mode == "pack" {
		return execC04(rc, p, &cfg)
	}
	if p.Mode == "concurrent" {
		return execC14(rc, p, &cfg)
	}
	if p.Mode == "encrypt" {
		return execC11(rc, p, &cfg)
	}
	if p.Mode == "quorum" {
		ops := make([]c12Op, len(p.Ops))
		for i, raw := range p.Ops {
			if err := json.Unmarshal(raw, &ops[i]); err != nil {
				return &harness.Outcome{Inconclusive: "bad op: " + err.Error()}
			}
		}
		o := &harness.Outcome{}
		_ = o
		return execC12(rc, p, &cfg, ops)
	}
	ops := make([]sim.Op, len(p.Ops))
	for i, raw := range p.Ops {
		if err := json.Unmarshal(raw, &ops[i]); err != nil {
			return &harness.Outcome{Inconclusive: "bad op: " + err.Error()}
		}
	}
	switch p.Mode {
	case "exact":
		return execExact(rc, p, &cfg, ops)
	case "enumerate", "single":
		return execC13(rc, p, &cfg, ops)
	case "crash":
		return execC03(rc, p, &cfg, ops)
	case "amplify":
		return execC13Amplify(rc, p, &cfg, ops)
	}
	return &harness.Outcome{Inconclusive: "unknown mode " + p.Mode}
}

// capsOf derives the documented restrictions of a composition's root.
func capsOf(root *sim.Node) sim.Caps {
	c := sim.Caps{}
	c.NoRemove = !removable(root)
	c.ReadOnly = root.Type == "union"
	switch root.Type {
	case "overlay", "replica", "shard", "cond", "union", "namespace", "encrypt":
		// these wrappers do not implement blob.SubFetcher
		c.NoSubFetch = true
	}
	return c
}

type session struct {
	rc    *harness.RunCtx
	cfg   *Config
	world *sim.World
	pool  []*sim.TBlob
	sto   blobserver.Storage
	model *sim.Model
	// deadDirs: directories of crashed generations; disk calls on them block
	deadDirs   []string
	sawCrash   bool
	streamErrs int
	inflight   map[string]bool // refs targeted by the operation in flight at the crash
	reacked    map[string]bool // ... whose receive was acknowledged after the crash
}

func newSession(rc *harness.RunCtx, cfg *Config) (*session, error) {
	return newSessionEnv(rc, cfg, rc.Env, rc.Scratch)
}

// newSessionEnv builds a session over its own Env and scratch directory
// (independent sub-runs of one plan).
func newSessionEnv(rc *harness.RunCtx, cfg *Config, env *sim.Env, scratch string) (*session, error) {
	s := &session{rc: rc, cfg: cfg}
	if err := os.MkdirAll(scratch, 0o755); err != nil {
		return nil, err
	}
	s.world = sim.NewWorld(env, scratch)
	simdisk.Reset()
	simdisk.SetHook(func(path, op string) string {
		for _, d := range s.deadDirs {
			if strings.HasPrefix(path, d+"/") {
				select {} // a zombie of a crashed generation
			}
		}
		mut := op == "Write" || op == "WriteAt" || op == "Sync" || op == "Truncate" || op == "Punch" || op == "OpenFile"
		kind, _ := env.Enter(nil, "disk", op, mut)
		switch kind {
		case sim.FErr, sim.FErrAfter:
			return "err"
		case sim.FShortWrite:
			return "short-write"
		}
		return ""
	})
	kf := filepath.Join(scratch, "age.key")
	if err := os.WriteFile(kf, []byte(TestKey+"\n"), 0o600); err != nil {
		return nil, err
	}
	s.world.KeyFile = kf
	s.pool = poolOf(cfg)
	s.model = sim.NewModel(s.pool, capsOf(cfg.Root))
	return s, nil
}

// poolOf materialises the blob pool of a configuration: the generated blobs
// followed by the blobs of the packable files.
func poolOf(cfg *Config) []*sim.TBlob {
	pool := make([]*sim.TBlob, len(cfg.Blobs))
	for i, sp := range cfg.Blobs {
		pool[i] = sim.Materialise(sp)
	}
	if len(cfg.Files) > 0 {
		w := buildC04(&c04Config{Files: cfg.Files})
		pool = append(pool, w.pool...)
	}
	return pool
}

func (s *session) build() (err error) {
	defer func() {
		if r := recover(); r != nil {
			// a constructor that panics takes the server down at start-up
			err = fmt.Errorf("panic while creating the store: %v", r)
		}
	}()
	sto, err := s.world.Build(s.cfg.Root)
	if err != nil {
		return err
	}
	s.sto = sto
	if s.cfg.ZipMax > 0 {
		s.cfg.Root.Walk(func(n *sim.Node) {
			if n.Type != "blobpacked" {
				return
			}
			if st, gerr := s.world.GetStorage("/" + n.Name + "/"); gerr == nil {
				blobpacked.VerifSetMaxZipBlobSize(st, s.cfg.ZipMax)
			}
		})
	}
	return nil
}

// preseed receives blobs directly into kids of the root, then marks what the
// root must show.
func (s *session) preseed(ctx context.Context) error {
	if len(s.cfg.Preseed) == 0 {
		return nil
	}
	s.world.Register(s.cfg.Root)
	for _, name := range sim.SortedKeys(s.cfg.Preseed) {
		kid, err := s.world.GetStorage("/" + name + "/")
		if err != nil {
			return err
		}
		for _, bi := range s.cfg.Preseed[name] {
			if bi >= len(s.pool) {
				continue
			}
			b := s.pool[bi]
			if _, err := blobserver.Receive(ctx, kid, b.Ref, strings.NewReader(string(b.Data))); err != nil {
				return fmt.Errorf("preseed %s into %s: %w", b.Ref, name, err)
			}
			s.model.Set(bi, sim.Present)
		}
	}
	return nil
}

// do executes one client operation. Under the scheduler the operation is a
// task and the call returns at quiescence: the operation has returned and
// every goroutine it left behind (replica stragglers, cache population) has
// finished or is waiting on a timer.
func (s *session) do(ctx context.Context, op sim.Op) (sim.Result, error) {
	var res sim.Result
	err := s.task(func() { res = sim.ExecOp(ctx, s.sto, s.pool, op) })
	return res, err
}

// task runs f as a scheduled task and returns at quiescence.
func (s *session) task(f func()) error {
	if s.rc.Sched == nil {
		f()
		return nil
	}
	s.rc.Sched.Go("c0", f)
	err := s.rc.Sched.Run()
	if errors.Is(err, simcore.ErrSteps) {
		// budget of the harness, not a property of perkeep
		panic(errStepBudget)
	}
	return err
}

var errStepBudget = errors.New("scheduler step budget exhausted")

func shapeKey(cfg *Config, ops []sim.Op, extra string) string {
	var sb strings.Builder
	sb.WriteString(cfg.Root.Shape())
	sb.WriteByte('|')
	for _, op := range ops {
		sb.WriteString(op.Kind[:2])
	}
	sb.WriteByte('|')
	sb.WriteString(extra)
	return sb.String()
}

func sigFor(cfg *Config, class string) string {
	return class + "@" + cfg.Root.Shape()
}

func classOf(v string) string {
	// first words after "op: "
	i := strings.Index(v, ": ")
	msg := v
	if i >= 0 {
		msg = v[i+2:]
	}
	words := strings.Fields(msg)
	if len(words) > 4 {
		words = words[:4]
	}
	kind := v
	if j := strings.IndexAny(v, "[(@:"); j > 0 {
		kind = v[:j]
	}
	return kind + ":" + strings.Join(words, "-")
}

func execExact(rc *harness.RunCtx, p *harness.Plan, cfg *Config, ops []sim.Op) *harness.Outcome {
	ctx := context.Background()
	out := &harness.Outcome{Ops: len(ops)}
	s, err := newSession(rc, cfg)
	if err != nil {
		out.Inconclusive = "session: " + err.Error()
		return out
	}
	var perr, berr error
	if herr := s.task(func() {
		if perr = s.preseed(ctx); perr == nil {
			berr = s.build()
		}
	}); herr != nil {
		out.Inconclusive = "setup never finished: " + herr.Error()
		return out
	}
	if perr != nil {
		out.Inconclusive = "preseed: " + perr.Error()
		return out
	}
	if berr != nil {
		out.Inconclusive = "build: " + berr.Error()
		return out
	}
	fail := func(i int, v string) *harness.Outcome {
		cl := classOf(v)
		out.Violation = harness.Viol(cl, sigFor(cfg, cl), fmt.Sprintf("composition %s, op #%d: %s", cfg.Root.Shape(), i, v), i)
		return out
	}
	for i, op := range ops {
		rc.Env.BeginOp(i)
		for _, bi := range op.B {
			if bi >= len(s.pool) {
				out.Inconclusive = "op refers to blob outside pool"
				return out
			}
		}
		if op.Kind == "restart" {
			var err error
			if herr := s.task(func() {
				s.world.Restart(true)
				err = s.build()
			}); herr != nil {
				return fail(i, "restart never finished: "+herr.Error())
			}
			if err != nil {
				return fail(i, "restart: re-creating the store over its own durable state failed: "+err.Error())
			}
			continue
		}
		res, herr := s.do(ctx, op)
		if herr != nil {
			return fail(i, op.String()+": operation never returned: "+herr.Error())
		}
		if v := s.model.Check(op, res, false); len(v) > 0 {
			return fail(i, v[0])
		}
	}
	// closing sweep: complete paging with a seeded page size, fetch and stat of everything
	final := []sim.Op{{Kind: "page", Limit: 1 + int(p.Seed+uint64(p.Run))%4}}
	all := make([]int, len(s.pool))
	for i := range all {
		all[i] = i
		final = append(final, sim.Op{Kind: "fetch", B: []int{i}})
	}
	final = append(final, sim.Op{Kind: "stat", B: all})
	for _, op := range final {
		res, herr := s.do(ctx, op)
		if herr != nil {
			return fail(len(ops), op.String()+": operation never returned: "+herr.Error())
		}
		if v := s.model.Check(op, res, false); len(v) > 0 {
			return fail(len(ops), "closing sweep: "+v[0])
		}
	}
	s.task(func() { s.world.Restart(true) })
	out.ShapeKey = shapeKey(cfg, ops, "")
	out.Nontrivial = len(ops) >= 3
	out.Reached = rc.Env.Reached
	out.Sample = map[string]any{"composition": cfg.Root.Shape(), "blobs": len(cfg.Blobs), "ops": opStrings(ops, 12)}
	return out
}

func opStrings(ops []sim.Op, n int) []string {
	var out []string
	for i, op := range ops {
		if i >= n {
			out = append(out, fmt.Sprintf("… %d more", len(ops)-n))
			break
		}
		out = append(out, op.String())
	}
	return out
}
