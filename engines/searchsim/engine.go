// Package searchsim drives perkeep's search handler (pkg/search: query
// planner, matchers, sorting, limits, continuation tokens, around windows) as
// a reader inside simulated index histories, for the properties C08 (a search
// returns exactly the matching blobs, however it is planned) and C09 (paging
// neither skips nor repeats). Worlds, arrival histories and the index session
// come from engines/indexsim.
package searchsim

import (
	"bytes"
	"context"
	"encoding/json"
	"fmt"
	"net/http/httptest"
	"runtime"
	"strconv"
	"strings"
	"sync"

	"perkeep.org/pkg/index"
	"perkeep.org/pkg/search"

	"verif/engines/indexsim"
	"verif/harness"
	"verif/simcore"
)

type engine struct{}

func init() {
	harness.Register(engine{})
	index.SetVerboseCorpusLogging(false)
}

func (engine) Name() string    { return "searchsim" }
func (engine) Props() []string { return []string{"C08", "C09"} }

// Config is the engine part of a plan.
type Config struct {
	World indexsim.WorldSpec `json:"world"`
	// Mode: rows (no corpus) | scan (corpus loaded from the rows where the
	// history has a {k:"corpus"} op) | incr (corpus kept from the start and
	// built incrementally)
	Mode string `json:"mode"`
	// Shape names the time shape of a C09 world (reporting only).
	Shape string `json:"shape,omitempty"`
}

// Op is one element of a history.
type Op struct {
	// K: deliver | bulk | restart | corpus | query (C08) | page | around | enumasc (C09)
	K string `json:"k"`
	// deliver: item I by client C
	I int `json:"i,omitempty"`
	C int `json:"c,omitempty"`
	// bulk: N opaque filler blobs (derived from Seed) are delivered; they are
	// not part of the world description (queries after it are DiffOnly)
	N    int    `json:"n,omitempty"`
	Seed uint64 `json:"seed,omitempty"`
	// query, page, around
	Q *Query `json:"q,omitempty"`
	// around: pivot item + 1; -1: a ref no blob has
	Pivot int `json:"pivot,omitempty"`
}

func (e engine) Gen(prop, tier string, run int, r *simcore.Rand) *harness.Plan {
	switch prop {
	case "C08":
		return genC08(tier, run, r)
	case "C09":
		return genC09(tier, run, r)
	}
	return nil
}

func (e engine) Exec(rc *harness.RunCtx, p *harness.Plan) *harness.Outcome {
	var cfg Config
	if err := json.Unmarshal(p.Config, &cfg); err != nil {
		return &harness.Outcome{Inconclusive: "bad config: " + err.Error()}
	}
	ops := make([]Op, len(p.Ops))
	for i, raw := range p.Ops {
		if err := json.Unmarshal(raw, &ops[i]); err != nil {
			return &harness.Outcome{Inconclusive: "bad op: " + err.Error()}
		}
	}
	w, err := indexsim.Materialise(&cfg.World)
	if err != nil {
		return &harness.Outcome{Inconclusive: "world: " + err.Error()}
	}
	for _, op := range ops {
		if op.K == "deliver" && !w.Valid(op.I) {
			return &harness.Outcome{Inconclusive: "op refers to an item outside the world"}
		}
	}
	x := &exec{rc: rc, p: p, cfg: &cfg, w: w, ops: ops, out: &harness.Outcome{Ops: len(ops), Reached: map[string]int{}}}
	// History segments re-seed the scheduler, so a replay is driven by the
	// plan's seeds alone and a recorded tape is ignored (as in indexsim); the
	// choices taken are published for the interleaving statistics only.
	if rc.Sched != nil {
		rc.Sched.Tape = nil
		defer func() {
			x.flush()
			rc.Sched.Reseed(0)
			rc.Sched.Rec = x.rec
		}()
	}
	search.VerifSetCandSourceHook(x.noteSource)
	defer search.VerifSetCandSourceHook(nil)
	switch p.Prop {
	case "C08":
		return x.runC08()
	case "C09":
		return x.runC09()
	}
	return &harness.Outcome{Inconclusive: "unknown property " + p.Prop}
}

// ---------------------------------------------------------------------------
// execution state shared by the two properties

type exec struct {
	rc  *harness.RunCtx
	p   *harness.Plan
	cfg *Config
	w   *indexsim.World
	ops []Op
	out *harness.Outcome

	sess      *indexsim.Session
	h         *search.Handler
	restarted bool
	seg       int
	rec       []int

	srcMu   sync.Mutex
	sources map[uint64]string // goroutine id -> candidate source of its running query

	view    *view // cached until the next delivery
	sample  any
	stopped bool
}

func goid() uint64 {
	var buf [64]byte
	b := buf[:runtime.Stack(buf[:], false)]
	b = b[len("goroutine "):]
	i := bytes.IndexByte(b, ' ')
	n, _ := strconv.ParseUint(string(b[:i]), 10, 64)
	return n
}

// noteSource is the candidate-source hook: it only records.
func (x *exec) noteSource(name string) {
	x.srcMu.Lock()
	if x.sources == nil {
		x.sources = map[uint64]string{}
	}
	x.sources[goid()] = name
	x.srcMu.Unlock()
}

func (x *exec) takeSource() string {
	x.srcMu.Lock()
	defer x.srcMu.Unlock()
	g := goid()
	s := x.sources[g]
	delete(x.sources, g)
	return s
}

func (x *exec) mode() string {
	m := "rows"
	if x.sess != nil && x.sess.CorpusOn() {
		m = x.cfg.Mode
		if m == "rows" || m == "" {
			m = "scan"
		}
	}
	if x.restarted {
		m += "+restart"
	}
	return m
}

func (x *exec) corpusOn() bool { return x.sess != nil && x.sess.CorpusOn() }

func (x *exec) reseed(what string) {
	x.flush()
	x.sess.Reseed(simcore.Mix(x.p.SchedSeed, what, x.seg))
	x.seg++
}

func (x *exec) flush() {
	if x.rc.Sched != nil && len(x.rec) < 8192 {
		x.rec = append(x.rec, x.rc.Sched.Rec...)
	}
}

// open starts (or restarts) the index and creates its search handler, as
// serverinit does: search.NewHandler(index, owner) and SetCorpus.
func (x *exec) open() error {
	x.reseed("open")
	if err := x.sess.Open(); err != nil {
		return err
	}
	kid, ref, ok := indexsim.Identity(0)
	if !ok {
		return fmt.Errorf("no signing identity")
	}
	x.h = search.NewHandler(x.sess.Index(), index.NewOwner(kid, ref))
	if c := x.sess.Corpus(); c != nil {
		x.h.SetCorpus(c)
	}
	x.view = nil
	return nil
}

func (x *exec) start() bool {
	x.sess = indexsim.NewSession(x.rc, x.w, "search")
	x.sess.SetCorpusOn(x.cfg.Mode == "incr")
	if err := x.open(); err != nil {
		x.out.Inconclusive = "open: " + err.Error()
		return false
	}
	return true
}

// deliver executes a run of deliver ops as one concurrent segment.
func (x *exec) deliver(ops []Op, base int) bool {
	if len(ops) == 0 {
		return true
	}
	iops := make([]indexsim.Op, len(ops))
	for i, op := range ops {
		iops[i] = indexsim.Op{K: "deliver", I: op.I, C: op.C}
	}
	x.reseed("seg")
	if err := x.sess.Segment(iops, base); err != nil {
		x.out.Inconclusive = "segment never quiesced: " + err.Error()
		return false
	}
	if errs := x.sess.RecvErrs(); len(errs) > 0 {
		x.out.Inconclusive = "the index refused a well-formed blob: " + strings.Join(errs[:1], "; ")
		return false
	}
	x.view = nil
	return true
}

func (x *exec) curView() *view {
	if x.view == nil {
		x.view = newView(x.w, x.sess.Delivered())
	}
	return x.view
}

// pending reports whether some delivered blob still waits for a dependency.
func (x *exec) pending() bool {
	del := x.sess.Delivered()
	ds := indexsim.NewDepState(x.w, del)
	for i, b := range x.w.Blobs() {
		if del[b.RefS] && ds.State(i) != 1 {
			return true
		}
	}
	return false
}

// restart reopens the index over its rows. A restart while a delivered blob
// still waits for a dependency is skipped: what the index forgets then is the
// subject of recorded C05 findings, not of the search properties.
func (x *exec) restart() bool {
	if x.pending() {
		x.out.Reached["restart-skipped-pending"]++
		return true
	}
	x.restarted = true
	if err := x.open(); err != nil {
		x.out.Inconclusive = "restart: " + err.Error()
		return false
	}
	x.out.Reached["restart"]++
	return true
}

func (x *exec) enableCorpus() bool {
	if x.sess.CorpusOn() {
		return true
	}
	x.reseed("corpus")
	if err := x.sess.EnableCorpus(); err != nil {
		x.out.Inconclusive = "corpus: " + err.Error()
		return false
	}
	x.h.SetCorpus(x.sess.Corpus())
	x.out.Reached["corpus-scanned-from-rows"]++
	return true
}

// answer is what one Query call produced.
type answer struct {
	refs   []string
	cont   string
	err    error
	panicv any
	source string
}

// ask runs one query on the calling (task) goroutine.
func (x *exec) ask(sq *search.SearchQuery) (a answer) {
	defer func() {
		if r := recover(); r != nil {
			a.panicv = r
		}
		a.source = x.takeSource()
	}()
	res, err := x.h.Query(context.Background(), sq)
	a.err = err
	if res != nil {
		for _, b := range res.Blobs {
			a.refs = append(a.refs, b.Blob.String())
		}
		a.cont = res.Continue
	}
	return a
}

// askHTTP puts the query to the handler's HTTP entry point (POST
// camli/search/query, as the web UI and pkg/client do) and decodes the answer.
func (x *exec) askHTTP(sq *search.SearchQuery) (a answer) {
	defer func() {
		if r := recover(); r != nil {
			a.panicv = r
		}
		x.takeSource()
	}()
	body, err := json.Marshal(sq)
	if err != nil {
		a.err = err
		return a
	}
	req := httptest.NewRequest("POST", "http://perkeep.sim/my-search/camli/search/query", bytes.NewReader(body))
	req.Header.Set("X-Prefixhandler-Pathbase", "/my-search/")
	req.Header.Set("X-Prefixhandler-Pathsuffix", "camli/search/query")
	rec := httptest.NewRecorder()
	x.h.ServeHTTP(rec, req)
	var res struct {
		Blobs []struct {
			Blob string `json:"blob"`
		} `json:"blobs"`
		Continue  string `json:"continue"`
		Error     string `json:"error"`
		ErrorType string `json:"errorType"`
	}
	if err := json.Unmarshal(rec.Body.Bytes(), &res); err != nil {
		a.err = fmt.Errorf("HTTP %d, body is not JSON: %v", rec.Code, err)
		return a
	}
	if res.Error != "" || rec.Code != 200 {
		a.err = fmt.Errorf("HTTP %d: %s", rec.Code, res.Error)
		return a
	}
	for _, b := range res.Blobs {
		a.refs = append(a.refs, b.Blob)
	}
	a.cont = res.Continue
	return a
}

// report files a violation unless its signature is a recorded finding; it
// returns true when the run must stop.
func (x *exec) report(class, cause, where, detail string, opIdx int) bool {
	sig := class
	if cause != "" {
		sig += "~" + cause
	}
	sig += "@" + where
	if what, ok := harness.Known(x.p.Prop, sig); ok {
		x.out.NoteKnown(what)
		return false
	}
	if x.out.Violation != nil {
		return true
	}
	x.out.Violation = harness.Viol(class, sig, detail, opIdx)
	rp := *x.p
	rp.Tape = nil
	x.out.ReplayPlan = &rp
	x.stopped = true
	return true
}

func short(ref string) string {
	if i := strings.IndexByte(ref, '-'); i > 0 && len(ref) > i+9 {
		return ref[i+1 : i+9]
	}
	return ref
}

func (x *exec) describeRefs(v *view, refs []string) string {
	var out []string
	for i, r := range refs {
		if i == 6 {
			out = append(out, fmt.Sprintf("... %d more", len(refs)-6))
			break
		}
		if e := v.ents[r]; e != nil {
			out = append(out, short(r)+"="+x.w.Describe(e.item))
		} else {
			out = append(out, short(r)+"=(unknown to the world at this instant)")
		}
	}
	return "[" + strings.Join(out, "; ") + "]"
}

func (x *exec) history(upto int) string {
	var out []string
	for i, op := range x.ops {
		if i >= upto {
			break
		}
		switch op.K {
		case "deliver":
			out = append(out, fmt.Sprintf("c%d:%s", op.C, x.w.Describe(op.I)))
		case "query", "page", "around":
			out = append(out, "("+op.K+")")
		default:
			out = append(out, op.K)
		}
	}
	if len(out) > 40 {
		out = append([]string{fmt.Sprintf("... %d earlier ops", len(out)-40)}, out[len(out)-40:]...)
	}
	return strings.Join(out, " | ")
}

func queryJSON(sq *search.SearchQuery) string {
	b, err := json.Marshal(sq)
	if err != nil {
		return "unmarshalable: " + err.Error()
	}
	return string(b)
}

func opKinds(w *indexsim.World, ops []Op) string {
	var sb strings.Builder
	for _, op := range ops {
		switch op.K {
		case "deliver":
			sb.WriteString(w.Spec().Items[op.I].K[:1])
		case "restart":
			sb.WriteString("R")
		case "corpus":
			sb.WriteString("M")
		case "query":
			sb.WriteString("?")
		case "page":
			sb.WriteString("P")
		case "around":
			sb.WriteString("A")
		case "enumasc":
			sb.WriteString("E")
		}
	}
	return sb.String()
}

func opsJSON(ops []Op) []json.RawMessage {
	out := make([]json.RawMessage, len(ops))
	for i, op := range ops {
		out[i] = harness.MustJSON(op)
	}
	return out
}
