package searchsim

import (
	"fmt"
	"sort"
	"strings"

	"verif/engines/indexsim"
	"verif/simcore"
)

// World generator for the search properties. Shapes covered by the recorded
// index findings (KNOWN_FINDINGS.json, C05-C07) are not generated: one signer
// (the owner), claim dates distinct within a permanode, no delete claims, no
// attribute value added twice, no empty values, camliContent only through
// set-attribute claims, every claim dated before the simulated "now".

type wgen struct {
	r     *simcore.Rand
	items []indexsim.Item
	pns   []int
	files []int
	dirs  []int
	blobs []int // opaque blobs that are not file chunks
	// per permanode item: dates used, values present per attribute
	pnDates map[int]map[int64]bool
	pnVals  map[int]map[string][]string
	// values ever added to a multi-valued attribute of a permanode (claims are
	// generated out of date order, so "currently present" is not enough to
	// keep a value from being added twice)
	ever  map[string]bool
	dates []int64
}

func (g *wgen) addedBefore(pn int, attr, val string) bool {
	k := fmt.Sprintf("%d|%s|%s", pn, attr, val)
	if g.ever[k] {
		return true
	}
	g.ever[k] = true
	return false
}

func newWgen(r *simcore.Rand) *wgen {
	g := &wgen{r: r, pnDates: map[int]map[int64]bool{}, pnVals: map[int]map[string][]string{}, ever: map[string]bool{}}
	g.add(indexsim.Item{K: "key", S: 0})
	return g
}

func (g *wgen) add(it indexsim.Item) int {
	g.items = append(g.items, it)
	return len(g.items) - 1
}

func (g *wgen) pick(l []int) int { return l[g.r.Intn(len(l))] }

// safeContent: lower-case ASCII text that none of the indexer's content
// signatures (internal/magic: "gimp xcf ", "moov"/"mdat" at offset 4, the MP4
// and 3GPP brands at offset 8, ...) can match, so that a file's MIME type is
// decided by its name alone.
func safeContent(d []byte) bool {
	s := string(d)
	if strings.HasPrefix(s, "gimp") || strings.HasPrefix(s, "d8") {
		return false
	}
	if len(s) > 4 {
		t := s[4:]
		if strings.HasPrefix(t, "moov") || strings.HasPrefix(t, "mdat") || strings.HasPrefix(t, "ftyp") {
			return false
		}
	}
	if len(s) > 8 {
		t := s[8:]
		for _, p := range []string{"isom", "mp4", "mmp4", "3g", "avc1"} {
			if strings.HasPrefix(t, p) {
				return false
			}
		}
	}
	return true
}

func (g *wgen) chunk() int {
	for {
		seed := g.r.Uint64() % 100000
		size := g.r.Range(1, 48)
		if safeContent(indexsim.BlobData(seed, size)) {
			return g.add(indexsim.Item{K: "blob", Seed: seed, Size: size})
		}
	}
}

func (g *wgen) opaque() int {
	i := g.add(indexsim.Item{K: "blob", Seed: g.r.Uint64() % 100000, Size: g.r.Range(1, 60)})
	g.blobs = append(g.blobs, i)
	return i
}

var fileNames = []string{"f.txt", "a b.txt", "notes.txt", "readme", "été.txt", "alpha", ""}

func (g *wgen) file() int {
	r := g.r
	n := r.Range(1, 2)
	var parts []int
	for i := 0; i < n; i++ {
		parts = append(parts, g.chunk())
	}
	if r.Bool(0.25) {
		by := g.add(indexsim.Item{K: "bytes", Parts: append([]int{}, parts[len(parts)-1:]...)})
		parts = append(append([]int{}, parts[:len(parts)-1]...), by)
	}
	it := indexsim.Item{K: "file", Parts: parts, Name: fileNames[r.Intn(len(fileNames))]}
	if r.Bool(0.5) {
		it.MT = int64(r.Range(1, 2000000))
	}
	i := g.add(it)
	g.files = append(g.files, i)
	return i
}

var dirNames = []string{"d", "d 1", "docs", "alpha", ""}

func (g *wgen) dir() int {
	r := g.r
	members := func() []int {
		var m []int
		c := append(append([]int{}, g.files...), g.dirs...)
		if len(g.blobs) > 0 && r.Bool(0.2) {
			c = append(c, g.blobs[0])
		}
		for _, x := range c {
			if r.Bool(0.5) {
				m = append(m, x)
			}
		}
		return m
	}
	var top int
	if r.Bool(0.25) {
		a := g.add(indexsim.Item{K: "sset", Mem: members()})
		c := g.add(indexsim.Item{K: "sset", Mem: members()})
		for _, s := range []int{a, c} {
			if len(g.items[s].Mem) == 0 && len(g.files) > 0 {
				g.items[s].Mem = []int{g.files[0]}
			}
		}
		top = g.add(indexsim.Item{K: "sset", Merge: []int{a, c}})
	} else {
		top = g.add(indexsim.Item{K: "sset", Mem: members()})
	}
	i := g.add(indexsim.Item{K: "dir", Ent: top, Name: dirNames[r.Intn(len(dirNames))]})
	g.dirs = append(g.dirs, i)
	return i
}

func (g *wgen) pn() int {
	i := g.add(indexsim.Item{K: "pn", S: 0, Key: fmt.Sprintf("pn%d", len(g.pns))})
	g.pns = append(g.pns, i)
	g.pnDates[i] = map[int64]bool{}
	g.pnVals[i] = map[string][]string{}
	return i
}

// date draws a claim date (ms after base) not yet used on permanode pn. With
// shared set, dates come from a small pool, so that different permanodes get
// equal times.
func (g *wgen) date(pn int, pool []int64) int64 {
	r := g.r
	for try := 0; ; try++ {
		var d int64
		if len(pool) > 0 && try < 8 {
			d = pool[r.Intn(len(pool))]
		} else {
			d = int64(1+r.Intn(300))*1000 + int64(r.Intn(3))
		}
		if !g.pnDates[pn][d] {
			g.pnDates[pn][d] = true
			g.dates = append(g.dates, d)
			return d
		}
	}
}

var (
	titleVals = []string{"Alpha", "alpha beta", "Beta", "gamma", "ALPHA", "x"}
	tagVals   = []string{"red", "green", "blue", "Red", "re", "dark red"}
	numVals   = []string{"5", "-3", "007", "12x", "40", "3.5", "+8"}
	typeVals  = []string{"typeA", "typeB"}
	pathNames = []string{"camliPath:foo", "camliPath:b r"}
)

func has(l []string, s string) bool {
	for _, x := range l {
		if x == s {
			return true
		}
	}
	return false
}

// claim adds one claim on pn, keeping the invariants listed at the top.
func (g *wgen) claim(pn int, pool []int64) {
	r := g.r
	vals := g.pnVals[pn]
	it := indexsim.Item{K: "claim", S: 0, PN: pn}
	setPlain := func(attr string, choices []string) {
		it.CT, it.Attr, it.Val = "set", attr, choices[r.Intn(len(choices))]
		vals[attr] = []string{it.Val}
	}
	refVal := func(attr string, target int, ct string) {
		it.CT, it.Attr, it.Ref = ct, attr, target+1
		key := fmt.Sprintf("#%d", target)
		if ct == "set" {
			vals[attr] = []string{key}
		} else {
			vals[attr] = append(vals[attr], key)
		}
	}
	for try := 0; try < 20; try++ {
		switch x := r.Intn(100); {
		case x < 18:
			setPlain("title", titleVals)
		case x < 42:
			v := tagVals[r.Intn(len(tagVals))]
			if has(vals["tag"], v) || g.addedBefore(pn, "tag", v) {
				continue
			}
			it.CT, it.Attr, it.Val = "add", "tag", v
			vals["tag"] = append(vals["tag"], v)
		case x < 50:
			if len(vals["tag"]) == 0 {
				continue
			}
			it.CT, it.Attr = "del", "tag"
			if r.Bool(0.6) {
				it.Val = vals["tag"][r.Intn(len(vals["tag"]))]
				var nv []string
				for _, y := range vals["tag"] {
					if y != it.Val {
						nv = append(nv, y)
					}
				}
				vals["tag"] = nv
			} else {
				vals["tag"] = nil
			}
		case x < 60:
			if len(g.files) == 0 {
				continue
			}
			t := g.pick(g.files)
			if r.Bool(0.12) && len(g.blobs) > 0 {
				t = g.pick(g.blobs)
			}
			refVal("camliContent", t, "set")
		case x < 72:
			c := append([]int{}, g.pns...)
			if r.Bool(0.15) {
				c = append(c, g.files...)
			}
			t := g.pick(c)
			if t == pn || has(vals["camliMember"], fmt.Sprintf("#%d", t)) || g.addedBefore(pn, "camliMember", fmt.Sprint(t)) {
				continue
			}
			refVal("camliMember", t, "add")
		case x < 80:
			t := g.pick(g.pns)
			if t == pn {
				continue
			}
			refVal(pathNames[r.Intn(len(pathNames))], t, "set")
		case x < 87:
			setPlain("camliNodeType", typeVals)
		case x < 91:
			setPlain("camliDefVis", []string{"hide", "show"})
		case x < 98:
			setPlain("num", numVals)
		default:
			a := []string{"title", "num", "camliNodeType", "camliDefVis"}[r.Intn(4)]
			if len(vals[a]) == 0 {
				continue
			}
			it.CT, it.Attr = "del", a
			vals[a] = nil
		}
		if it.CT != "" {
			break
		}
	}
	if it.CT == "" {
		setPlain("title", titleVals)
	}
	it.D = g.date(pn, pool)
	g.add(it)
}

// genWorld08 draws a world for C08: 10-40 blobs.
func genWorld08(r *simcore.Rand) *indexsim.WorldSpec {
	g := newWgen(r)
	target := r.Range(10, 40)
	nfiles, ndirs, nblobs := r.Range(0, 3), 0, r.Range(0, 2)
	if r.Bool(0.25) {
		nfiles = 0
	}
	if nfiles > 0 && r.Bool(0.7) {
		ndirs = r.Range(1, 3)
	}
	npn := r.Range(2, 8)
	for i := 0; i < nblobs; i++ {
		g.opaque()
	}
	for i := 0; i < nfiles; i++ {
		g.file()
	}
	for i := 0; i < ndirs; i++ {
		g.dir()
		if r.Bool(0.3) {
			g.file()
		}
	}
	if len(g.dirs) > 0 && r.Bool(0.25) {
		// a directory listed by two parent directories
		shared := g.dirs[r.Intn(len(g.dirs))]
		for k := 0; k < 2; k++ {
			mem := []int{shared}
			if len(g.files) > 0 && r.Bool(0.5) {
				mem = append(mem, g.pick(g.files))
			}
			ss := g.add(indexsim.Item{K: "sset", Mem: mem})
			d := g.add(indexsim.Item{K: "dir", Ent: ss, Name: []string{"parentA", "parentB"}[k]})
			g.dirs = append(g.dirs, d)
		}
	}
	for i := 0; i < npn; i++ {
		g.pn()
	}
	// a pool of shared dates: different permanodes with equal times
	var pool []int64
	if r.Bool(0.4) {
		for i := r.Range(1, 3); i > 0; i-- {
			pool = append(pool, int64(1+r.Intn(300))*1000)
		}
	}
	// collections: permanodes with several members / paths (relations with
	// more than one related node)
	for k := r.Intn(3); k > 0 && len(g.pns) >= 3; k-- {
		coll := g.pick(g.pns)
		for m := r.Range(2, 4); m > 0; m-- {
			t := g.pick(g.pns)
			if r.Bool(0.2) && len(g.files) > 0 {
				t = g.pick(g.files)
			}
			key := fmt.Sprintf("#%d", t)
			if t == coll || has(g.pnVals[coll]["camliMember"], key) || g.addedBefore(coll, "camliMember", fmt.Sprint(t)) {
				continue
			}
			g.pnVals[coll]["camliMember"] = append(g.pnVals[coll]["camliMember"], key)
			g.add(indexsim.Item{K: "claim", S: 0, PN: coll, CT: "add", Attr: "camliMember", Ref: t + 1, D: g.date(coll, pool)})
		}
	}
	// renames: a link undone and made again under another attribute (the
	// two permanodes stay related, through a different edge), or moved from a
	// member to a path
	for k := r.Intn(3); k > 1 && len(g.pns) >= 2; k-- {
		a, c := g.pick(g.pns), g.pick(g.pns)
		if a == c {
			continue
		}
		ds := []int64{g.date(a, pool), g.date(a, pool), g.date(a, pool)}
		sort.Slice(ds, func(i, j int) bool { return ds[i] < ds[j] })
		from, to := pathNames[0], pathNames[1]
		if r.Bool(0.5) {
			from, to = to, from
		}
		g.add(indexsim.Item{K: "claim", S: 0, PN: a, CT: "set", Attr: from, Ref: c + 1, D: ds[0]})
		g.add(indexsim.Item{K: "claim", S: 0, PN: a, CT: "del", Attr: from, D: ds[1]})
		g.add(indexsim.Item{K: "claim", S: 0, PN: a, CT: "set", Attr: to, Ref: c + 1, D: ds[2]})
		g.pnVals[a][from] = nil
		g.pnVals[a][to] = []string{fmt.Sprintf("#%d", c)}
	}
	for guard := 0; len(g.items) < target && guard < 200; guard++ {
		pn := g.pick(g.pns)
		if r.Bool(0.1) {
			continue // some permanodes stay without claims
		}
		g.claim(pn, pool)
	}
	return &indexsim.WorldSpec{Items: g.items}
}

// ---------------------------------------------------------------------------
// summary of a world for the query generator

type winfo struct {
	spec   *indexsim.WorldSpec
	pns    []int
	files  []int
	dirs   []int
	claims []int
	all    []int
	attrs  []string
	vals   map[string][]string // attr -> plain values claimed
	refs   map[string][]int    // attr -> items referenced
	dates  []int64             // claim dates, sorted
	sizes  []int64             // file sizes
	mts    []int64
}

func summarise(spec *indexsim.WorldSpec) *winfo {
	wi := &winfo{spec: spec, vals: map[string][]string{}, refs: map[string][]int{}}
	seenA := map[string]bool{}
	seenD := map[int64]bool{}
	var size func(i int) int64
	size = func(i int) int64 {
		it := spec.Items[i]
		if it.K == "blob" {
			return int64(it.Size)
		}
		var t int64
		for _, p := range it.Parts {
			t += size(p)
		}
		return t
	}
	for i, it := range spec.Items {
		wi.all = append(wi.all, i)
		switch it.K {
		case "pn":
			wi.pns = append(wi.pns, i)
		case "file":
			wi.files = append(wi.files, i)
			wi.sizes = append(wi.sizes, size(i))
			if it.MT != 0 {
				wi.mts = append(wi.mts, it.MT)
			}
		case "dir":
			wi.dirs = append(wi.dirs, i)
		case "claim":
			wi.claims = append(wi.claims, i)
			if !seenA[it.Attr] {
				seenA[it.Attr] = true
				wi.attrs = append(wi.attrs, it.Attr)
			}
			if it.Ref > 0 {
				wi.refs[it.Attr] = append(wi.refs[it.Attr], it.Ref-1)
			} else if it.Val != "" && !has(wi.vals[it.Attr], it.Val) {
				wi.vals[it.Attr] = append(wi.vals[it.Attr], it.Val)
			}
			if !seenD[it.D] {
				seenD[it.D] = true
				wi.dates = append(wi.dates, it.D)
			}
		}
	}
	sort.Strings(wi.attrs)
	sort.Slice(wi.dates, func(a, b int) bool { return wi.dates[a] < wi.dates[b] })
	return wi
}
