package searchsim

import (
	"verif/simcore"
)

// Query generator: constraint trees of depth <= 4 over the fragment of
// pkg/search/query.go whose doc comments pin the meaning down. Everything is
// drawn from r. corpus tells whether the query will run on a handler with an
// in-memory corpus; without one the code documents (or silently has) no
// support for At, Time, Relation, SkipHidden, WholeRef, ParentDir, and no sort
// by time.

type qgen struct {
	r      *simcore.Rand
	wi     *winfo
	corpus bool
	// noAt: do not generate At / relation / time constraints (C09 keeps
	// permanode constraints simple for far-away dates)
	plainPN bool
}

const maxDepth = 4

func (g *qgen) pickS(l []string) string { return l[g.r.Intn(len(l))] }

func (g *qgen) anyItem() int { return g.wi.all[g.r.Intn(len(g.wi.all))] }

func (g *qgen) intc(cands []int64) *QInt {
	r := g.r
	c := int64(0)
	if len(cands) > 0 {
		c = cands[r.Intn(len(cands))]
	} else {
		c = int64(r.Intn(5))
	}
	c += int64(r.Intn(3)) - 1
	if c < 0 {
		c = 0
	}
	q := &QInt{}
	switch r.Intn(8) {
	case 0:
		q.Min = c
	case 1:
		q.Max = c
	case 2:
		q.Min = c
		q.Max = c + int64(r.Intn(40))
	case 3:
		q.Min, q.Max = c, c
	case 4:
		q.ZMin = true
		q.Max = c
	case 5:
		q.ZMax = true
	case 6:
		v := c
		q.Eq = &v
	case 7:
		q.Min = c
	}
	if q.Min == 0 && q.Max == 0 && !q.ZMin && !q.ZMax && q.Eq == nil {
		q.Max = c + 1
	}
	return q
}

// strc builds a string constraint around one of the candidate strings.
func (g *qgen) strc(cands []string) *QStr {
	r := g.r
	s := "zz"
	if len(cands) > 0 {
		s = cands[r.Intn(len(cands))]
	}
	ascii := true
	for i := 0; i < len(s); i++ {
		if s[i] >= 0x80 {
			ascii = false
		}
	}
	q := &QStr{}
	cut := func() (int, int) {
		if len(s) == 0 || !ascii {
			return 0, len(s)
		}
		a := r.Intn(len(s))
		b := a + 1 + r.Intn(len(s)-a)
		return a, b
	}
	switch r.Intn(9) {
	case 0:
		q.Eq = s
	case 1:
		a, b := cut()
		q.Contains = s[a:b]
	case 2:
		_, b := cut()
		q.Pre = s[:b]
	case 3:
		a, _ := cut()
		q.Suf = s[a:]
	case 4:
		q.Len = g.intc([]int64{int64(len(s))})
	case 5:
		q.Empty = true
	case 6:
		_, b := cut()
		q.Pre = s[:b]
		a, _ := cut()
		q.Suf = s[a:]
	case 7:
		q.Eq = s
		q.Len = &QInt{Min: int64(len(s))}
	case 8:
		a, b := cut()
		q.Contains = s[a:b]
		q.Len = g.intc([]int64{int64(len(s))})
	}
	if ascii && r.Bool(0.3) && !q.Empty {
		q.Fold = true
		flip := func(x string) string {
			b := []byte(x)
			for i := range b {
				if r.Bool(0.5) {
					switch {
					case b[i] >= 'a' && b[i] <= 'z':
						b[i] -= 32
					case b[i] >= 'A' && b[i] <= 'Z':
						b[i] += 32
					}
				}
			}
			return string(b)
		}
		q.Eq, q.Contains, q.Pre, q.Suf = flip(q.Eq), flip(q.Contains), flip(q.Pre), flip(q.Suf)
	}
	if q.Eq == "" && q.Contains == "" && q.Pre == "" && q.Suf == "" && q.Len == nil && !q.Empty {
		q.Len = &QInt{ZMin: true, Max: 3}
	}
	return q
}

func (g *qgen) timec() *QTime {
	r := g.r
	at := func() int64 {
		var ms int64
		if len(g.wi.dates) > 0 && r.Bool(0.8) {
			ms = g.wi.dates[r.Intn(len(g.wi.dates))]
		} else if len(g.wi.mts) > 0 && r.Bool(0.5) {
			ms = g.wi.mts[r.Intn(len(g.wi.mts))] * 1000
		} else {
			ms = int64(r.Intn(310000))
		}
		return ms*1e6 + int64(r.Intn(3)-1) // exactly at, or one nanosecond off
	}
	q := &QTime{}
	switch r.Intn(4) {
	case 0:
		q.HasB, q.B = true, at()
	case 1:
		q.HasA, q.A = true, at()
	case 2:
		q.HasA, q.A = true, at()
		q.HasB, q.B = true, q.A+int64(r.Intn(100000))*1e6
	case 3:
		// neither bound: any permanode that has a time
	}
	return q
}

func (g *qgen) pfx() *QPfx {
	r := g.r
	p := &QPfx{I: g.anyItem()}
	switch r.Intn(6) {
	case 0:
		p.N = 0 // whole ref: the single-blob source
	case 1:
		p.N = len("sha224-") + r.Range(1, 2)
	case 2:
		p.N = len("sha224-") + r.Range(3, 12)
	case 3:
		p.N = len("sha224-")
	case 4:
		p.Lit = "sha224-" + string("0123456789abcdef"[r.Intn(16)])
	case 5:
		p.I = -1 // a ref no blob has
	}
	return p
}

var camliTypes = []string{"permanode", "permanode", "claim", "file", "bytes", "static-set", "directory", "nosuchtype"}

func (g *qgen) constraint(depth int) *QC {
	r := g.r
	if depth < maxDepth && r.Bool([]float64{0, 0.55, 0.4, 0.3}[depth]) {
		q := &QC{Op: g.pickS([]string{"and", "and", "or", "or", "xor", "not"})}
		q.A = g.constraint(depth + 1)
		if q.Op != "not" {
			q.B = g.constraint(depth + 1)
		}
		return q
	}
	q := g.leaf(depth)
	if r.Bool(0.12) {
		// a second field: all non-zero fields must match
		o := g.leaf(depth)
		switch {
		case o.CT != "" && q.CT == "":
			q.CT = o.CT
		case o.Size != nil && q.Size == nil:
			q.Size = o.Size
		case o.Pfx != nil && q.Pfx == nil:
			q.Pfx = o.Pfx
		case o.AnyCT:
			q.AnyCT = true
		}
	}
	return q
}

func (g *qgen) leaf(depth int) *QC {
	r := g.r
	switch x := r.Intn(100); {
	case x < 3:
		return &QC{Any: true}
	case x < 12:
		return &QC{CT: g.pickS(camliTypes)}
	case x < 15:
		return &QC{AnyCT: true}
	case x < 22:
		return &QC{Pfx: g.pfx()}
	case x < 28:
		return &QC{Size: g.intc([]int64{10, 40, 200, 480, 700})}
	case x < 72:
		return &QC{PN: g.pn(depth)}
	case x < 87:
		return &QC{File: g.file(depth)}
	case x < 99:
		return &QC{Dir: g.dir(depth, 0)}
	}
	return &QC{} // the zero constraint matches nothing
}

func (g *qgen) attr() string {
	if len(g.wi.attrs) > 0 && g.r.Bool(0.9) {
		return g.pickS(g.wi.attrs)
	}
	return g.pickS([]string{"title", "tag", "nosuch", "camliMember"})
}

func (g *qgen) pn(depth int) *QPN {
	r := g.r
	p := &QPN{}
	if r.Bool(0.06) {
		return p // any permanode
	}
	if r.Bool(0.8) {
		p.Attr = g.attr()
		vals := g.wi.vals[p.Attr]
		refs := g.wi.refs[p.Attr]
		n := 0
		for n == 0 {
			if r.Bool(0.4) {
				n++
				switch {
				case len(refs) > 0 && r.Bool(0.8):
					p.ValRef = refs[r.Intn(len(refs))] + 1
				case len(vals) > 0:
					p.Val = g.pickS(vals)
				default:
					p.Val = "nothing"
				}
			}
			if r.Bool(0.3) {
				n++
				p.VM = g.strc(append(append([]string{}, vals...), "sha224-"))
			}
			if r.Bool(0.12) {
				n++
				p.VMI = g.intc([]int64{5, 7, 8, 40})
			}
			if r.Bool(0.25) {
				n++
				p.Num = &QInt{}
				switch r.Intn(5) {
				case 0:
					p.Num.Min = int64(r.Range(1, 3))
				case 1:
					p.Num.Max = int64(r.Range(1, 3))
				case 2:
					p.Num.Min = int64(r.Range(1, 2))
					p.Num.Max = p.Num.Min + int64(r.Intn(2))
				case 3:
					p.Num.ZMax = true
				case 4:
					v := int64(r.Range(0, 3))
					p.Num.Eq = &v
				}
			}
			if r.Bool(0.12) && depth < maxDepth {
				n++
				p.InSet = g.setConstraint(depth + 1)
			}
		}
		if p.Num != nil && p.Num.ZMax && (p.Val != "" || p.ValRef != 0 || p.VM != nil || p.VMI != nil || p.InSet != nil) {
			// "NumValue with ZeroMax makes no sense in conjunction with a
			// value-matching constraint" — rejected; keep the query valid
			p.Num = &QInt{Max: 2}
		}
		if r.Bool(0.2) {
			p.All = true
		}
	}
	if g.plainPN {
		if r.Bool(0.2) {
			p.ModTime = g.timec()
		}
		return p
	}
	if r.Bool(0.15) {
		p.ModTime = g.timec()
	}
	if g.corpus {
		if r.Bool(0.15) {
			p.HasAt = true
			if len(g.wi.dates) > 0 {
				p.At = g.wi.dates[r.Intn(len(g.wi.dates))]*1e6 + int64(r.Intn(3)-1)
			} else {
				p.At = int64(r.Intn(300000)) * 1e6
			}
		}
		if r.Bool(0.1) {
			p.Time = g.timec()
		}
		if r.Bool(0.12) {
			p.SkipHidden = true
		}
		if r.Bool(0.2) && depth < maxDepth {
			rel := &QRel{Rel: g.pickS([]string{"parent", "child"}), Edge: g.pickS([]string{"", "", "camliMember", "camliPath:foo"})}
			sub := g.setConstraint(depth + 1)
			if r.Bool(0.5) {
				rel.Any = sub
			} else {
				rel.All = sub
			}
			p.Rel = rel
		}
	}
	return p
}

// setConstraint: a sub-query for ValueInSet / Relation: mostly about the kind
// of blob such an attribute points to.
func (g *qgen) setConstraint(depth int) *QC {
	r := g.r
	switch r.Intn(6) {
	case 0:
		return &QC{File: g.file(depth)}
	case 1, 2:
		return &QC{PN: g.pn(depth)}
	case 3:
		return &QC{CT: g.pickS([]string{"permanode", "file"})}
	case 4:
		return &QC{Any: true}
	}
	return g.constraint(depth)
}

func (g *qgen) names(items []int) []string {
	var out []string
	for _, i := range items {
		out = append(out, g.wi.spec.Items[i].Name)
	}
	return out
}

func (g *qgen) file(depth int) *QFile {
	r := g.r
	f := &QFile{}
	if r.Bool(0.08) {
		return f // any file
	}
	n := 0
	for n == 0 {
		if r.Bool(0.4) {
			n++
			f.Name = g.strc(g.names(g.wi.files))
		}
		if r.Bool(0.3) {
			n++
			f.Size = g.intc(g.wi.sizes)
		}
		if r.Bool(0.2) {
			n++
			f.MIME = g.strc([]string{"text/plain", "text/plain", "image/png"})
		}
		if g.corpus && r.Bool(0.15) {
			n++
			if len(g.wi.files) > 0 && r.Bool(0.85) {
				f.Whole = g.wi.files[r.Intn(len(g.wi.files))] + 1
			} else {
				f.Whole = -1
			}
		}
		if g.corpus && r.Bool(0.15) && depth < maxDepth {
			n++
			f.Parent = g.dir(depth+1, 1)
		}
	}
	return f
}

// dir builds a directory constraint; nest bounds ParentDir/Contains nesting.
func (g *qgen) dir(depth, nest int) *QDir {
	r := g.r
	d := &QDir{}
	if r.Bool(0.1) {
		return d // any directory
	}
	n := 0
	for n == 0 {
		if r.Bool(0.35) {
			n++
			d.Name = g.strc(g.names(g.wi.dirs))
		}
		if r.Bool(0.12) && len(g.wi.dirs) > 0 {
			n++
			d.Pfx = &QPfx{I: g.wi.dirs[r.Intn(len(g.wi.dirs))], N: len("sha224-") + r.Range(1, 20)}
		}
		if r.Bool(0.3) {
			n++
			d.Count = g.intc([]int64{0, 1, 2, 3})
		}
		if r.Bool(0.35) && depth < maxDepth && nest < 2 {
			n++
			cc := g.contains(depth+1, nest+1)
			if r.Bool(0.5) {
				d.Contains = cc
			} else {
				d.RContains = cc
				// RecursiveContains is generated on its own: the recursion in
				// DirConstraint.blobMatches re-applies the whole constraint to
				// the sub-directories, whose documented meaning ("like
				// Contains, but applied to all the descendants") says nothing
				// about the other fields
				return &QDir{RContains: cc}
			}
		}
		if g.corpus && r.Bool(0.12) && nest < 2 {
			n++
			d.Parent = g.dir(depth, nest+1)
		}
	}
	return d
}

// contains: "Contains should have a BlobPrefix, or a *FileConstraint, or a
// *DirConstraint, or a *LogicalConstraint combination of the aforementioned."
func (g *qgen) contains(depth, nest int) *QC {
	r := g.r
	var fd func(d int) *QC
	fd = func(d int) *QC {
		if d < maxDepth && r.Bool(0.25) {
			q := &QC{Op: g.pickS([]string{"and", "or", "xor", "not"})}
			q.A = fd(d + 1)
			if q.Op != "not" {
				q.B = fd(d + 1)
			}
			return q
		}
		if r.Bool(0.7) || nest >= 2 {
			f := g.file(maxDepth) // no further nesting
			return &QC{File: f}
		}
		return &QC{Dir: g.dir(d, nest+1)}
	}
	if r.Bool(0.25) {
		c := append(append([]int{}, g.wi.files...), g.wi.dirs...)
		if len(c) == 0 {
			return &QC{Pfx: &QPfx{I: -1}}
		}
		p := &QPfx{I: c[r.Intn(len(c))]}
		if r.Bool(0.5) {
			p.N = len("sha224-") + r.Range(1, 10)
		}
		return &QC{Pfx: p}
	}
	return fd(depth)
}

// invalid builds a query the validity check documents as rejected.
func (g *qgen) invalid() *QC {
	r := g.r
	wrap := func(q *QC) *QC {
		switch r.Intn(3) {
		case 0:
			return q
		case 1:
			return &QC{Op: "and", A: &QC{CT: "permanode"}, B: q}
		}
		return &QC{Op: "not", A: q}
	}
	switch r.Intn(9) {
	case 0: // Attr without NumValue or a value-matching constraint
		return wrap(&QC{PN: &QPN{Attr: "tag"}})
	case 1: // NumValue with ZeroMin
		return wrap(&QC{PN: &QPN{Attr: "tag", Num: &QInt{ZMin: true, Max: 2}}})
	case 2: // NumValue ZeroMax with a value constraint
		return wrap(&QC{PN: &QPN{Attr: "tag", Val: "red", Num: &QInt{ZMax: true}}})
	case 3: // min > max
		return wrap(&QC{Size: &QInt{Min: 10, Max: 5}})
	case 4: // ZeroMin and Min
		return wrap(&QC{Size: &QInt{ZMin: true, Min: 3}})
	case 5: // Contains and RecursiveContains
		c := &QC{File: &QFile{}}
		return wrap(&QC{Dir: &QDir{Contains: c, RContains: c}})
	case 6: // relation without Any/All, or an unsupported relation
		if r.Bool(0.5) {
			return wrap(&QC{PN: &QPN{Rel: &QRel{Rel: "child"}}})
		}
		return wrap(&QC{PN: &QPN{Rel: &QRel{Rel: "ancestor", Any: &QC{Any: true}}}})
	case 7: // unknown logical operation
		return &QC{Op: "nand", A: &QC{Any: true}, B: &QC{Any: true}}
	}
	// binary operation without B
	return &QC{Op: g.pickS([]string{"and", "or", "xor"}), A: &QC{Any: true}}
}

var limits = []int{-1, -1, 0, 1, 2, 3, 200}

// query draws a whole request.
func (g *qgen) query() *Query {
	r := g.r
	if r.Bool(0.03) {
		return &Query{C: g.invalid(), Sort: "unsorted", Limit: -1, Invalid: true}
	}
	q := &Query{C: g.constraint(1), Limit: limits[r.Intn(len(limits))]}
	if r.Bool(0.015) {
		// a logical node that also sets other fields ("all other fields are
		// ignored"); kept to sorts that do not depend on the planner's view
		// of the query
		sib := g.leaf(1)
		l := &QC{Op: g.pickS([]string{"and", "or", "not"}), A: g.constraint(2)}
		if l.Op != "not" {
			l.B = g.constraint(2)
		}
		sib.Op, sib.A, sib.B = l.Op, l.A, l.B
		q.C = sib
		q.Sort = g.pickS([]string{"unsorted", "blobref"})
		return q
	}
	if !g.corpus {
		// no sort by time without a corpus: "Sorting without a corpus
		// unsupported"; an unspecified sort defaults to creation time "when
		// the query is about permanodes only"
		switch {
		case r.Bool(0.06):
			q.Sort = g.pickS([]string{"-created", "created", "-mod", "mod"})
		case !q.C.mentionsPermanode() && r.Bool(0.3):
			q.Sort = ""
		default:
			q.Sort = g.pickS([]string{"unsorted", "blobref", "blobref"})
		}
		if q.C.usesDirChildren() && q.Limit > 0 && q.Limit < 200 && r.Bool(0.7) {
			// without a corpus the children of a directory are read through
			// GetDirMembers(…, limit = the query's Limit): see the report
			q.Limit = -1
		}
		return q
	}
	if q.C.aboutPermanodesOnly() {
		q.Sort = g.pickS([]string{"", "-created", "-created", "-mod", "-mod", "created", "blobref", "blobref", "unsorted", "mod"})
	} else {
		q.Sort = g.pickS([]string{"", "", "", "unsorted", "unsorted", "blobref", "blobref", "blobref", "blobref", "blobref", "-created", "created"})
		if r.Bool(0.03) {
			q.Sort = "-mod"
		}
	}
	return q
}
