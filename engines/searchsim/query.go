package searchsim

import (
	"fmt"
	"strings"
	"time"

	"go4.org/types"
	"perkeep.org/pkg/blob"
	"perkeep.org/pkg/schema"
	"perkeep.org/pkg/search"

	"verif/engines/indexsim"
)

// ---------------------------------------------------------------------------
// Declarative query description carried in the plan. It refers to the world by
// item index (blob refs are known only after the world is materialised). Both
// the real search.SearchQuery and the reference evaluation are derived from it.

// QC is a constraint node. Op != "" makes it a logical node; the leaf fields
// may be set next to Op ("siblings": documented as ignored).
type QC struct {
	Op string `json:"op,omitempty"` // and | or | xor | not (anything else: invalid on purpose)
	A  *QC    `json:"a,omitempty"`
	B  *QC    `json:"b,omitempty"`

	Any   bool   `json:"any,omitempty"`   // Anything
	CT    string `json:"ct,omitempty"`    // CamliType
	AnyCT bool   `json:"anyCT,omitempty"` // AnyCamliType
	Pfx   *QPfx  `json:"pfx,omitempty"`   // BlobRefPrefix
	Size  *QInt  `json:"size,omitempty"`  // BlobSize
	PN    *QPN   `json:"pn,omitempty"`
	File  *QFile `json:"file,omitempty"`
	Dir   *QDir  `json:"dir,omitempty"`
}

// QPfx is a blobref prefix: the first N characters of item I's ref (N = 0:
// the whole ref), or the literal Lit.
type QPfx struct {
	I   int    `json:"i"`
	N   int    `json:"n,omitempty"`
	Lit string `json:"lit,omitempty"`
}

type QInt struct {
	Min  int64  `json:"min,omitempty"`
	Max  int64  `json:"max,omitempty"`
	ZMin bool   `json:"zmin,omitempty"`
	ZMax bool   `json:"zmax,omitempty"`
	Eq   *int64 `json:"eq,omitempty"`
}

type QStr struct {
	Empty    bool   `json:"empty,omitempty"`
	Eq       string `json:"eq,omitempty"`
	Contains string `json:"contains,omitempty"`
	Pre      string `json:"pre,omitempty"`
	Suf      string `json:"suf,omitempty"`
	Len      *QInt  `json:"len,omitempty"`
	Fold     bool   `json:"fold,omitempty"`
}

// QTime: instants in nanoseconds after indexsim.BaseDate().
type QTime struct {
	HasB bool  `json:"hasB,omitempty"`
	B    int64 `json:"b,omitempty"` // before (exclusive)
	HasA bool  `json:"hasA,omitempty"`
	A    int64 `json:"a,omitempty"` // after (inclusive)
}

type QPN struct {
	Attr string `json:"attr,omitempty"`
	Val  string `json:"val,omitempty"`
	// ValRef > 0: Value is the blobref of item ValRef-1
	ValRef     int    `json:"valRef,omitempty"`
	VM         *QStr  `json:"vm,omitempty"`
	VMI        *QInt  `json:"vmi,omitempty"`
	Num        *QInt  `json:"num,omitempty"`
	All        bool   `json:"all,omitempty"`
	InSet      *QC    `json:"inSet,omitempty"`
	HasAt      bool   `json:"hasAt,omitempty"`
	At         int64  `json:"at,omitempty"` // ns after base
	ModTime    *QTime `json:"modTime,omitempty"`
	Time       *QTime `json:"time,omitempty"`
	Rel        *QRel  `json:"rel,omitempty"`
	SkipHidden bool   `json:"skipHidden,omitempty"`
}

type QRel struct {
	Rel  string `json:"rel"`
	Edge string `json:"edge,omitempty"`
	Any  *QC    `json:"any,omitempty"`
	All  *QC    `json:"all,omitempty"`
}

type QFile struct {
	Name *QStr `json:"name,omitempty"`
	Size *QInt `json:"size,omitempty"`
	MIME *QStr `json:"mime,omitempty"`
	// Whole > 0: the whole-file digest of file item Whole-1; -1: a digest no
	// file has
	Whole  int   `json:"whole,omitempty"`
	Parent *QDir `json:"parent,omitempty"`
}

type QDir struct {
	Name      *QStr `json:"name,omitempty"`
	Pfx       *QPfx `json:"pfx,omitempty"`
	Count     *QInt `json:"count,omitempty"`
	Contains  *QC   `json:"contains,omitempty"`
	RContains *QC   `json:"rcontains,omitempty"`
	Parent    *QDir `json:"parent,omitempty"`
}

// Query is one search request.
type Query struct {
	C     *QC    `json:"c"`
	Sort  string `json:"sort,omitempty"` // "" | unsorted | -mod | mod | -created | created | blobref
	Limit int    `json:"limit,omitempty"`
	// Invalid marks a query built to be rejected by the validity check.
	Invalid bool `json:"invalid,omitempty"`
	// DiffOnly: the answer is not compared with the reference evaluation (the
	// index holds filler blobs the world description does not list); only
	// the HTTP entry point is compared with the direct call.
	DiffOnly bool `json:"diffOnly,omitempty"`
}

var sortTypes = map[string]search.SortType{
	"":         search.UnspecifiedSort,
	"unsorted": search.Unsorted,
	"-mod":     search.LastModifiedDesc,
	"mod":      search.LastModifiedAsc,
	"-created": search.CreatedDesc,
	"created":  search.CreatedAsc,
	"blobref":  search.BlobRefAsc,
}

func nsTime(ns int64) time.Time {
	// split to avoid overflowing time.Duration for far-away instants
	const day = int64(24 * time.Hour)
	return indexsim.BaseDate().AddDate(0, 0, int(ns/day)).Add(time.Duration(ns % day))
}

// absentRef is a well-formed ref no blob of any world has.
var absentRef = blob.RefFromString("searchsim: a blob that is never delivered")

// builder turns the description into perkeep's query types.
type builder struct {
	w *indexsim.World
}

func (b *builder) ref(i int) string {
	bl := b.w.Blobs()
	if i < 0 || i >= len(bl) {
		return absentRef.String()
	}
	return bl[i].RefS
}

func (b *builder) pfx(p *QPfx) string {
	if p == nil {
		return ""
	}
	if p.Lit != "" {
		return p.Lit
	}
	s := b.ref(p.I)
	if p.N > 0 && p.N < len(s) {
		return s[:p.N]
	}
	return s
}

func (b *builder) intc(q *QInt) *search.IntConstraint {
	if q == nil {
		return nil
	}
	ic := &search.IntConstraint{Min: q.Min, Max: q.Max, ZeroMin: q.ZMin, ZeroMax: q.ZMax}
	if q.Eq != nil {
		v := *q.Eq
		ic.Equals = &v
	}
	return ic
}

func (b *builder) strc(q *QStr) *search.StringConstraint {
	if q == nil {
		return nil
	}
	return &search.StringConstraint{
		Empty: q.Empty, Equals: q.Eq, Contains: q.Contains, HasPrefix: q.Pre, HasSuffix: q.Suf,
		ByteLength: b.intc(q.Len), CaseInsensitive: q.Fold,
	}
}

func (b *builder) timec(q *QTime) *search.TimeConstraint {
	if q == nil {
		return nil
	}
	tc := &search.TimeConstraint{}
	if q.HasB {
		tc.Before = types.Time3339(nsTime(q.B))
	}
	if q.HasA {
		tc.After = types.Time3339(nsTime(q.A))
	}
	return tc
}

func (b *builder) dir(q *QDir) *search.DirConstraint {
	if q == nil {
		return nil
	}
	return &search.DirConstraint{
		FileName: b.strc(q.Name), BlobRefPrefix: b.pfx(q.Pfx), TopFileCount: b.intc(q.Count),
		Contains: b.constraint(q.Contains), RecursiveContains: b.constraint(q.RContains),
		ParentDir: b.dir(q.Parent),
	}
}

func (b *builder) constraint(q *QC) *search.Constraint {
	if q == nil {
		return nil
	}
	c := &search.Constraint{
		Anything: q.Any, CamliType: schema.CamliType(q.CT), AnyCamliType: q.AnyCT,
		BlobRefPrefix: b.pfx(q.Pfx), BlobSize: b.intc(q.Size),
	}
	if q.Op != "" {
		c.Logical = &search.LogicalConstraint{Op: q.Op, A: b.constraint(q.A), B: b.constraint(q.B)}
	}
	if p := q.PN; p != nil {
		pc := &search.PermanodeConstraint{
			Attr: p.Attr, Value: p.Val, ValueMatches: b.strc(p.VM), ValueMatchesInt: b.intc(p.VMI),
			NumValue: b.intc(p.Num), ValueAll: p.All, ValueInSet: b.constraint(p.InSet),
			ModTime: b.timec(p.ModTime), Time: b.timec(p.Time), SkipHidden: p.SkipHidden,
		}
		if p.ValRef != 0 {
			pc.Value = b.ref(p.ValRef - 1)
		}
		if p.HasAt {
			pc.At = nsTime(p.At)
		}
		if r := p.Rel; r != nil {
			pc.Relation = &search.RelationConstraint{Relation: r.Rel, EdgeType: r.Edge, Any: b.constraint(r.Any), All: b.constraint(r.All)}
		}
		c.Permanode = pc
	}
	if f := q.File; f != nil {
		fc := &search.FileConstraint{
			FileName: b.strc(f.Name), FileSize: b.intc(f.Size), MIMEType: b.strc(f.MIME), ParentDir: b.dir(f.Parent),
		}
		switch {
		case f.Whole > 0:
			fc.WholeRef = wholeRefOf(b.w, f.Whole-1)
		case f.Whole < 0:
			fc.WholeRef = absentRef
		}
		c.File = fc
	}
	c.Dir = b.dir(q.Dir)
	return c
}

func (b *builder) query(q *Query) *search.SearchQuery {
	return &search.SearchQuery{Constraint: b.constraint(q.C), Sort: sortTypes[q.Sort], Limit: q.Limit}
}

// fileContent concatenates the bytes of a file or bytes item, as bytes.md
// defines them.
func fileContent(w *indexsim.World, i int) []byte {
	it := w.Spec().Items[i]
	switch it.K {
	case "blob":
		return w.Blobs()[i].Data
	case "bytes", "file":
		var out []byte
		for _, p := range it.Parts {
			out = append(out, fileContent(w, p)...)
		}
		return out
	}
	return nil
}

// wholeRefOf is the digest of the whole content of file item i.
func wholeRefOf(w *indexsim.World, i int) blob.Ref {
	if i < 0 || i >= len(w.Blobs()) {
		return absentRef
	}
	return blob.RefFromBytes(fileContent(w, i))
}

// ---------------------------------------------------------------------------
// rendering and static properties of a description

func (q *QC) walk(f func(*QC)) {
	if q == nil {
		return
	}
	f(q)
	q.A.walk(f)
	q.B.walk(f)
	if p := q.PN; p != nil {
		p.InSet.walk(f)
		if p.Rel != nil {
			p.Rel.Any.walk(f)
			p.Rel.All.walk(f)
		}
	}
	if q.File != nil {
		q.File.Parent.walk(f)
	}
	q.Dir.walk(f)
}

func (d *QDir) walk(f func(*QC)) {
	if d == nil {
		return
	}
	d.Contains.walk(f)
	d.RContains.walk(f)
	d.Parent.walk(f)
}

func (q *QC) depth() int {
	if q == nil {
		return 0
	}
	d := 0
	for _, c := range []*QC{q.A, q.B} {
		if x := c.depth(); x > d {
			d = x
		}
	}
	if p := q.PN; p != nil {
		if x := p.InSet.depth(); x > d {
			d = x
		}
		if p.Rel != nil {
			if x := p.Rel.Any.depth(); x > d {
				d = x
			}
			if x := p.Rel.All.depth(); x > d {
				d = x
			}
		}
	}
	return d + 1
}

// hasLeafFields reports whether any non-logical field is set.
func (q *QC) hasLeafFields() bool {
	return q.Any || q.CT != "" || q.AnyCT || q.Pfx != nil || q.Size != nil || q.PN != nil || q.File != nil || q.Dir != nil
}

// needsCorpus reports whether the description uses something the code
// documents as requiring (or silently depending on) an in-memory corpus:
// At, Time, Relation, SkipHidden, WholeRef, ParentDir.
func (q *QC) needsCorpus() bool {
	need := false
	q.walk(func(c *QC) {
		if p := c.PN; p != nil && (p.HasAt || p.Time != nil || p.Rel != nil || p.SkipHidden) {
			need = true
		}
		if f := c.File; f != nil && (f.Whole != 0 || f.Parent != nil) {
			need = true
		}
		var dw func(d *QDir)
		dw = func(d *QDir) {
			if d == nil {
				return
			}
			if d.Parent != nil {
				need = true
			}
		}
		dw(c.Dir)
		if c.File != nil {
			dw(c.File.Parent)
		}
	})
	return need
}

// usesDirChildren reports whether a directory's children are inspected.
func (q *QC) usesDirChildren() bool {
	use := false
	var dw func(d *QDir)
	dw = func(d *QDir) {
		if d == nil {
			return
		}
		if d.Count != nil || d.Contains != nil || d.RContains != nil {
			use = true
		}
		dw(d.Parent)
	}
	q.walk(func(c *QC) {
		dw(c.Dir)
		if c.File != nil {
			dw(c.File.Parent)
		}
	})
	return use
}

// hasSiblings reports whether some logical node also sets leaf fields.
func (q *QC) hasSiblings() bool {
	s := false
	q.walk(func(c *QC) {
		if c.Op != "" && c.hasLeafFields() {
			s = true
		}
	})
	return s
}

// mentionsPermanode reports whether a permanode constraint or the permanode
// camliType occurs anywhere (then "the query is about permanodes only" may
// hold and an unspecified sort may default to creation time).
func (q *QC) mentionsPermanode() bool {
	m := false
	q.walk(func(c *QC) {
		if c.PN != nil || c.CT == "permanode" {
			m = true
		}
	})
	return m
}

// aboutPermanodesOnly is the documented condition under which results can be
// ordered by permanode times (query.go: "can only sort by ctime when all
// results are permanodes"; the comment in onlyMatchesPermanode names what is
// recognised: a permanode constraint, camliType permanode, or an "and" with
// such a branch — "or" of two permanode constraints is a listed TODO).
func (q *QC) aboutPermanodesOnly() bool {
	if q == nil {
		return false
	}
	if q.PN != nil || q.CT == "permanode" {
		return true
	}
	if q.Op == "and" {
		return q.A.aboutPermanodesOnly() || q.B.aboutPermanodesOnly()
	}
	return false
}

func (q *QC) shape() string {
	if q == nil {
		return "-"
	}
	var sb strings.Builder
	if q.Op != "" {
		fmt.Fprintf(&sb, "%s(%s,%s)", q.Op, q.A.shape(), q.B.shape())
	}
	if q.Any {
		sb.WriteString("*")
	}
	if q.CT != "" {
		sb.WriteString("t")
	}
	if q.AnyCT {
		sb.WriteString("T")
	}
	if q.Pfx != nil {
		sb.WriteString("x")
	}
	if q.Size != nil {
		sb.WriteString("s")
	}
	if p := q.PN; p != nil {
		sb.WriteString("P")
		if p.Rel != nil {
			sb.WriteString("r")
		}
		if p.InSet != nil {
			sb.WriteString("i")
		}
	}
	if q.File != nil {
		sb.WriteString("F")
	}
	if q.Dir != nil {
		sb.WriteString("D")
	}
	if sb.Len() == 0 {
		return "0"
	}
	return sb.String()
}
