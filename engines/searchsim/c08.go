package searchsim

import (
	"encoding/json"
	"fmt"
	"sort"
	"strings"
	"time"

	"perkeep.org/pkg/search"

	"verif/engines/indexsim"
	"verif/harness"
	"verif/simcore"
)

// C08 — a search returns exactly the matching blobs, however it is planned.
//
// A run is an index history: deliveries by concurrent clients (also out of
// dependency order), restarts, the point where the corpus is loaded, and
// queries issued as read operations at quiescence in between. Each answer is
// compared with the reference evaluation (eval.go) over the blobs that the
// dependency model says are fully indexed at that instant.

func genC08(tier string, run int, r *simcore.Rand) *harness.Plan {
	spec := genWorld08(r)
	cfg := Config{World: *spec, Mode: []string{"incr", "incr", "scan", "scan", "rows"}[r.Intn(5)]}
	n := len(spec.Items)
	// arrival order
	w0 := &struct{ order []int }{}
	canon := canonicalOrder(spec)
	switch x := r.Intn(100); {
	case x < 35:
		w0.order = canon
	case x < 70:
		// dependencies first, with a number of random transpositions
		w0.order = append([]int{}, canon...)
		for k := r.Range(1, n); k > 0; k-- {
			a, b := r.Intn(n), r.Intn(n)
			w0.order[a], w0.order[b] = w0.order[b], w0.order[a]
		}
	case x < 90:
		// key first, everything else permuted
		w0.order = []int{0}
		for _, i := range r.Perm(n) {
			if i != 0 {
				w0.order = append(w0.order, i)
			}
		}
	default:
		w0.order = r.Perm(n)
	}
	nclients := 1
	if r.Bool(0.5) {
		nclients = r.Range(2, 3)
	}
	var ops []Op
	for _, i := range w0.order {
		ops = append(ops, Op{K: "deliver", I: i, C: 1 + r.Intn(nclients)})
		if r.Bool(0.03) {
			ops = append(ops, Op{K: "deliver", I: i, C: 1 + r.Intn(nclients)}) // the same blob again
		}
	}
	if r.Bool(0.1) && len(ops) > 4 {
		// a blob that never arrives
		k := 1 + r.Intn(len(ops)-1)
		ops = append(ops[:k], ops[k+1:]...)
	}
	insert := func(op Op, lo int) int {
		at := lo
		if len(ops) > lo {
			at = r.Range(lo, len(ops))
		}
		ops = append(ops[:at], append([]Op{op}, ops[at:]...)...)
		return at
	}
	corpusAt := -1
	if cfg.Mode == "scan" {
		if r.Bool(0.3) {
			corpusAt = insert(Op{K: "corpus"}, len(ops))
		} else {
			corpusAt = insert(Op{K: "corpus"}, 1)
		}
	}
	for k := []int{0, 0, 1, 1, 2}[r.Intn(5)]; k > 0; k-- {
		at := insert(Op{K: "restart"}, 2)
		if corpusAt >= at {
			corpusAt++
		}
	}
	// queries: bursts at seeded points of the history, most of them late
	wi := summarise(spec)
	nq := r.Range(6, 24)
	for nq > 0 {
		burst := r.Range(1, 4)
		if burst > nq {
			burst = nq
		}
		nq -= burst
		lo := 1
		if r.Bool(0.6) {
			lo = len(ops) / 2
		}
		at := lo
		if len(ops) > lo {
			at = r.Range(lo, len(ops))
		}
		// corpus state at that point of the history
		corpus := cfg.Mode == "incr"
		if cfg.Mode == "scan" {
			for j := 0; j < at && j < len(ops); j++ {
				if ops[j].K == "corpus" {
					corpus = true
				}
			}
		}
		g := &qgen{r: r, wi: wi, corpus: corpus}
		var qs []Op
		for k := 0; k < burst; k++ {
			q := g.query()
			if r.Bool(0.08) {
				q = g.recipe()
			}
			qs = append(qs, Op{K: "query", Q: q})
		}
		ops = append(ops[:at], append(qs, ops[at:]...)...)
	}
	// three runs in ten: the same time-sorted permanode query right before and
	// right after the arrival of a file (not a claim): a permanode whose
	// time comes from its content moves in the order although no claim
	// arrived, so a sorted list kept from the first query is stale
	if rq := simcore.NewRand(simcore.Mix(r.Uint64(), "bracket")); rq.Bool(0.3) {
		var cands []int
		for j, op := range ops {
			if j >= 2 && op.K == "deliver" && op.I < len(spec.Items) && spec.Items[op.I].K == "file" {
				cands = append(cands, j)
			}
		}
		if len(cands) > 0 {
			j := cands[rq.Intn(len(cands))]
			corpus := cfg.Mode == "incr"
			if cfg.Mode == "scan" {
				for k := 0; k < j; k++ {
					if ops[k].K == "corpus" {
						corpus = true
					}
				}
			}
			if corpus {
				mk := func() Op {
					return Op{K: "query", Q: &Query{C: &QC{PN: &QPN{}}, Sort: []string{"-created", "created", "-mod", ""}[rq.Intn(4)], Limit: -1}}
				}
				q1 := mk()
				q2 := q1
				if rq.Bool(0.3) {
					q2 = mk()
				}
				ops = append(ops[:j+1], append([]Op{q2}, ops[j+1:]...)...)
				ops = append(ops[:j], append([]Op{q1}, ops[j:]...)...)
			}
		}
	}
	// one run in 150: more matches than the search handler's page limit (1000):
	// a bulk delivery of opaque blobs, then a few queries that match them
	// all, asked through Handler.Query and through the HTTP entry point
	if rb := simcore.NewRand(simcore.Mix(r.Uint64(), "bulk")); rb.Intn(150) == 0 {
		ops = append(ops, Op{K: "bulk", N: rb.Range(1005, 1120), Seed: rb.Uint64()})
		for _, lim := range []int{-1, 0, 999, 1000, 1001, rb.Range(1002, 1100)} {
			ops = append(ops, Op{K: "query", Q: &Query{C: &QC{Size: &QInt{Min: 1}}, Sort: "blobref", Limit: lim, DiffOnly: true}})
		}
		ops = append(ops, Op{K: "query", Q: &Query{C: &QC{Any: true}, Sort: "unsorted", Limit: -1, DiffOnly: true}})
	}
	// directories with more than one parent: for each of their parents, the
	// directories (and files) whose parentDir is exactly that parent
	if cfg.Mode != "rows" {
		parents := map[int][]int{}
		var members func(ss int, f func(int))
		members = func(ss int, f func(int)) {
			it := spec.Items[ss]
			for _, m := range it.Mem {
				f(m)
			}
			for _, m := range it.Merge {
				members(m, f)
			}
		}
		for di, it := range spec.Items {
			if it.K == "dir" {
				members(it.Ent, func(m int) { parents[m] = append(parents[m], di) })
			}
		}
		for _, m := range wi.all {
			if len(parents[m]) < 2 {
				continue
			}
			for _, pd := range parents[m] {
				pc := &QDir{Pfx: &QPfx{I: pd}}
				c := &QC{Dir: &QDir{Parent: pc}}
				if spec.Items[m].K == "file" {
					c = &QC{File: &QFile{Parent: pc}}
				}
				for k := 0; k < 2; k++ {
					ops = append(ops, Op{K: "query", Q: &Query{C: c, Sort: []string{"unsorted", "blobref"}[k]}})
				}
			}
			break
		}
	}
	p := &harness.Plan{Mode: cfg.Mode, Config: harness.MustJSON(cfg), Bubble: true, Ops: opsJSON(ops)}
	p.LockYield = []int{0, 0, 100, 1000}[r.Intn(4)]
	p.Sticky = []int{0, 0, 500, 900}[r.Intn(4)]
	return p
}

// canonicalOrder: dependencies first (key, chunks, bytes, files, static sets,
// directories, permanodes, claims by date).
func canonicalOrder(spec *indexsim.WorldSpec) []int {
	rank := map[string]int{"key": 0, "blob": 1, "bytes": 2, "file": 3, "sset": 4, "dir": 5, "pn": 6, "claim": 7}
	out := make([]int, len(spec.Items))
	for i := range out {
		out[i] = i
	}
	sort.SliceStable(out, func(a, b int) bool {
		ia, ib := spec.Items[out[a]], spec.Items[out[b]]
		if rank[ia.K] != rank[ib.K] {
			return rank[ia.K] < rank[ib.K]
		}
		if ia.K == "claim" && ia.D != ib.D {
			return ia.D < ib.D
		}
		return out[a] < out[b]
	})
	return out
}

// recipe builds queries aimed at the planner's restricted candidate sources:
// a permanode-type source is only sound if every match has one of the types.
func (g *qgen) recipe() *Query {
	r := g.r
	typed := func() *QC { return &QC{PN: &QPN{Attr: "camliNodeType", Val: typeVals[r.Intn(len(typeVals))]}} }
	other := func() *QC {
		if r.Bool(0.7) {
			return &QC{PN: g.pn(3)}
		}
		return g.constraint(3)
	}
	var c *QC
	switch r.Intn(6) {
	case 0:
		c = typed()
	case 1:
		c = &QC{Op: "and", A: typed(), B: other()}
	case 2:
		c = &QC{Op: "and", A: &QC{CT: "permanode"}, B: &QC{Op: "or", A: typed(), B: other()}}
	case 3:
		c = &QC{Op: "and", A: &QC{PN: &QPN{}}, B: &QC{Op: "or", A: other(), B: typed()}}
	case 4:
		c = &QC{Op: "and", A: &QC{CT: "permanode"}, B: &QC{Op: "or", A: typed(), B: typed()}}
	case 5:
		c = &QC{Op: "and", A: &QC{PN: g.pn(3)}, B: &QC{Op: "not", A: typed()}}
	}
	q := &Query{C: c, Limit: limits[r.Intn(len(limits))]}
	if g.corpus {
		q.Sort = g.pickS([]string{"blobref", "blobref", "unsorted", "created", "-created", "-mod"})
	} else {
		q.Sort = g.pickS([]string{"blobref", "unsorted"})
	}
	return q
}

// ---------------------------------------------------------------------------

func (x *exec) runC08() *harness.Outcome {
	out := x.out
	if !x.start() {
		return out
	}
	defer x.flush()
	ndeliv, nq, compared := 0, 0, 0
	lastSorted := map[string]int{} // sort -> deliveries seen when a time-sorted query last ran on this index object
	firstDeliv, lastDeliv := -1, -1
	for i, op := range x.ops {
		if op.K == "deliver" {
			if firstDeliv < 0 {
				firstDeliv = i
			}
			lastDeliv = i
		}
	}
	i := 0
	for i < len(x.ops) && !x.stopped {
		op := x.ops[i]
		switch op.K {
		case "deliver":
			j := i
			for j < len(x.ops) && x.ops[j].K == "deliver" {
				j++
			}
			if !x.deliver(x.ops[i:j], i) {
				return out
			}
			ndeliv += j - i
			i = j
		case "bulk":
			x.reseed("bulk")
			if err := x.sess.Segment([]indexsim.Op{{K: "bulk", C: 1, N: op.N, Seed: op.Seed}}, i); err != nil {
				out.Inconclusive = "bulk delivery never finished: " + err.Error()
				return out
			}
			out.Reached["bulk-delivery"]++
			i++
		case "restart":
			if !x.restart() {
				return out
			}
			lastSorted = map[string]int{}
			i++
		case "corpus":
			if x.cfg.Mode == "scan" && !x.enableCorpus() {
				return out
			}
			i++
		case "query":
			j := i
			for j < len(x.ops) && x.ops[j].K == "query" {
				j++
			}
			if i > firstDeliv && i < lastDeliv {
				out.Reached["query-between-arrivals"]++
			}
			if x.restarted {
				out.Reached["query-after-restart"]++
			}
			if x.pending() {
				out.Reached["query-with-blobs-waiting"]++
			}
			n, c := x.queryBatch(i, j, ndeliv, lastSorted)
			nq += n
			compared += c
			i = j
		default:
			i++
		}
	}
	out.SubRuns = nq
	out.Reached["mode-"+strings.TrimSuffix(x.mode(), "+restart")]++
	var shapes []string
	for _, op := range x.ops {
		if op.K == "query" && op.Q != nil && len(shapes) < 3 {
			shapes = append(shapes, op.Q.C.shape()+"/"+op.Q.Sort)
		}
	}
	out.ShapeKey = fmt.Sprintf("%s|%s|%s", x.cfg.Mode, opKinds(x.w, x.ops), strings.Join(shapes, ","))
	out.Nontrivial = compared >= 1 && ndeliv >= 5
	hist := x.w.DescribeOps(nil)
	_ = hist
	out.Sample = map[string]any{"mode": x.cfg.Mode, "blobs": len(x.w.Blobs()), "ops": opKinds(x.w, x.ops), "query": x.sample}
	return out
}

// queryBatch runs the queries ops[i:j] as concurrent tasks (they are reads)
// and judges each answer. It returns the number of queries run and compared.
func (x *exec) queryBatch(i, j, ndeliv int, lastSorted map[string]int) (nq, compared int) {
	b := &builder{w: x.w}
	type job struct {
		op  int
		q   *Query
		sq  *search.SearchQuery
		ans answer
	}
	var jobs []*job
	for k := i; k < j; k++ {
		q := x.ops[k].Q
		if q == nil || q.C == nil {
			continue
		}
		if !x.corpusOn() && q.C.needsCorpus() {
			// only reachable in shrunk plans (the generator knows the mode):
			// without a corpus the code panics on At/Time
			x.out.Reached["query-skipped-needs-corpus"]++
			continue
		}
		jobs = append(jobs, &job{op: k, q: q, sq: b.query(q)})
	}
	if len(jobs) == 0 {
		return 0, 0
	}
	var names []string
	var fs []func()
	for n, jb := range jobs {
		names = append(names, fmt.Sprintf("q%02d", n))
		fs = append(fs, func() { jb.ans = x.ask(jb.sq) })
	}
	x.reseed("query")
	if err := x.sess.Tasks(names, fs); err != nil {
		x.out.Inconclusive = "queries never finished: " + err.Error()
		x.stopped = true
		return 0, 0
	}
	v := x.curView()
	for _, jb := range jobs {
		nq++
		if jb.ans.source != "" {
			x.out.Reached["src:"+jb.ans.source]++
		}
		if es := effSort(jb.q, x.corpusOn()); (es == "-mod" || es == "-created") && jb.ans.err == nil {
			if at, ok := lastSorted[es]; ok {
				if at == ndeliv {
					x.out.Reached["sorted-cache-reused"]++
				} else {
					x.out.Reached["sorted-cache-invalidated"]++
				}
			}
			lastSorted[es] = ndeliv
		}
		if jb.q.DiffOnly {
			compared++
		} else if x.judge(v, jb.q, jb.sq, &jb.ans, jb.op) {
			compared++
		}
		if x.stopped {
			break
		}
	}
	// the HTTP entry point against the direct call, at the same quiescent state
	for _, jb := range jobs {
		if x.stopped || jb.ans.panicv != nil || (!jb.q.DiffOnly && jb.op%3 != 0) {
			continue
		}
		var h answer
		sq := b.query(jb.q)
		x.reseed("query-http")
		if err := x.sess.Task("qh", func() { h = x.askHTTP(sq) }); err != nil {
			x.out.Inconclusive = "HTTP query never finished: " + err.Error()
			x.stopped = true
			break
		}
		x.out.Reached["http-entry-compared"]++
		if len(jb.ans.refs) > 1000 {
			x.out.Reached["http-entry-compared:over-1000-results"]++
		}
		// (blobs that compare equal under the sort may come in either order,
		// and which of them a limit cuts off is open: counts, presence of a
		// continue token and - for results not cut by the limit - the sets
		// are compared)
		same := (h.err == nil) == (jb.ans.err == nil) && (h.cont == "") == (jb.ans.cont == "") && len(h.refs) == len(jb.ans.refs)
		cut := jb.q.Limit > 0 && len(jb.ans.refs) >= jb.q.Limit
		if same && h.err == nil && !cut {
			got := map[string]bool{}
			for _, r := range h.refs {
				got[r] = true
			}
			for _, r := range jb.ans.refs {
				if !got[r] {
					same = false
				}
			}
		}
		if !same {
			q, _ := json.Marshal(jb.sq)
			x.report("http-differs-from-direct", "", x.mode(), fmt.Sprintf("the same query at the same state: Handler.Query returns %d results (continue %q, error %v), POST camli/search/query returns %d (continue %q, error %v); query %s", len(jb.ans.refs), jb.ans.cont, jb.ans.err, len(h.refs), h.cont, h.err, clipStr(string(q), 300)), jb.op)
		}
	}
	return nq, compared
}

// effSort is the order the documents promise for the query: the requested
// one, and creation time descending when none is requested and "the query is
// about permanodes only" (SearchQuery.Sort).
func effSort(q *Query, corpus bool) string {
	if q.Sort == "" && q.C.aboutPermanodesOnly() {
		return "-created"
	}
	return q.Sort
}

// expectError: combinations the code documents as unsupported.
func expectError(q *Query, corpus bool) string {
	if q.Invalid {
		return "rejected by the validity check"
	}
	es := effSort(q, corpus)
	switch es {
	case "-created", "created", "-mod", "mod":
		if !corpus {
			return "sorting by time without a corpus is unsupported"
		}
		if es == "mod" {
			return "sorting by ascending modification time is a TODO"
		}
		if !q.C.aboutPermanodesOnly() {
			return "can only sort by time when all results are permanodes"
		}
	}
	return ""
}

// judge compares one answer with the reference evaluation. It returns whether
// the result was compared.
func (x *exec) judge(v *view, q *Query, sq *search.SearchQuery, a *answer, opIdx int) bool {
	corpus := x.corpusOn()
	es := effSort(q, corpus)
	where := fmt.Sprintf("%s/%s/%s", sortLabel(q.Sort), a.source, x.mode())
	ctx := func() string {
		return fmt.Sprintf("query %s [history up to the query: %s]", queryJSON(sq), x.history(opIdx))
	}
	if a.panicv != nil {
		x.report("query-panic", "", where, fmt.Sprintf("Query panicked: %v; %s", a.panicv, ctx()), opIdx)
		return false
	}
	if why := expectError(q, corpus); why != "" {
		x.out.Reached["expected-error"]++
		if a.err == nil {
			x.report("unsupported-not-rejected", "", where, fmt.Sprintf("%s, yet Query returned %d results without an error; %s", why, len(a.refs), ctx()), opIdx)
		}
		return false
	}
	ex := v.evaluate(q.C)
	timeOf := func(ref string) (time.Time, bool) {
		switch es {
		case "-mod":
			return v.modtime(ref)
		case "-created", "created":
			return v.created(ref)
		}
		return time.Time{}, false
	}
	untimed := func(set map[string]bool) bool {
		for r := range set {
			if _, ok := timeOf(r); !ok {
				return true
			}
		}
		return false
	}
	if a.err != nil {
		cause := ""
		switch {
		case ex.dangling && strings.Contains(a.err.Error(), "file does not exist"):
			cause = "relation-to-unknown-blob"
		case es == "created" && untimed(ex.set) && strings.Contains(a.err.Error(), "no ctime or modtime"):
			cause = "untimed-permanode"
		}
		x.report("query-error", cause, where, fmt.Sprintf("Query failed: %v; the reference evaluation gives %d matches; %s", a.err, len(ex.set), ctx()), opIdx)
		return false
	}
	if x.sample == nil && len(ex.set) > 0 {
		x.sample = map[string]any{"json": queryJSON(sq), "matches": len(ex.set), "source": a.source}
	}
	if len(ex.set) > 0 {
		x.out.Reached["nonempty-result"]++
	}
	if q.C.hasSiblings() {
		x.out.Reached["logical-with-siblings"]++
	}
	// duplicates
	seen := map[string]bool{}
	var uniq []string
	for _, r := range a.refs {
		if seen[r] {
			cause := ""
			if a.source == "corpus_permanode_types" {
				// the node-type source lists a permanode once per type value
				// named in the query that it ever had
				n := 0
				q.C.walk(func(c *QC) {
					if c.PN != nil && c.PN.Attr == "camliNodeType" && c.PN.Val != "" && v.everHadType(r, []string{c.PN.Val}) {
						n++
					}
				})
				if n >= 2 {
					cause = "node-type-listed-twice"
				}
			}
			// a result with duplicates is not compared any further (under a
			// limit the duplicates have displaced other results)
			x.report("duplicate-result", cause, where, fmt.Sprintf("%s returned twice; %s", x.describeRefs(v, []string{r}), ctx()), opIdx)
			return true
		}
		seen[r] = true
		uniq = append(uniq, r)
	}
	a.refs = uniq
	limit := q.Limit
	if limit == 0 {
		limit = 200 // "If unspecified, a default (of 200) will be used."
	}
	// compare against the documented reading first, then against the readings
	// that correspond to recorded findings (the cause names the reading)
	type reading struct {
		cause string
		set   map[string]bool
	}
	dropUntimed := func(s map[string]bool) map[string]bool {
		o := map[string]bool{}
		for r := range s {
			if _, ok := timeOf(r); ok {
				o[r] = true
			}
		}
		return o
	}
	readings := []reading{{"", ex.set}}
	descTime := es == "-mod" || es == "-created"
	if descTime && untimed(ex.set) {
		x.out.Reached["untimed-permanode-matches"]++
		readings = append(readings, reading{"untimed-permanode", dropUntimed(ex.set)})
	}
	if q.C.hasSiblings() {
		readings = append(readings, reading{"logical-siblings", ex.alt})
		if descTime && untimed(ex.alt) {
			readings = append(readings, reading{"logical-siblings+untimed-permanode", dropUntimed(ex.alt)})
		}
	}
	if !corpus && q.Limit > 0 && q.C.usesDirChildren() {
		// without a corpus a directory's children are read with
		// GetDirMembers(..., limit = the QUERY's Limit)
		v.childLimit = q.Limit
		cut := v.evaluate(q.C)
		v.childLimit = 0
		readings = append(readings, reading{"dir-children-cut-at-limit", cut.set})
		if q.C.hasSiblings() {
			readings = append(readings, reading{"logical-siblings+dir-children-cut-at-limit", cut.alt})
		}
	}
	if a.source == "corpus_permanode_types" {
		// the planner enumerated only permanodes that (ever) had one of the
		// camliNodeType values named in the query: sound only if every match
		// has one. The readings "matches restricted to such permanodes" name
		// the recorded planner finding.
		var typed []string
		q.C.walk(func(c *QC) {
			if c.PN != nil && c.PN.Attr == "camliNodeType" && c.PN.Val != "" && !has(typed, c.PN.Val) {
				typed = append(typed, c.PN.Val)
			}
		})
		sort.Strings(typed)
		for mask := (1 << len(typed)) - 1; mask >= 1 && len(typed) <= 4; mask-- {
			var sub []string
			for k, t := range typed {
				if mask&(1<<k) != 0 {
					sub = append(sub, t)
				}
			}
			restricted := map[string]bool{}
			for r := range ex.set {
				if v.everHadType(r, sub) {
					restricted[r] = true
				}
			}
			readings = append(readings, reading{"typed-candidates-only", restricted})
		}
	}
	var first *finding
	for _, rd := range readings {
		f := x.compare(v, rd.set, a.refs, es, limit, timeOf)
		if f == nil {
			if rd.cause == "" {
				if limit > 0 && len(rd.set) > limit {
					x.out.Reached["limit-truncated"]++
				}
				return true
			}
			// the answer is right under a reading other than the documented one
			x.report(first.class, rd.cause, where, first.detail+"; "+ctx(), opIdx)
			return true
		}
		if first == nil {
			first = f
		}
	}
	x.report(first.class, "", where, first.detail+"; "+ctx(), opIdx)
	return true
}

func sortLabel(s string) string {
	if s == "" {
		return "unspecified"
	}
	return s
}

type finding struct{ class, detail string }

// compare checks a duplicate-free answer against an expected match set: set
// equality (or, under a limit, a legal prefix) and order.
func (x *exec) compare(v *view, want map[string]bool, got []string, es string, limit int, timeOf func(string) (time.Time, bool)) *finding {
	gotSet := map[string]bool{}
	var extra []string
	for _, r := range got {
		gotSet[r] = true
		if !want[r] {
			extra = append(extra, r)
		}
	}
	if len(extra) > 0 {
		sort.Strings(extra)
		return &finding{"extra-result", fmt.Sprintf("%d returned blobs do not satisfy the constraint: %s (reference: %d matches, returned: %d)", len(extra), x.describeRefs(v, extra), len(want), len(got))}
	}
	var missing []string
	for _, r := range sortedSet(want) {
		if !gotSet[r] {
			missing = append(missing, r)
		}
	}
	truncated := limit > 0 && len(want) > limit
	if !truncated && len(missing) > 0 {
		return &finding{"missing-result", fmt.Sprintf("%d matching blobs are not returned: %s (reference: %d matches, returned: %d)", len(missing), x.describeRefs(v, missing), len(want), len(got))}
	}
	if truncated && len(got) != limit {
		return &finding{"limit-not-prefix", fmt.Sprintf("limit %d with %d matches, but %d results returned", limit, len(want), len(got))}
	}
	// order
	type keyed struct {
		ref string
		t   time.Time
		ok  bool
	}
	key := func(r string) keyed {
		t, ok := timeOf(r)
		return keyed{r, t, ok}
	}
	// before reports whether a must come strictly before b; tie reports that
	// the documents leave their order open
	var before func(a, b keyed) bool
	switch es {
	case "blobref":
		before = func(a, b keyed) bool { return a.ref < b.ref }
	case "-mod", "-created":
		// newest first; equal times: larger blobref first (query.go: "Blobs
		// are sorted by modtime, and then by blobref, and then reversed
		// overall")
		before = func(a, b keyed) bool {
			if !a.t.Equal(b.t) {
				return a.t.After(b.t)
			}
			return a.ref > b.ref
		}
	case "created":
		before = func(a, b keyed) bool { return a.ok && b.ok && a.t.Before(b.t) }
	default:
		before = nil
	}
	if before != nil {
		for i := 1; i < len(got); i++ {
			if before(key(got[i]), key(got[i-1])) {
				return &finding{"wrong-order", fmt.Sprintf("sort %s: result %d (%s) must come before result %d (%s)", es, i, x.describeRefs(v, got[i:i+1]), i-1, x.describeRefs(v, got[i-1:i]))}
			}
		}
		if truncated && len(got) > 0 {
			last := key(got[len(got)-1])
			for _, r := range missing {
				if before(key(r), last) {
					return &finding{"limit-not-prefix", fmt.Sprintf("sort %s, limit %d: %s is left out although it sorts before the last returned result %s", es, limit, x.describeRefs(v, []string{r}), x.describeRefs(v, got[len(got)-1:]))}
				}
			}
		}
	}
	return nil
}

func clipStr(s string, n int) string {
	if len(s) > n {
		return s[:n] + "..."
	}
	return s
}
