package searchsim

import (
	"sort"
	"strconv"
	"strings"
	"time"

	"perkeep.org/pkg/blob"

	"verif/engines/indexsim"
)

// Reference evaluator. It works on the harness's own description of the world
// (indexsim.WorldSpec items + the dependency model saying which of the
// delivered blobs are fully indexed at the instant of the query); it never
// looks at what perkeep stored or returned. The meaning of every constraint is
// taken from the doc comments in pkg/search/query.go; where a comment leaves a
// case open the choice made is stated next to the code.

var camliTypeOfKind = map[string]string{
	"key": "", "blob": "", "bytes": "bytes", "file": "file", "sset": "static-set",
	"dir": "directory", "pn": "permanode", "claim": "claim", "del": "claim",
}

// entity is one distinct blob known to the index at the instant of the query.
type entity struct {
	ref   string
	item  int // representative item
	kind  string
	ctype string
	size  int64
}

// view is the world at one instant.
type view struct {
	w     *indexsim.World
	items []indexsim.Item
	ents  map[string]*entity // by ref
	order []string           // refs, sorted
	// claims on a permanode ref (the permanode itself need not be known),
	// in (date, ref) order
	claims map[string][]int
	// claims whose value is the ref
	back map[string][]int
	// directory ref -> set of child refs (flattened static set)
	children map[string]map[string]bool
	parents  map[string]map[string]bool

	// flags raised while evaluating one query
	dangling bool // a relation reached a node the index does not know

	// childLimit > 0 selects the alternative reading "only the first
	// childLimit children (in blobref order) of a directory are looked at"
	// (names a recorded finding; see judge)
	childLimit int
}

// kids is the set of children of a directory.
func (v *view) kids(dir string) map[string]bool {
	all := v.children[dir]
	if v.childLimit <= 0 || len(all) <= v.childLimit {
		return all
	}
	out := map[string]bool{}
	for _, r := range sortedSet(all)[:v.childLimit] {
		out[r] = true
	}
	return out
}

// newView builds the instant from the set of refs handed to the index.
func newView(w *indexsim.World, delivered map[string]bool) *view {
	v := &view{
		w: w, items: w.Spec().Items, ents: map[string]*entity{}, claims: map[string][]int{}, back: map[string][]int{},
		children: map[string]map[string]bool{}, parents: map[string]map[string]bool{},
	}
	ds := indexsim.NewDepState(w, delivered)
	bl := w.Blobs()
	for i, b := range bl {
		st := ds.State(i)
		if st == 3 {
			continue
		}
		it := v.items[i]
		if _, ok := v.ents[b.RefS]; !ok {
			v.ents[b.RefS] = &entity{ref: b.RefS, item: i, kind: it.K, ctype: camliTypeOfKind[it.K], size: int64(len(b.Data))}
			v.order = append(v.order, b.RefS)
		}
		if st != 1 {
			continue
		}
		switch it.K {
		case "claim":
			pn := bl[it.PN].RefS
			if !containsInt(v.claims[pn], i, bl) {
				v.claims[pn] = append(v.claims[pn], i)
				if val := w.ClaimValue(i); isRef(val) {
					v.back[val] = append(v.back[val], i)
				}
			}
		case "dir":
			set := map[string]bool{}
			v.flatten(it.Ent, set)
			v.children[b.RefS] = set
			for c := range set {
				if v.parents[c] == nil {
					v.parents[c] = map[string]bool{}
				}
				v.parents[c][b.RefS] = true
			}
		}
	}
	sort.Strings(v.order)
	for pn := range v.claims {
		cs := v.claims[pn]
		sort.SliceStable(cs, func(a, b int) bool {
			da, db := v.items[cs[a]].D, v.items[cs[b]].D
			if da != db {
				return da < db
			}
			return bl[cs[a]].RefS < bl[cs[b]].RefS
		})
	}
	return v
}

// containsInt reports whether a claim with the same ref is already listed.
func containsInt(l []int, i int, bl []*indexsim.Blob) bool {
	for _, x := range l {
		if bl[x].RefS == bl[i].RefS {
			return true
		}
	}
	return false
}

func isRef(s string) bool {
	_, ok := blob.Parse(s)
	return ok
}

func (v *view) flatten(sset int, into map[string]bool) {
	it := v.items[sset]
	for _, m := range it.Mem {
		into[v.w.Blobs()[m].RefS] = true
	}
	for _, m := range it.Merge {
		v.flatten(m, into)
	}
}

// ---------------------------------------------------------------------------
// permanode attributes and times (claim semantics: doc/schema/permanode.md)

func (v *view) claimDate(i int) time.Time { return indexsim.DateOf(v.items[i].D) }

// values folds the claims on pn for attr dated <= at (at == nil: all; every
// claim of a world is dated before the simulated "now").
func (v *view) values(pn, attr string, at *time.Time) []string {
	var vals []string
	for _, j := range v.claims[pn] {
		it := v.items[j]
		if it.Attr != attr {
			continue
		}
		if at != nil && v.claimDate(j).After(*at) {
			continue
		}
		val := v.w.ClaimValue(j)
		switch it.CT {
		case "set":
			vals = []string{val}
		case "add":
			vals = append(vals, val)
		case "del":
			if val == "" {
				vals = nil
			} else {
				var nv []string
				for _, x := range vals {
					if x != val {
						nv = append(nv, x)
					}
				}
				vals = nv
			}
		}
	}
	return vals
}

// modtime: the date of the latest claim (PermanodeModtime's doc comment; no
// claim of these worlds is deleted).
func (v *view) modtime(pn string) (time.Time, bool) {
	var t time.Time
	ok := false
	for _, j := range v.claims[pn] {
		if d := v.claimDate(j); !ok || d.After(t) {
			t, ok = d, true
		}
	}
	return t, ok
}

// created is "the time that best qualifies the permanode" (PermanodeAnyTime:
// "It tries content-specific times first, the permanode modtime otherwise";
// EnumeratePermanodesCreated: "sorted using the contents creation date if any,
// the permanode modtime otherwise"). Of the content-specific times these
// worlds use two: the dateCreated attribute (RFC 3339) and the time of the
// file that camliContent points to. (The list in Corpus.PermanodeTime also
// names "camliContent claim set time", under a "finish implementing all
// these" TODO; it is not implemented — the ok flag it depends on is
// overwritten before it is read — and is not demanded here.)
func (v *view) created(pn string) (time.Time, bool) {
	if vals := v.values(pn, "dateCreated", nil); len(vals) > 0 {
		if t, err := time.Parse(time.RFC3339, vals[0]); err == nil {
			return t, true
		}
	}
	cc := ""
	for _, j := range v.claims[pn] {
		it := v.items[j]
		if it.Attr == "camliContent" && it.CT == "set" {
			cc = v.w.ClaimValue(j)
		}
	}
	if isRef(cc) {
		if e := v.ents[cc]; e != nil && e.kind == "file" && v.fullyIndexed(e) {
			if mt := v.items[e.item].MT; mt != 0 {
				return indexsim.BaseDate().Add(time.Duration(mt) * time.Second), true
			}
		}
	}
	return v.modtime(pn)
}

// everHadType reports whether some set/add claim ever gave pn one of the
// camliNodeType values (what the type-restricted candidate source lists).
func (v *view) everHadType(pn string, types []string) bool {
	for _, j := range v.claims[pn] {
		it := v.items[j]
		if it.Attr == "camliNodeType" && it.CT != "del" && has(types, it.Val) {
			return true
		}
	}
	return false
}

// fullyIndexed: the entity has more than a bare meta row. Only delete claims
// can be in the in-between state, and these worlds have none; kept for
// clarity.
func (v *view) fullyIndexed(e *entity) bool { return e != nil }

// ---------------------------------------------------------------------------
// primitive constraints

func (q *QInt) matches(x int64) bool {
	if q.Eq != nil {
		return x == *q.Eq
	}
	if (q.Min != 0 || q.ZMin) && x < q.Min {
		return false
	}
	if (q.Max != 0 || q.ZMax) && x > q.Max {
		return false
	}
	return true
}

func (q *QStr) matches(s string) bool {
	if q.Empty && s != "" {
		return false
	}
	if q.Len != nil && !q.Len.matches(int64(len(s))) {
		return false
	}
	// case-insensitive comparison: the generator only uses ASCII patterns and
	// values where it sets Fold, so lower-casing both sides is the meaning
	norm := func(x string) string { return x }
	if q.Fold {
		norm = strings.ToLower
	}
	ns := norm(s)
	if q.Eq != "" && ns != norm(q.Eq) {
		return false
	}
	if q.Contains != "" && !strings.Contains(ns, norm(q.Contains)) {
		return false
	}
	if q.Pre != "" && !strings.HasPrefix(ns, norm(q.Pre)) {
		return false
	}
	if q.Suf != "" && !strings.HasSuffix(ns, norm(q.Suf)) {
		return false
	}
	return true
}

// TimeConstraint: Before is "<", After is ">=" (field comments); a blob
// without a time does not match.
func (q *QTime) matches(t time.Time, ok bool) bool {
	if !ok || t.IsZero() {
		return false
	}
	if q.HasB && !t.Before(nsTime(q.B)) {
		return false
	}
	if q.HasA && t.Before(nsTime(q.A)) {
		return false
	}
	return true
}

// refHasPrefix: blob.Ref.HasPrefix documents that a prefix must contain the
// digest name and at least one digest character ("It returns false if s does
// not contain at least the digest name prefix (e.g. "sha224-") and one byte of
// digest").
func refHasPrefix(ref, pfx string) bool {
	i := strings.IndexByte(pfx, '-')
	if i < 0 || i == len(pfx)-1 {
		return false
	}
	return strings.HasPrefix(ref, pfx)
}

func (v *view) pfxOf(p *QPfx) string {
	b := builder{w: v.w}
	return b.pfx(p)
}

// ---------------------------------------------------------------------------
// constraint trees

// evalMode selects the reading of a logical node that also sets other fields.
type evalMode int

const (
	siblingsIgnored evalMode = iota // the doc comment: "If Logical is non-nil, all other fields are ignored."
	siblingsAnded                   // alternative reading: every non-zero field must match, Logical included
)

func (v *view) match(q *QC, e *entity, m evalMode) bool {
	if q == nil {
		return false
	}
	if q.Op != "" {
		l := v.logical(q, e, m)
		if m == siblingsIgnored || !q.hasLeafFields() {
			return l
		}
		return l && v.leaf(q, e, m)
	}
	return v.leaf(q, e, m)
}

func (v *view) logical(q *QC, e *entity, m evalMode) bool {
	a := v.match(q.A, e, m)
	switch q.Op {
	case "not":
		return !a
	case "and":
		return a && v.match(q.B, e, m)
	case "or":
		return a || v.match(q.B, e, m)
	case "xor":
		return a != v.match(q.B, e, m)
	}
	return false
}

// leaf: "A blob matches if it matches all non-zero fields' predicates. A zero
// constraint matches nothing."
func (v *view) leaf(q *QC, e *entity, m evalMode) bool {
	n := 0
	ok := true
	use := func(b bool) {
		n++
		if !b {
			ok = false
		}
	}
	if q.Any {
		use(true)
	}
	if q.CT != "" {
		use(e.ctype == q.CT)
	}
	if q.AnyCT {
		use(e.ctype != "")
	}
	if q.PN != nil {
		use(v.permanode(q.PN, e, m))
	}
	if q.File != nil {
		use(v.file(q.File, e, m))
	}
	if q.Dir != nil {
		use(v.dir(q.Dir, e, m))
	}
	if q.Size != nil {
		use(q.Size.matches(e.size))
	}
	if q.Pfx != nil {
		use(refHasPrefix(e.ref, v.pfxOf(q.Pfx)))
	}
	return n > 0 && ok
}

func (v *view) permanode(p *QPN, e *entity, m evalMode) bool {
	if e.kind != "pn" {
		return false
	}
	var at *time.Time
	if p.HasAt {
		t := nsTime(p.At)
		at = &t
	}
	if p.Attr != "" {
		vals := v.values(e.ref, p.Attr, at)
		if p.Num != nil && !p.Num.matches(int64(len(vals))) {
			return false
		}
		if p.Val != "" || p.ValRef != 0 || p.VM != nil || p.VMI != nil || p.InSet != nil {
			// "By default ... only one value of a multi-valued attribute needs
			// to match. If ValueAll is true, all attributes must match." A
			// permanode without the attribute has nothing that matches.
			n := 0
			for _, val := range vals {
				if v.attrVal(p, val, m) {
					n++
				}
			}
			if n == 0 {
				return false
			}
			if p.All && n != len(vals) {
				return false
			}
		}
	}
	if p.SkipHidden {
		if vals := v.values(e.ref, "camliDefVis", at); len(vals) > 0 && vals[0] == "hide" {
			return false
		}
	}
	if p.ModTime != nil {
		t, ok := v.modtime(e.ref)
		if !p.ModTime.matches(t, ok) {
			return false
		}
	}
	if p.Time != nil {
		t, ok := v.created(e.ref)
		if !p.Time.matches(t, ok) {
			return false
		}
	}
	if p.Rel != nil && !v.relation(p.Rel, e, at, m) {
		return false
	}
	return true
}

func (v *view) attrVal(p *QPN, val string, m evalMode) bool {
	want := p.Val
	if p.ValRef != 0 {
		want = (&builder{w: v.w}).ref(p.ValRef - 1)
	}
	if want != "" && want != val {
		return false
	}
	if p.VM != nil && !p.VM.matches(val) {
		return false
	}
	if p.VMI != nil {
		// "Non-integer values will not match."
		i, err := strconv.ParseInt(val, 10, 64)
		if err != nil || !p.VMI.matches(i) {
			return false
		}
	}
	if p.InSet != nil {
		// "a sub-query which the value (which must be a blobref) must be a part of"
		if !isRef(val) {
			return false
		}
		t := v.ents[val]
		if t == nil {
			return false
		}
		return v.match(p.InSet, t, m)
	}
	return true
}

// relation: "After finding all the nodes matching the Relation and EdgeType,
// either one or all (depending on whether Any or All is set) must then match."
// With no related node nothing matches (also for All). A related node is one
// the permanode currently (at At) points to / is pointed to from through an
// edge attribute. A related node the index does not know cannot be tested:
// the flag dangling is raised, the node counts as failing for All and is
// passed over for Any.
func (v *view) relation(r *QRel, e *entity, at *time.Time, m evalMode) bool {
	edge := func(attr string) bool {
		if r.Edge != "" {
			return attr == r.Edge
		}
		return attr == "camliMember" || strings.HasPrefix(attr, "camliPath:")
	}
	has := func(pn, attr, val string) bool {
		for _, x := range v.values(pn, attr, at) {
			if x == val {
				return true
			}
		}
		return false
	}
	seen := map[string]bool{}
	var nodes []string
	bl := v.w.Blobs()
	switch r.Rel {
	case "child":
		for _, j := range v.claims[e.ref] {
			it := v.items[j]
			val := v.w.ClaimValue(j)
			if !edge(it.Attr) || !isRef(val) || (at != nil && v.claimDate(j).After(*at)) {
				continue
			}
			if !has(e.ref, it.Attr, val) || seen[val] {
				continue
			}
			seen[val] = true
			nodes = append(nodes, val)
		}
	case "parent":
		for _, j := range v.back[e.ref] {
			it := v.items[j]
			if !edge(it.Attr) || (at != nil && v.claimDate(j).After(*at)) {
				continue
			}
			pn := bl[it.PN].RefS
			if !has(pn, it.Attr, e.ref) || seen[pn] {
				continue
			}
			seen[pn] = true
			nodes = append(nodes, pn)
		}
	}
	sub := r.Any
	if sub == nil {
		sub = r.All
	}
	good, bad := 0, 0
	for _, n := range nodes {
		t := v.ents[n]
		if t == nil {
			v.dangling = true
			bad++
			continue
		}
		if v.match(sub, t, m) {
			good++
		} else {
			bad++
		}
	}
	if r.All != nil {
		return good > 0 && bad == 0
	}
	return good > 0
}

func (v *view) fileInfo(e *entity) (name string, size int64, mime string) {
	it := v.items[e.item]
	name = it.Name
	size = int64(len(fileContent(v.w, e.item)))
	mime = mimeOfName(name)
	return
}

// mimeOfName: the generator only produces lower-case ASCII text content (no
// sniffable signature) and names that either end in ".txt" or have no
// extension, so the type is decided by the extension alone.
func mimeOfName(name string) string {
	if strings.HasSuffix(name, ".txt") {
		return "text/plain"
	}
	return ""
}

func (v *view) file(f *QFile, e *entity, m evalMode) bool {
	if e.kind != "file" {
		return false
	}
	name, size, mime := v.fileInfo(e)
	if f.Size != nil && !f.Size.matches(size) {
		return false
	}
	if f.Name != nil && !f.Name.matches(name) {
		return false
	}
	if f.MIME != nil && !f.MIME.matches(mime) {
		return false
	}
	if f.Parent != nil {
		ok := false
		for p := range v.parents[e.ref] {
			if t := v.ents[p]; t != nil && v.dir(f.Parent, t, m) {
				ok = true
				break
			}
		}
		if !ok {
			return false
		}
	}
	switch {
	case f.Whole > 0:
		if wholeRefOf(v.w, f.Whole-1).String() != blob.RefFromBytes(fileContent(v.w, e.item)).String() {
			return false
		}
	case f.Whole < 0:
		return false
	}
	return true
}

func (v *view) dir(d *QDir, e *entity, m evalMode) bool {
	if e.kind != "dir" {
		return false
	}
	if d.Pfx != nil && !refHasPrefix(e.ref, v.pfxOf(d.Pfx)) {
		return false
	}
	if d.Name != nil && !d.Name.matches(v.items[e.item].Name) {
		return false
	}
	if d.Parent != nil {
		ok := false
		for p := range v.parents[e.ref] {
			if t := v.ents[p]; t != nil && v.dir(d.Parent, t, m) {
				ok = true
				break
			}
		}
		if !ok {
			return false
		}
	}
	if d.Count != nil && !d.Count.matches(int64(len(v.kids(e.ref)))) {
		return false
	}
	if d.Contains != nil && !v.containsChild(d.Contains, e.ref, false, m, map[string]bool{}) {
		return false
	}
	if d.RContains != nil && !v.containsChild(d.RContains, e.ref, true, m, map[string]bool{}) {
		return false
	}
	return true
}

// containsChild: some child (some descendant, for RecursiveContains) known to
// the index is matched by cc. cc is a blobref prefix, a file constraint, a
// directory constraint or a logical combination of those (generator
// invariant).
func (v *view) containsChild(cc *QC, dir string, recursive bool, m evalMode, visited map[string]bool) bool {
	if visited[dir] {
		return false
	}
	visited[dir] = true
	for c := range v.kids(dir) {
		t := v.ents[c]
		if t == nil {
			continue
		}
		if v.containsMatch(cc, t, m) {
			return true
		}
	}
	if recursive {
		for c := range v.kids(dir) {
			if t := v.ents[c]; t != nil && t.kind == "dir" && v.containsChild(cc, c, true, m, visited) {
				return true
			}
		}
	}
	return false
}

func (v *view) containsMatch(cc *QC, t *entity, m evalMode) bool {
	if cc.Pfx != nil && cc.Op == "" && cc.File == nil && cc.Dir == nil {
		return refHasPrefix(t.ref, v.pfxOf(cc.Pfx))
	}
	return v.match(cc, t, m)
}

// ---------------------------------------------------------------------------
// whole-query evaluation

// expectation is what the reference evaluation says about one query.
type expectation struct {
	set      map[string]bool // matches under the documented reading
	alt      map[string]bool // matches when siblings of Logical are ANDed
	dangling bool
}

func (v *view) evaluate(q *QC) *expectation {
	ex := &expectation{set: map[string]bool{}, alt: map[string]bool{}}
	v.dangling = false
	sib := q.hasSiblings()
	for _, r := range v.order {
		e := v.ents[r]
		if v.match(q, e, siblingsIgnored) {
			ex.set[r] = true
		}
		if sib {
			if v.match(q, e, siblingsAnded) {
				ex.alt[r] = true
			}
		}
	}
	if !sib {
		ex.alt = ex.set
	}
	ex.dangling = v.dangling
	return ex
}

func sortedSet(m map[string]bool) []string {
	out := make([]string, 0, len(m))
	for k := range m {
		out = append(out, k)
	}
	sort.Strings(out)
	return out
}
