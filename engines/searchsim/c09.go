package searchsim

import (
	"context"
	"fmt"
	"math"
	"sort"
	"strings"
	"time"

	"perkeep.org/pkg/blob"
	"perkeep.org/pkg/search"
	"perkeep.org/pkg/types/camtypes"

	"verif/engines/indexsim"
	"verif/harness"
	"verif/simcore"
)

// C09 — paging through search results neither skips nor repeats anything.
//
// A run builds a fixed world of permanodes whose creation and modification
// times come from one of the shapes {massively tied, pairwise tied, distinct,
// sub-second distinct, pre-1970, far future, mixed} (ties are BETWEEN
// permanodes; the claims of one permanode have distinct dates), then runs
// client sessions on it: paging sessions (follow the continuation token page
// after page until none is returned) and around sessions, for the two
// continuable sorts. Sessions of one batch run as interleaved tasks (one
// scheduling point per page) on a live handler, so the lazily built,
// gen-keyed sorted permanode lists are created by one session, reused by the
// others, derived in the other direction (after an ascending enumeration) and
// invalidated when a batch is followed by a further arrival or a restart.

// world shapes
var timeShapes = []string{"massive", "pairwise", "distinct", "subsecond", "pre1970", "future", "mixed", "post2262"}

const (
	msPerDay  = int64(86400000)
	msPerYear = 365 * msPerDay
)

// drawInstants returns n instants (ms after base 1999-01-01) of the shape.
func drawInstants(r *simcore.Rand, shape string, n int) []int64 {
	out := make([]int64, n)
	pick := func(pool []int64) {
		for i := range out {
			out[i] = pool[r.Intn(len(pool))]
		}
	}
	distinctSet := func(gen func() int64, k int) []int64 {
		seen := map[int64]bool{}
		var p []int64
		for len(p) < k {
			v := gen()
			if !seen[v] {
				seen[v] = true
				p = append(p, v)
			}
		}
		return p
	}
	past := func() int64 { return int64(10+r.Intn(300))*1000 + 500 }
	switch shape {
	case "massive":
		pick(distinctSet(past, r.Range(1, 2)))
	case "pairwise":
		pick(distinctSet(past, (n+1)/2+r.Intn(2)))
	case "distinct":
		copy(out, distinctSet(past, n))
	case "subsecond":
		sec := int64(10+r.Intn(300)) * 1000
		copy(out, distinctSet(func() int64 { return sec + int64(r.Intn(1000)) }, n))
	case "pre1970":
		// 1905 .. 1969, some of them tied
		pick(distinctSet(func() int64 { return -int64(30*365+r.Intn(64*365))*msPerDay + int64(r.Intn(3))*1000 }, (n+1)/2+1))
	case "future":
		// after the simulated now (2000-01-01), within the int64-nanosecond range
		pick(distinctSet(func() int64 { return int64(2*365+r.Intn(250*365))*msPerDay + int64(r.Intn(3)) }, (n+1)/2+1))
	case "post2262":
		// beyond 2262-04-11, where UnixNano is no longer defined
		pick(distinctSet(func() int64 { return 264*msPerYear + int64(r.Intn(20*365))*msPerDay }, (n+1)/2+1))
	default: // mixed
		for i := range out {
			switch r.Intn(5) {
			case 0:
				out[i] = -int64(30*365+r.Intn(60*365)) * msPerDay
			case 1:
				out[i] = int64(2*365+r.Intn(200*365)) * msPerDay
			case 2:
				out[i] = 100500
			default:
				out[i] = past()
			}
		}
	}
	return out
}

// genWorld09 draws the fixed world: returns the spec and the items that are
// held back (delivered between session batches to bump the corpus
// generation).
func genWorld09(r *simcore.Rand) (spec *indexsim.WorldSpec, shape string, held []int) {
	g := newWgen(r)
	var n int
	switch x := r.Intn(10); {
	case x < 4:
		n = r.Range(1, 8)
	case x < 8:
		n = r.Range(9, 25)
	default:
		n = r.Range(26, 60)
	}
	shape = timeShapes[r.Intn(len(timeShapes))]
	if shape == "post2262" && r.Bool(0.5) {
		shape = "mixed"
	}
	mod := drawInstants(r, shape, n)
	cshape := shape
	if r.Bool(0.5) {
		cshape = timeShapes[r.Intn(len(timeShapes)-1)]
	}
	created := drawInstants(r, cshape, n)
	typed := r.Bool(0.3)
	zoned := r.Bool(0.3)
	const anchor = int64(300000) // inspected attributes are claimed before this (past) instant
	for i := 0; i < n; i++ {
		pn := g.pn()
		base := mod[i]
		if base > anchor {
			base = anchor
		}
		k := int64(1)
		next := func() int64 { k++; return base - k }
		g.add(indexsim.Item{K: "claim", S: 0, PN: pn, CT: "set", Attr: "title", Val: titleVals[r.Intn(len(titleVals))], D: next()})
		if r.Bool(0.6) {
			g.add(indexsim.Item{K: "claim", S: 0, PN: pn, CT: "add", Attr: "tag", Val: tagVals[r.Intn(3)], D: next()})
		}
		if typed {
			// node types: queries for them may be planned over another
			// candidate source than plain permanode queries
			g.add(indexsim.Item{K: "claim", S: 0, PN: pn, CT: "set", Attr: "camliNodeType", Val: typeVals[r.Intn(len(typeVals))], D: next()})
		}
		explicit := r.Bool(0.5)
		if !explicit && r.Bool(0.12) {
			// the permanode's time comes from its content: a file whose
			// modification time lies among the other instants; the file's
			// schema blob is held back, so the permanode moves in the
			// orderings by time between two batches of sessions
			chunk := g.add(indexsim.Item{K: "blob", Seed: uint64(1000 + i), Size: r.Range(5, 40)})
			mt := created[r.Intn(n)]/1000 + int64(r.Intn(3)) - 1
			if mt <= 0 {
				mt = int64(1 + r.Intn(300))
			}
			file := g.add(indexsim.Item{K: "file", Parts: []int{chunk}, Name: fmt.Sprintf("f%d.txt", i), MT: mt})
			g.add(indexsim.Item{K: "claim", S: 0, PN: pn, CT: "set", Attr: "camliContent", Ref: file + 1, D: next()})
			held = append(held, file)
		}
		if explicit {
			// an explicit creation time; otherwise the permanode's creation
			// time is its modification time
			t := indexsim.BaseDate().AddDate(0, 0, int(created[i]/msPerDay)).Add(time.Duration(created[i]%msPerDay) * time.Millisecond)
			if cshape == "subsecond" && r.Bool(0.5) {
				t = t.Add(time.Duration(r.Intn(1000)) * time.Nanosecond)
			}
			val := t.UTC().Format(time.RFC3339Nano)
			if zoned && r.Bool(0.6) {
				// the same instant written with a zone offset (what
				// importers and cameras write): order and ties are a
				// matter of instants, not of spellings
				off := []int{19800, -28800, 3600, 45 * 60}[r.Intn(4)]
				val = t.In(time.FixedZone("", off)).Format(time.RFC3339Nano)
			}
			g.add(indexsim.Item{K: "claim", S: 0, PN: pn, CT: "set", Attr: "dateCreated", Val: val, D: next()})
		}
		// the latest claim decides the modification time; its attribute is
		// never inspected by a query
		g.add(indexsim.Item{K: "claim", S: 0, PN: pn, CT: "set", Attr: "note", Val: fmt.Sprintf("n%d", i), D: mod[i]})
		if r.Bool(0.08) {
			// held back: a later tag (changes what matches) or a new latest claim
			it := indexsim.Item{K: "claim", S: 0, PN: pn, CT: "add", Attr: "tag", Val: tagVals[3+r.Intn(3)], D: next()}
			if r.Bool(0.5) {
				it = indexsim.Item{K: "claim", S: 0, PN: pn, CT: "set", Attr: "note", Val: "late", D: mod[i] + 1 + int64(r.Intn(2000))}
			}
			held = append(held, g.add(it))
		}
	}
	return &indexsim.WorldSpec{Items: g.items}, shape, held
}

func genC09(tier string, run int, r *simcore.Rand) *harness.Plan {
	spec, shape, held := genWorld09(r)
	cfg := Config{World: *spec, Mode: []string{"incr", "incr", "incr", "scan", "scan", "scan", "scan", "rows"}[r.Intn(8)]}
	if cfg.Mode == "rows" && r.Bool(0.5) {
		cfg.Mode = "scan"
	}
	cfg.Shape = shape
	isHeld := map[int]bool{}
	for _, h := range held {
		isHeld[h] = true
	}
	n := len(spec.Items)
	var order []int
	switch r.Intn(3) {
	case 0:
		order = canonicalOrder(spec)
	case 1:
		order = []int{0}
		for _, i := range r.Perm(n) {
			if i != 0 {
				order = append(order, i)
			}
		}
	default:
		order = canonicalOrder(spec)
		for k := r.Range(1, n); k > 0; k-- {
			a, b := 1+r.Intn(n-1), 1+r.Intn(n-1)
			order[a], order[b] = order[b], order[a]
		}
	}
	nclients := r.Range(1, 2)
	var ops []Op
	for _, i := range order {
		if !isHeld[i] {
			ops = append(ops, Op{K: "deliver", I: i, C: 1 + r.Intn(nclients)})
		}
	}
	if cfg.Mode == "scan" {
		ops = append(ops, Op{K: "corpus"})
	}
	if r.Bool(0.3) {
		ops = append(ops, Op{K: "restart"})
	}
	wi := summarise(spec)
	g := &qgen{r: r, wi: wi, corpus: cfg.Mode != "rows", plainPN: true}
	npn := len(wi.pns)
	limit := func() int {
		switch x := r.Intn(10); {
		case x < 4:
			return r.Range(1, 3)
		case x < 8:
			return r.Range(1, npn+1)
		default:
			return r.Range(2, 6)
		}
	}
	constraint := func() *QC {
		var c *QC
		switch x := r.Intn(100); {
		case x < 35:
			c = &QC{CT: "permanode"}
		case x < 45:
			c = &QC{PN: &QPN{}}
		case x < 60:
			c = &QC{PN: g.pn(2)}
		case x < 66:
			c = &QC{PN: &QPN{Attr: "camliNodeType", Val: typeVals[r.Intn(len(typeVals))]}}
		case x < 76:
			// fields next to Permanode: all non-zero fields must match, on
			// every page. The prefix is that of a permanode of the world
			// (first 0-2 digest characters), so there is a first page.
			c = &QC{PN: &QPN{}, Pfx: &QPfx{I: wi.pns[r.Intn(npn)], N: len("sha224-") + r.Range(0, 2)}}
			if r.Bool(0.4) {
				c.PN = g.pn(2)
			}
			if r.Bool(0.3) {
				c.Size = g.intc([]int64{10, 200, 480, 700})
			}
		case x < 85:
			c = &QC{Op: "and", A: &QC{CT: "permanode"}, B: &QC{Op: "not", A: &QC{PN: g.pn(3)}}}
		default:
			c = &QC{Op: "and", A: &QC{PN: &QPN{}}, B: g.constraint(2)}
		}
		if !c.aboutPermanodesOnly() {
			c = &QC{Op: "and", A: &QC{CT: "permanode"}, B: c}
		}
		return c
	}
	session := func() Op {
		q := &Query{C: constraint(), Sort: g.pickS([]string{"-created", "-mod"}), Limit: limit()}
		switch x := r.Intn(100); {
		case x < 55:
			return Op{K: "page", Q: q}
		case x < 92:
			op := Op{K: "around", Q: q}
			switch y := r.Intn(100); {
			case y < 50:
				op.Pivot = 0 // sweep: every k-th result, a non-matching permanode, an absent ref
			case y < 85:
				op.Pivot = wi.pns[r.Intn(npn)] + 1
			case y < 93:
				op.Pivot = wi.claims[r.Intn(len(wi.claims))] + 1 // not a permanode
			default:
				op.Pivot = -1
			}
			if r.Bool(0.05) {
				q.Limit = -1
			}
			return op
		}
		return Op{K: "enumasc"}
	}
	batches := r.Range(1, 3)
	if cfg.Mode == "rows" {
		batches = 1
	}
	for b := 0; b < batches; b++ {
		for k := r.Range(1, 4); k > 0; k-- {
			ops = append(ops, session())
		}
		if b+1 < batches {
			switch {
			case len(held) > 0:
				ops = append(ops, Op{K: "deliver", I: held[0], C: 1})
				held = held[1:]
			case r.Bool(0.5):
				ops = append(ops, Op{K: "restart"})
			default:
				// a repeated delivery: no new blob, the corpus generation stays
				ops = append(ops, Op{K: "deliver", I: order[len(order)-1], C: 1})
			}
		}
	}
	p := &harness.Plan{Mode: cfg.Mode, Config: harness.MustJSON(cfg), Bubble: true, Ops: opsJSON(ops)}
	p.LockYield = []int{0, 0, 100, 1000}[r.Intn(4)]
	p.Sticky = []int{0, 0, 500}[r.Intn(3)]
	return p
}

// ---------------------------------------------------------------------------

func (x *exec) runC09() *harness.Outcome {
	out := x.out
	if !x.start() {
		return out
	}
	defer x.flush()
	ndeliv, nsess := 0, 0
	lastSortedAt := map[string]int{}
	i := 0
	for i < len(x.ops) && !x.stopped {
		op := x.ops[i]
		switch op.K {
		case "deliver":
			j := i
			for j < len(x.ops) && x.ops[j].K == "deliver" {
				j++
			}
			if !x.deliver(x.ops[i:j], i) {
				return out
			}
			ndeliv += j - i
			i = j
		case "restart":
			if !x.restart() {
				return out
			}
			lastSortedAt = map[string]int{}
			i++
		case "corpus":
			if x.cfg.Mode == "scan" && !x.enableCorpus() {
				return out
			}
			i++
		case "page", "around", "enumasc":
			j := i
			for j < len(x.ops) && (x.ops[j].K == "page" || x.ops[j].K == "around" || x.ops[j].K == "enumasc") {
				j++
			}
			if x.restarted {
				out.Reached["query-after-restart"]++
			}
			for k := i; k < j; k++ {
				if q := x.ops[k].Q; q != nil && x.corpusOn() {
					if at, ok := lastSortedAt[q.Sort]; ok {
						if at == ndeliv {
							out.Reached["sorted-cache-reused"]++
						} else {
							out.Reached["sorted-cache-invalidated"]++
						}
					}
					lastSortedAt[q.Sort] = ndeliv
				}
			}
			nsess += j - i
			x.sessionBatch(i, j)
			i = j
		default:
			i++
		}
	}
	out.Reached["mode-"+strings.TrimSuffix(x.mode(), "+restart")]++
	out.Reached["shape-"+x.cfg.Shape]++
	npn := 0
	for _, it := range x.cfg.World.Items {
		if it.K == "pn" {
			npn++
		}
	}
	out.ShapeKey = fmt.Sprintf("%s|%s|%d|%s", x.cfg.Mode, x.cfg.Shape, npn, opKinds(x.w, x.ops[min(len(x.ops), ndeliv):]))
	out.Nontrivial = nsess >= 1 && npn >= 2
	out.Sample = map[string]any{"mode": x.cfg.Mode, "shape": x.cfg.Shape, "permanodes": npn, "sessions": nsess, "query": x.sample}
	return out
}

// sessResult is what one session task observed.
type sessResult struct {
	op     int
	pages  [][]string
	tokens []string
	errs   []error
	// around sweeps: one answer per pivot
	pivots  []string
	answers []answer
	panicv  any
	// enumasc
	enum []string
}

// sessionBatch runs the sessions ops[i:j] as interleaved tasks and judges them.
func (x *exec) sessionBatch(i, j int) {
	v := x.curView()
	b := &builder{w: x.w}
	var names []string
	var fs []func()
	var results []*sessResult
	for k := i; k < j; k++ {
		op := x.ops[k]
		sr := &sessResult{op: k}
		switch op.K {
		case "page":
			if op.Q == nil || op.Q.C == nil || op.Q.Limit < 1 {
				continue
			}
			maxPages := len(v.order) + 4
			fs = append(fs, func() { x.pageSession(b, op.Q, sr, maxPages) })
		case "around":
			if op.Q == nil || op.Q.C == nil {
				continue
			}
			sr.pivots = x.pivotsFor(v, op)
			fs = append(fs, func() { x.aroundSession(b, op.Q, sr) })
		case "enumasc":
			if !x.corpusOn() {
				continue
			}
			fs = append(fs, func() { x.enumAsc(sr) })
		}
		names = append(names, fmt.Sprintf("s%02d", len(names)))
		results = append(results, sr)
	}
	if len(fs) == 0 {
		return
	}
	if len(fs) > 1 {
		x.out.Reached["sessions-interleaved"]++
	}
	x.reseed("sessions")
	if err := x.sess.Tasks(names, fs); err != nil {
		x.out.Inconclusive = "sessions never finished: " + err.Error()
		x.stopped = true
		return
	}
	for _, sr := range results {
		if x.stopped {
			return
		}
		op := x.ops[sr.op]
		switch op.K {
		case "page":
			x.judgePages(v, b, op.Q, sr)
		case "around":
			x.judgeAround(v, b, op.Q, sr)
		case "enumasc":
			x.judgeEnum(v, sr)
		}
	}
}

func (x *exec) pageSession(b *builder, q *Query, sr *sessResult, maxPages int) {
	defer func() {
		if r := recover(); r != nil {
			sr.panicv = r
		}
	}()
	// Every other session pages like an in-process caller does: one
	// Constraint value for all its requests, and a first, partial traversal
	// (two pages, thrown away) before the one that is judged. A query must
	// not leave anything behind in the caller's constraint.
	var shared *search.Constraint
	if sr.op%2 == 1 {
		shared = b.constraint(q.C)
		tok := ""
		for p := 0; p < 2; p++ {
			sq := b.query(q)
			sq.Constraint, sq.Continue = shared, tok
			a := x.ask(sq)
			if a.panicv != nil || a.err != nil || a.cont == "" {
				break
			}
			tok = a.cont
			simcore.Yield("page")
		}
		x.srcMu.Lock()
		x.out.Reached["constraint-value-reused-across-traversals"]++
		x.srcMu.Unlock()
	}
	token := ""
	for p := 0; p < maxPages; p++ {
		sq := b.query(q)
		if shared != nil {
			sq.Constraint = shared
		}
		sq.Continue = token
		a := x.ask(sq)
		if a.panicv != nil {
			sr.panicv = a.panicv
			return
		}
		if a.source != "" {
			x.srcMu.Lock()
			x.out.Reached["src:"+a.source]++
			x.srcMu.Unlock()
		}
		sr.pages = append(sr.pages, a.refs)
		sr.tokens = append(sr.tokens, a.cont)
		sr.errs = append(sr.errs, a.err)
		if a.err != nil || a.cont == "" {
			return
		}
		token = a.cont
		simcore.Yield("page")
	}
}

func (x *exec) aroundSession(b *builder, q *Query, sr *sessResult) {
	for _, p := range sr.pivots {
		sq := b.query(q)
		br, _ := blob.Parse(p)
		sq.Around = br
		a := x.ask(sq)
		sr.answers = append(sr.answers, a)
		if a.panicv != nil {
			return
		}
		simcore.Yield("around")
	}
}

// enumAsc walks the ascending creation-time enumeration (it builds the
// non-reversed cache, from which a later -created query derives its list).
func (x *exec) enumAsc(sr *sessResult) {
	defer func() {
		if r := recover(); r != nil {
			sr.panicv = r
		}
	}()
	idx, c := x.sess.Index(), x.sess.Corpus()
	if c == nil {
		return
	}
	idx.RLock()
	defer idx.RUnlock()
	c.EnumeratePermanodesCreated(func(bm camtypes.BlobMeta) bool {
		sr.enum = append(sr.enum, bm.Ref.String())
		return true
	}, false)
}

// pivotsFor lists the pivots of an around op.
func (x *exec) pivotsFor(v *view, op Op) []string {
	bl := x.w.Blobs()
	switch {
	case op.Pivot > 0 && op.Pivot-1 < len(bl):
		return []string{bl[op.Pivot-1].RefS}
	case op.Pivot < 0:
		return []string{absentRef.String()}
	}
	// sweep: up to 12 evenly spaced results, a permanode that does not match,
	// an absent ref
	full := x.fullList(v, op.Q)
	var out []string
	step := 1
	if len(full) > 12 {
		step = (len(full) + 11) / 12
	}
	for k := 0; k < len(full); k += step {
		out = append(out, full[k])
	}
	if len(full) > 0 && (len(full)-1)%step != 0 {
		out = append(out, full[len(full)-1])
	}
	inFull := map[string]bool{}
	for _, r := range full {
		inFull[r] = true
	}
	for _, r := range v.order {
		if e := v.ents[r]; e.kind == "pn" && !inFull[r] {
			out = append(out, r)
			break
		}
	}
	return append(out, absentRef.String())
}

// sortTime is the time a permanode is ordered by under the sort.
func (v *view) sortTime(sortName, ref string) (time.Time, bool) {
	if sortName == "-mod" {
		return v.modtime(ref)
	}
	return v.created(ref)
}

// fullList is the reference: every match that has the sort's time, newest
// first, equal times by descending blobref ("Blobs are sorted by modtime, and
// then by blobref, and then reversed overall").
func (x *exec) fullList(v *view, q *Query) []string {
	ex := v.evaluate(q.C)
	var l []string
	for _, r := range sortedSet(ex.set) {
		if _, ok := v.sortTime(q.Sort, r); ok {
			l = append(l, r)
		} else {
			x.out.Reached["untimed-permanode-matches"]++
		}
	}
	sort.SliceStable(l, func(a, b int) bool {
		ta, _ := v.sortTime(q.Sort, l[a])
		tb, _ := v.sortTime(q.Sort, l[b])
		if !ta.Equal(tb) {
			return ta.After(tb)
		}
		return l[a] > l[b]
	})
	return l
}

// tokenCause names the recorded token-format findings: the boundary time does
// not fit what "pn:<UnixNano>:<ref>" parsed with ParseUint can carry.
func tokenCause(t time.Time) string {
	switch {
	case t.Before(time.Unix(0, 0)):
		return "pre1970-token"
	case t.After(time.Unix(0, math.MaxInt64)):
		return "post2262-token"
	}
	return ""
}

func (x *exec) where(q *Query, what string) string {
	return fmt.Sprintf("%s/%s/%s", q.Sort, what, x.mode())
}

func (x *exec) sessCtx(b *builder, q *Query, opIdx int) string {
	sq := b.query(q)
	return fmt.Sprintf("query %s on a world of shape %q [history: %s]", queryJSON(sq), x.cfg.Shape, x.history(opIdx))
}

func (x *exec) judgePages(v *view, b *builder, q *Query, sr *sessResult) {
	x.out.SubRuns += len(sr.pages)
	where := x.where(q, fmt.Sprintf("limit%s", limitClass(q.Limit)))
	if sr.panicv != nil {
		x.report("query-panic", "", where, fmt.Sprintf("Query panicked: %v; %s", sr.panicv, x.sessCtx(b, q, sr.op)), sr.op)
		return
	}
	if !x.corpusOn() {
		// no continuation (and no sort by time) without a corpus
		x.out.Reached["expected-error"]++
		if len(sr.errs) > 0 && sr.errs[0] == nil {
			x.report("unsupported-not-rejected", "", where, "sorting by time without a corpus is unsupported, yet Query returned results; "+x.sessCtx(b, q, sr.op), sr.op)
		}
		return
	}
	for p, err := range sr.errs {
		if err != nil {
			x.report("query-error", "", where, fmt.Sprintf("page %d failed: %v; %s", p, err, x.sessCtx(b, q, sr.op)), sr.op)
			return
		}
	}
	full := x.fullList(v, q)
	if x.sample == nil && len(full) > 1 {
		x.sample = map[string]any{"json": queryJSON(b.query(q)), "matches": len(full), "pages": len(sr.pages)}
	}
	if len(full) > q.Limit {
		x.out.Reached["multi-page-session"]++
	}
	for k := 1; k < len(full); k++ {
		ta, _ := v.sortTime(q.Sort, full[k-1])
		tb, _ := v.sortTime(q.Sort, full[k])
		if ta.Equal(tb) && k%q.Limit == 0 {
			x.out.Reached["continue-tie"]++ // a page boundary inside a group of equal times
			break
		}
	}
	pos := map[string]int{}
	for k, r := range full {
		pos[r] = k
	}
	describe := func(r string) string {
		t, _ := v.sortTime(q.Sort, r)
		return fmt.Sprintf("%s@%s", short(r), t.UTC().Format(time.RFC3339Nano))
	}
	seen := map[string]int{}
	n := 0 // elements of the concatenation so far
	var boundary string
	fail := func(class, detail string, page int) {
		cause := ""
		if boundary != "" {
			if t, ok := v.sortTime(q.Sort, boundary); ok {
				cause = tokenCause(t)
			}
		}
		x.report(class, cause, where, fmt.Sprintf("%s (page %d of a session with limit %d over %d matches; token before this page: %q); %s", detail, page, q.Limit, len(full), tokenBefore(sr, page), x.sessCtx(b, q, sr.op)), sr.op)
	}
	for p, page := range sr.pages {
		if len(page) > q.Limit {
			fail("limit-not-prefix", fmt.Sprintf("page holds %d results", len(page)), p)
			return
		}
		for _, r := range page {
			if at, dup := seen[r]; dup {
				fail("page-repeat", fmt.Sprintf("%s was already returned on page %d", describe(r), at), p)
				return
			}
			seen[r] = p
			k, ok := pos[r]
			switch {
			case !ok:
				fail("extra-result", fmt.Sprintf("%s is not part of the full result", x.describeRefs(v, []string{r})), p)
				return
			case k > n:
				fail("page-skip", fmt.Sprintf("%s follows %s, skipping %d results starting with %s", describe(r), orNone(boundaryOr(full, n)), k-n, describe(full[n])), p)
				return
			case k < n:
				fail("wrong-order", fmt.Sprintf("%s is returned after results it sorts before", describe(r)), p)
				return
			}
			n++
		}
		if len(page) > 0 {
			boundary = page[len(page)-1]
		}
		last := p == len(sr.pages)-1
		if !last && len(page) == 0 {
			fail("token-on-last-page", "an empty page carries a continuation token", p)
			return
		}
	}
	if len(sr.pages) > 0 && sr.tokens[len(sr.tokens)-1] != "" {
		fail("token-on-last-page", fmt.Sprintf("the session was cut after %d pages: tokens keep coming although the full result has %d elements", len(sr.pages), len(full)), len(sr.pages)-1)
		return
	}
	if n < len(full) {
		fail("page-skip", fmt.Sprintf("the last page carries no token after %d of %d results; first result never returned: %s", n, len(full), describe(full[n])), len(sr.pages)-1)
		return
	}
}

func boundaryOr(full []string, n int) string {
	if n == 0 {
		return ""
	}
	return short(full[n-1])
}

func orNone(s string) string {
	if s == "" {
		return "(the start)"
	}
	return s
}

func tokenBefore(sr *sessResult, page int) string {
	if page == 0 || page-1 >= len(sr.tokens) {
		return ""
	}
	return sr.tokens[page-1]
}

func limitClass(l int) string {
	switch {
	case l <= 0:
		return "none"
	case l <= 3:
		return fmt.Sprint(l)
	}
	return "N"
}

func (x *exec) judgeAround(v *view, b *builder, q *Query, sr *sessResult) {
	x.out.SubRuns += len(sr.answers)
	where := x.where(q, "around")
	full := x.fullList(v, q)
	pos := map[string]int{}
	for k, r := range full {
		pos[r] = k
	}
	for k, a := range sr.answers {
		pivot := sr.pivots[k]
		ctx := func() string {
			return fmt.Sprintf("around %s, limit %d, %d matches; %s", short(pivot), q.Limit, len(full), x.sessCtx(b, q, sr.op))
		}
		if a.panicv != nil {
			x.report("query-panic", "", where, fmt.Sprintf("Query panicked: %v; %s", a.panicv, ctx()), sr.op)
			return
		}
		if !x.corpusOn() {
			x.out.Reached["expected-error"]++
			if a.err == nil {
				x.report("unsupported-not-rejected", "", where, "sorting by time without a corpus is unsupported, yet Query returned results; "+ctx(), sr.op)
				return
			}
			continue
		}
		if a.err != nil {
			x.report("query-error", "", where, fmt.Sprintf("Query failed: %v; %s", a.err, ctx()), sr.op)
			return
		}
		at, in := pos[pivot]
		if !in {
			// "If Around is not found the returned results will be empty."
			x.out.Reached["around-pivot-not-matching"]++
			if len(a.refs) != 0 {
				x.report("around-not-window", "pivot-not-matching", where, fmt.Sprintf("the pivot is not part of the result, yet %d results are returned; %s", len(a.refs), ctx()), sr.op)
				return
			}
			continue
		}
		x.out.Reached["around-window"]++
		// a contiguous window of the full list containing the pivot
		bad := ""
		start := -1
		switch {
		case len(a.refs) == 0:
			bad = "nothing is returned although the pivot matches"
		case q.Limit > 0 && len(a.refs) > q.Limit:
			bad = fmt.Sprintf("%d results exceed the limit", len(a.refs))
		default:
			s, ok := pos[a.refs[0]]
			if !ok {
				bad = fmt.Sprintf("%s is not part of the full result", x.describeRefs(v, a.refs[:1]))
				break
			}
			start = s
			for m, r := range a.refs {
				if s+m >= len(full) || full[s+m] != r {
					bad = fmt.Sprintf("result %d (%s) is not element %d of the full ordered list: not a contiguous window", m, short(r), s+m)
					break
				}
			}
			if bad == "" && (at < s || at >= s+len(a.refs)) {
				bad = fmt.Sprintf("the window [%d,%d) of the full list does not contain the pivot (element %d)", s, s+len(a.refs), at)
			}
		}
		if bad != "" {
			x.report("around-not-window", "", where, bad+"; "+ctx(), sr.op)
			return
		}
		// "the results, after sorting, should be centered around this result":
		// a side may be shorter only where the full list ends
		if q.Limit > 0 {
			before, after := at-start, start+len(a.refs)-1-at
			half := (q.Limit - 1) / 2
			end := start + len(a.refs)
			switch {
			case start > 0 && before < half:
				bad = fmt.Sprintf("only %d results before the pivot although the list continues on that side (limit %d, %d after)", before, q.Limit, after)
			case end < len(full) && after < half:
				bad = fmt.Sprintf("only %d results after the pivot although the list continues on that side (limit %d, %d before)", after, q.Limit, before)
			case start > 0 && end < len(full) && (len(a.refs) != q.Limit || before-after > 1 || after-before > 1):
				bad = fmt.Sprintf("window of %d with %d before and %d after the pivot, limit %d, list continuing on both sides", len(a.refs), before, after, q.Limit)
			}
			if bad != "" {
				x.report("around-not-centered", "", where, bad+"; "+ctx(), sr.op)
				return
			}
		}
	}
}

func (x *exec) judgeEnum(v *view, sr *sessResult) {
	x.out.SubRuns++
	where := "created/enumerate/" + x.mode()
	if sr.panicv != nil {
		x.report("query-panic", "", where, fmt.Sprintf("EnumeratePermanodesCreated panicked: %v", sr.panicv), sr.op)
		return
	}
	var want []string
	for _, r := range v.order {
		if e := v.ents[r]; e.kind == "pn" {
			if _, ok := v.created(r); ok {
				want = append(want, r)
			}
		}
	}
	sort.SliceStable(want, func(a, b int) bool {
		ta, _ := v.created(want[a])
		tb, _ := v.created(want[b])
		if !ta.Equal(tb) {
			return ta.Before(tb)
		}
		return want[a] < want[b]
	})
	x.out.Reached["enumerated-ascending"]++
	if strings.Join(sr.enum, ",") != strings.Join(want, ",") {
		x.report("wrong-order", "", where, fmt.Sprintf("Corpus.EnumeratePermanodesCreated(oldest first) returned %d permanodes %v, the reference order has %d: %v [history: %s]", len(sr.enum), shorts(sr.enum), len(want), shorts(want), x.history(sr.op)), sr.op)
	}
}

func shorts(l []string) []string {
	out := make([]string, 0, len(l))
	for i, r := range l {
		if i == 12 {
			out = append(out, "...")
			break
		}
		out = append(out, short(r))
	}
	return out
}

var _ = context.Background
var _ = search.CreatedDesc
