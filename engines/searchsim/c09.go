package searchsim

import (
	"verif/harness"
	"verif/simcore"
)

func genC09(tier string, run int, r *simcore.Rand) *harness.Plan { return genC08(tier, run, r) }

func (x *exec) runC09() *harness.Outcome {
	x.out.Inconclusive = "C09 not built yet"
	return x.out
}
