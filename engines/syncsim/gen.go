package syncsim

import (
	"fmt"
	"sort"

	"verif/harness"
	"verif/sim"
	"verif/simcore"
)

// Config is the engine-specific part of a plan.
type Config struct {
	Blobs []sim.BlobSpec `json:"blobs"`
	// Ctor: "config" = blobserver.CreateHandler("sync", loader, conf) as
	// serverinit does; "new" = server.NewSyncHandler (never restarted: that
	// constructor does not read the queue).
	Ctor      string `json:"ctor"`
	Pool      int    `json:"pool"`
	FullSync  bool   `json:"fullSync,omitempty"`
	BlockFull bool   `json:"blockFull,omitempty"`
	Validate  bool   `json:"validate,omitempty"`
	SlowMS    int    `json:"slowMs"`
	// BoundS: virtual seconds after the last fault and last restart within
	// which every pending delivery must have completed.
	BoundS int `json:"boundS"`
	// Pre: pool indices of blobs that are in the source before the first
	// generation starts (received in an earlier life, without the hook);
	// PreDst: those of them the destination holds already. With
	// fullSyncOnStart or validateOnStart they must reach the destination.
	Pre    []int `json:"pre,omitempty"`
	PreDst []int `json:"preDst,omitempty"`
	// DstOnly: blobs the destination holds and the source does not
	DstOnly []int `json:"dstOnly,omitempty"`
	// Dests: 2 = a second sync handler (same source, destination "dst2",
	// queue "queue2", no faults of its own) is constructed concurrently with
	// the first one in every generation; every acknowledged upload must
	// reach both destinations.
	Dests int `json:"dests,omitempty"`
	// ReportKnown: report a violation even when its signature is a listed
	// known finding (set in the replay files of those findings).
	ReportKnown bool `json:"reportKnown,omitempty"`
	// PendingBatch > 0: how many pending blobs one round of the sync loop
	// takes from the in-memory list (1000 in perkeep; lowered through the
	// overlay's knob so that several rounds are needed in short histories).
	PendingBatch int `json:"pendingBatch,omitempty"`
	// WorkBuf > 0: capacity of the channel runSync feeds its copy workers
	// through (1000 in perkeep; always >= PendingBatch, as in perkeep).
	WorkBuf int `json:"workBuf,omitempty"`
	// ViaReplica: clients upload through a replica set whose first member is
	// the source (the generated configuration's /bs-and-index/ is
	// replica(/bs/, /index/) while /sync-to-.../ copies from /bs/): what the
	// source receives that way must be delivered like any other blob.
	ViaReplica bool `json:"viaReplica,omitempty"`
	// SrcShort, DstShort > 0: the source / destination store sends at most
	// that many blobs per enumeration call (legal: "at most limit"); the
	// sync handler reads both through blobserver.EnumerateAll(From) only.
	SrcShort int `json:"srcShort,omitempty"`
	DstShort int `json:"dstShort,omitempty"`
}

// Op is one element of Plan.Ops.
//
//	upload    blob B is offered to the source through blobserver.Receive (own task)
//	sleep     the driver sleeps MS virtual milliseconds (the fake clock only
//	          moves when every goroutine is blocked: a sleep is a quiescence point)
//	yield     the driver passes N scheduling points (other tasks advance meanwhile)
//	faults-off / faults-on   the fault plan is suspended / resumed
//	restart   the handler process dies and is rebuilt over the same durable
//	          source/destination/queue. N>0: it dies right before the N-th seam
//	          call made since this generation started (mid-upload, mid-copy);
//	          N=0 (or not reached): it dies once the operations before it returned.
type Op struct {
	K  string `json:"k"`
	B  int    `json:"b,omitempty"`
	MS int    `json:"ms,omitempty"`
	N  int    `json:"n,omitempty"`
	// upload: the client goes away (its context is cancelled) right after
	// the source store accepted the blob
	Cancel bool `json:"cancel,omitempty"`
}

func (o Op) String() string {
	switch o.K {
	case "upload":
		if o.Cancel {
			return fmt.Sprintf("upload(b%d, client gone after the store accepted it)", o.B)
		}
		return fmt.Sprintf("upload(b%d)", o.B)
	case "sleep":
		return fmt.Sprintf("sleep(%dms)", o.MS)
	case "yield":
		return fmt.Sprintf("yield(%d)", o.N)
	case "restart":
		if o.N > 0 {
			return fmt.Sprintf("restart(crash before seam call %d)", o.N)
		}
		return "restart"
	}
	return o.K
}

// faultOp is the pseudo operation index every call-count addressed fault of a
// plan carries: the engine never advances Env.CurOp, so Fault{Seam, Method, K}
// means "the K-th call of Method on Seam since the run began".
const faultOp = 1 << 20

func gen(tier string, run int, r *simcore.Rand) *harness.Plan {
	cfg := Config{Ctor: "config", BoundS: 120}
	mode := "deliver"
	if r.Bool(0.12) {
		mode = "queuefaults"
	}
	if r.Bool(0.12) {
		cfg.Ctor = "new"
	}
	cfg.Pool = r.Range(1, 5)
	if cfg.Ctor == "new" {
		cfg.Pool = 5
	} else {
		cfg.FullSync = r.Bool(0.15)
		if cfg.FullSync {
			cfg.BlockFull = r.Bool(0.2)
		}
		cfg.Validate = r.Bool(0.03)
	}
	if cfg.Ctor == "config" && r.Bool(0.25) {
		cfg.Dests = 2
	}
	// (durations are not multiples of the handler's 5 s round: synctest fires
	// fake timers that expire at the same instant in random order)
	cfg.SlowMS = []int{503, 3011, 3011, 8053}[r.Intn(4)]

	nblobs := r.Range(1, 10)
	cfg.Blobs = sim.GenBlobSpecs(r, nblobs, 5000)
	for i := range cfg.Blobs {
		// distinct, non-empty contents: the oracles attribute events by ref
		if cfg.Blobs[i].Size < 4 {
			cfg.Blobs[i].Size = 4 + i
		}
	}

	// now and then a blob at the size limit (blobserver.MaxBlobSize, 16 MiB:
	// the largest blob a source accepts), or one byte below it
	if r.Bool(0.02) {
		cfg.Blobs[r.Intn(len(cfg.Blobs))].Size = 16<<20 - r.Intn(2)
	}

	// backlog: a full sync over a source that holds more blobs than runSync's
	// work buffer (lowered through the knob) takes in one go
	backlog := cfg.FullSync && r.Bool(0.3)
	if (cfg.FullSync || cfg.Validate) && (backlog || r.Bool(0.7)) {
		nextra := r.Range(1, 3)
		if backlog {
			nextra = r.Range(12, 30)
		}
		extra := sim.GenBlobSpecs(r, nextra, 3000)
		for i := range extra {
			if extra[i].Size < 4 {
				extra[i].Size = 40 + i
			}
			cfg.Pre = append(cfg.Pre, len(cfg.Blobs))
			if r.Bool(0.3) {
				cfg.PreDst = append(cfg.PreDst, len(cfg.Blobs))
			}
			cfg.Blobs = append(cfg.Blobs, extra[i])
		}
	}

	// One run in 25: validation over a shard in which source and destination
	// enumerations interleave: three blobs whose refs share the hash name and
	// the first two digest digits (one validation shard), the first and the
	// last only in the source, the middle one only at the destination. No
	// faults: the two source blobs must be found missing and delivered.
	crafted := false
	if cfg.Ctor == "config" && r.Intn(25) == 0 {
		byShard := map[string][]int{}
		var cand []sim.BlobSpec
		for k := 0; k < 400 && !crafted; k++ {
			sp := sim.BlobSpec{Size: 20 + k%13, Hash: "sha224", Kind: "raw", Salt: r.Uint64()}
			ref := sim.Materialise(sp).Ref.String()
			shard := ref[:len("sha224-")+2]
			cand = append(cand, sp)
			byShard[shard] = append(byShard[shard], len(cand)-1)
			if ix := byShard[shard]; len(ix) == 3 {
				trio := []sim.BlobSpec{cand[ix[0]], cand[ix[1]], cand[ix[2]]}
				sort.Slice(trio, func(a, b int) bool {
					return sim.Materialise(trio[a]).Ref.String() < sim.Materialise(trio[b]).Ref.String()
				})
				base := len(cfg.Blobs)
				cfg.Blobs = append(cfg.Blobs, trio...)
				cfg.Pre = append(cfg.Pre, base, base+2)
				cfg.DstOnly = append(cfg.DstOnly, base+1)
				cfg.Validate, cfg.FullSync, cfg.BlockFull = true, false, false
				crafted = true
			}
		}
	}

	nRestarts := []int{0, 0, 1, 1, 1, 2, 2, 3}[r.Intn(8)]
	if cfg.Ctor == "new" {
		nRestarts = 0
	}
	var ops []Op
	next, uploads := 0, 0
	pick := func() int {
		if next < nblobs && !(next > 0 && r.Bool(0.18)) {
			next++
			return next - 1
		}
		if next == 0 {
			next = 1
			return 0
		}
		return r.Intn(next) // re-upload of a blob offered before
	}
	for seg := 0; seg <= nRestarts; seg++ {
		segUploads := 0
		bursts := r.Range(0, 3)
		if seg == 0 && bursts == 0 {
			bursts = 1
		}
		if seg == nRestarts && seg > 0 && r.Bool(0.45) {
			bursts = 0 // pending deliveries must complete without any new upload
		}
		off := false
		for b := 0; b < bursts; b++ {
			n := r.Range(1, 4)
			for i := 0; i < n; i++ {
				bi := pick()
				ops = append(ops, Op{K: "upload", B: bi, Cancel: r.Bool(0.06)})
				if r.Bool(0.1) {
					ops = append(ops, Op{K: "upload", B: bi}) // the same blob twice at once
					uploads++
					segUploads++
				}
				uploads++
				segUploads++
				if r.Bool(0.3) {
					ops = append(ops, Op{K: "yield", N: r.Range(1, 8)})
				}
			}
			if r.Bool(0.7) {
				ops = append(ops, Op{K: "sleep", MS: []int{103, 1009, 4013, 6037, 12041, 30011}[r.Intn(6)]})
			} else if r.Bool(0.5) {
				ops = append(ops, Op{K: "yield", N: r.Range(1, 12)})
			}
			if r.Bool(0.06) {
				if off {
					ops = append(ops, Op{K: "faults-on"})
				} else {
					ops = append(ops, Op{K: "faults-off"})
				}
				off = !off
			}
		}
		if off {
			ops = append(ops, Op{K: "faults-on"})
		}
		if seg < nRestarts {
			n := 0
			if r.Bool(0.6) {
				n = r.Range(1, 8*segUploads+8)
			}
			ops = append(ops, Op{K: "restart", N: n})
		}
	}

	// fault plan: finite by construction (K bounded)
	var faults []sim.Fault
	kmax := 3*uploads + 6
	rate := func() float64 { return []float64{0, 0.1, 0.1, 0.3, 0.3, 0.6}[r.Intn(6)] }
	add := func(seam, method string, kinds []string, p float64) {
		for k := 1; k <= kmax; k++ {
			if !r.Bool(p) {
				continue
			}
			f := sim.Fault{Op: faultOp, Seam: seam, Method: method, K: k, Kind: kinds[r.Intn(len(kinds))]}
			if f.Kind == sim.FErr && seam != "queue" && r.Bool(0.15) {
				// a burst continues on the following calls of the seam whatever
				// their method: only the plain error is meaningful everywhere
				f.Burst = r.Range(2, 6)
			}
			faults = append(faults, f)
		}
	}
	if !r.Bool(0.08) && !crafted {
		add("src", "Fetch", []string{sim.FErr, sim.FShortRead, sim.FCorrupt, sim.FWrongSize}, rate())
		add("dst", "ReceiveBlob", []string{sim.FErr, sim.FErrAfter, sim.FWrongSize, sim.FSlow, sim.FErrNoEnt}, rate())
		// the source refusing an upload: that upload is not acknowledged
		add("src", "ReceiveBlob", []string{sim.FErr, sim.FErrAfter}, []float64{0, 0, 0.1, 0.2}[r.Intn(4)])
		if r.Bool(0.15) {
			// a long outage of the destination: many retry rounds
			faults = append(faults, sim.Fault{Op: faultOp, Seam: "dst", Method: "ReceiveBlob", K: r.Range(1, 5), Kind: sim.FErr, Burst: r.Range(5, 25)})
		}
	}
	if mode == "queuefaults" && !crafted {
		p := []float64{0.1, 0.3, 0.6}[r.Intn(3)]
		add("queue", "Set", []string{sim.FErr, sim.FErrAfter}, p)
		add("queue", "Delete", []string{sim.FErr, sim.FErrAfter}, p)
	}
	sort.SliceStable(faults, func(i, j int) bool {
		a, b := faults[i], faults[j]
		if a.Seam != b.Seam {
			return a.Seam < b.Seam
		}
		if a.Method != b.Method {
			return a.Method < b.Method
		}
		return a.K < b.K
	})

	if r.Bool(0.4) {
		cfg.PendingBatch = []int{1, 1, 2, 3}[r.Intn(4)]
		if r.Bool(0.5) {
			cfg.WorkBuf = cfg.PendingBatch + r.Intn(3)
		}
	}
	if cfg.Ctor == "config" && r.Bool(0.15) {
		cfg.ViaReplica = true
	}
	if (cfg.FullSync || cfg.Validate) && r.Bool(0.35) {
		cfg.SrcShort = []int{0, 1, 2, 5}[r.Intn(4)]
		cfg.DstShort = []int{0, 1, 2, 5}[r.Intn(4)]
	}
	if backlog {
		cfg.WorkBuf = r.Range(1, 3)
		cfg.PendingBatch = r.Range(1, cfg.WorkBuf)
	}
	p := &harness.Plan{Mode: mode, Bubble: true, Config: harness.MustJSON(cfg), Faults: faults}
	p.LockYield = []int{0, 0, 30, 300}[r.Intn(4)]
	p.Sticky = []int{0, 0, 500, 900}[r.Intn(4)]
	for _, op := range ops {
		p.Ops = append(p.Ops, harness.MustJSON(op))
	}
	return p
}
