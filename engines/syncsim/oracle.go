package syncsim

import (
	"bytes"
	"fmt"
	"html"
	"net/http/httptest"
	"regexp"
	"sort"
	"strconv"
	"strings"

	"perkeep.org/pkg/blob"
	"perkeep.org/pkg/server"

	"verif/harness"
	"verif/sim"
)

func (r *run) cfgShort() string {
	fs := "off"
	if r.cfg.FullSync {
		fs = "on"
	}
	if r.cfg.BlockFull {
		fs = "blocking"
	}
	s := fmt.Sprintf("sync(%s,fullSync=%s", r.cfg.Ctor, fs)
	if r.cfg.Validate {
		s += ",validate"
	}
	if r.p.Mode == "queuefaults" {
		s += ",queuefaults"
	}
	if r.cfg.Dests == 2 {
		s += ",two-handlers"
	}
	return s + ")"
}

func (r *run) describe() string {
	return fmt.Sprintf("%s copierPoolSize=%d, %d blobs, %d ops, %d restarts", r.cfgShort(), r.cfg.Pool, len(r.pool), len(r.ops), len(r.restarts))
}

// viol records a violation unless it is a listed known finding.
func (r *run) viol(class, cause, detail string, op int) {
	sig := class
	if cause != "" {
		sig += "|" + cause
	}
	sig += "@" + r.cfgShort()
	if what, ok := harness.Known(r.p.Prop, sig); ok && !r.cfg.ReportKnown {
		r.out.NoteKnown(what)
		return
	}
	r.viols = append(r.viols, harness.Viol(class, sig, r.describe()+": "+detail, op))
}

func (r *run) blobOf(ref string) *sim.TBlob {
	for _, b := range r.pool {
		if b.Ref.String() == ref {
			return b
		}
	}
	return nil
}

func (r *run) nameOf(ref string) string {
	for i, b := range r.pool {
		if b.Ref.String() == ref {
			return fmt.Sprintf("b%d", i)
		}
	}
	return ref
}

// loopRan reports whether the last handler's sync loop ever completed a round
// (its status line says so).
func (r *run) loopRan() bool {
	n := len(r.handlers)
	if n == 0 || r.handlers[n-1] == nil {
		return false
	}
	return strings.Contains(statusOf(r.handlers[n-1]).status, "Sleeping briefly")
}

// handlerStatus is what the handler's own status page (SyncHandler.ServeHTTP,
// exported API) reports.
type handlerStatus struct {
	status                           string
	synced, toCopy, errors, inFlight int
}

var (
	reStatus = regexp.MustCompile(`Current status: </b>([^<]*)</p>`)
	reSynced = regexp.MustCompile(`Blobs synced: (\d+)`)
	reToCopy = regexp.MustCompile(`Blobs yet to copy: (\d+)`)
	reErrors = regexp.MustCompile(`Previous copy errors: (\d+)`)
)

// statusOf renders the status page. Called from the root goroutine between
// scheduler runs only (every goroutine of the handler is blocked then).
func statusOf(sh *server.SyncHandler) (hs handlerStatus) {
	if sh == nil {
		return
	}
	defer func() { recover() }()
	rec := httptest.NewRecorder()
	sh.ServeHTTP(rec, httptest.NewRequest("GET", "/sync/", nil))
	body := rec.Body.String()
	num := func(re *regexp.Regexp) int {
		if m := re.FindStringSubmatch(body); m != nil {
			n, _ := strconv.Atoi(m[1])
			return n
		}
		return -1
	}
	if m := reStatus.FindStringSubmatch(body); m != nil {
		hs.status = html.UnescapeString(m[1])
	}
	hs.synced, hs.toCopy, hs.errors = num(reSynced), num(reToCopy), num(reErrors)
	if i := strings.Index(body, "<h2>Currently Copying</h2>"); i >= 0 {
		rest := body[i:]
		if j := strings.Index(rest, "</ul>"); j >= 0 {
			rest = rest[:j]
		}
		hs.inFlight = strings.Count(rest, "<li>")
	}
	return hs
}

// scanDst (safety-2): the destination never holds bytes that do not hash to
// their ref.
func (r *run) scanDst(op int) {
	dst := r.w.Store("dst")
	for _, ref := range dst.Refs() {
		data, _ := dst.Get(ref)
		br, ok := blob.Parse(ref)
		if !ok {
			r.viol("dst-corrupt", "bad-ref", fmt.Sprintf("the destination holds an unparsable ref %q", ref), op)
			return
		}
		h := br.Hash()
		h.Write(data)
		if !br.HashMatches(h) {
			r.viol("dst-corrupt", "", fmt.Sprintf("the destination holds %d bytes under %s (%s) that do not hash to it", len(data), r.nameOf(ref), ref), op)
			return
		}
		if b := r.blobOf(ref); b == nil {
			r.viol("dst-corrupt", "unknown-blob", fmt.Sprintf("the destination holds %s which was never offered to the source", ref), op)
			return
		}
	}
}

func (r *run) genOf(seq uint64) int {
	g := 0
	for i, s := range r.genStart {
		if s <= seq {
			g = i
		}
	}
	return g
}

func (r *run) uploadOpOf(ref string) int {
	op := -1
	for _, u := range r.uploads {
		if r.pool[u.B].Ref.String() == ref && u.Acked {
			op = u.Op
		}
	}
	if op < 0 {
		for _, u := range r.uploads {
			if r.pool[u.B].Ref.String() == ref {
				op = u.Op
			}
		}
	}
	return op
}

// check runs the oracles over the recorded history and the final state.
func (r *run) check() {
	out := r.out
	qst := r.w.KVState("queue")
	qlog := append([]sim.KVEvent(nil), qst.Log...)
	dst := r.w.Store("dst")
	dlog := append([]sim.StoreEvent(nil), dst.Log...)
	queueFaults := r.p.Mode == "queuefaults"
	final := len(r.ops)

	// --- safety-2
	r.scanDst(final)

	// --- safety-1: a queue row is deleted only after the destination
	// acknowledged that blob, in the same generation, earlier in the history
	for _, ev := range qlog {
		if ev.Op != "delete" {
			continue
		}
		g := r.genOf(ev.Seq)
		ok := false
		for _, de := range dlog {
			if de.Op == "recv-ret" && de.OK && de.Ref == ev.Key && de.Seq < ev.Seq && de.Seq > r.genStart[g] {
				ok = true
				break
			}
		}
		if ok {
			continue
		}
		// what did the destination say, if anything?
		said := "the destination was never asked to receive it in that generation"
		for _, de := range dlog {
			if de.Op == "recv-ret" && de.Ref == ev.Key && de.Seq < ev.Seq && de.Seq > r.genStart[g] {
				said = "the destination's only answers before that were failures (error or wrong size)"
			}
		}
		r.viol("queue-row-deleted-before-ack", "", fmt.Sprintf("queue row of %s (%s) was deleted in generation %d (event %d) although no destination ReceiveBlob of it had returned success before in that generation: %s", r.nameOf(ev.Key), ev.Key, g, ev.Seq, said), r.uploadOpOf(ev.Key))
		break
	}

	// --- liveness (bounded) and durability
	// must be delivered: every acknowledged upload; every row that was in the
	// queue when a process died; every row still in the queue now
	type need struct {
		why string
		op  int
	}
	must := map[string]need{}
	var order []string
	addNeed := func(ref, why string, op int) {
		if _, ok := must[ref]; !ok {
			must[ref] = need{why, op}
			order = append(order, ref)
		}
	}
	acked, unacked := 0, 0
	for _, u := range r.uploads {
		if u.Acked {
			acked++
			addNeed(r.pool[u.B].Ref.String(), fmt.Sprintf("its upload (op #%d, generation %d) was acknowledged by blobserver.Receive on the source", u.Op, u.Gen), u.Op)
			if !u.RowAtAck && !u.DstAtAck {
				out.Reached["ack-without-queue-row"]++
			}
		} else {
			unacked++
		}
	}
	for i, ri := range r.restarts {
		for _, ref := range ri.Rows {
			addNeed(ref, fmt.Sprintf("its row was in the queue when the process died (restart #%d, op #%d)", i+1, ri.Op), ri.Op)
		}
	}
	rowsNow := qst.Snapshot()
	for _, ref := range sim.SortedKeys(rowsNow) {
		addNeed(ref, "its row is still in the queue", r.uploadOpOf(ref))
	}
	// the source accepted the blob but the upload was not acknowledged: the
	// client went away, the hook failed, or the process died
	storedOnly := map[string]*upload{}
	for _, u := range r.uploads {
		ref := r.pool[u.B].Ref.String()
		if u.Acked || !u.Stored {
			continue
		}
		if _, ok := must[ref]; ok {
			continue
		}
		how := "the upload then failed"
		switch {
		case u.Cancelled && u.Done:
			how = "the client's context was cancelled right after"
		case !u.Done:
			how = "the process died before the upload returned"
		}
		addNeed(ref, fmt.Sprintf("the source store accepted it (upload op #%d, generation %d; no fault on that call; %s)", u.Op, u.Gen, how), u.Op)
		storedOnly[ref] = u
	}
	out.Reached["upload-acked"] += acked
	out.Reached["upload-not-acked"] += unacked
	delivered := 0
	for _, ref := range order {
		b := r.blobOf(ref)
		if b == nil {
			continue // reported by scanDst / cannot happen
		}
		got, ok := dst.Get(ref)
		if ok && bytes.Equal(got, b.Data) {
			delivered++
			continue
		}
		if ok {
			continue // wrong bytes: dst-corrupt above
		}
		n := must[ref]
		// cause, for the signature
		_, rowNow := rowsNow[ref]
		everSet := false
		for _, ev := range qlog {
			if ev.Op == "set" && ev.Key == ref {
				everSet = true
			}
		}
		cause := "never-queued"
		switch {
		case rowNow:
			cause = "row-still-queued"
			if !r.loopRan() {
				cause += "+sync-loop-not-running"
			}
		case everSet:
			cause = "row-gone"
		default:
			// acknowledged without a row: was another upload of the same
			// blob in flight in that generation (the hook treats the second
			// one as a duplicate and returns before the first wrote the row)?
			for _, u := range r.uploads {
				if !u.Acked || r.pool[u.B].Ref.String() != ref {
					continue
				}
				for _, v := range r.uploads {
					if v != u && v.Gen == u.Gen && v.B == u.B && v.Start < u.Ret && (!v.Done || v.Ret > u.Start) {
						cause = "dup-upload-acked-before-row-written"
					}
				}
			}
		}
		if u := storedOnly[ref]; u != nil {
			if queueFaults {
				// the hook may have failed on an injected queue error: the
				// client was told, it is its turn
				out.Reached["qf:stored-unacknowledged-not-delivered"]++
				continue
			}
			if cause == "never-queued" {
				if !u.Done {
					cause = "source-stored-process-died-before-enqueue"
					if (r.cfg.FullSync || r.cfg.Validate) && len(r.p.Faults) == 0 {
						// a start-up pass over the whole source ran
						// undisturbed after the restart and must have
						// found the blob
						cause += "+full-pass-did-not-repair"
					}
				} else {
					cause = "source-stored-never-queued"
				}
			}
		}
		detail := fmt.Sprintf("%s (%s, %d bytes) is not at the destination %d virtual seconds after the last fault and the last restart, although %s; cause class: %s; queue rows now: %d", r.nameOf(ref), ref, len(b.Data), r.cfg.BoundS, n.why, cause, len(rowsNow))
		// (also under queue-write faults: an upload is acknowledged only
		// after its row was written, and a row leaves the queue only after
		// the delivery, whatever else fails in between)
		if queueFaults {
			out.Reached["qf:not-delivered("+cause+")"]++
		}
		class := "not-delivered"
		if strings.HasPrefix(n.why, "its row was in the queue when") {
			class = "pending-row-not-delivered-after-restart"
		}
		r.viol(class, cause, detail, n.op)
	}
	out.Reached["blob-delivered"] += delivered

	// --- blobs the source held before the handler existed: fullSyncOnStart
	// and validateOnStart are documented to bring them over. Both make one
	// pass per start and do not retry a copy that failed, so this is demanded
	// only of runs without planned faults (crashes and restarts may occur).
	if len(r.cfg.Pre) > 0 && (r.cfg.FullSync || r.cfg.Validate) {
		if len(r.p.Faults) > 0 {
			out.Reached["pre-existing-blobs-with-faults(not-judged)"]++
		} else {
			n := 0
			for _, bi := range r.cfg.Pre {
				b := r.pool[bi]
				ref := b.Ref.String()
				if got, ok := dst.Get(ref); ok && bytes.Equal(got, b.Data) {
					n++
					continue
				}
				how := "fullSyncOnStart"
				if !r.cfg.FullSync {
					how = "validateOnStart"
				}
				r.viol("pre-existing-not-delivered", how, fmt.Sprintf("%s (%s, %d bytes) was in the source before the sync handler started and is not at the destination %d virtual seconds after the last restart although the handler was configured with %s and no fault was planned", r.nameOf(ref), ref, len(b.Data), r.cfg.BoundS, how), -1)
				break
			}
			out.Reached["pre-existing-blob-delivered"] += n
		}
	}

	// --- the second destination: same statement, checked at the end only
	if r.cfg.Dests == 2 {
		dst2 := r.w.Store("dst2")
		for _, name := range sim.SortedKeys(dst2.Snapshot()) {
			got, _ := dst2.Get(name)
			if b := r.blobOf(name); b == nil || !bytes.Equal(got, b.Data) {
				r.viol("dst-corrupt", "second-destination", fmt.Sprintf("the second destination holds %s with bytes that are not those of an uploaded blob of that name", name), r.uploadOpOf(name))
				break
			}
		}
		n2 := 0
		for _, u := range r.uploads {
			if !u.Acked {
				continue
			}
			b := r.pool[u.B]
			ref := b.Ref.String()
			if dst2.Has(ref) {
				n2++
				continue
			}
			_, row := r.w.KVState("queue2").Snapshot()[ref]
			r.viol("not-delivered", "second-destination", fmt.Sprintf("%s (%s, %d bytes) is not at the second destination (a second sync handler on the same source, constructed concurrently with the first) %d virtual seconds after the last fault and the last restart, although its upload (op #%d, generation %d) was acknowledged; its row is in the second queue: %v", r.nameOf(ref), ref, len(b.Data), r.cfg.BoundS, u.Op, u.Gen, row), u.Op)
			break
		}
		out.Reached["second-destination-checked"]++
		out.Reached["blob-delivered-to-second-destination"] += n2
	}

	// --- the queue drains: a row that outlives its delivery is accepted only
	// when the history explains it (the hook writes the row after the memory
	// entry; the copy may finish, and delete nothing, in between)
	for _, ref := range sim.SortedKeys(rowsNow) {
		b := r.blobOf(ref)
		got, ok := dst.Get(ref)
		if b == nil || !ok || !bytes.Equal(got, b.Data) {
			continue
		}
		var lastSet, delBefore uint64
		for _, ev := range qlog {
			if ev.Key == ref && ev.Op == "set" {
				lastSet = ev.Seq
			}
		}
		g := r.genOf(lastSet)
		for _, ev := range qlog {
			if ev.Key == ref && ev.Op == "delete" && ev.Seq < lastSet && ev.Seq > r.genStart[g] {
				delBefore = ev.Seq
			}
		}
		switch {
		case delBefore != 0:
			out.Reached["stale-row:set-after-delete-race"]++
		case queueFaults:
			out.Reached["qf:row-left-after-delivery"]++
		default:
			cause := ""
			if !r.loopRan() {
				cause = "sync-loop-not-running"
			}
			r.viol("queue-not-drained", cause, fmt.Sprintf("the row of %s (%s) is still in the queue %d virtual seconds after the faults stopped although the blob is at the destination, and no delete of it preceded its last write in generation %d", r.nameOf(ref), ref, r.cfg.BoundS, g), r.uploadOpOf(ref))
		}
	}

	r.probes(qlog, dlog)
	r.sample = map[string]any{
		"acked":        acked,
		"notAcked":     unacked,
		"mustDeliver":  len(order),
		"delivered":    delivered,
		"drainedAfter": r.drainS,
		"queueRowsEnd": len(rowsNow),
	}
	r.acked = acked
	r.finish()
}

// finish turns what the run collected into the outcome.
func (r *run) finish() {
	out := r.out
	if len(r.viols) > 0 {
		// precedence: safety before liveness
		rank := func(c string) int {
			switch c {
			case "dst-corrupt":
				return 0
			case "queue-row-deleted-before-ack":
				return 1
			case "pending-row-not-delivered-after-restart":
				return 2
			case "not-delivered":
				return 3
			}
			return 4
		}
		sort.SliceStable(r.viols, func(i, j int) bool { return rank(r.viols[i].Class) < rank(r.viols[j].Class) })
		out.Violation = r.viols[0]
	}
	for k, v := range r.env.Fired {
		out.Fired[k] += v
	}
	for k, v := range r.env.Reached {
		out.Reached[k] += v
	}
	var kinds strings.Builder
	for _, op := range r.ops {
		kinds.WriteByte(op.K[0])
	}
	var sites strings.Builder
	for _, f := range r.p.Faults {
		if sites.Len() > 48 {
			break
		}
		if f.Seam == "" || f.Method == "" || f.Kind == "" {
			continue
		}
		sites.WriteByte(f.Seam[0])
		sites.WriteByte(f.Method[0])
		sites.WriteByte(f.Kind[0])
		if len(f.Kind) > 4 {
			sites.WriteByte(f.Kind[4])
		}
	}
	out.ShapeKey = fmt.Sprintf("%s,p%d|%s|%s", r.cfgShort(), r.cfg.Pool, kinds.String(), sites.String())
	out.Nontrivial = r.acked > 0 && len(r.ops) >= 2
	if r.drainS >= 0 {
		switch {
		case r.drainS <= 5:
			out.Reached["drained<=5s"]++
		case r.drainS <= 15:
			out.Reached["drained<=15s"]++
		case r.drainS <= 60:
			out.Reached["drained<=60s"]++
		default:
			out.Reached["drained<=bound"]++
		}
	}
	var opStr []string
	for i, op := range r.ops {
		if i >= 14 {
			opStr = append(opStr, fmt.Sprintf("… %d more", len(r.ops)-i))
			break
		}
		opStr = append(opStr, op.String())
	}
	sample := map[string]any{"config": r.describe(), "ops": opStr, "plannedFaults": len(r.p.Faults)}
	for k, v := range r.sample {
		sample[k] = v
	}
	if n := len(r.handlers); n > 0 && r.handlers[n-1] != nil {
		hs := statusOf(r.handlers[n-1])
		sample["lastHandlerStatusPage"] = map[string]any{"blobsSynced": hs.synced, "blobsYetToCopy": hs.toCopy, "copyErrors": hs.errors, "currentlyCopying": hs.inFlight}
		if hs.inFlight > 0 {
			// the status page lists a copy that finished long ago
			out.Reached["status-page-shows-finished-copy-as-in-progress"]++
		}
	}
	out.Sample = sample
}

// probes derives the rare-branch counters from the history.
func (r *run) probes(qlog []sim.KVEvent, dlog []sim.StoreEvent) {
	out := r.out
	fired := r.env.Fired
	corrupt := false
	early := false
	for _, v := range r.viols {
		if v.Class == "dst-corrupt" {
			corrupt = true
		}
		if v.Class == "queue-row-deleted-before-ack" {
			early = true
		}
	}
	if !corrupt {
		out.Reached["corrupt-read-rejected"] += fired[sim.FCorrupt]
		out.Reached["short-read-rejected"] += fired[sim.FShortRead]
	}
	if !early {
		out.Reached["size-mismatch-rejected"] += fired[sim.FWrongSize]
	}
	out.Reached["slow-dest"] += fired[sim.FSlow]

	// retry-after-failure: within one generation the same blob is fetched
	// again with no queue delete of it in between, and is then delivered
	type key struct {
		g   int
		ref string
	}
	lastFetch := map[key]uint64{}
	for _, f := range r.fetches {
		k := key{r.genOf(f.Seq), f.Ref}
		if prev, ok := lastFetch[k]; ok {
			deleted := false
			for _, ev := range qlog {
				if ev.Op == "delete" && ev.Key == f.Ref && ev.Seq > prev && ev.Seq < f.Seq {
					deleted = true
				}
			}
			if !deleted {
				for _, de := range dlog {
					if de.Op == "recv-ret" && de.OK && de.Ref == f.Ref && de.Seq > f.Seq {
						out.Reached["retry-after-failure"]++
						break
					}
				}
			}
		}
		lastFetch[k] = f.Seq
	}

	// err-after-dup-delivery: the destination stored the blob, reported an
	// error, and later received it again successfully
	byRef := map[string][]sim.StoreEvent{}
	var refs []string
	for _, de := range dlog {
		if _, ok := byRef[de.Ref]; !ok {
			refs = append(refs, de.Ref)
		}
		byRef[de.Ref] = append(byRef[de.Ref], de)
	}
	for _, ref := range refs {
		evs := byRef[ref]
		lost := false
		for i, de := range evs {
			if de.Op == "recv" && de.OK && i+1 < len(evs) && evs[i+1].Op == "recv-ret" && !evs[i+1].OK {
				lost = true
			}
			if lost && de.Op == "recv-ret" && de.OK {
				out.Reached["err-after-dup-delivery"]++
				break
			}
		}
	}

	// enqueue-during-copy: a queue row is written while a copy of another
	// blob is between its source fetch and the destination's answer
	for _, f := range r.fetches {
		var end uint64
		for _, de := range dlog {
			if de.Op == "recv-ret" && de.Ref == f.Ref && de.Seq > f.Seq {
				end = de.Seq
				break
			}
		}
		if end == 0 {
			continue
		}
		hit := false
		for _, ev := range qlog {
			if ev.Op == "set" && ev.Key != f.Ref && ev.Seq > f.Seq && ev.Seq < end {
				hit = true
			}
		}
		if hit {
			out.Reached["enqueue-during-copy"]++
		}
	}
	// dup delivery after a restart: the destination acknowledged the blob in
	// one generation and again in a later one (row survived the crash)
	for _, ref := range refs {
		gens := map[int]bool{}
		for _, de := range byRef[ref] {
			if de.Op == "recv-ret" && de.OK {
				gens[r.genOf(de.Seq)] = true
			}
		}
		if len(gens) > 1 {
			out.Reached["redelivered-after-restart"]++
		}
	}
}
