// Package syncsim is the engine of property C19: the asynchronous sync handler
// (pkg/server/sync.go) delivers every blob the source acknowledged to the
// destination once failures stop, and its persistent queue survives crashes.
//
// One run = one handler life: a source SimStore "src" that receives uploads
// through blobserver.Receive (so the BlobHub receive hook fires as in the
// server), a destination SimStore "dst", a SimKV "queue", and the real
// SyncHandler built the way serverinit builds it. Uploads are scheduler tasks
// interleaved with the handler's copy loop at every seam call; faults are
// addressed by call count per seam method (finite by construction); a restart
// kills the process generation (every seam handle of the old generation blocks
// forever) and builds a new handler over the same durable state. After the
// last operation the fault plan is switched off and a bounded amount of
// virtual time passes before the oracles look at the recorded history.
package syncsim

import (
	"bytes"
	"context"
	"encoding/json"
	"errors"
	"fmt"
	"io"
	"time"
	"verif/engines/knobs"

	"go4.org/jsonconfig"
	"perkeep.org/pkg/blob"
	"perkeep.org/pkg/blobserver"
	"perkeep.org/pkg/server"

	"verif/harness"
	"verif/sim"
	"verif/simcore"
)

type engine struct{}

func init() { harness.Register(engine{}) }

func (engine) Name() string    { return "syncsim" }
func (engine) Props() []string { return []string{"C19"} }

func (engine) Gen(prop, tier string, run int, r *simcore.Rand) *harness.Plan {
	return gen(tier, run, r)
}

// upload is the record of one upload task.
type upload struct {
	Op    int // index into Plan.Ops
	B     int
	Gen   int
	Start uint64
	// Done: blobserver.Receive returned while the process was alive.
	Done  bool
	Acked bool
	Err   error
	Ret   uint64
	// state of the world at the instant of the acknowledgement
	RowAtAck, DstAtAck bool
	// Stored: the source store accepted the blob (its ReceiveBlob returned
	// success, no fault on that call). The blob has been received by the
	// source: it must be delivered whether or not the client ever saw an
	// answer. Cancelled: the client went away (its context was cancelled)
	// right after that.
	Stored    bool
	Cancelled bool
}

// cancelKey carries the upload record in the upload's context; with a cancel
// function, the client goes away right after the source store accepted the
// blob.
type cancelKey struct{}

type cancelInfo struct {
	cancel context.CancelFunc
	u      *upload
}

// ReceiveBlob: see cancelKey.
func (s *srcStore) ReceiveBlob(ctx context.Context, br blob.Ref, src io.Reader) (blob.SizedRef, error) {
	sb, err := s.SimStore.ReceiveBlob(ctx, br, src)
	if ci, ok := ctx.Value(cancelKey{}).(*cancelInfo); ok && err == nil {
		ci.u.Stored = true
		if ci.cancel != nil {
			ci.u.Cancelled = true
			s.r.out.Reached["upload-cancelled-after-store"]++
			ci.cancel()
		}
	}
	return sb, err
}

type fetchEv struct {
	Seq uint64
	Ref string
}

type restartInfo struct {
	Op      int
	Seq     uint64
	Rows    []string // queue rows present when the process died
	Crashed bool     // died at a seeded seam call (else: at quiescence of the client tasks)
}

type run struct {
	rc   *harness.RunCtx
	p    *harness.Plan
	cfg  *Config
	ops  []Op
	env  *sim.Env
	w    *sim.World
	pool []*sim.TBlob
	out  *harness.Outcome

	uploads  []*upload
	fetches  []fetchEv
	genStart []uint64 // event sequence number at which generation g began
	restarts []restartInfo
	handlers []*server.SyncHandler
	drainS   int // virtual seconds of the healthy tail until everything was delivered (-1: never)
	viols    []*harness.Violation
	sample   map[string]any
	acked    int
}

// loader is the blobserver.Loader handed to the handler constructor: the
// World, with the source wrapped so that its Fetch calls are logged.
type loader struct {
	*sim.World
	r     *run
	built map[string]blobserver.Storage
}

func (l *loader) GetStorage(prefix string) (blobserver.Storage, error) {
	if s, ok := l.built[prefix]; ok {
		return s, nil
	}
	s, err := l.World.GetStorage(prefix)
	if err != nil {
		return nil, err
	}
	if ss, ok := s.(*sim.SimStore); ok && prefix == "/src/" {
		s = &srcStore{SimStore: ss, r: l.r}
	}
	l.built[prefix] = s
	return s, nil
}

func (l *loader) GetHandler(prefix string) (any, error) { return l.GetStorage(prefix) }

// srcStore logs which blob every source Fetch asked for (SimStore logs
// mutations only).
type srcStore struct {
	*sim.SimStore
	r *run
}

func (s *srcStore) Fetch(ctx context.Context, br blob.Ref) (io.ReadCloser, uint32, error) {
	s.r.fetches = append(s.r.fetches, fetchEv{Seq: simcore.Seq(), Ref: br.String()})
	return s.SimStore.Fetch(ctx, br)
}

type segment struct {
	r    *run
	no   int
	gen  *sim.Gen
	ops  []Op
	base int
	src  blobserver.Storage
	// up: what clients upload to (the source, or a replica set over it)
	up       blobserver.Storage
	sh       *server.SyncHandler
	buildErr error
	// the second handler (Config.Dests == 2)
	sh2       *server.SyncHandler
	buildErr2 error
	built     bool
	crashed   bool
}

func (engine) Exec(rc *harness.RunCtx, p *harness.Plan) *harness.Outcome {
	out := &harness.Outcome{Fired: map[string]int{}, Reached: map[string]int{}}
	knobsDone := knobs.Apply(p)
	defer func() { knobsDone(out) }()
	if rc.Sched == nil {
		out.Inconclusive = "syncsim runs under the scheduler only (Plan.Bubble)"
		return out
	}
	var cfg Config
	if err := json.Unmarshal(p.Config, &cfg); err != nil {
		out.Inconclusive = "bad config: " + err.Error()
		return out
	}
	ops := make([]Op, len(p.Ops))
	for i, raw := range p.Ops {
		if err := json.Unmarshal(raw, &ops[i]); err != nil {
			out.Inconclusive = "bad op: " + err.Error()
			return out
		}
		if ops[i].K == "upload" && (ops[i].B < 0 || ops[i].B >= len(cfg.Blobs)) {
			out.Inconclusive = "op refers to blob outside pool"
			return out
		}
	}
	if cfg.PendingBatch > 0 || cfg.WorkBuf > 0 {
		if cfg.WorkBuf > 0 && cfg.PendingBatch > cfg.WorkBuf {
			out.Inconclusive = "bad config: pendingBatch > workBuf"
			return out
		}
		if oldP, oldW, ok := server.VerifSetSyncBatches(cfg.PendingBatch, cfg.WorkBuf); ok {
			defer server.VerifSetSyncBatches(oldP, oldW)
			if cfg.PendingBatch > 0 {
				out.Reached["pending-batch-lowered"]++
			}
			if cfg.WorkBuf > 0 {
				out.Reached["work-buffer-lowered"]++
			}
		}
	}
	if cfg.BoundS <= 0 {
		cfg.BoundS = 120
	}
	if cfg.Pool <= 0 {
		cfg.Pool = 5
	}
	r := &run{rc: rc, p: p, cfg: &cfg, ops: ops, env: rc.Env, out: out, drainS: -1}
	out.Ops = len(ops)
	for _, sp := range cfg.Blobs {
		r.pool = append(r.pool, sim.Materialise(sp))
	}
	r.exec()
	return out
}

func (r *run) exec() {
	env, out := r.env, r.out
	env.BeginOp(faultOp)
	env.SlowDur = time.Duration(r.cfg.SlowMS) * time.Millisecond
	if env.SlowDur <= 0 {
		env.SlowDur = 3 * time.Second
	}
	// fault table: one crash slot per restart op (armed when its generation
	// starts), then the plan's call-count addressed faults
	nRestart := 0
	for _, op := range r.ops {
		if op.K == "restart" {
			nRestart++
		}
	}
	var faults []sim.Fault
	for i := 0; i < nRestart; i++ {
		faults = append(faults, sim.Fault{Op: -1, Call: 0, Kind: sim.FCrash})
	}
	for _, f := range r.p.Faults {
		if f.Kind == sim.FCrash || f.Seam == "" || f.Method == "" || f.K <= 0 {
			continue
		}
		if f.Seam == "queue" && r.p.Mode != "queuefaults" {
			continue
		}
		f.Op = faultOp
		faults = append(faults, f)
	}
	env.Faults = faults

	// every blocking point of a run is bounded (sleeps <= 2 min per op, slow
	// faults, 5 s rounds): half an hour of idling with unfinished tasks is a hang
	r.rc.Sched.MaxVirtual = 30 * time.Minute
	r.w = sim.NewWorld(env, r.rc.Scratch)
	r.w.Register(&sim.Node{Type: "sim", Name: "src", ShortPages: r.cfg.SrcShort})
	r.w.Register(&sim.Node{Type: "sim", Name: "dst", ShortPages: r.cfg.DstShort})
	if r.cfg.SrcShort > 0 || r.cfg.DstShort > 0 {
		out.Reached["stores-sending-short-enumeration-pages"]++
	}
	if r.cfg.Dests == 2 {
		r.w.Register(&sim.Node{Type: "sim", Name: "dst2"})
	}
	if r.cfg.ViaReplica {
		r.w.Register(&sim.Node{Type: "sim", Name: "aux"})
	}

	for _, bi := range r.cfg.Pre {
		if bi >= 0 && bi < len(r.pool) {
			r.w.Store("src").Put(r.pool[bi].Ref.String(), r.pool[bi].Data)
		}
	}
	for _, bi := range append(append([]int{}, r.cfg.PreDst...), r.cfg.DstOnly...) {
		if bi >= 0 && bi < len(r.pool) {
			r.w.Store("dst").Put(r.pool[bi].Ref.String(), r.pool[bi].Data)
		}
	}
	if len(r.cfg.DstOnly) > 0 {
		out.Reached["validation-shard-with-interleaved-source-and-destination-blobs"]++
	}

	segStart, segNo := 0, 0
	for {
		end := len(r.ops)
		for i := segStart; i < len(r.ops); i++ {
			if r.ops[i].K == "restart" {
				end = i
				break
			}
		}
		last := end == len(r.ops)
		seg := &segment{r: r, no: segNo, gen: env.Gen, ops: r.ops[segStart:end], base: segStart}
		r.genStart = append(r.genStart, simcore.Seq())
		env.FaultsOn = true // a "faults-off" phase ends with its process
		if !last && r.ops[end].N > 0 {
			env.Faults[segNo].Call = env.Calls() + r.ops[end].N
		}
		env.OnCrash = func() {
			seg.crashed = true
			r.rc.Sched.AbandonTasks()
		}
		r.rc.Sched.Go("drv", seg.drive)
		err := r.rc.Sched.Run()
		if err != nil && !seg.crashed {
			if errors.Is(err, simcore.ErrHang) && !seg.built {
				// the constructor never returned: the handler never starts
				r.viol("startup-never-finished", "", fmt.Sprintf("generation %d: the sync handler's constructor had not returned after %v of virtual time with every goroutine blocked (no fault pending)", segNo, r.rc.Sched.MaxVirtual), segStart)
				r.finish()
				return
			}
			out.Inconclusive = fmt.Sprintf("generation %d: %v", segNo, err)
			return
		}
		if seg.buildErr != nil && !seg.crashed && r.p.Mode == "queuefaults" && sim.IsInjected(seg.buildErr) {
			// the queue could not be read at start: the server does not come
			// up; outside the statement's quantifier
			out.Reached["qf:startup-failed-on-queue-read"]++
			r.finish()
			return
		}
		if seg.buildErr != nil && !seg.crashed {
			out.Inconclusive = fmt.Sprintf("generation %d: building the sync handler failed: %v", segNo, seg.buildErr)
			return
		}
		r.handlers = append(r.handlers, seg.sh)
		if last {
			break
		}
		env.Faults[segNo].Call = 0
		if seg.crashed {
			out.Reached["crash-at-seam-call"]++
		} else {
			out.Reached["restart-at-quiescence"]++
		}
		r.noteRestart(seg, end)
		r.w.Restart(false)
		r.rc.Sched.AbandonTasks()
		segStart, segNo = end+1, segNo+1
	}

	// healthy tail: failures have stopped, no restart follows
	env.FaultsOn = false
	tailStart := time.Now()
	r.rc.Sched.Go("tail", func() {
		time.Sleep(317 * time.Millisecond)
		for t := 0; t <= r.cfg.BoundS; t++ {
			if r.drainS < 0 && r.allDelivered() && r.w.KVState("queue").Len() == 0 && (r.cfg.Dests != 2 || r.w.KVState("queue2").Len() == 0) {
				r.drainS = t
				return
			}
			if t < r.cfg.BoundS {
				time.Sleep(time.Second)
			}
		}
	})
	if err := r.rc.Sched.Run(); err != nil {
		if errors.Is(err, simcore.ErrSteps) {
			out.Inconclusive = "healthy tail: " + err.Error()
			return
		}
		out.Inconclusive = "healthy tail never became quiescent: " + err.Error()
		return
	}
	_ = tailStart
	r.check()
	// freeze the last generation: nothing may run while the outcome is built
	r.w.Restart(false)
}

func (s *segment) dead() bool { return s.gen.Dead() }

// drive is the client side of one process generation: start the handler,
// then issue the operations.
func (s *segment) drive() {
	if s.no > 0 {
		// the new process comes up a little later, and never exactly a multiple
		// of the retry interval after its predecessors: Go's synctest fires
		// fake timers expiring at the same instant in random order, and the
		// frozen loops of dead generations keep their timers
		time.Sleep(time.Duration(7*s.no) * time.Millisecond)
	}
	s.build()
	s.built = true
	if s.dead() {
		select {}
	}
	if s.buildErr != nil {
		return
	}
	r := s.r
	for i, op := range s.ops {
		idx := s.base + i
		switch op.K {
		case "upload":
			bi, cancel := op.B, op.Cancel
			r.rc.Sched.Go("up", func() { s.upload(idx, bi, cancel) })
		case "sleep":
			ms := op.MS
			if ms > 120000 {
				ms = 120000
			}
			if ms > 0 {
				time.Sleep(time.Duration(ms) * time.Millisecond)
			}
		case "yield":
			n := op.N
			if n > 1000 {
				n = 1000
			}
			for j := 0; j < n; j++ {
				simcore.Yield("drv")
				if s.dead() {
					select {}
				}
			}
		case "faults-off":
			r.env.FaultsOn = false
		case "faults-on":
			r.env.FaultsOn = true
		}
		if s.dead() {
			select {}
		}
	}
}

func (s *segment) build() {
	defer func() {
		if rec := recover(); rec != nil {
			s.buildErr = fmt.Errorf("panic: %v", rec)
		}
	}()
	r := s.r
	ld := &loader{World: r.w, r: r, built: map[string]blobserver.Storage{}}
	src, err := ld.GetStorage("/src/")
	if err != nil {
		s.buildErr = err
		return
	}
	dst, err := ld.GetStorage("/dst/")
	if err != nil {
		s.buildErr = err
		return
	}
	s.src, s.up = src, src
	if r.cfg.ViaReplica {
		via, err := blobserver.CreateStorage("replica", ld, jsonconfig.Obj{"backends": []any{"/src/", "/aux/"}})
		if err != nil {
			s.buildErr = err
			return
		}
		s.up = via
		r.out.Reached["uploads-through-a-replica-set"]++
	}
	if r.cfg.Dests == 2 {
		// a second handler on the same source, constructed at the same
		// time (serverinit builds its handlers one after the other, but
		// nothing in the constructor's contract asks for that)
		if _, err := ld.GetStorage("/dst2/"); err != nil {
			s.buildErr = err
			return
		}
		done := make(chan struct{})
		r.rc.Sched.Go("bld2", func() {
			defer close(done)
			defer func() {
				if rec := recover(); rec != nil {
					s.buildErr2 = fmt.Errorf("panic: %v", rec)
				}
			}()
			conf := jsonconfig.Obj{
				"from":           "/src/",
				"to":             "/dst2/",
				"queue":          map[string]any{"type": "simkv", "name": "queue2"},
				"copierPoolSize": float64(r.cfg.Pool),
			}
			h, err := blobserver.CreateHandler("sync", ld, conf)
			if err != nil {
				s.buildErr2 = err
				return
			}
			s.sh2, _ = h.(*server.SyncHandler)
		})
		defer func() {
			<-done
			if s.buildErr == nil && s.buildErr2 != nil {
				s.buildErr = fmt.Errorf("second handler: %w", s.buildErr2)
			}
		}()
	}
	if r.cfg.Ctor == "new" {
		s.sh = server.NewSyncHandler("/src/", "/dst/", src, dst, r.w.KV("queue"))
		return
	}
	conf := jsonconfig.Obj{
		"from":           "/src/",
		"to":             "/dst/",
		"queue":          map[string]any{"type": "simkv", "name": "queue"},
		"copierPoolSize": float64(r.cfg.Pool),
	}
	if r.cfg.FullSync {
		conf["fullSyncOnStart"] = true
	}
	if r.cfg.BlockFull {
		conf["blockingFullSyncOnStart"] = true
	}
	if r.cfg.Validate {
		conf["validateOnStart"] = true
	}
	h, err := blobserver.CreateHandler("sync", ld, conf)
	if err != nil {
		s.buildErr = err
		return
	}
	sh, ok := h.(*server.SyncHandler)
	if !ok {
		s.buildErr = fmt.Errorf("CreateHandler(sync) returned %T", h)
		return
	}
	s.sh = sh
}

func (s *segment) upload(idx, bi int, cancelAfterStore bool) {
	r := s.r
	b := r.pool[bi]
	u := &upload{Op: idx, B: bi, Gen: s.no, Start: simcore.Seq()}
	r.uploads = append(r.uploads, u)
	ci := &cancelInfo{u: u}
	ctx := context.WithValue(context.Background(), cancelKey{}, ci)
	if cancelAfterStore {
		c, cancel := context.WithCancel(ctx)
		defer cancel()
		ci.cancel = cancel
		ctx = c
	}
	_, err := blobserver.Receive(ctx, s.up, b.Ref, bytes.NewReader(b.Data))
	if s.dead() {
		// the process died before the client saw an answer
		select {}
	}
	u.Done, u.Err, u.Ret = true, err, simcore.Seq()
	if err == nil {
		u.Acked = true
		ref := b.Ref.String()
		_, u.RowAtAck = r.w.KVState("queue").Snapshot()[ref]
		u.DstAtAck = r.w.Store("dst").Has(ref)
	}
}

// noteRestart records what is durable at the instant the process dies.
func (r *run) noteRestart(seg *segment, opIdx int) {
	rows := sim.SortedKeys(r.w.KVState("queue").Snapshot())
	r.restarts = append(r.restarts, restartInfo{Op: opIdx, Seq: simcore.Seq(), Rows: rows, Crashed: seg.crashed})
	if len(rows) > 0 {
		r.out.Reached["restart-with-pending"]++
	}
	r.scanDst(opIdx)
}

// allDelivered: every acknowledged upload is at the destination(s), bit-identical.
func (r *run) allDelivered() bool {
	names := []string{"dst"}
	if r.cfg.Dests == 2 {
		names = append(names, "dst2")
	}
	for _, name := range names {
		dst := r.w.Store(name)
		for _, u := range r.uploads {
			if !u.Acked && !(u.Stored && u.Done) {
				continue
			}
			b := r.pool[u.B]
			got, ok := dst.Get(b.Ref.String())
			if !ok || !bytes.Equal(got, b.Data) {
				return false
			}
		}
	}
	return true
}
