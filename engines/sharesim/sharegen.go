package sharesim

import (
	"fmt"
	"sort"

	"verif/harness"
	"verif/simcore"
)

// ShareCfg is the declarative description of one "share" run.
type ShareCfg struct {
	Blobs []BSpec `json:"blobs"`
	// Universe: positions over which request chains are enumerated (<= 10).
	Universe []int `json:"universe"`
}

// Put is one delivery: the blob is received by the blob store and, when Idx,
// afterwards by the index (as the server's storage -> index replication does).
type Put struct {
	B   int  `json:"b"`
	Idx bool `json:"idx"`
}

// Req is one request: GET <share prefix>/<ref of chain[last]>?via=<chain[0]>,...
type Req struct {
	M        string `json:"m"`
	Chain    []int  `json:"chain"`
	Assemble bool   `json:"assemble,omitempty"`
	// Bad: a malformed variant: "via-garbage" | "via-empty-elem" | "path-garbage"
	Bad string `json:"bad,omitempty"`
}

// Op is one element of Plan.Ops.
type Op struct {
	// put: deliver B | index: deliver the stored blob B to the index |
	// par: Puts and Reqs as concurrent tasks | sleep: advance the virtual
	// clock to epoch+UntilMin | sweep: enumerate all chains up to MaxLen with
	// Methods at quiescence | req: Reqs one after the other at quiescence
	K        string `json:"k"`
	B        int    `json:"b,omitempty"`
	Idx      bool   `json:"idx,omitempty"`
	Puts     []Put  `json:"puts,omitempty"`
	Reqs     []Req  `json:"reqs,omitempty"`
	UntilMin int    `json:"untilMin,omitempty"`
	MaxLen   int    `json:"maxLen,omitempty"`
	// ShareLen > MaxLen: chains that start at a share claim are enumerated up
	// to this length
	ShareLen int      `json:"shareLen,omitempty"`
	Methods  []string `json:"methods,omitempty"`
	Assemble bool     `json:"assemble,omitempty"`
	Bad      bool     `json:"bad,omitempty"`
}

type graphGen struct {
	r     *simcore.Rand
	specs []BSpec
	salt  string
}

func (g *graphGen) add(sp BSpec) int {
	g.specs = append(g.specs, sp)
	return len(g.specs) - 1
}

func (g *graphGen) chunk(tag string) int {
	n := g.r.Range(12, 60)
	head := "secret-" + tag + "-" + g.salt + "-"
	if g.r.Bool(0.12) {
		// a chunk whose size is a power of two, or one byte off: buffer and
		// threshold boundaries of the handlers that serve it
		n = []int{4096, 32768, 65536}[g.r.Intn(3)] + g.r.Intn(3) - 1 - len(head)
	}
	pad := make([]byte, n)
	for i := range pad {
		pad[i] = "abcdefghijklmnopqrstuvwxyz"[g.r.Intn(26)]
	}
	return g.add(BSpec{Kind: kChunk, Text: head + string(pad), Ref: -1})
}

func pick[T any](r *simcore.Rand, xs []T) T { return xs[r.Intn(len(xs))] }

// genGraph draws a graph of at most 10 blobs besides the key.
func genGraph(r *simcore.Rand) *ShareCfg {
	g := &graphGen{r: r, salt: fmt.Sprintf("%08x", r.Uint64()&0xffffffff)}
	g.add(BSpec{Kind: kKey, Ref: -1})
	budget := 10
	use := func(n int) bool {
		if budget < n {
			return false
		}
		budget -= n
		return true
	}
	// at least one share, and room for the delete history
	nDel := []int{0, 1, 2, 2, 3, 3, 4}[r.Intn(7)]
	nShare := 1 + r.Intn(2)
	wantBig := r.Bool(0.08)
	reserve := nDel + nShare
	if wantBig {
		reserve++
	}
	budget -= reserve

	var targets []int // candidate share targets
	use(1)
	c1 := g.chunk("c1")
	targets = append(targets, c1)
	f := -1
	profile := r.Intn(4) // 0 file with nested bytes | 1 dir with mergeSets | 2 small dir | 3 both (as far as the budget goes)
	fileParts := []Part{{B: c1}}
	if profile == 0 || profile == 3 {
		if use(2) {
			c2 := g.chunk("c2")
			b := g.add(BSpec{Kind: kBytes, Parts: []Part{{B: c2}}, Ref: -1})
			inner := b
			if r.Bool(0.4) && use(1) {
				// bytes nested in bytes
				inner = g.add(BSpec{Kind: kBytes, Parts: []Part{{B: b, Bytes: true}}, Ref: -1})
			}
			if r.Bool(0.5) {
				fileParts = append(fileParts, Part{B: inner, Bytes: true})
			} else {
				fileParts = append([]Part{{B: inner, Bytes: true}}, fileParts...)
			}
			targets = append(targets, b)
		}
	}
	use(1)
	f = g.add(BSpec{Kind: kFile, Text: "f-" + g.salt + ".txt", Parts: fileParts, Ref: -1})
	targets = append(targets, f, f)
	var mentionable = []int{c1, f}
	if profile != 0 {
		members := []int{f}
		if r.Bool(0.3) {
			members = append(members, c1)
		}
		if (profile == 1 || profile == 3 && r.Bool(0.6)) && use(3) {
			// a "large" directory: the top static-set only lists sub-sets
			ss1 := g.add(BSpec{Kind: kSSet, Members: members, Ref: -1, Text: "sub1"})
			merge := []int{ss1}
			if r.Bool(0.35) && use(1) {
				// a second, intermediate level: ss -> mid -> ss1
				mid := g.add(BSpec{Kind: kSSet, Merge: []int{ss1}, Ref: -1, Text: "mid"})
				merge = []int{mid}
				targets = append(targets, mid)
			}
			ss := g.add(BSpec{Kind: kSSet, Merge: merge, Ref: -1, Text: "top"})
			d := g.add(BSpec{Kind: kDir, Text: "dir-" + g.salt, Ref: ss})
			targets = append(targets, ss, ss, ss, ss, d, d, d, d, d, ss1)
		} else if use(2) {
			ss := g.add(BSpec{Kind: kSSet, Members: members, Ref: -1})
			d := g.add(BSpec{Kind: kDir, Text: "dir-" + g.salt, Ref: ss})
			targets = append(targets, ss, ss, d, d, d)
		}
	}
	if r.Bool(0.65) && use(1) {
		form := pick(r, []string{"raw", "fileName", "ssetField", "dirField", "bytesField", "nameRef",
			"dirParts", "ssetParts", "symlinkParts", "fileMembers", "fileEntries", "ssetEntries", "dirMembers"})
		what := pick(r, mentionable)
		var m int
		if form == "nameRef" {
			// a genuine file (with a real part) whose name is another blob's ref
			m = g.add(BSpec{Kind: kFile, Form: "nameRef", Parts: []Part{{B: c1}}, Ref: f})
			if what == c1 {
				// mention of c1 would coincide with the real link; mention f instead
				what = f
			}
		} else {
			m = g.add(BSpec{Kind: kMention, Form: form, Ref: what, Text: g.salt})
		}
		targets = append(targets, m, m)
	}
	budget += reserve
	// shares
	var shares []int
	// (minutes after 2000-01-01: -15778080 is 1970-01-01T00:00:00Z, the zero
	// of Unix time - long past, but not "no expiry")
	expChoices := []int{0, 0, 0, -90, 150, 150, 320, 600, -15778080}
	for i := 0; i < nShare && budget > 0; i++ {
		budget--
		sp := BSpec{Kind: kShare, Transitive: r.Bool(0.7), ExpMin: pick(r, expChoices), DateS: 100 + 10*i}
		switch {
		case i > 0 && r.Bool(0.12):
			sp.Ref = -1 // neither target nor search: invalid per share.md
		case i > 0 && r.Bool(0.12):
			sp.Ref, sp.Search = -1, true
		case i > 0 && r.Bool(0.12):
			sp.Ref = shares[0] // a share of a share claim
		default:
			sp.Ref = pick(r, targets)
		}
		shares = append(shares, g.add(sp))
	}
	if wantBig && budget > 0 {
		budget--
		g.add(BSpec{Kind: kShare, Transitive: true, Ref: f, Pad: (1 << 20) + 64, DateS: 90})
	}
	// delete history on the first share (mostly) : delete, undelete, re-delete, ...
	var dels []int
	for i := 0; i < nDel && budget > 0; i++ {
		budget--
		sp := BSpec{Kind: kDelete, DateS: 1000 + 10*i}
		switch {
		case i == 0:
			sp.Ref = shares[0]
		case r.Bool(0.55):
			sp.Ref = dels[len(dels)-1] // delete of the latest delete: toggles
		case r.Bool(0.5):
			sp.Ref = pick(r, shares) // another delete of a share
		default:
			sp.Ref = pick(r, dels)
		}
		dels = append(dels, g.add(sp))
	}
	cfg := &ShareCfg{Blobs: g.specs}
	for i := range g.specs {
		if i == 0 && len(g.specs) > 10 {
			continue
		}
		cfg.Universe = append(cfg.Universe, i)
	}
	return cfg
}

// blockedOn: which blob a delivered claim is waiting for in the index
// (-1: none), given the set delivered to the index.
func blockedOn(specs []BSpec, inIdx map[int]bool, c int) int {
	if !inIdx[0] {
		return 0
	}
	if specs[c].Kind == kDelete && !inIdx[specs[c].Ref] {
		return specs[c].Ref
	}
	return -1
}

// singleWaiter: at most one delivered claim waits directly on any missing
// blob. (The index pops re-index candidates that became ready at the same
// time in map order; keeping one waiter per blob keeps runs reproducible.
// Chains of waiters - delete waits for share waits for key - are generated.)
func singleWaiter(specs []BSpec, inIdx map[int]bool) bool {
	n := map[int]int{}
	for c := range inIdx {
		if !inIdx[c] || (specs[c].Kind != kShare && specs[c].Kind != kDelete) {
			continue
		}
		if b := blockedOn(specs, inIdx, c); b >= 0 {
			n[b]++
			if n[b] > 1 {
				return false
			}
		}
	}
	return true
}

func isClaim(sp BSpec) bool { return sp.Kind == kShare || sp.Kind == kDelete }

// structurallyValid lists every chain up to maxLen that is valid when every
// blob is stored, nothing is deleted and nothing has expired.
func structurallyValid(specs []BSpec, maxLen int) [][]int {
	var out [][]int
	for s, sp := range specs {
		if !validShare(sp) {
			continue
		}
		out = append(out, []int{s})
		if sp.Ref < 0 {
			continue
		}
		var walk func(chain []int)
		walk = func(chain []int) {
			out = append(out, append([]int(nil), chain...))
			if len(chain) >= maxLen || !sp.Transitive {
				return
			}
			for _, l := range linksOf(specs, chain[len(chain)-1]) {
				walk(append(chain, l.to))
			}
		}
		walk([]int{s, sp.Ref})
	}
	return out
}

func genShare(tier string, run int, r *simcore.Rand) *harness.Plan {
	cfg := genGraph(r.Fork())
	specs := cfg.Blobs
	p := &harness.Plan{Mode: "share", Bubble: true, Config: harness.MustJSON(cfg)}
	p.LockYield = []int{0, 0, 50, 300, 1000}[r.Intn(5)]
	p.Sticky = []int{0, 400, 900}[r.Intn(3)]

	var ops []Op
	inIdx := map[int]bool{}
	inStore := map[int]bool{}
	indexAll := r.Bool(0.3)

	var base, claims []int
	for i := 1; i < len(specs); i++ {
		if isClaim(specs[i]) {
			claims = append(claims, i)
		} else {
			base = append(base, i)
		}
	}
	// the key first, except in "late key" runs (exactly one claim precedes it)
	lateKey := r.Bool(0.2) && len(claims) > 0
	if !lateKey {
		ops = append(ops, Op{K: "put", B: 0, Idx: true})
		inIdx[0], inStore[0] = true, true
	}
	// base blobs: in random order when only stored, children first when they
	// are indexed as well; one of them may be held back
	held := -1
	if r.Bool(0.3) && len(base) > 1 {
		held = pick(r, base)
	}
	order := append([]int(nil), base...)
	if !indexAll {
		perm := r.Perm(len(order))
		o2 := make([]int, len(order))
		for i, j := range perm {
			o2[i] = order[j]
		}
		order = o2
	}
	for _, b := range order {
		if b == held {
			continue
		}
		ops = append(ops, Op{K: "put", B: b, Idx: indexAll})
		inStore[b] = true
		if indexAll {
			inIdx[b] = true
		}
	}

	valid := structurallyValid(specs, 4)
	sampleReqs := func(n int) []Req {
		var reqs []Req
		for i := 0; i < n; i++ {
			var chain []int
			if len(valid) > 0 && r.Bool(0.75) {
				chain = append([]int(nil), pick(r, valid)...)
				if r.Bool(0.2) {
					// perturb one element
					chain[r.Intn(len(chain))] = pick(r, cfg.Universe)
				}
			} else {
				n := 1 + r.Intn(4)
				for j := 0; j < n; j++ {
					chain = append(chain, pick(r, cfg.Universe))
				}
			}
			rq := Req{M: "GET", Chain: chain}
			if r.Bool(0.1) {
				rq.M = "HEAD"
			}
			if specs[chain[len(chain)-1]].Kind == kFile && specs[chain[len(chain)-1]].Form != "fileName" && r.Bool(0.3) {
				rq.Assemble = true
				rq.M = "GET"
			}
			reqs = append(reqs, rq)
		}
		return reqs
	}

	// pending events: claim deliveries (incl. the late key, the held-back base
	// blob and index-lag deliveries) and clock jumps, merged at random
	remaining := append([]int(nil), claims...)
	if held >= 0 {
		remaining = append(remaining, held)
	}
	var exps []int
	seenExp := map[int]bool{}
	for _, sp := range specs {
		if sp.Kind == kShare && sp.ExpMin > 0 && !seenExp[sp.ExpMin] {
			seenExp[sp.ExpMin] = true
			exps = append(exps, sp.ExpMin)
		}
	}
	sort.Ints(exps)
	var jumps []int // minutes
	for _, e := range exps {
		jumps = append(jumps, e-45, e+1)
	}
	lagging := map[int]bool{} // stored, not yet delivered to the index
	fullSweeps := 0
	sweep := func(final bool) {
		// every sweep: all chains up to length 3 (sometimes 2) over the whole
		// universe and all chains of length 4 that start at a share claim;
		// the final sweep and at most one more: all chains up to length 4
		op := Op{K: "sweep", MaxLen: 3, ShareLen: 4, Methods: []string{"GET", "HEAD"}, Assemble: true, Bad: true}
		if final || (fullSweeps == 0 && r.Bool(0.2)) {
			op.MaxLen = 4
			fullSweeps++
		} else if r.Bool(0.25) {
			op.MaxLen = 2
		}
		ops = append(ops, op)
	}
	canDeliver := func(c int, idx bool) bool {
		if !idx {
			return true
		}
		inIdx[c] = true
		ok := singleWaiter(specs, inIdx)
		delete(inIdx, c)
		return ok
	}
	deliveredClaims := 0
	for iter := 0; iter < 400 && (len(remaining) > 0 || len(jumps) > 0 || len(lagging) > 0 || !inIdx[0]); iter++ {
		// a clock jump?
		if len(jumps) > 0 && (len(remaining) == 0 && len(lagging) == 0 && inIdx[0] || r.Bool(0.25)) {
			ops = append(ops, Op{K: "sleep", UntilMin: jumps[0]})
			jumps = jumps[1:]
			sweep(false)
			continue
		}
		// the late key: after exactly one claim
		if !inIdx[0] && deliveredClaims >= 1 {
			ops = append(ops, Op{K: "put", B: 0, Idx: true})
			inIdx[0], inStore[0] = true, true
			if r.Bool(0.6) {
				sweep(false)
			}
			continue
		}
		// an index-lag delivery catching up?
		if len(lagging) > 0 && (len(remaining) == 0 || r.Bool(0.4)) {
			ks := sortedKeys(lagging)
			var ok []int
			for _, c := range ks {
				if canDeliver(c, true) {
					ok = append(ok, c)
				}
			}
			if len(ok) > 0 {
				c := pick(r, ok)
				delete(lagging, c)
				inIdx[c] = true
				ops = append(ops, Op{K: "index", B: c})
				sweep(false)
				continue
			}
			if len(remaining) == 0 {
				// cannot happen: a lagging blob whose dependencies are all
				// indexed is always deliverable; give up on the rest
				break
			}
		}
		if len(remaining) == 0 {
			if len(jumps) == 0 && len(lagging) == 0 {
				break
			}
			continue
		}
		// candidates among the remaining deliveries
		var cand []int
		for _, c := range remaining {
			if !isClaim(specs[c]) || canDeliver(c, true) {
				cand = append(cand, c)
			}
		}
		if !inIdx[0] && deliveredClaims == 0 {
			// late key: the one claim that precedes it
			var cl []int
			for _, c := range cand {
				if isClaim(specs[c]) {
					cl = append(cl, c)
				}
			}
			cand = cl
		}
		if len(cand) == 0 {
			// deliver a dependency-free claim (a share) - always allowed
			for _, c := range remaining {
				if specs[c].Kind == kShare {
					cand = append(cand, c)
				}
			}
			if len(cand) == 0 {
				cand = remaining[:1]
			}
		}
		take := func(c int) {
			for i, x := range remaining {
				if x == c {
					remaining = append(remaining[:i], remaining[i+1:]...)
					break
				}
			}
		}
		// concurrent group?
		if inIdx[0] && r.Bool(0.35) {
			var puts []Put
			n := 1 + r.Intn(3)
			for len(puts) < n {
				var c2 []int
				for _, c := range remaining {
					if !isClaim(specs[c]) || canDeliver(c, true) {
						c2 = append(c2, c)
					}
				}
				if len(c2) == 0 {
					break
				}
				c := pick(r, c2)
				take(c)
				idx := isClaim(specs[c]) || indexAll
				puts = append(puts, Put{B: c, Idx: idx})
				inStore[c] = true
				if idx {
					inIdx[c] = true
				}
				if isClaim(specs[c]) {
					deliveredClaims++
				}
			}
			if len(puts) > 0 {
				ops = append(ops, Op{K: "par", Puts: puts, Reqs: sampleReqs(r.Range(8, 30))})
				sweep(false)
				continue
			}
		}
		c := pick(r, cand)
		take(c)
		inStore[c] = true
		if isClaim(specs[c]) {
			deliveredClaims++
			if inIdx[0] && r.Bool(0.2) {
				// the store has it, the index not yet
				lagging[c] = true
				ops = append(ops, Op{K: "put", B: c, Idx: false})
			} else {
				inIdx[c] = true
				ops = append(ops, Op{K: "put", B: c, Idx: true})
			}
		} else {
			if indexAll {
				inIdx[c] = true
			}
			ops = append(ops, Op{K: "put", B: c, Idx: indexAll})
		}
		if r.Bool(0.7) {
			sweep(false)
		}
	}
	sweep(true)
	for _, op := range ops {
		p.Ops = append(p.Ops, harness.MustJSON(op))
	}
	return p
}
