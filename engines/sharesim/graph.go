package sharesim

import (
	"context"
	"fmt"
	"sort"
	"strings"
	"sync"
	"time"

	"perkeep.org/pkg/blob"
	"perkeep.org/pkg/jsonsign"
	"perkeep.org/pkg/schema"
)

// The stored graph of one "share" run is carried declaratively in the plan:
// a list of blob specifications that refer to each other by position. The
// blobs' JSON is written by the harness itself (never by perkeep's builders),
// so the model below is a statement about text the harness produced; only the
// OpenPGP signature of claims is computed by perkeep's signer, at a FIXED
// signature time so that refs are a function of the plan.

const (
	kKey     = "key"     // the armored public key of the test identity
	kChunk   = "chunk"   // raw bytes
	kBytes   = "bytes"   // camliType bytes: parts
	kFile    = "file"    // camliType file: parts
	kSSet    = "sset"    // camliType static-set: members and/or mergeSets
	kDir     = "dir"     // camliType directory: entries -> static-set
	kMention = "mention" // a blob that contains a ref's text in a non-link position
	kShare   = "share"   // claimType share
	kDelete  = "delete"  // claimType delete (of a claim)
)

// Part is one element of a file/bytes "parts" list.
type Part struct {
	B     int  `json:"b"`     // position of the referenced blob
	Bytes bool `json:"bytes"` // true: "bytesRef", false: "blobRef"
	Size  int  `json:"size"`  // declared size (content length below that part)
}

// BSpec describes one blob of the graph. Positions (B, Members, ...) always
// point at LOWER positions, so the list is a topological order.
type BSpec struct {
	Kind string `json:"kind"`
	// chunk: the contents. file/dir: the fileName. mention: free text.
	Text string `json:"text,omitempty"`
	// file, bytes
	Parts []Part `json:"parts,omitempty"`
	// static-set
	Members []int `json:"members,omitempty"`
	Merge   []int `json:"merge,omitempty"`
	// dir: position of the "entries" static-set; mention: the mentioned blob;
	// share/delete: the target (-1: a share without target).
	Ref int `json:"ref"`
	// mention: how the ref is mentioned: raw | fileName | ssetField |
	// dirField | bytesField
	Form string `json:"form,omitempty"`
	// share
	Search     bool `json:"search,omitempty"`     // carries a "search" object
	Transitive bool `json:"transitive,omitempty"` //
	// ExpMin: expiry in minutes after the bubble's epoch (2000-01-01T00:00Z);
	// negative = already expired at the epoch; 0 = no "expires" field.
	ExpMin int `json:"expMin,omitempty"`
	// Pad > 0: the claim carries a padding field of that many bytes (an
	// oversized first blob when > schema.MaxSchemaBlobSize).
	Pad int `json:"pad,omitempty"`
	// claims: claimDate = 1999-12-01T00:00:00Z + DateS seconds (fixed).
	DateS int `json:"dateS,omitempty"`
}

// MBlob is a materialised blob.
type MBlob struct {
	Spec BSpec
	Ref  blob.Ref
	Data []byte
	// Content is the assembled content of a file/bytes blob.
	Content []byte
}

var (
	epoch     = time.Date(2000, 1, 1, 0, 0, 0, 0, time.UTC) // synctest's clock origin
	claimBase = time.Date(1999, 12, 1, 0, 0, 0, 0, time.UTC)
)

const (
	secring = "/repo/pkg/jsonsign/testdata/test-secring.gpg"
	keyID   = "26F5ABDA"
)

var (
	signerOnce sync.Once
	signer     *schema.Signer
	signerErr  error
	pubKeyText string
	pubKeyRef  blob.Ref

	signMu    sync.Mutex
	signCache = map[string]string{} // unsigned JSON -> signed JSON (a pure function)
)

func loadSigner() error {
	signerOnce.Do(func() {
		ent, err := jsonsign.EntityFromSecring(keyID, secring)
		if err != nil {
			signerErr = fmt.Errorf("test key ring: %w", err)
			return
		}
		pubKeyText, err = jsonsign.ArmoredPublicKey(ent)
		if err != nil {
			signerErr = err
			return
		}
		pubKeyRef = blob.RefFromString(pubKeyText)
		signer, signerErr = schema.NewSigner(pubKeyRef, strings.NewReader(pubKeyText), ent)
	})
	return signerErr
}

func signJSON(unsigned string, at time.Time) (string, error) {
	signMu.Lock()
	if s, ok := signCache[unsigned]; ok {
		signMu.Unlock()
		return s, nil
	}
	signMu.Unlock()
	s, err := signer.SignJSON(context.Background(), unsigned, at)
	if err != nil {
		return "", err
	}
	signMu.Lock()
	if len(signCache) > 4096 {
		signCache = map[string]string{}
	}
	signCache[unsigned] = s
	signMu.Unlock()
	return s, nil
}

func rfc3339(t time.Time) string { return t.UTC().Format(time.RFC3339) }

// materialise builds every blob of the graph.
func materialise(specs []BSpec) ([]*MBlob, error) {
	if err := loadSigner(); err != nil {
		return nil, err
	}
	out := make([]*MBlob, len(specs))
	ref := func(i, self int) (string, error) {
		if i < 0 || i >= self {
			return "", fmt.Errorf("blob %d refers to %d (not a lower position)", self, i)
		}
		return out[i].Ref.String(), nil
	}
	for i, sp := range specs {
		mb := &MBlob{Spec: sp}
		var js string
		switch sp.Kind {
		case kKey:
			js = pubKeyText
		case kChunk:
			js = sp.Text
			mb.Content = []byte(sp.Text)
		case kBytes, kFile:
			var parts []string
			total := 0
			for _, p := range sp.Parts {
				r, err := ref(p.B, i)
				if err != nil {
					return nil, err
				}
				c := out[p.B].Content
				field := "blobRef"
				if p.Bytes {
					field = "bytesRef"
					if out[p.B].Spec.Kind != kBytes {
						return nil, fmt.Errorf("blob %d: bytesRef to a %s", i, out[p.B].Spec.Kind)
					}
				} else if out[p.B].Spec.Kind != kChunk {
					return nil, fmt.Errorf("blob %d: blobRef to a %s", i, out[p.B].Spec.Kind)
				}
				parts = append(parts, fmt.Sprintf(`{"%s": "%s", "size": %d}`, field, r, len(c)))
				mb.Content = append(mb.Content, c...)
				total += len(c)
			}
			if sp.Kind == kFile {
				if sp.Form == "nameRef" {
					// a genuine file whose NAME merely mentions another ref
					r, err := ref(sp.Ref, i)
					if err != nil {
						return nil, err
					}
					sp.Text = r
				}
				js = fmt.Sprintf("{\"camliVersion\": 1,\n\"camliType\": \"file\",\n\"fileName\": %q,\n\"unixPermission\": \"0644\",\n\"parts\": [\n  %s\n]}", sp.Text, strings.Join(parts, ",\n  "))
			} else {
				js = fmt.Sprintf("{\"camliVersion\": 1,\n\"camliType\": \"bytes\",\n\"parts\": [\n  %s\n]}", strings.Join(parts, ",\n  "))
			}
		case kSSet:
			quote := func(ix []int) (string, error) {
				var s []string
				for _, m := range ix {
					r, err := ref(m, i)
					if err != nil {
						return "", err
					}
					s = append(s, `"`+r+`"`)
				}
				return strings.Join(s, ",\n  "), nil
			}
			js = "{\"camliVersion\": 1,\n\"camliType\": \"static-set\""
			if len(sp.Members) > 0 {
				m, err := quote(sp.Members)
				if err != nil {
					return nil, err
				}
				js += ",\n\"members\": [\n  " + m + "\n]"
			}
			if len(sp.Merge) > 0 {
				m, err := quote(sp.Merge)
				if err != nil {
					return nil, err
				}
				js += ",\n\"mergeSets\": [\n  " + m + "\n]"
			}
			if sp.Text != "" {
				js += fmt.Sprintf(",\n\"verifNote\": %q", sp.Text)
			}
			js += "\n}"
		case kDir:
			r, err := ref(sp.Ref, i)
			if err != nil {
				return nil, err
			}
			js = fmt.Sprintf("{\"camliVersion\": 1,\n\"camliType\": \"directory\",\n\"fileName\": %q,\n\"unixPermission\": \"0755\",\n\"entries\": %q\n}", sp.Text, r)
		case kMention:
			r, err := ref(sp.Ref, i)
			if err != nil {
				return nil, err
			}
			switch sp.Form {
			case "raw":
				js = "Some payload containing the ref: " + r + " " + sp.Text
			case "fileName":
				// a well-formed file whose NAME is the ref's text; no parts
				js = fmt.Sprintf("{\"camliVersion\": 1,\n\"camliType\": \"file\",\n\"fileName\": %q,\n\"unixPermission\": \"0644\",\n\"parts\": []\n}", r)
			case "ssetField":
				js = fmt.Sprintf("{\"camliVersion\": 1,\n\"camliType\": \"static-set\",\n\"members\": [],\n\"seeAlso\": %q,\n\"verifNote\": %q\n}", r, sp.Text)
			case "dirField":
				// a directory whose entries field is absent and whose name is the ref
				js = fmt.Sprintf("{\"camliVersion\": 1,\n\"camliType\": \"directory\",\n\"fileName\": %q,\n\"unixPermission\": \"0755\"\n}", r)
			case "bytesField":
				js = fmt.Sprintf("{\"camliVersion\": 1,\n\"camliType\": \"bytes\",\n\"parts\": [],\n\"comment\": \"see %s\"\n}", r)
			// link fields of ANOTHER schema type: "parts" links only in file and
			// bytes blobs, "entries" only in a directory, "members" and
			// "mergeSets" only in a static-set
			case "dirParts":
				js = fmt.Sprintf("{\"camliVersion\": 1,\n\"camliType\": \"directory\",\n\"fileName\": %q,\n\"unixPermission\": \"0755\",\n\"parts\": [\n  {\"blobRef\": %q, \"size\": 3}\n]\n}", "d-"+sp.Text, r)
			case "ssetParts":
				js = fmt.Sprintf("{\"camliVersion\": 1,\n\"camliType\": \"static-set\",\n\"members\": [],\n\"parts\": [\n  {\"blobRef\": %q, \"size\": 3}\n],\n\"verifNote\": %q\n}", r, sp.Text)
			case "symlinkParts":
				js = fmt.Sprintf("{\"camliVersion\": 1,\n\"camliType\": \"symlink\",\n\"fileName\": %q,\n\"symlinkTarget\": \"elsewhere\",\n\"parts\": [\n  {\"bytesRef\": %q, \"size\": 3}\n]\n}", "l-"+sp.Text, r)
			case "fileMembers":
				js = fmt.Sprintf("{\"camliVersion\": 1,\n\"camliType\": \"file\",\n\"fileName\": %q,\n\"unixPermission\": \"0644\",\n\"parts\": [],\n\"members\": [\n  %q\n],\n\"mergeSets\": [\n  %q\n]\n}", "m-"+sp.Text, r, r)
			case "fileEntries":
				js = fmt.Sprintf("{\"camliVersion\": 1,\n\"camliType\": \"file\",\n\"fileName\": %q,\n\"unixPermission\": \"0644\",\n\"parts\": [],\n\"entries\": %q\n}", "e-"+sp.Text, r)
			case "ssetEntries":
				js = fmt.Sprintf("{\"camliVersion\": 1,\n\"camliType\": \"static-set\",\n\"members\": [],\n\"entries\": %q,\n\"verifNote\": %q\n}", r, sp.Text)
			case "dirMembers":
				js = fmt.Sprintf("{\"camliVersion\": 1,\n\"camliType\": \"directory\",\n\"fileName\": %q,\n\"unixPermission\": \"0755\",\n\"members\": [\n  %q\n],\n\"mergeSets\": [\n  %q\n]\n}", "dm-"+sp.Text, r, r)
			default:
				return nil, fmt.Errorf("blob %d: unknown mention form %q", i, sp.Form)
			}
		case kShare, kDelete:
			date := claimBase.Add(time.Duration(sp.DateS) * time.Second)
			var sb strings.Builder
			sb.WriteString("{\"camliVersion\": 1,\n")
			if sp.Kind == kShare {
				sb.WriteString("\"authType\": \"haveref\",\n")
			}
			fmt.Fprintf(&sb, "\"camliSigner\": %q,\n\"camliType\": \"claim\",\n\"claimDate\": %q,\n", pubKeyRef.String(), rfc3339(date))
			if sp.Kind == kShare {
				sb.WriteString("\"claimType\": \"share\"")
				if sp.ExpMin != 0 {
					fmt.Fprintf(&sb, ",\n\"expires\": %q", rfc3339(epoch.Add(time.Duration(sp.ExpMin)*time.Minute)))
				}
				if sp.Search {
					sb.WriteString(",\n\"search\": {\"constraint\": {\"anything\": true}}")
				}
				if sp.Ref >= 0 {
					r, err := ref(sp.Ref, i)
					if err != nil {
						return nil, err
					}
					fmt.Fprintf(&sb, ",\n\"target\": %q", r)
				}
				if sp.Transitive {
					sb.WriteString(",\n\"transitive\": true")
				}
				if sp.Pad > 0 {
					fmt.Fprintf(&sb, ",\n\"verifPad\": %q", strings.Repeat("p", sp.Pad))
				}
			} else {
				r, err := ref(sp.Ref, i)
				if err != nil {
					return nil, err
				}
				fmt.Fprintf(&sb, "\"claimType\": \"delete\",\n\"target\": %q", r)
			}
			sb.WriteString("\n}")
			signed, err := signJSON(sb.String(), date)
			if err != nil {
				return nil, fmt.Errorf("signing blob %d: %w", i, err)
			}
			js = signed
		default:
			return nil, fmt.Errorf("blob %d: unknown kind %q", i, sp.Kind)
		}
		mb.Data = []byte(js)
		mb.Ref = blob.RefFromString(js)
		out[i] = mb
	}
	// refs must be distinct (the model identifies blobs by position)
	seen := map[string]int{}
	for i, b := range out {
		if j, dup := seen[b.Ref.String()]; dup {
			return nil, fmt.Errorf("blobs %d and %d are identical", j, i)
		}
		seen[b.Ref.String()] = i
	}
	return out, nil
}

// ---------------------------------------------------------------------------
// Reachability model (over the specs only)

// link describes one genuine schema link.
type link struct {
	to   int
	kind string // part-blobRef | part-bytesRef | entries | members | mergeSets
}

// linksOf lists the genuine schema links of blob i: exactly the edges the
// property statement names (file/bytes parts, directory entries, static-set
// members and sub-sets).
func linksOf(specs []BSpec, i int) []link {
	sp := specs[i]
	var out []link
	switch sp.Kind {
	case kFile, kBytes:
		for _, p := range sp.Parts {
			if p.Bytes {
				out = append(out, link{p.B, "part-bytesRef"})
			} else {
				out = append(out, link{p.B, "part-blobRef"})
			}
		}
	case kDir:
		out = append(out, link{sp.Ref, "entries"})
	case kSSet:
		for _, m := range sp.Members {
			out = append(out, link{m, "members"})
		}
		for _, m := range sp.Merge {
			out = append(out, link{m, "mergeSets"})
		}
	}
	return out
}

func linkKind(specs []BSpec, from, to int) (string, bool) {
	for _, l := range linksOf(specs, from) {
		if l.to == to {
			return l.kind, true
		}
	}
	return "", false
}

// validShare: a well-formed share claim per doc/schema/share.md: authType
// haveref, exactly one of target/search ("It is an error to set neither or
// both" - "both" is never generated), and a schema blob within the schema
// blob size bound.
func validShare(sp BSpec) bool {
	if sp.Kind != kShare || sp.Pad >= schema.MaxSchemaBlobSize-2048 {
		return false
	}
	return (sp.Ref >= 0) != sp.Search
}

// state is what the model needs to know about the world at one instant.
type state struct {
	store map[int]bool // blob is in the blob store
	eff   map[int]bool // delete claim is fully indexed (in effect unless itself deleted)
}

func (st *state) clone() *state {
	c := &state{store: map[int]bool{}, eff: map[int]bool{}}
	for k, v := range st.store {
		c.store[k] = v
	}
	for k, v := range st.eff {
		c.eff[k] = v
	}
	return c
}

// deleted: a claim is deleted iff some delete claim in effect targets it and
// that delete claim is not itself deleted (doc/schema/delete.md: "A claim can
// delete a permanode or another claim"; "(Un)Deletions").
func deleted(specs []BSpec, st *state, x int) bool {
	for d := x + 1; d < len(specs); d++ {
		if specs[d].Kind == kDelete && specs[d].Ref == x && st.eff[d] && !deleted(specs, st, d) {
			return true
		}
	}
	return false
}

// verdict of the model for one request.
type verdict struct {
	serve  bool
	reason string // why refused / which hops were taken
	// expiryDependent: the only reason for the verdict is the clock's position
	// relative to this instant (zero: not applicable)
	expiry time.Time
	// missingLast: the chain is valid but the requested blob is not stored
	missingLast bool
}

// judge evaluates chain (positions; chain[len-1] is the requested blob) in
// state st at instant now.
func judge(specs []BSpec, st *state, chain []int, now time.Time, assemble bool) verdict {
	c0 := chain[0]
	if !st.store[c0] {
		return verdict{reason: "chain0-missing"}
	}
	sp := specs[c0]
	if !validShare(sp) {
		if sp.Kind == kShare {
			return verdict{reason: "chain0-invalid-share"}
		}
		return verdict{reason: "chain0-not-share:" + sp.Kind}
	}
	if deleted(specs, st, c0) {
		return verdict{reason: "deleted"}
	}
	var exp time.Time
	if sp.ExpMin != 0 {
		exp = epoch.Add(time.Duration(sp.ExpMin) * time.Minute)
		if now.After(exp) {
			return verdict{reason: "expired", expiry: exp}
		}
	}
	hops := "self"
	if len(chain) > 1 {
		if sp.Ref < 0 || chain[1] != sp.Ref {
			return verdict{reason: "not-target", expiry: exp}
		}
		hops = "target"
	}
	if len(chain) > 2 {
		if !sp.Transitive {
			return verdict{reason: "not-transitive", expiry: exp}
		}
		for i := 1; i+1 < len(chain); i++ {
			if !st.store[chain[i]] {
				return verdict{reason: "hop-missing", expiry: exp}
			}
			k, ok := linkKind(specs, chain[i], chain[i+1])
			if !ok {
				from := specs[chain[i]]
				reason := "not-link:" + from.Kind
				if (from.Kind == kMention || from.Form == "nameRef") && from.Ref == chain[i+1] {
					// the blob does contain the sought ref's text - in a non-link position
					reason = "not-link:mention/" + from.Form
				}
				return verdict{reason: reason, expiry: exp}
			}
			hops += "," + k
		}
	}
	last := chain[len(chain)-1]
	if assemble {
		if !sp.Transitive {
			return verdict{reason: "assemble-not-transitive", expiry: exp}
		}
	}
	if !st.store[last] {
		return verdict{reason: "last-missing:" + hops, expiry: exp, missingLast: true}
	}
	return verdict{serve: true, reason: hops, expiry: exp}
}

// closureStored reports whether every blob below file f (its parts,
// recursively) is stored: only then is "assemble" expected to produce the
// whole content.
func closureStored(specs []BSpec, st *state, f int) bool {
	if !st.store[f] {
		return false
	}
	for _, l := range linksOf(specs, f) {
		if !closureStored(specs, st, l.to) {
			return false
		}
	}
	return true
}

func sortedKeys(m map[int]bool) []int {
	var ks []int
	for k, v := range m {
		if v {
			ks = append(ks, k)
		}
	}
	sort.Ints(ks)
	return ks
}
