package sharesim

import (
	"bytes"
	"context"
	"encoding/json"
	"fmt"
	"net/http"
	"net/http/httptest"
	"net/url"
	"strings"
	"time"

	"go4.org/jsonconfig"
	"perkeep.org/pkg/blobserver"
	"perkeep.org/pkg/index"
	_ "perkeep.org/pkg/server" // registers the "share" handler constructor

	"verif/harness"
	"verif/sim"
)

const (
	// a documentation address (RFC 5737): never "localhost" for perkeep's auth
	peerAddr = "203.0.113.7:4711"
	hostAddr = "198.51.100.1:3179"
	sharePfx = "/share/"
)

// shareLoader is the blobserver.Loader the share handler is configured
// against: the World resolves the blob root, the index is handed out under
// its own prefix (as serverinit's loader does for "/index/").
type shareLoader struct {
	*sim.World
	idx *index.Index
}

func (l *shareLoader) GetHandler(prefix string) (any, error) {
	if prefix == "/index/" {
		return l.idx, nil
	}
	return l.World.GetHandler(prefix)
}

func (l *shareLoader) GetHandlerType(prefix string) string {
	if prefix == "/index/" {
		return "storage-index"
	}
	return l.World.GetHandlerType(prefix)
}

func (l *shareLoader) MyPrefix() string { return sharePfx }

type shareRun struct {
	rc    *harness.RunCtx
	p     *harness.Plan
	cfg   *ShareCfg
	specs []BSpec
	blobs []*MBlob
	out   *harness.Outcome

	world *sim.World
	sto   blobserver.Storage
	idx   *index.Index
	h     http.Handler
	kv    *sim.KVState

	st    *state       // the model's world
	inIdx map[int]bool // delivered to the index
	slept bool
	opIx  int
	stop  bool // an unknown violation was recorded
}

func (s *shareRun) reach(k string) {
	s.out.Reached[k]++
}

// viol records a violation unless its signature is a listed known finding.
func (s *shareRun) viol(class, shape, detail string) {
	sig := class + "@share/" + shape
	if what, ok := harness.Known(s.p.Prop, sig); ok {
		if s.out.KnownHits[what] == 0 {
			s.out.NoteKnown(what) // once per run
		}
		return
	}
	if s.out.Violation == nil {
		s.out.Violation = harness.Viol(class, sig, detail, s.opIx)
	}
	s.stop = true
}

// task runs f under the scheduler and returns at quiescence.
func (s *shareRun) task(name string, f func()) error {
	s.rc.Sched.Go(name, f)
	return s.rc.Sched.Run()
}

func (s *shareRun) recomputeEff() {
	for d, sp := range s.specs {
		if sp.Kind == kDelete {
			s.st.eff[d] = s.inIdx[d] && s.inIdx[0] && s.inIdx[sp.Ref]
		}
	}
}

// indexedRows: which claims the index itself records as fully indexed.
func (s *shareRun) indexedRows() map[int]bool {
	snap := s.kv.Snapshot()
	out := map[int]bool{}
	for i, b := range s.blobs {
		if v, ok := snap["have:"+b.Ref.String()]; ok && strings.HasSuffix(v, "|indexed") {
			out[i] = true
		}
	}
	return out
}

func (s *shareRun) put(ctx context.Context, b int, toIdx bool) error {
	mb := s.blobs[b]
	if _, err := blobserver.Receive(ctx, s.sto, mb.Ref, bytes.NewReader(mb.Data)); err != nil {
		return fmt.Errorf("store receive of blob %d: %w", b, err)
	}
	if toIdx {
		if _, err := s.idx.ReceiveBlob(ctx, mb.Ref, bytes.NewReader(mb.Data)); err != nil {
			return fmt.Errorf("index receive of blob %d (%s): %w", b, mb.Spec.Kind, err)
		}
	}
	return nil
}

type response struct {
	code   int
	body   []byte
	t0, t1 time.Time
}

func (s *shareRun) refOf(i int) string { return s.blobs[i].Ref.String() }

func (s *shareRun) do(rq Req) response {
	last := rq.Chain[len(rq.Chain)-1]
	suffix := s.refOf(last)
	var via []string
	for _, c := range rq.Chain[:len(rq.Chain)-1] {
		via = append(via, s.refOf(c))
	}
	switch rq.Bad {
	case "via-garbage":
		via = append(via, "sha224-nothex")
	case "via-empty-elem":
		via = append(via, "")
		if len(via) == 1 {
			via = append(via, "")
		}
	case "path-garbage":
		suffix = "not-a-blobref"
	}
	q := url.Values{}
	if len(via) > 0 {
		q.Set("via", strings.Join(via, ","))
	}
	if rq.Assemble {
		q.Set("assemble", "1")
	}
	u := "http://" + hostAddr + sharePfx + suffix
	if len(q) > 0 {
		// commas stay literal, as pkg/client writes them
		u += "?" + strings.ReplaceAll(q.Encode(), "%2C", ",")
	}
	req := httptest.NewRequest(rq.M, u, nil)
	req.RemoteAddr = peerAddr
	// what httputil.PrefixHandler (internal) does for every configured prefix
	req.Header.Set("X-Prefixhandler-Pathbase", sharePfx)
	req.Header.Set("X-Prefixhandler-Pathsuffix", suffix)
	rec := httptest.NewRecorder()
	t0 := time.Now()
	panicked := ""
	func() {
		defer func() {
			if r := recover(); r != nil {
				// net/http recovers a handler's panic per connection and
				// drops the connection: the client gets nothing
				panicked = fmt.Sprint(r)
			}
		}()
		s.h.ServeHTTP(rec, req)
	}()
	if panicked != "" {
		return response{code: 599, body: []byte("the handler panicked: " + panicked), t0: t0, t1: time.Now()}
	}
	return response{code: rec.Code, body: rec.Body.Bytes(), t0: t0, t1: time.Now()}
}

func (s *shareRun) describe(rq Req) string {
	var parts []string
	for _, c := range rq.Chain {
		k := s.specs[c].Kind
		if s.specs[c].Form != "" {
			k += "/" + s.specs[c].Form
		}
		parts = append(parts, fmt.Sprintf("#%d:%s", c, k))
	}
	x := ""
	if rq.Assemble {
		x = " assemble=1"
	}
	if rq.Bad != "" {
		x += " malformed:" + rq.Bad
	}
	return fmt.Sprintf("%s chain [%s]%s", rq.M, strings.Join(parts, " -> "), x)
}

func (s *shareRun) leaks(body []byte) (int, bool) {
	if len(body) < 16 {
		return 0, false
	}
	for i, b := range s.blobs {
		if len(b.Data) >= 16 && len(b.Data) <= len(body) && bytes.Contains(body, b.Data) {
			return i, true
		}
		if len(b.Content) >= 16 && len(b.Content) <= len(body) && bytes.Contains(body, b.Content) {
			return i, true
		}
	}
	return 0, false
}

// check compares one response with the model's verdicts (one per candidate
// state/instant; the first is the primary one used for classification).
func (s *shareRun) check(rq Req, rs response, vs []verdict, where string) {
	s.out.SubRuns++
	desc := s.describe(rq)
	if rs.code != 200 {
		if i, leak := s.leaks(rs.body); leak {
			s.viol("refusal-leaks-bytes", fmt.Sprint(rs.code), fmt.Sprintf("%s: %s answered %d but its body contains the bytes of blob #%d (%s)", where, desc, rs.code, i, s.specs[i].Kind))
			return
		}
	}
	if rq.M != "GET" && rq.M != "HEAD" {
		// share.go: "Invalid method" is a bad request
		switch {
		case rs.code == 200 || len(rs.body) > 0 && rs.code/100 == 2:
			s.viol("served-bad-method", rq.M, fmt.Sprintf("%s: %s was served (%d, %d bytes)", where, desc, rs.code, len(rs.body)))
		case rs.code != 400:
			s.viol("bad-refusal-status", fmt.Sprintf("method:%d", rs.code), fmt.Sprintf("%s: %s answered %d; share.go specifies 400 for an invalid method", where, desc, rs.code))
		default:
			s.reach("bad-method-400")
		}
		return
	}
	if rq.Bad != "" {
		switch {
		case rs.code == 200:
			s.viol("served-unreachable", "malformed:"+rq.Bad, fmt.Sprintf("%s: %s was served", where, desc))
		case rs.code != 400:
			s.viol("bad-refusal-status", fmt.Sprintf("malformed:%d", rs.code), fmt.Sprintf("%s: %s answered %d; share.go specifies 400 for a malformed request", where, desc, rs.code))
		default:
			s.reach("malformed-400")
		}
		return
	}
	last := rq.Chain[len(rq.Chain)-1]
	want := s.blobs[last].Data
	if rq.Assemble {
		want = s.blobs[last].Content
	}
	anyServe, allServe := false, true
	for _, v := range vs {
		if v.serve {
			if !anyServe && strings.Contains(v.reason, "mergeSets") {
				s.reach("mergeSets-hop")
			}
			anyServe = true
		} else {
			allServe = false
		}
	}
	for _, v := range vs {
		switch {
		case v.serve:
			if rs.code == 200 && (rq.M == "HEAD" && len(rs.body) == 0 || rq.M == "GET" && bytes.Equal(rs.body, want)) {
				s.noteServed(rq, v)
				return
			}
		case v.missingLast:
			if rs.code != 200 {
				s.reach("valid-chain-blob-not-stored")
				return
			}
		default:
			if rs.code == 401 {
				s.noteRefused(rq, v)
				return
			}
		}
	}
	pv := vs[0]
	ctxs := ""
	if len(vs) > 1 {
		ctxs = fmt.Sprintf(" (%d candidate states/instants, none permits this)", len(vs))
	}
	switch {
	case rs.code == 200 && !anyServe:
		class := "served-unreachable"
		switch pv.reason {
		case "deleted":
			class = "served-deleted"
		case "expired":
			class = "served-expired"
		}
		s.viol(class, pv.reason, fmt.Sprintf("%s: %s was served (200, %d bytes) although the model refuses it: %s%s", where, desc, len(rs.body), pv.reason, ctxs))
	case rs.code == 200:
		s.viol("wrong-bytes", s.specs[last].Kind, fmt.Sprintf("%s: %s was served with %d bytes that are not the blob's %d bytes%s", where, desc, len(rs.body), len(want), ctxs))
	case allServe:
		s.viol("refused-reachable", pv.reason, fmt.Sprintf("%s: %s was refused (%d) although the chain is valid: share #%d exists, is not deleted, not expired, hops: %s%s", where, desc, rs.code, rq.Chain[0], pv.reason, ctxs))
	default:
		s.viol("bad-refusal-status", fmt.Sprintf("%d:%s", rs.code, pv.reason), fmt.Sprintf("%s: %s answered %d; a refusal is 401 (model: %s)%s", where, desc, rs.code, pv.reason, ctxs))
	}
}

func (s *shareRun) noteServed(rq Req, v verdict) {
	if len(rq.Chain) == 4 {
		s.reach("transitive-chain-len4")
	}
	if strings.Contains(v.reason, "mergeSets") {
		s.reach("mergeSets-hop-served")
	}
	if rq.Assemble {
		s.reach("assemble")
	}
	if rq.M == "HEAD" {
		s.reach("head-served")
	}
	c0 := rq.Chain[0]
	for d := c0 + 1; d < len(s.specs); d++ {
		if s.specs[d].Kind == kDelete && s.specs[d].Ref == c0 && s.st.eff[d] {
			s.reach("undeleted-share-served")
			break
		}
	}
	if s.specs[c0].Search && len(rq.Chain) == 1 {
		s.reach("search-share-self-served")
	}
	if s.specs[c0].ExpMin > 0 && s.slept {
		s.reach("unexpired-after-clock-jump-served")
	}
}

func (s *shareRun) noteRefused(rq Req, v verdict) {
	switch {
	case v.reason == "expired" && s.specs[rq.Chain[0]].ExpMin > 0:
		s.reach("expired-after-clock-jump")
	case v.reason == "expired":
		s.reach("expired-before-start-refused")
	case v.reason == "deleted":
		s.reach("deleted-share-refused")
	case strings.HasPrefix(v.reason, "not-link:mention"):
		s.reach("mention-not-link-refused")
	case v.reason == "not-transitive":
		s.reach("non-transitive-len3-refused")
	case v.reason == "not-target":
		s.reach("not-target-refused")
	case v.reason == "chain0-invalid-share":
		s.reach("invalid-or-oversized-share-refused")
	case v.reason == "assemble-not-transitive":
		s.reach("assemble-non-transitive-refused")
	}
}

// verdictsAt: the model's verdicts for a request that ran between t0 and t1
// in any of the candidate states. The clock matters only when a share's expiry
// lies inside [t0,t1].
func (s *shareRun) verdicts(rq Req, rs response, states []*state) []verdict {
	var vs []verdict
	for _, st := range states {
		v0 := judge(s.specs, st, rq.Chain, rs.t0, rq.Assemble)
		vs = append(vs, v0)
		if !rs.t1.Equal(rs.t0) {
			v1 := judge(s.specs, st, rq.Chain, rs.t1, rq.Assemble)
			if v1.serve != v0.serve || v1.reason != v0.reason {
				vs = append(vs, v1)
			}
		}
	}
	return vs
}

// sweepReqs enumerates every chain up to op.MaxLen over the universe, in
// breadth order (all chains of length 1, then 2, ...), with every method of
// the sweep, plus assemble=1 for file targets, plus (op.Bad) other methods and
// malformed variants for the chains of length <= 2.
func (s *shareRun) sweepReqs(op Op, emit func(Req) bool) {
	u := s.cfg.Universe
	chain := make([]int, 0, 4)
	leaf := func() bool {
		c := append([]int(nil), chain...)
		for _, m := range op.Methods {
			if len(c) == 4 && m != "GET" {
				continue
			}
			if !emit(Req{M: m, Chain: c}) {
				return false
			}
		}
		last := c[len(c)-1]
		if op.Assemble && s.specs[last].Kind == kFile && len(c) <= 3 && closureStored(s.specs, s.st, last) {
			if !emit(Req{M: "GET", Chain: c, Assemble: true}) {
				return false
			}
		}
		if op.Bad && len(c) <= 2 {
			for _, m := range []string{"POST", "PUT", "DELETE"} {
				if !emit(Req{M: m, Chain: c}) {
					return false
				}
			}
			for _, b := range []string{"via-garbage", "via-empty-elem", "path-garbage"} {
				if !emit(Req{M: "GET", Chain: c, Bad: b}) {
					return false
				}
			}
		}
		return true
	}
	var shareHeads []int
	for _, x := range u {
		if s.specs[x].Kind == kShare {
			shareHeads = append(shareHeads, x)
		}
	}
	top := op.MaxLen
	if op.ShareLen > top {
		top = op.ShareLen
	}
	for l := 1; l <= top; l++ {
		var byLen func(depth int) bool
		byLen = func(depth int) bool {
			if depth == l {
				return leaf()
			}
			heads := u
			if depth == 0 && l > op.MaxLen {
				// beyond the exhaustive length: only chains that start at a
				// share claim (valid or not, deleted or not, expired or not)
				heads = shareHeads
			}
			for _, x := range heads {
				chain = append(chain, x)
				ok := byLen(depth + 1)
				chain = chain[:len(chain)-1]
				if !ok {
					return false
				}
			}
			return true
		}
		if !byLen(0) {
			return
		}
	}
}

func validReq(rq Req, n int) bool {
	if len(rq.Chain) == 0 || len(rq.Chain) > 6 {
		return false
	}
	for _, c := range rq.Chain {
		if c < 0 || c >= n {
			return false
		}
	}
	return rq.M != ""
}

func execShare(rc *harness.RunCtx, p *harness.Plan) *harness.Outcome {
	out := &harness.Outcome{Ops: len(p.Ops), Reached: map[string]int{}}
	if rc.Sched == nil {
		out.Inconclusive = "sharesim needs the bubble"
		return out
	}
	var cfg ShareCfg
	if err := json.Unmarshal(p.Config, &cfg); err != nil {
		out.Inconclusive = "bad config: " + err.Error()
		return out
	}
	ops := make([]Op, len(p.Ops))
	for i, raw := range p.Ops {
		if err := json.Unmarshal(raw, &ops[i]); err != nil {
			out.Inconclusive = "bad op: " + err.Error()
			return out
		}
	}
	if len(cfg.Blobs) == 0 || cfg.Blobs[0].Kind != kKey || len(cfg.Universe) > 11 {
		out.Inconclusive = "bad config: blob 0 must be the key, universe <= 11"
		return out
	}
	for _, u := range cfg.Universe {
		if u < 0 || u >= len(cfg.Blobs) {
			out.Inconclusive = "bad config: universe out of range"
			return out
		}
	}
	blobs, err := materialise(cfg.Blobs)
	if err != nil {
		out.Inconclusive = "graph: " + err.Error()
		return out
	}
	rc.Sched.MaxSteps = 1 << 30
	rc.Sched.MaxVirtual = 100000 * time.Hour
	s := &shareRun{rc: rc, p: p, cfg: &cfg, specs: cfg.Blobs, blobs: blobs, out: out,
		st: &state{store: map[int]bool{}, eff: map[int]bool{}}, inIdx: map[int]bool{}}
	s.world = sim.NewWorld(rc.Env, rc.Scratch)
	s.world.Register(&sim.Node{Type: "sim", Name: "bs"})
	s.kv = s.world.KVState("idx")
	ctx := context.Background()
	var serr error
	if herr := s.task("setup", func() {
		s.sto, serr = s.world.GetStorage("/bs/")
		if serr != nil {
			return
		}
		s.idx, serr = index.New(s.world.KV("idx"))
		if serr != nil {
			return
		}
		s.idx.InitBlobSource(s.sto)
		// as the server does: the share handler from its registered constructor
		s.h, serr = blobserver.CreateHandler("share", &shareLoader{World: s.world, idx: s.idx},
			jsonconfig.Obj{"blobRoot": "/bs/", "index": "/index/"})
	}); herr != nil {
		out.Inconclusive = "setup never finished: " + herr.Error()
		return out
	}
	if serr != nil {
		out.Inconclusive = "setup: " + serr.Error()
		return out
	}

	var kinds []string
	for i, op := range ops {
		if s.stop {
			break
		}
		s.opIx = i
		if len(op.K) >= 2 {
			kinds = append(kinds, op.K[:2])
		}
		switch op.K {
		case "put", "index":
			if op.B < 0 || op.B >= len(blobs) {
				out.Inconclusive = "op refers to a blob outside the graph"
				return out
			}
			toStore, toIdx := op.K == "put", op.Idx || op.K == "index"
			if !toStore && !s.st.store[op.B] {
				continue // the minimiser dropped the store delivery
			}
			var perr error
			if herr := s.task("put", func() {
				if toStore {
					perr = s.put(ctx, op.B, toIdx)
				} else {
					_, perr = s.idx.ReceiveBlob(ctx, blobs[op.B].Ref, bytes.NewReader(blobs[op.B].Data))
				}
			}); herr != nil {
				out.Inconclusive = fmt.Sprintf("op %d (%s): never finished: %v", i, op.K, herr)
				return out
			}
			if perr != nil {
				out.Inconclusive = fmt.Sprintf("op %d: %v", i, perr)
				return out
			}
			s.st.store[op.B] = true
			if toIdx {
				if s.inIdx[0] && !s.inIdx[op.B] && isClaim(s.specs[op.B]) && op.K == "index" {
					s.reach("index-lag-delivery")
				}
				if op.B == 0 && len(s.inIdx) > 0 {
					s.reach("late-key")
				}
				s.inIdx[op.B] = true
			}
			s.recomputeEff()
			s.crossCheck()
		case "sleep":
			until := epoch.Add(time.Duration(op.UntilMin) * time.Minute)
			if herr := s.task("sleep", func() {
				if d := until.Sub(time.Now()); d > 0 {
					time.Sleep(d)
				}
			}); herr != nil {
				out.Inconclusive = "sleep never finished: " + herr.Error()
				return out
			}
			s.slept = true
		case "sweep", "req":
			if op.K == "sweep" && (op.MaxLen < 1 || op.MaxLen > 4 || op.ShareLen > 4) {
				out.Inconclusive = "sweep: maxLen out of range"
				return out
			}
			where := fmt.Sprintf("op #%d (%s at quiescence)", i, op.K)
			states := []*state{s.st}
			if herr := s.task("sweep", func() {
				run := func(rq Req) bool {
					if !validReq(rq, len(blobs)) {
						return true
					}
					rs := s.do(rq)
					s.check(rq, rs, s.verdicts(rq, rs, states), where)
					return !s.stop
				}
				if op.K == "req" {
					for _, rq := range op.Reqs {
						if !run(rq) {
							return
						}
					}
					return
				}
				s.sweepReqs(op, run)
			}); herr != nil {
				out.Inconclusive = fmt.Sprintf("op %d (%s): never finished: %v", i, op.K, herr)
				return out
			}
		case "par":
			s.par(ctx, i, op)
			if out.Inconclusive != "" {
				return out
			}
		default:
			out.Inconclusive = "unknown op kind " + op.K
			return out
		}
	}
	nb := 0
	shape := ""
	for _, sp := range s.specs {
		shape += sp.Kind[:2]
		if sp.Kind == kShare {
			if sp.Transitive {
				shape += "t"
			}
			if sp.ExpMin != 0 {
				shape += "x"
			}
		}
		nb++
	}
	out.ShapeKey = "share|" + shape + "|" + strings.Join(kinds, "")
	out.Nontrivial = out.SubRuns >= 10
	out.Sample = map[string]any{"mode": "share", "blobs": shape, "universe": len(cfg.Universe), "ops": strings.Join(kinds, " "), "requests": out.SubRuns}
	return out
}

// crossCheck compares, at quiescence, the model's idea of which delete claims
// are in effect with the index's own "fully indexed" rows. A difference is not
// judged here (it belongs to the index properties); it is made visible.
func (s *shareRun) crossCheck() {
	rows := s.indexedRows()
	for d, sp := range s.specs {
		if sp.Kind == kDelete && s.inIdx[d] && rows[d] != s.st.eff[d] {
			s.reach("index-rows-differ-from-dependency-model")
		}
	}
}

// par executes deliveries and requests as concurrent tasks. A request's
// response must be the model's verdict in SOME state between "before" and
// "after": any subset of the group's store effects, any subset of the delete
// claims that come into effect during the group.
func (s *shareRun) par(ctx context.Context, i int, op Op) {
	out := s.out
	before := s.st.clone()
	var puts []Put
	for _, pt := range op.Puts {
		if pt.B < 0 || pt.B >= len(s.blobs) {
			out.Inconclusive = "par: blob outside the graph"
			return
		}
		puts = append(puts, pt)
	}
	// the state after the group
	for _, pt := range puts {
		s.st.store[pt.B] = true
		if pt.Idx {
			s.inIdx[pt.B] = true
		}
	}
	s.recomputeEff()
	after := s.st
	var newStore, newEff []int
	for _, b := range sortedKeys(after.store) {
		if !before.store[b] {
			newStore = append(newStore, b)
		}
	}
	for _, d := range sortedKeys(after.eff) {
		if !before.eff[d] {
			newEff = append(newEff, d)
		}
	}
	if len(newStore) > 4 || len(newEff) > 4 {
		out.Inconclusive = "par: group too large for the candidate-state oracle"
		return
	}
	var states []*state
	for ms := 0; ms < 1<<len(newStore); ms++ {
		for me := 0; me < 1<<len(newEff); me++ {
			st := before.clone()
			for k, b := range newStore {
				if ms>>k&1 == 1 {
					st.store[b] = true
				}
			}
			for k, d := range newEff {
				if me>>k&1 == 1 {
					st.eff[d] = true
				}
			}
			states = append(states, st)
		}
	}
	type result struct {
		rq      Req
		rs      response
		inFlite bool
	}
	var results []result
	returned := map[int]bool{}
	var perr error
	for k, pt := range puts {
		pt := pt
		s.rc.Sched.Go(fmt.Sprintf("put%d", k), func() {
			if err := s.put(ctx, pt.B, pt.Idx); err != nil && perr == nil {
				perr = err
			}
			returned[pt.B] = true
		})
	}
	for k, rq := range op.Reqs {
		rq := rq
		if !validReq(rq, len(s.blobs)) || rq.Assemble && !closureStored(s.specs, before, rq.Chain[len(rq.Chain)-1]) {
			continue
		}
		s.rc.Sched.Go(fmt.Sprintf("rq%d", k), func() {
			rows := s.indexedRows()
			rs := s.do(rq)
			// a delivery has returned, its claim is not indexed yet: the
			// asynchronous re-index is in flight (or still to start)
			fl := false
			for b := range returned {
				if isClaim(s.specs[b]) && !rows[b] {
					fl = true
				}
			}
			results = append(results, result{rq, rs, fl})
		})
	}
	if herr := s.rc.Sched.Run(); herr != nil {
		out.Inconclusive = fmt.Sprintf("op %d (par): never finished: %v", i, herr)
		return
	}
	if perr != nil {
		out.Inconclusive = fmt.Sprintf("op %d (par): %v", i, perr)
		return
	}
	rowsAfter := s.indexedRows()
	where := fmt.Sprintf("op #%d (request concurrent with %d deliveries)", i, len(puts))
	for _, r := range results {
		if s.stop {
			break
		}
		if r.inFlite {
			// only counted when the claim did get indexed in the end
			for _, pt := range puts {
				if isClaim(s.specs[pt.B]) && rowsAfter[pt.B] {
					s.reach("reindex-in-flight-during-request")
					break
				}
			}
		}
		vs := s.verdicts(r.rq, r.rs, states)
		amb := false
		for _, v := range vs[1:] {
			if v.serve != vs[0].serve {
				amb = true
			}
		}
		if amb {
			s.reach("concurrent-request-either-verdict")
		}
		s.check(r.rq, r.rs, vs, where)
	}
	s.crossCheck()
}
