// Package sharesim is the engine of property C17: without credentials, blobs
// are reachable only through a valid share chain, and every other endpoint
// refuses unauthenticated requests.
//
// Mode "share": the share handler (built through its registered constructor)
// over a simulated blob store and a live index.Index over a simulated
// key/value store; signed share/delete claims are delivered in and out of
// order while requests arrive; ALL via-chains up to length 4 over the graph's
// blobs are enumerated at quiescence and compared with a reachability model
// over the harness's own description of the graph.
//
// Mode "auth": a whole server (serverinit.Load + InstallHandlers) per
// generated configuration and auth mode; every handler prefix x typical
// sub-paths x methods is requested without credentials, with wrong
// credentials and (control) with right credentials.
package sharesim

import (
	"verif/harness"
	"verif/simcore"
)

type engine struct{}

func init() { harness.Register(engine{}) }

func (engine) Name() string    { return "sharesim" }
func (engine) Props() []string { return []string{"C17"} }

func (engine) Gen(prop, tier string, run int, r *simcore.Rand) *harness.Plan {
	// one run in five exercises a whole server's auth wrapping
	if run%5 == 4 {
		return genAuth(tier, run, r)
	}
	return genShare(tier, run, r)
}

func (engine) Exec(rc *harness.RunCtx, p *harness.Plan) *harness.Outcome {
	switch p.Mode {
	case "share":
		return execShare(rc, p)
	case "auth":
		return execAuth(rc, p)
	}
	return &harness.Outcome{Inconclusive: "unknown mode " + p.Mode}
}
