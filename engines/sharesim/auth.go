package sharesim

import (
	"bytes"
	"context"
	"encoding/base64"
	"encoding/json"
	"fmt"
	"io"
	"mime/multipart"
	"net/http"
	"net/http/httptest"
	"net/url"
	"os"
	"sort"
	"strings"

	"perkeep.org/pkg/auth"
	"perkeep.org/pkg/blob"
	"perkeep.org/pkg/serverinit"

	// what perkeepd links in for the generated configurations
	_ "perkeep.org/pkg/blobserver/cond"
	_ "perkeep.org/pkg/blobserver/memory"
	_ "perkeep.org/pkg/blobserver/replica"
	_ "perkeep.org/pkg/importer/allimporters"
	_ "perkeep.org/pkg/index"
	_ "perkeep.org/pkg/jsonsign/signhandler"
	_ "perkeep.org/pkg/search"
	_ "perkeep.org/pkg/server"

	"verif/harness"
	"verif/simcore"
)

// AuthCfg is the declarative description of one "auth" run: a high-level
// server configuration, the credentials that configuration requires, and the
// wrong credentials to try.
type AuthCfg struct {
	// Hi is the high-level configuration handed to serverinit.Load (the
	// identity's secret ring path is filled in at execution time).
	Hi map[string]any `json:"hi"`
	// Kind: userpass | userpass+localhost | userpass+vivify | basic | token | devauth
	Kind string `json:"kind"`
	User string `json:"user"`
	Pass string `json:"pass"`
	// Wrong: Authorization header values that are wrong under any reading of
	// the auth mode ("" = no header at all is always tried first).
	Wrong []string `json:"wrong"`
	Salt  string   `json:"salt"`
}

// PathOp is one element of Plan.Ops in auth mode: a sub-path (relative to a
// handler prefix, or absolute when Abs) requested on every prefix with every
// method, (c) with the right credentials, (a) without, (b) with wrong ones.
type PathOp struct {
	Sub     string   `json:"sub"`
	Abs     bool     `json:"abs,omitempty"`
	Methods []string `json:"methods"`
	// Accept: value of the Accept header (discovery)
	Accept string `json:"accept,omitempty"`
}

var allMethods = []string{"GET", "HEAD", "POST", "PUT", "DELETE"}

// subPaths: typical sub-paths of every handler type; each is tried under
// EVERY prefix of the installed configuration (the control request decides
// where it is a live endpoint). Placeholders: {canary} a stored blob,
// {file} a stored file schema blob, {new} a blob that is not stored (write
// attempts).
//
// Deliberately absent:
//   - status "restart" (POST re-executes the process when it gets through),
//   - ui "importshare" (fetches from the network when it gets through),
//   - /debug/pprof/profile and /debug/pprof/trace (30 s of CPU profiling),
//   - /debug/logs/{perkeepd,system} (GCE metadata / unix socket dial).
var subPaths = []string{
	"", // the prefix itself
	"camli/enumerate-blobs",
	"camli/enumerate-blobs?limit=10",
	"camli/stat",
	"camli/stat?camliversion=1&blob1={canary}",
	"camli/upload",
	"camli/remove",
	"camli/{canary}",
	"camli/{file}",
	"camli/{new}",
	"camli/ws",
	"camli/search/query",
	"camli/search/recent",
	"camli/search/describe?blobref={file}",
	"camli/search/files?wholedigest={canary}",
	"camli/search/claims?permanode={file}",
	"camli/search/signerpaths?signer={canary}&target={file}",
	"camli/search/ws",
	"camli/sig/sign",
	"camli/sig/verify",
	"camli/sig/discovery",
	"status.json",
	"?camli.mode=config",
	"?clientConfig=true",
	"download/{file}",
	"download/{file}/f.txt",
	"thumbnail/{file}/f.jpg?mw=32&mh=32",
	"tree/{file}",
	"qr/?url=http%3A%2F%2Fexample%2F",
	"ui.js",
	"index.html",
	"closure/goog/base.js",
	"{canary}",
	"{file}?via={canary}",
	"dummy/",
}

var absPaths = []string{
	"/?camli.mode=config",
	"/robots.txt",
	"/favicon.ico",
	"/mobile-setup",
	"/debug/vars",
	"/debug/pprof/",
	"/debug/pprof/cmdline",
	"/debug/pprof/goroutine?debug=1",
	"/debug/pprof/heap?debug=1",
	"/debug/goroutines",
	"/debug/config",
	"/debug/logs/none",
}

func genAuth(tier string, run int, r *simcore.Rand) *harness.Plan {
	salt := fmt.Sprintf("%08x", r.Uint64()&0xffffffff)
	user := pick(r, []string{"camlistore", "alice", "u" + salt[:3]})
	pass := pick(r, []string{"pass3179", "p-" + salt, "x"})
	// the two modes with a localhost clause consult the kernel's TCP table
	// (/proc/net/tcp) for every request that fails the other tests - about
	// 2 ms each: they get fewer runs, fewer wrong credentials, fewer methods
	kinds := []string{"userpass", "basic", "token", "userpass+vivify", "userpass+localhost", "userpass", "basic", "token", "userpass", "devauth"}
	kind := kinds[(run/5)%len(kinds)]
	slow := kind == "userpass+localhost" || kind == "devauth"
	var authStr string
	switch kind {
	case "userpass":
		authStr = "userpass:" + user + ":" + pass
	case "userpass+localhost":
		authStr = "userpass:" + user + ":" + pass + ":+localhost"
	case "userpass+vivify":
		authStr = "userpass:" + user + ":" + pass + ":vivify=viv" + salt
	case "basic":
		authStr = "basic:" + user + ":" + pass
	case "token":
		authStr = "token:tok" + salt
	case "devauth":
		authStr = "devauth:" + pass
	}
	hi := map[string]any{
		"auth":          authStr,
		"listen":        hostAddr,
		"identity":      keyID,
		"memoryStorage": true,
		"ownerName":     "Owner " + salt,
	}
	// index / share handler / base URL variants ("publish" always absent:
	// publisher apps are separate processes)
	switch r.Intn(5) {
	case 0:
		hi["runIndex"] = false
	default:
		hi["memoryIndex"] = true
	}
	// (with runIndex=false the generated low-level configuration still points
	// the share handler at "/index/", which does not exist, and the server
	// does not start: not generated)
	shareVariant := r.Intn(4)
	if v, ok := hi["runIndex"].(bool); ok && !v {
		shareVariant = 3
	}
	switch shareVariant {
	case 0:
		hi["shareHandler"] = true
	case 1:
		hi["shareHandlerPath"] = "/pub/s" + salt[:2] + "/"
	case 2:
		hi["shareHandlerPath"] = "/share/"
	}
	if r.Bool(0.3) {
		hi["baseURL"] = "http://" + hostAddr
	}
	b64 := func(s string) string { return "Basic " + base64.StdEncoding.EncodeToString([]byte(s)) }
	wrong := []string{
		b64(user + ":"),              // right user, empty password
		b64(":"),                     // empty user, empty password
		b64(user + ":" + pass + "x"), // wrong password
		b64(user + ":" + strings.ToUpper(pass) + "."),
		"Token " + strings.Repeat("deadbeef", 5),
		"Token ",
		"Bearer " + pass,
		"Basic !!!notbase64",
		pass,
	}
	if kind != "devauth" {
		// devauth documents "Usernames are ignored"
		wrong = append(wrong, b64(user+"x:"+pass+"y"))
	}
	// a seeded subset of the wrong credentials, the empty-password one always
	sel := []string{wrong[0]}
	for _, w := range wrong[1:] {
		if !slow && r.Bool(0.45) {
			sel = append(sel, w)
		}
	}
	cfg := AuthCfg{Hi: hi, Kind: kind, User: user, Pass: pass, Wrong: sel, Salt: salt}
	p := &harness.Plan{Mode: "auth", Bubble: true, Config: harness.MustJSON(cfg)}
	var ops []PathOp
	allMethods := allMethods
	if slow {
		allMethods = []string{"GET", "POST", "PUT"}
	}
	for _, sp := range subPaths {
		ops = append(ops, PathOp{Sub: sp, Methods: allMethods})
	}
	ops = append(ops, PathOp{Sub: "", Methods: []string{"GET", "HEAD"}, Accept: "text/x-camli-configuration"})
	for _, ap := range absPaths {
		ops = append(ops, PathOp{Sub: ap, Abs: true, Methods: allMethods})
	}
	ops = append(ops, PathOp{Sub: "/", Abs: true, Methods: []string{"GET"}, Accept: "text/x-camli-configuration"})
	// seeded order; the slow modes take a seeded half of the paths
	perm := r.Perm(len(ops))
	if slow {
		perm = perm[:len(perm)/2]
	}
	for _, j := range perm {
		p.Ops = append(p.Ops, harness.MustJSON(ops[j]))
	}
	return p
}

// allowListed: paths the documentation or configuration deliberately leaves
// open to requests without credentials. For these only the universal checks
// apply (no stored blob's contents, no stored blob's ref, no accepted write).
//
//  1. every path under the share handler's prefix ("shareHandler" /
//     "shareHandlerPath" in pkg/types/serverconfig: "enable the share
//     handler"; doc/schema/share.md: "A share claim makes blob(s) available
//     to others (that is, parties who are not the owner of the Perkeep
//     instance)"; authType "haveref": "anyone with the claim blobref can
//     access"). What it serves is the subject of mode "share".
//  2. "/" itself (any method) unless it is a GET/HEAD discovery request: pkg/server/root.go:
//     "RootHandler handles serving the about/splash page", and its option
//     "Stealth determines whether we hide from non-authenticated clients" -
//     a non-stealth root shows the splash page (or the redirect to the UI
//     prefix) to anyone. Discovery ("?camli.mode=config" / Accept:
//     text/x-camli-configuration) is NOT allow-listed: auth.go: "granting
//     OpDiscovery is in effect the same as granting OpAll".
//  3. "/favicon.ico", "/mobile-setup", "/robots.txt": a constant embedded
//     icon, a constant redirect to a UI page (itself behind auth), and a path
//     that does not exist: none of them reads, writes, enumerates, searches,
//     signs or reports status, so the statement does not speak about them.
//
// Nothing under /debug/ is allow-listed: no document or comment declares any
// of it public.
func allowListed(path, method, sharePrefix string, discovery bool) (string, bool) {
	if sharePrefix != "" && strings.HasPrefix(path, sharePrefix) {
		return "share-prefix", true
	}
	bare := path
	if i := strings.IndexByte(bare, '?'); i >= 0 {
		bare = bare[:i]
	}
	if discovery && (method == "GET" || method == "HEAD") {
		// root.go/ui.go wantsDiscovery: only GET/HEAD carry the marker
		return "", false
	}
	switch bare {
	case "/":
		return "root-splash", true
	case "/favicon.ico", "/mobile-setup", "/robots.txt":
		return "root-static", true
	}
	return "", false
}

// classOf names the violation class for an endpoint reached without
// credentials.
func authClass(sub, method string) string {
	bare := sub
	if i := strings.IndexByte(bare, '?'); i >= 0 {
		bare = bare[:i]
	}
	switch {
	case strings.Contains(bare, "camli/enumerate-blobs"):
		return "unauth-enumerate"
	case strings.Contains(bare, "camli/search/"):
		return "unauth-search"
	case strings.Contains(bare, "camli/sig/sign"):
		return "unauth-sign"
	case strings.Contains(bare, "camli/upload"), strings.Contains(bare, "camli/remove"):
		return "unauth-write"
	case strings.Contains(bare, "camli/{") && (method == "PUT" || method == "POST" || method == "DELETE"):
		return "unauth-write"
	case strings.Contains(bare, "camli/{"), strings.Contains(bare, "camli/stat"),
		strings.HasPrefix(bare, "download/"), strings.HasPrefix(bare, "thumbnail/"), strings.HasPrefix(bare, "tree/"):
		return "unauth-read"
	}
	return "unauth-status"
}

type authRun struct {
	rc   *harness.RunCtx
	p    *harness.Plan
	cfg  *AuthCfg
	out  *harness.Outcome
	mux  *http.ServeMux
	opIx int
	stop bool

	canary, file, newU, newC, newUM, newCM *testBlob
	right                                  string
}

type testBlob struct {
	ref  blob.Ref
	data []byte
}

func mkBlob(s string) *testBlob { return &testBlob{ref: blob.RefFromString(s), data: []byte(s)} }

func (a *authRun) viol(class, shape, detail string) {
	sig := class + "@auth/" + shape
	if what, ok := harness.Known(a.p.Prop, sig); ok {
		if a.out.KnownHits[what] == 0 {
			a.out.NoteKnown(what) // once per run
		}
		return
	}
	if a.out.Violation == nil {
		a.out.Violation = harness.Viol(class, sig, detail, a.opIx)
	}
	a.stop = true
}

func (a *authRun) serve(method, path, authz, accept string, body []byte, ctype string) (int, []byte) {
	var rd io.Reader
	if body != nil {
		rd = bytes.NewReader(body)
	}
	ws := strings.HasPrefix(authz, "ws:")
	if ws {
		// a websocket upgrade request: the UI's way in is the process token
		// in the authtoken parameter; none, an empty or a wrong one here
		if tok, has := strings.CutPrefix(authz, "ws:token="); has {
			sep := "?"
			if strings.Contains(path, "?") {
				sep = "&"
			}
			path += sep + "authtoken=" + tok
		}
	}
	req := httptest.NewRequest(method, "http://"+hostAddr+path, rd)
	req.RemoteAddr = peerAddr
	if ws {
		req.Header.Set("Upgrade", "websocket")
		req.Header.Set("Connection", "Upgrade")
	} else if authz != "" {
		req.Header.Set("Authorization", authz)
	}
	if accept != "" {
		req.Header.Set("Accept", accept)
	}
	if ctype != "" {
		req.Header.Set("Content-Type", ctype)
	}
	rec := httptest.NewRecorder()
	code, body := 0, []byte(nil)
	func() {
		defer func() {
			if r := recover(); r != nil {
				// net/http would recover this per connection and drop it; the
				// request got as far as a handler that crashed
				a.reachN("handler-panic")
				code, body = 599, []byte(fmt.Sprint("handler panic: ", r))
			}
		}()
		a.mux.ServeHTTP(rec, req)
		code, body = rec.Code, rec.Body.Bytes()
	}()
	return code, body
}

func multipartOf(b *testBlob) ([]byte, string) {
	var buf bytes.Buffer
	w := multipart.NewWriter(&buf)
	fw, _ := w.CreateFormFile(b.ref.String(), "blob")
	fw.Write(b.data)
	w.Close()
	return buf.Bytes(), w.FormDataContentType()
}

// bodyFor builds the request body a client would send to this sub-path; wr
// and wrM are the not-yet-stored blobs a write attempt tries to store (by PUT
// and by multipart upload).
func (a *authRun) bodyFor(sub, method string, wr, wrM, victim *testBlob) ([]byte, string) {
	if method != "POST" && method != "PUT" {
		return nil, ""
	}
	bare := sub
	if i := strings.IndexByte(bare, '?'); i >= 0 {
		bare = bare[:i]
	}
	switch {
	case strings.HasSuffix(bare, "camli/upload"):
		return multipartOf(wrM)
	case strings.HasSuffix(bare, "camli/{new}"):
		return wr.data, "application/octet-stream"
	case strings.HasSuffix(bare, "camli/remove"):
		// the control never removes the seeded blob
		return []byte(url.Values{"camliversion": {"1"}, "blob1": {victim.ref.String()}}.Encode()), "application/x-www-form-urlencoded"
	case strings.HasSuffix(bare, "camli/stat"):
		return []byte(url.Values{"camliversion": {"1"}, "blob1": {a.canary.ref.String()}}.Encode()), "application/x-www-form-urlencoded"
	case strings.HasSuffix(bare, "camli/search/query"):
		return []byte(`{"constraint": {"camliType": "file"}, "describe": {"depth": 1}}`), "application/json"
	case strings.HasSuffix(bare, "camli/sig/sign"):
		js := fmt.Sprintf("{\"camliVersion\": 1,\n\"camliSigner\": %q,\n\"camliType\": \"permanode\",\n\"random\": \"verif-%s\"\n}", pubKeyRef.String(), a.cfg.Salt)
		return []byte(url.Values{"json": {js}}.Encode()), "application/x-www-form-urlencoded"
	case strings.HasSuffix(bare, "camli/sig/verify"):
		return []byte(url.Values{"sjson": {"{}"}}.Encode()), "application/x-www-form-urlencoded"
	}
	if method == "PUT" {
		return wr.data, "application/octet-stream"
	}
	return []byte("x=1"), "application/x-www-form-urlencoded"
}

func (a *authRun) expand(sub string, nw *testBlob) string {
	sub = strings.ReplaceAll(sub, "{canary}", a.canary.ref.String())
	sub = strings.ReplaceAll(sub, "{file}", a.file.ref.String())
	sub = strings.ReplaceAll(sub, "{new}", nw.ref.String())
	return sub
}

func execAuth(rc *harness.RunCtx, p *harness.Plan) *harness.Outcome {
	out := &harness.Outcome{Ops: len(p.Ops), Reached: map[string]int{}}
	if rc.Sched == nil {
		out.Inconclusive = "sharesim needs the bubble"
		return out
	}
	var cfg AuthCfg
	if err := json.Unmarshal(p.Config, &cfg); err != nil {
		out.Inconclusive = "bad config: " + err.Error()
		return out
	}
	ops := make([]PathOp, len(p.Ops))
	for i, raw := range p.Ops {
		if err := json.Unmarshal(raw, &ops[i]); err != nil {
			out.Inconclusive = "bad op: " + err.Error()
			return out
		}
	}
	if err := loadSigner(); err != nil {
		out.Inconclusive = err.Error()
		return out
	}
	a := &authRun{rc: rc, p: p, cfg: &cfg, out: out}
	hi := map[string]any{}
	for k, v := range cfg.Hi {
		hi[k] = v
	}
	hi["identitySecretRing"] = secring
	confJSON, _ := json.Marshal(hi)
	// osutil.PerkeepConfigDir refuses to guess inside tests
	os.Setenv("CAMLI_CONFIG_DIR", rc.Scratch)

	var low *serverinit.Config
	var serr error
	a.mux = http.NewServeMux()
	rc.Sched.Go("install", func() {
		low, serr = serverinit.Load(confJSON)
		if serr != nil {
			return
		}
		if _, serr = low.InstallHandlers(a.mux, "http://"+hostAddr); serr != nil {
			return
		}
		serr = low.UploadPublicKey(context.Background())
	})
	if herr := rc.Sched.Run(); herr != nil {
		out.Inconclusive = "server setup never finished: " + herr.Error()
		return out
	}
	if serr != nil {
		out.Inconclusive = "server setup: " + firstLine(serr.Error())
		return out
	}
	// the prefixes this configuration exposes, from the low-level config
	lowJSON := low.LowLevelJSONConfig()
	pm, _ := lowJSON["prefixes"].(map[string]any)
	var prefixes []string
	types := map[string]string{}
	sharePrefix, blobRoot := "", ""
	for pfx, v := range pm {
		if pfx == "_knownkeys" {
			continue
		}
		m, _ := v.(map[string]any)
		if m == nil {
			continue
		}
		if en, ok := m["enabled"].(bool); ok && !en {
			continue
		}
		t, _ := m["handler"].(string)
		types[pfx] = t
		prefixes = append(prefixes, pfx)
		if t == "share" {
			sharePrefix = pfx
		}
		if t == "root" {
			if args, _ := m["handlerArgs"].(map[string]any); args != nil {
				blobRoot, _ = args["blobRoot"].(string)
			}
		}
	}
	sort.Strings(prefixes)
	if blobRoot == "" || len(prefixes) == 0 {
		out.Inconclusive = "no root handler / blobRoot in the generated low-level configuration"
		return out
	}

	// credentials
	b64 := func(s string) string { return "Basic " + base64.StdEncoding.EncodeToString([]byte(s)) }
	switch cfg.Kind {
	case "token":
		// pkg/auth: a token mode compares with the process token
		a.right = "Token " + auth.Token()
	case "devauth":
		a.right = b64("anyone:" + cfg.Pass)
	default:
		a.right = b64(cfg.User + ":" + cfg.Pass)
	}

	// stored content: a chunk with a distinctive text, a file over it
	a.canary = mkBlob("canary-content-" + cfg.Salt + "-do-not-leak-0123456789")
	a.file = mkBlob(fmt.Sprintf("{\"camliVersion\": 1,\n\"camliType\": \"file\",\n\"fileName\": \"f-%s.txt\",\n\"unixPermission\": \"0644\",\n\"parts\": [\n  {\"blobRef\": %q, \"size\": %d}\n]}", cfg.Salt, a.canary.ref.String(), len(a.canary.data)))
	a.newU = mkBlob("write-attempt-without-credentials-put-" + cfg.Salt)
	a.newUM = mkBlob("write-attempt-without-credentials-multipart-" + cfg.Salt)
	a.newC = mkBlob("control-write-put-" + cfg.Salt)
	a.newCM = mkBlob("control-write-multipart-" + cfg.Salt)

	var setupErr string
	var stores []string
	for _, pfx := range prefixes {
		if strings.HasPrefix(types[pfx], "storage-") {
			stores = append(stores, pfx)
		}
	}
	present := func(b *testBlob) []string {
		var where []string
		for _, pfx := range stores {
			code, body := a.serve("GET", pfx+"camli/"+b.ref.String(), a.right, "", nil, "")
			if code == 200 && bytes.Equal(body, b.data) {
				where = append(where, pfx)
			}
		}
		return where
	}
	rc.Sched.Go("seed", func() {
		for _, b := range []*testBlob{a.canary, a.file} {
			code, body := a.serve("PUT", blobRoot+"camli/"+b.ref.String(), a.right, "", b.data, "application/octet-stream")
			if code/100 != 2 {
				setupErr = fmt.Sprintf("seeding %s with the right credentials (%s) answered %d %s", blobRoot, cfg.Kind, code, firstLine(string(body)))
				return
			}
		}
		if len(present(a.canary)) == 0 {
			setupErr = "seeded blob not readable back with the right credentials"
		}
	})
	if herr := rc.Sched.Run(); herr != nil {
		out.Inconclusive = "seeding never finished: " + herr.Error()
		return out
	}
	if setupErr != "" {
		out.Inconclusive = setupErr
		return out
	}

	live, vacuous := 0, 0
	creds := append([]string{""}, cfg.Wrong...)
	for i, op := range ops {
		if a.stop {
			break
		}
		a.opIx = i
		var targets []string // prefix list
		if op.Abs {
			targets = []string{""}
		} else {
			targets = prefixes
		}
		opLive := 0
		i := i
		op := op
		rc.Sched.Go(fmt.Sprintf("op%d", i), func() {
			for _, pfx := range targets {
				for _, m := range op.Methods {
					if a.stop {
						return
					}
					// before anything in this process has asked for the
					// process token: a websocket upgrade without a token,
					// with an empty and with a wrong one (judged below, once
					// the control has shown whether the endpoint is live)
					type early struct {
						cred string
						code int
						body []byte
					}
					var earlies []early
					if m == "GET" {
						for _, cr := range []string{"ws:", "ws:token=", "ws:token=00000000000000000000"} {
							auth.VerifFreshProcess()
							ub, ut := a.bodyFor(op.Sub, m, a.newU, a.newUM, a.canary)
							code, body := a.serve(m, pfx+a.expand(op.Sub, a.newU), cr, op.Accept, ub, ut)
							out.SubRuns++
							earlies = append(earlies, early{cr, code, body})
						}
						if cfg.Kind == "token" {
							// the right credential of this mode IS the
							// process token: take the new one
							a.right = "Token " + auth.Token()
						}
					}
					// (c) control: right credentials
					cpath := pfx + a.expand(op.Sub, a.newC)
					cb, ct := a.bodyFor(op.Sub, m, a.newC, a.newCM, a.newC)
					ccode, _ := a.serve(m, cpath, a.right, op.Accept, cb, ct)
					out.SubRuns++
					isLive := ccode != 404 && ccode != 401 && ccode != 403
					if isLive {
						opLive++
						live++
					}
					if ccode/100 == 2 {
						// the control did what the endpoint is for
						a.reachN("control-2xx:" + strings.TrimPrefix(authClass(op.Sub, m), "unauth-"))
					}
					discovery := op.Accept != "" || strings.Contains(op.Sub, "camli.mode=config")
					path := pfx + a.expand(op.Sub, a.newU)
					why, allowed := allowListed(path, m, sharePrefix, discovery)
					if allowed {
						a.reachN("allow-listed:" + why)
					}
					type attempt struct {
						cred string
						code int
						body []byte
						done bool
					}
					var attempts []attempt
					for _, e := range earlies {
						attempts = append(attempts, attempt{e.cred, e.code, e.body, true})
					}
					for _, cr := range creds {
						attempts = append(attempts, attempt{cred: cr})
					}
					for _, at := range attempts {
						cr, code, body := at.cred, at.code, at.body
						if !at.done {
							ub, ut := a.bodyFor(op.Sub, m, a.newU, a.newUM, a.canary)
							code, body = a.serve(m, path, cr, op.Accept, ub, ut)
							out.SubRuns++
						}
						kind := "no credentials"
						if strings.HasPrefix(cr, "ws:") {
							kind = "websocket upgrade in a fresh process, " + map[string]string{"ws:": "no authtoken", "ws:token=": "empty authtoken"}[cr]
							if !strings.HasSuffix(kind, "token") {
								kind += "wrong authtoken"
							}
							a.reachN("websocket-upgrade-without-valid-token")
						} else if cr != "" {
							kind = "wrong credentials " + credShape(cr)
						}
						shape := types[pfx]
						if op.Abs {
							shape = "abs"
						}
						bareSub := op.Sub
						if k := strings.IndexByte(bareSub, '?'); k >= 0 {
							bareSub = bareSub[:k]
						}
						// universal: no stored contents, whatever the path
						if bytes.Contains(body, a.canary.data) {
							a.viol("unauth-read", shape+":"+bareSub, fmt.Sprintf("auth %s, %s: %s %s answered %d with the contents of a stored blob in its body", cfg.Kind, kind, m, path, code))
							return
						}
						leaksRef := bytes.Contains(body, []byte(a.canary.ref.String())) && !strings.Contains(path, a.canary.ref.String()) ||
							bytes.Contains(body, []byte(a.file.ref.String())) && !strings.Contains(path, a.file.ref.String())
						if leaksRef {
							a.viol(authClass(op.Sub, m), shape+":"+bareSub, fmt.Sprintf("auth %s, %s: %s %s answered %d and names a stored blob's ref in its body", cfg.Kind, kind, m, path, code))
							return
						}
						if allowed || !isLive {
							continue
						}
						if code != 401 && code != 403 {
							a.viol(authClass(op.Sub, m), shape+":"+bareSub, fmt.Sprintf("auth %s, %s: %s %s (handler %q) answered %d (%d bytes: %.80q); with the right credentials it answers %d - the endpoint is live and must refuse with 401/403", cfg.Kind, kind, m, path, shape, code, len(body), firstLine(string(body)), ccode))
							return
						}
						a.reachN("refused:" + strings.TrimPrefix(authClass(op.Sub, m), "unauth-"))
						if cr != "" {
							a.reachN("refused-wrong-credentials")
						}
					}
				}
			}
		})
		if herr := rc.Sched.Run(); herr != nil {
			out.Inconclusive = fmt.Sprintf("op %d (%s): never finished: %v", i, op.Sub, herr)
			return out
		}
		if opLive == 0 {
			vacuous++
		}
	}
	// no write was accepted without credentials; the control writes were
	var w1, w2, c1, c2 []string
	rc.Sched.Go("verify-writes", func() {
		w1, w2 = present(a.newU), present(a.newUM)
		c1, c2 = present(a.newC), present(a.newCM)
		if len(present(a.canary)) == 0 && !a.stop {
			a.viol("unauth-write", "remove", fmt.Sprintf("auth %s: the seeded blob is gone after the unauthenticated/wrongly authenticated requests", cfg.Kind))
		}
	})
	if herr := rc.Sched.Run(); herr != nil {
		out.Inconclusive = "write verification never finished: " + herr.Error()
		return out
	}
	if !a.stop && len(w1)+len(w2) > 0 {
		a.viol("unauth-write", "stored", fmt.Sprintf("auth %s: a blob offered without (or with wrong) credentials is now stored under %v", cfg.Kind, append(w1, w2...)))
	}
	hasPut, hasUp := false, false
	for _, op := range ops {
		if strings.HasSuffix(op.Sub, "camli/{new}") {
			hasPut = true
		}
		if strings.HasSuffix(op.Sub, "camli/upload") {
			hasUp = true
		}
	}
	if hasPut && len(c1) > 0 {
		a.reachN("control-put-stored")
	}
	if hasUp && len(c2) > 0 {
		a.reachN("control-multipart-stored")
	}
	if (hasPut && len(c1) == 0 || hasUp && len(c2) == 0) && len(ops) >= (len(subPaths)+len(absPaths)+2)/2 && out.Violation == nil {
		out.Inconclusive = fmt.Sprintf("control writes with the right credentials were not stored (put: %v, multipart: %v)", c1, c2)
		return out
	}
	a.reachN("auth-mode:" + cfg.Kind)
	if sharePrefix != "" {
		a.reachN("config-with-share-handler")
	} else {
		a.reachN("config-without-share-handler")
	}
	if v, ok := cfg.Hi["runIndex"].(bool); ok && !v {
		a.reachN("config-without-index")
	}
	var hk []string
	for _, k := range []string{"runIndex", "memoryIndex", "shareHandler", "shareHandlerPath", "baseURL"} {
		if _, ok := cfg.Hi[k]; ok {
			hk = append(hk, k)
		}
	}
	out.ShapeKey = fmt.Sprintf("auth|%s|%s|%d|w%d", cfg.Kind, strings.Join(hk, ","), len(ops), len(cfg.Wrong))
	out.Nontrivial = live >= 10
	out.Sample = map[string]any{"mode": "auth", "auth": cfg.Kind, "config": hk, "prefixes": prefixes, "liveEndpoints": live, "subPathsWithoutLiveEndpoint": vacuous, "requests": out.SubRuns}
	return out
}

func (a *authRun) reachN(k string) { a.out.Reached[k]++ }

func credShape(cr string) string {
	f := strings.Fields(cr)
	if len(f) == 0 {
		return "(blank)"
	}
	if len(f) == 1 {
		if strings.HasSuffix(cr, " ") {
			return f[0] + "-empty"
		}
		return "bare-word"
	}
	if f[0] == "Basic" {
		if dec, err := base64.StdEncoding.DecodeString(f[1]); err == nil {
			u, pw, _ := strings.Cut(string(dec), ":")
			s := "Basic"
			if u == "" {
				s += "-nouser"
			}
			if pw == "" {
				s += "-emptypassword"
			} else {
				s += "-wrongpassword"
			}
			return s
		}
		return "Basic-malformed"
	}
	return f[0]
}

func firstLine(s string) string {
	if i := strings.IndexByte(s, '\n'); i >= 0 {
		return s[:i]
	}
	return s
}
