package kvsim

import (
	"database/sql"
	"encoding/json"
	"errors"
	"fmt"
	"io"
	"log"
	"os"
	"path/filepath"
	"runtime/debug"
	"sort"
	"strings"

	"go4.org/jsonconfig"
	"perkeep.org/pkg/sorted"
	"perkeep.org/pkg/sorted/buffer"
	_ "perkeep.org/pkg/sorted/kvfile"
	lvdb "perkeep.org/pkg/sorted/leveldb"
	_ "perkeep.org/pkg/sorted/sqlite"

	"verif/harness"
	"verif/sim"
	"verif/simcore"
)

type engine struct{}

func init() { harness.Register(engine{}) }

func (engine) Name() string    { return "kvsim" }
func (engine) Props() []string { return []string{"C10"} }

func (engine) Gen(prop, tier string, run int, r *simcore.Rand) *harness.Plan {
	return genC10(tier, run, r)
}

// rop is a materialised operation.
type rop struct {
	kind     string
	key, val string
	muts     []rmut
	s, e     string
	n        int
	poison   int
}

type rmut struct {
	del      bool
	key, val string
}

func short(s string) string {
	if len(s) <= 28 {
		return fmt.Sprintf("%q", s)
	}
	return fmt.Sprintf("%q…(%d bytes, ends %q)", s[:16], len(s), s[len(s)-4:])
}

func (o *rop) String() string {
	switch o.kind {
	case "get", "del":
		return o.kind + "(" + short(o.key) + ")"
	case "set":
		return "set(" + short(o.key) + ", " + short(o.val) + ")"
	case "batch":
		var parts []string
		for _, m := range o.muts {
			if m.del {
				parts = append(parts, "del "+short(m.key))
			} else {
				parts = append(parts, "set "+short(m.key)+"="+short(m.val))
			}
		}
		return "batch[" + strings.Join(parts, "; ") + "]"
	case "fill":
		return fmt.Sprintf("fill(%d keys w|000000..)", o.n)
	case "find":
		if o.n >= 0 {
			return fmt.Sprintf("find(%s, %s) read %d then Close", short(o.s), short(o.e), o.n)
		}
		return "find(" + short(o.s) + ", " + short(o.e) + ")"
	}
	return o.kind
}

func materialise(raw []json.RawMessage) ([]rop, error) {
	ops := make([]rop, len(raw))
	for i, b := range raw {
		var op Op
		if err := json.Unmarshal(b, &op); err != nil {
			return nil, err
		}
		o := rop{kind: op.K, n: op.N, poison: op.Poison}
		var err error
		get := func(s *Str) string {
			v, e := s.Bytes()
			if e != nil {
				err = e
			}
			return v
		}
		o.key, o.val, o.s, o.e = get(op.Key), get(op.Val), get(op.S), get(op.E)
		for _, m := range op.Muts {
			o.muts = append(o.muts, rmut{del: m.Del, key: get(m.Key), val: get(m.Val)})
		}
		if err != nil {
			return nil, err
		}
		switch o.kind {
		case "get", "set", "del", "batch", "find", "flush", "reopen", "compact", "fill":
		default:
			return nil, fmt.Errorf("unknown op kind %q", o.kind)
		}
		ops[i] = o
	}
	return ops, nil
}

// sut is the store under test together with what is needed to reopen it.
type sut struct {
	cfg  *Config
	rc   *harness.RunCtx
	st   *sim.KVState     // simkv durable state
	mem  sorted.KeyValue  // the one memory object (never re-created)
	base sorted.KeyValue  // the (backing) store
	buf  *buffer.KeyValue // non-nil when buffered
	kv   sorted.KeyValue  // what the history talks to
}

func (s *sut) open() error {
	switch s.cfg.Impl {
	case "memory":
		if s.mem == nil {
			s.mem = sorted.NewMemoryKeyValue()
		}
		s.base = s.mem
	case "simkv":
		if s.st == nil {
			s.st = sim.NewKVState("c10")
		}
		// reopen = a new wrapper over the same durable state
		s.base = &sim.SimKV{Env: s.rc.Env, G: s.rc.Env.Gen, St: s.st}
	case "leveldb", "kv", "sqlite":
		kv, err := sorted.NewKeyValue(jsonconfig.Obj{
			"type": s.cfg.Impl,
			"file": filepath.Join(s.rc.Scratch, "c10."+s.cfg.Impl),
		})
		if err != nil {
			return err
		}
		s.base = kv
	default:
		return fmt.Errorf("unknown implementation %q", s.cfg.Impl)
	}
	s.kv = s.base
	s.buf = nil
	if s.cfg.Buffered {
		// the buffer is always a fresh in-memory store ("the buffer should be
		// an in-memory implementation anyway", buffer.go); buffer.Close
		// flushes it and closes only the backing store
		s.buf = buffer.New(sorted.NewMemoryKeyValue(), s.base, s.cfg.MaxBuf)
		s.kv = s.buf
	}
	return nil
}

// run is the state of one execution; the history runs in its own goroutine
// (see watch.go) and publishes progress through phase/ticks.
type run struct {
	cfg    *Config
	s      *sut
	m      map[string]string
	seen   map[string]bool // every key the history ever mutated or read
	out    *harness.Outcome
	reach  map[string]int
	cur    int // op index
	prog   progress
	closed bool
}

// sqliteExec runs a statement on the sqlite file of the store under test
// through a second connection (the store is idle between operations).
func (x *run) sqliteExec(stmt string) error {
	db, err := sql.Open("sqlite", filepath.Join(x.s.rc.Scratch, "c10.sqlite"))
	if err != nil {
		return err
	}
	defer db.Close()
	_, err = db.Exec(stmt)
	return err
}

func (x *run) viol(class, detail string) *harness.Violation {
	return harness.Viol(class, class+"@"+x.cfg.Name(), fmt.Sprintf("%s, op #%d: %s", x.cfg.Name(), x.cur, detail), x.cur)
}

func (x *run) expRange(s, e string) []string {
	var ks []string
	for k := range x.m {
		if k >= s && (e == "" || k < e) {
			ks = append(ks, k)
		}
	}
	sort.Strings(ks)
	return ks
}

// scan executes Find(s,e) on kv, reads n pairs (all if n < 0), closes the
// iterator and compares with the model.
func (x *run) scan(kv sorted.KeyValue, s, e string, n int, class, what string) *harness.Violation {
	exp := x.expRange(s, e)
	x.prog.at(what + ": Find")
	it := kv.Find(s, e)
	i := 0
	for n < 0 || i < n {
		x.prog.at(what + ": Next")
		if !it.Next() {
			break
		}
		k, v := it.Key(), it.Value()
		kb, vb := string(it.KeyBytes()), string(it.ValueBytes())
		if i >= len(exp) {
			it.Close()
			return x.viol(class, fmt.Sprintf("%s yielded pair #%d %s=%s but only %d keys are in range: %s", what, i, short(k), short(v), len(exp), shortList(exp)))
		}
		if k != exp[i] {
			it.Close()
			return x.viol(class, fmt.Sprintf("%s pair #%d has key %s, want %s (keys in range in byte order: %s)", what, i, short(k), short(exp[i]), shortList(exp)))
		}
		if v != x.m[k] {
			it.Close()
			return x.viol(class, fmt.Sprintf("%s pair #%d key %s has value %s, current value is %s", what, i, short(k), short(v), short(x.m[k])))
		}
		if kb != k || vb != v {
			it.Close()
			return x.viol(class, fmt.Sprintf("%s pair #%d: KeyBytes/ValueBytes %s=%s differ from Key/Value %s=%s", what, i, short(kb), short(vb), short(k), short(v)))
		}
		i++
	}
	want := len(exp)
	if n >= 0 && n < want {
		want = n
	}
	x.prog.at(what + ": iterator Close")
	err := it.Close()
	if i < want {
		return x.viol(class, fmt.Sprintf("%s ended after %d pairs, missing %s (keys in range: %s; Close: %v)", what, i, short(exp[i]), shortList(exp), err))
	}
	if err != nil {
		return x.viol(class, fmt.Sprintf("%s: iterator Close returned %v", what, err))
	}
	if n >= 0 && n < len(exp) {
		x.reach["find-partial-close"]++
	}
	return nil
}

func shortList(ks []string) string {
	var parts []string
	for i, k := range ks {
		if i >= 8 {
			parts = append(parts, fmt.Sprintf("… %d more", len(ks)-i))
			break
		}
		parts = append(parts, short(k))
	}
	return "[" + strings.Join(parts, " ") + "]"
}

func (x *run) get(key, class, what string) *harness.Violation {
	x.prog.at(what)
	got, err := x.s.kv.Get(key)
	want, ok := x.m[key]
	switch {
	case ok && err != nil:
		return x.viol(class, fmt.Sprintf("%s returned error %v, want %s", what, err, short(want)))
	case ok && got != want:
		return x.viol(class, fmt.Sprintf("%s returned %s, last value set is %s", what, short(got), short(want)))
	case !ok && err == nil:
		return x.viol(class, fmt.Sprintf("%s returned %s for a key that is absent (never set, deleted, or skipped as over the size limit)", what, short(got)))
	case !ok && !errors.Is(err, sorted.ErrNotFound):
		return x.viol(class, fmt.Sprintf("%s of an absent key returned %v, want sorted.ErrNotFound", what, err))
	}
	if ok {
		x.reach["get-hit"]++
	} else {
		x.reach["get-miss"]++
	}
	return nil
}

// modelSet applies a set to the model: over-limit entries are silently
// skipped (kv.go CheckSizes; every implementation's Set and batch Set).
func (x *run) modelSet(k, v string) {
	x.seen[k] = true
	if len(k) > sorted.MaxKeySize || len(v) > sorted.MaxValueSize {
		x.reach["oversize-skipped"]++
		return
	}
	if len(k) == sorted.MaxKeySize {
		x.reach["key-at-limit"]++
	}
	if len(v) == sorted.MaxValueSize {
		x.reach["value-at-limit"]++
	}
	if v == "" {
		x.reach["empty-value"]++
	}
	if k == "" {
		x.reach["empty-key"]++
	}
	x.m[k] = v
}

func (x *run) modelDel(k string) {
	x.seen[k] = true
	if _, ok := x.m[k]; ok {
		x.reach["delete-hit"]++
	}
	delete(x.m, k)
}

func (x *run) reopen(what string) *harness.Violation {
	x.prog.at(what + ": Close")
	if err := x.s.kv.Close(); err != nil {
		return x.viol("close-error", fmt.Sprintf("%s: Close returned %v", what, err))
	}
	x.closed = true
	x.prog.at(what + ": re-create the store over its own files")
	if err := x.s.open(); err != nil {
		return x.viol("reopen-failed", fmt.Sprintf("%s: re-creating the store over its own durable state failed: %v", what, err))
	}
	x.closed = false
	x.reach["reopen"]++
	return x.scan(x.s.kv, "", "", -1, "reopen-lost", what+": full scan after close+reopen")
}

func (x *run) step(op *rop) *harness.Violation {
	kv := x.s.kv
	switch op.kind {
	case "get":
		x.seen[op.key] = true
		return x.get(op.key, "get-mismatch", op.String())
	case "set":
		x.prog.at(op.String())
		if err := kv.Set(op.key, op.val); err != nil {
			return x.viol("set-error", fmt.Sprintf("%s returned %v", op, err))
		}
		x.modelSet(op.key, op.val)
	case "del":
		x.prog.at(op.String())
		if err := kv.Delete(op.key); err != nil {
			return x.viol("delete-error", fmt.Sprintf("%s returned %v", op, err))
		}
		x.modelDel(op.key)
	case "batch":
		poisoned := false
		if op.poison > 0 && op.poison <= len(op.muts) && x.cfg.Impl == "sqlite" && !x.cfg.Buffered {
			// fault injection below perkeep's code: a trigger in the real
			// database aborts the INSERT of the poison key, i.e. one
			// statement fails in the middle of the batch's transaction
			if err := x.sqliteExec(fmt.Sprintf("CREATE TRIGGER verif_fault BEFORE INSERT ON rows WHEN NEW.k = '%s' BEGIN SELECT RAISE(ABORT, 'injected statement failure'); END", op.muts[op.poison-1].key)); err == nil {
				poisoned = true
				x.reach["batch-statement-failure-injected"]++
			} else {
				x.reach["batch-statement-failure-NOT-injected:"+err.Error()]++
			}
		}
		x.prog.at(op.String() + ": BeginBatch")
		b := kv.BeginBatch()
		first := map[string]bool{} // key -> first mutation was a delete
		for _, m := range op.muts {
			if m.del {
				b.Delete(m.key)
			} else {
				b.Set(m.key, m.val)
			}
			if wasDel, dup := first[m.key]; dup {
				x.reach["batch-same-key-twice"]++
				if wasDel && !m.del {
					x.reach["batch-delete-then-set"]++
				}
				if !wasDel && m.del {
					x.reach["batch-set-then-delete"]++
				}
			} else {
				first[m.key] = m.del
			}
		}
		x.prog.at(op.String() + ": CommitBatch")
		err := kv.CommitBatch(b)
		if poisoned {
			if derr := x.sqliteExec("DROP TRIGGER verif_fault"); derr != nil {
				x.out.Inconclusive = "could not drop the fault trigger: " + derr.Error()
				return nil
			}
			if err != nil {
				// refused: then nothing of the batch may be there
				x.reach["batch-failed-atomically"]++
				if v := x.scan(kv, "", "", -1, "batch-not-atomic", op.String()+": CommitBatch failed ("+err.Error()+"), so nothing of the batch may be applied; full scan"); v != nil {
					return v
				}
				break
			}
			// reported as committed: then everything must be there (checked
			// by the model below and the scans that follow)
		}
		if err != nil {
			return x.viol("batch-error", fmt.Sprintf("%s: CommitBatch returned %v", op, err))
		}
		for _, m := range op.muts {
			if m.del {
				x.modelDel(m.key)
			} else {
				x.modelSet(m.key, m.val)
			}
		}
	case "find":
		if op.e != "" && op.s >= op.e {
			x.reach["find-empty-range"]++
		}
		if len(x.expRange(op.s, op.e)) > 0 {
			x.reach["find-nonempty"]++
		}
		return x.scan(kv, op.s, op.e, op.n, "find-mismatch", op.String())
	case "fill":
		// N keys "w|<6 digits>" with short values, written in batches of up
		// to 97: ranges wider than any paging an implementation may do
		// internally; followed by a full scan
		if op.n <= 0 || op.n > 5000 {
			return nil
		}
		x.prog.at(op.String())
		for i := 0; i < op.n; {
			b := kv.BeginBatch()
			j := i
			for ; j < op.n && j < i+97; j++ {
				b.Set(fmt.Sprintf("w|%06d", j), fmt.Sprintf("f%d", j%13))
			}
			if err := kv.CommitBatch(b); err != nil {
				return x.viol("batch-error", fmt.Sprintf("fill: CommitBatch returned %v", err))
			}
			for ; i < j; i++ {
				x.modelSet(fmt.Sprintf("w|%06d", i), fmt.Sprintf("f%d", i%13))
			}
		}
		x.reach["range-of-hundreds-of-rows"]++
		return x.scan(kv, "", "", -1, "find-mismatch", op.String()+": full scan")
	case "flush":
		if x.s.buf == nil {
			return nil // tolerated in shrunk or hand-written plans
		}
		x.prog.at("flush")
		if err := x.s.buf.Flush(); err != nil {
			return x.viol("flush-error", fmt.Sprintf("Flush returned %v", err))
		}
		x.reach["buffer-flush"]++
	case "reopen":
		if !x.cfg.reopenable() {
			return nil
		}
		return x.reopen("reopen")
	case "compact":
		// goleveldb moves tables between levels on its own goroutines at a
		// time no plan decides; doing it here makes the layout a function
		// of the plan. Contents must be unaffected.
		x.prog.at("compact")
		ok, err := lvdb.VerifCompact(x.s.base)
		if err != nil {
			return x.viol("compact-error", fmt.Sprintf("CompactRange returned %v", err))
		}
		if ok {
			x.reach["leveldb-compacted"]++
		}
	}
	return nil
}

// guarded runs f and turns a panic inside the system under test into a
// violation of class <kind>-panic.
func (x *run) guarded(kind string, f func() *harness.Violation) (v *harness.Violation) {
	defer func() {
		if r := recover(); r != nil {
			if os.Getenv("VERIF_LOG") != "" {
				fmt.Fprintf(os.Stderr, "kvsim: panic %v\n%s\n", r, debug.Stack())
			}
			v = x.viol(kind+"-panic", fmt.Sprintf("panic %q during %s", fmt.Sprint(r), x.prog.where()))
		}
	}()
	return f()
}

func (x *run) history(ops []rop) *harness.Violation {
	for i := range ops {
		x.cur = i
		x.s.rc.Env.BeginOp(i)
		op := &ops[i]
		if v := x.guarded(op.kind, func() *harness.Violation { return x.step(op) }); v != nil {
			return v
		}
	}
	// closing sweep: full scan, a Get of every key the history touched, then
	// (where contents are durable) close + reopen + full scan
	x.cur = len(ops)
	if v := x.guarded("find", func() *harness.Violation {
		return x.scan(x.s.kv, "", "", -1, "find-mismatch", "closing sweep: find(\"\", \"\")")
	}); v != nil {
		return v
	}
	for _, k := range sim.SortedKeys(x.seen) {
		if v := x.guarded("get", func() *harness.Violation {
			return x.get(k, "get-mismatch", "closing sweep: get("+short(k)+")")
		}); v != nil {
			return v
		}
	}
	if x.cfg.reopenable() {
		if v := x.guarded("reopen", func() *harness.Violation { return x.reopen("closing sweep") }); v != nil {
			return v
		}
	}
	return x.guarded("close", func() *harness.Violation {
		x.prog.at("final Close")
		if err := x.s.kv.Close(); err != nil {
			return x.viol("close-error", fmt.Sprintf("final Close returned %v", err))
		}
		x.closed = true
		return nil
	})
}

func shapeKey(cfg *Config, ops []rop) string {
	var sb strings.Builder
	sb.WriteString(cfg.Name())
	sb.WriteByte('|')
	for _, op := range ops {
		c := op.kind[:1]
		if op.kind == "find" && op.n >= 0 {
			c = "p"
		}
		if op.kind == "flush" {
			c = "F"
		}
		if op.kind == "compact" {
			c = "C"
		}
		sb.WriteString(c)
	}
	return sb.String()
}

func (engine) Exec(rc *harness.RunCtx, p *harness.Plan) *harness.Outcome {
	var cfg Config
	if err := json.Unmarshal(p.Config, &cfg); err != nil {
		return &harness.Outcome{Inconclusive: "bad config: " + err.Error()}
	}
	ops, err := materialise(p.Ops)
	if err != nil {
		return &harness.Outcome{Inconclusive: "bad op: " + err.Error()}
	}
	// CheckSizes logs every over-limit entry and kvfile logs every Close
	log.SetOutput(io.Discard)
	defer log.SetOutput(os.Stderr)

	out := &harness.Outcome{Ops: len(ops)}
	x := &run{cfg: &cfg, s: &sut{cfg: &cfg, rc: rc}, m: map[string]string{}, seen: map[string]bool{}, out: out, reach: map[string]int{}}
	if err := x.s.open(); err != nil {
		out.Inconclusive = "cannot create " + cfg.Name() + ": " + err.Error()
		return out
	}
	var v *harness.Violation
	hung, trouble := watch(&x.prog, func() { v = x.history(ops) })
	switch {
	case trouble != "":
		out.Inconclusive = trouble
		return out
	case hung:
		// the history goroutine is parked for good; its state is stable
		v = x.viol("op-hang", fmt.Sprintf("never returned: every goroutine of the process is blocked during %s", x.prog.where()))
	}
	out.Violation = v
	out.ShapeKey = shapeKey(&cfg, ops)
	out.Nontrivial = len(ops) >= 3
	out.Reached = x.reach
	var sample []string
	for i := range ops {
		if i >= 10 {
			sample = append(sample, fmt.Sprintf("… %d more", len(ops)-i))
			break
		}
		sample = append(sample, ops[i].String())
	}
	smp := map[string]any{"implementation": cfg.Name(), "ops": sample, "finalKeys": len(x.m)}
	if cfg.Buffered {
		smp["maxBufferBytes"] = cfg.MaxBuf
	}
	out.Sample = smp
	return out
}
