package kvsim

import (
	"bytes"
	"fmt"
	"runtime"
	"runtime/debug"
	"sync/atomic"
	"time"
)

// progress is published by the history goroutine before every call into the
// system under test.
type progress struct {
	ticks atomic.Uint64
	phase atomic.Value // string
}

func (p *progress) at(s string) {
	p.phase.Store(s)
	p.ticks.Add(1)
}

func (p *progress) where() string {
	if s, ok := p.phase.Load().(string); ok {
		return s
	}
	return "start"
}

const (
	watchPoll    = 250 * time.Millisecond
	watchStall   = 1500 * time.Millisecond
	watchConfirm = 500 * time.Millisecond
	watchGiveUp  = 120 * time.Second
)

// watch runs f in its own goroutine and waits for it. A sequential history
// over a store has nobody else to wait for, so "a call never returns" is a
// deadlock of the whole process. It is reported as hung only when (a) no
// call boundary was crossed for a second and a half and (b) at two samples
// half a second apart no goroutine other than this one is running, runnable or in a
// system call — wall-clock time only decides when to look, never the verdict.
// A stall with busy goroutines (slow disk) is waited out; after two minutes
// it is harness trouble, not a violation.
func watch(p *progress, f func()) (hung bool, trouble string) {
	done := make(chan struct{})
	var pan string
	go func() {
		defer close(done)
		defer func() {
			if r := recover(); r != nil {
				pan = fmt.Sprintf("engine panic: %v\n%s", r, debug.Stack())
			}
		}()
		f()
	}()
	wait := func(d time.Duration) bool {
		t := time.NewTimer(d)
		defer t.Stop()
		select {
		case <-done:
			return true
		case <-t.C:
			return false
		}
	}
	last := p.ticks.Load()
	stalled := time.Now()
	for {
		if wait(watchPoll) {
			return false, pan
		}
		if cur := p.ticks.Load(); cur != last {
			last, stalled = cur, time.Now()
			continue
		}
		if time.Since(stalled) < watchStall {
			continue
		}
		if !othersBusy() {
			if wait(watchConfirm) {
				return false, pan
			}
			if p.ticks.Load() == last && !othersBusy() {
				return true, ""
			}
			continue
		}
		if time.Since(stalled) > watchGiveUp {
			return false, "no progress for " + watchGiveUp.String() + " with busy goroutines during " + p.where()
		}
	}
}

// othersBusy reports whether any goroutine other than the caller is running,
// runnable or in a system call.
func othersBusy() bool {
	buf := make([]byte, 1<<20)
	buf = buf[:runtime.Stack(buf, true)]
	first := true
	for _, blk := range bytes.Split(buf, []byte("\n\n")) {
		if !bytes.HasPrefix(blk, []byte("goroutine ")) {
			continue
		}
		if first {
			first = false // the caller is listed first
			continue
		}
		i := bytes.IndexByte(blk, '[')
		j := bytes.IndexAny(blk, ",]")
		if i < 0 || j < i {
			return true // unparsable: do not claim a deadlock
		}
		switch string(blk[i+1 : j]) {
		case "running", "runnable", "syscall":
			return true
		}
	}
	return false
}
