// Package kvsim holds every sorted.KeyValue implementation that builds
// offline (memory, leveldb, kvfile, sqlite, the write buffer over each of
// them, and the simulator's own SimKV stub) to the contract of property C10:
// a byte-ordered map with atomic in-order batches, silent skipping of
// over-limit entries and contents that survive close and reopen. One run is
// one seeded sequential history executed in lock-step against an ordered map.
//
// Two defects of the unchanged tree are registered in KNOWN_FINDINGS.json
// (replayable minimal histories in testdata/): Find on a buffer over kvfile
// panics when the backing range is empty, and Flush of an empty buffer over
// sqlite leaks the backing batch so the next call never returns.
//
// Not catchable here: anything that needs a failing write below the store
// (e.g. kvfile's transaction rollback) - this engine injects no faults.
package kvsim

import (
	"fmt"
	"strconv"
	"strings"

	"perkeep.org/pkg/sorted"

	"verif/harness"
	"verif/simcore"
)

// Str is a byte string in a plan. Keys and values are arbitrary bytes, which
// JSON strings cannot carry (invalid UTF-8 is replaced on marshal), and the
// limit-sized ones are up to 63 001 bytes, so a string is described as
// Go-quoted ASCII head + Pad repetitions of the byte Fill.
type Str struct {
	Q    string `json:"q"`
	Pad  int    `json:"pad,omitempty"`
	Fill int    `json:"fill,omitempty"`
}

func mkStr(head string, pad int, fill byte) *Str {
	q := strconv.QuoteToASCII(head)
	return &Str{Q: q[1 : len(q)-1], Pad: pad, Fill: int(fill)}
}

// Bytes materialises the string ("" for nil).
func (s *Str) Bytes() (string, error) {
	if s == nil {
		return "", nil
	}
	head, err := strconv.Unquote(`"` + s.Q + `"`)
	if err != nil {
		return "", fmt.Errorf("bad string spec %q: %v", s.Q, err)
	}
	if s.Pad <= 0 {
		return head, nil
	}
	return head + strings.Repeat(string([]byte{byte(s.Fill)}), s.Pad), nil
}

// Mut is one entry of a batch.
type Mut struct {
	Del bool `json:"del,omitempty"`
	Key *Str `json:"key"`
	Val *Str `json:"val,omitempty"`
}

// Op is one step of a history.
//
//	get    Key
//	set    Key Val
//	del    Key
//	batch  Muts (applied in order, committed as one unit)
//	find   S E N   (N<0: iterate to exhaustion; N>=0: read at most N pairs, then Close)
//	flush  (buffer only; ignored otherwise)
//	reopen (Close + re-create over the same durable state; ignored for memory)
type Op struct {
	K    string `json:"k"`
	Key  *Str   `json:"key,omitempty"`
	Val  *Str   `json:"val,omitempty"`
	Muts []Mut  `json:"muts,omitempty"`
	S    *Str   `json:"s,omitempty"`
	E    *Str   `json:"e,omitempty"`
	N    int    `json:"n,omitempty"`
	// Poison (batch, plain sqlite only): the Poison-th mutation (1-based), a
	// set of a dedicated ASCII key, is made to fail inside the transaction by
	// a trigger installed in the real database file; the batch must then be
	// all or nothing.
	Poison int `json:"poison,omitempty"`
}

// Config selects the implementation under test.
type Config struct {
	// Impl is the (backing) store: memory | leveldb | kv | sqlite | simkv.
	Impl string `json:"impl"`
	// Buffered: the store under test is buffer.New(memory, Impl, MaxBuf).
	Buffered bool  `json:"buffered,omitempty"`
	MaxBuf   int64 `json:"maxBuf,omitempty"`
}

// Name is the implementation name used in signatures and shape keys.
func (c *Config) Name() string {
	if c.Buffered {
		return "buffer(" + c.Impl + ")"
	}
	return c.Impl
}

// reopenable: close + reopen is meaningful. A memory store keeps its content
// only as long as the same object is kept, so reopen is not generated for it
// (nor for a buffer over it: buffer.Close closes the backing store).
func (c *Config) reopenable() bool { return c.Impl != "memory" }

type implChoice struct {
	impl     string
	buffered bool
	weight   int
	maxOps   int
}

// sqlite commits (and fsyncs) on every mutation and is by far the slowest
// implementation; it gets fewer and shorter histories so that a quick batch
// still covers all ten implementations.
var implTable = []implChoice{
	{"memory", false, 9, 120},
	{"leveldb", false, 14, 120},
	{"kv", false, 14, 120},
	{"sqlite", false, 8, 50},
	{"simkv", false, 8, 120},
	{"memory", true, 12, 120},
	{"leveldb", true, 11, 120},
	{"kv", true, 10, 120},
	{"sqlite", true, 3, 40},
	{"simkv", true, 11, 120},
}

var atoms = []string{
	"a", "b", "ab", "|", ":", "\x00", "\xff", "\x7f", "\x80", "\xfe", "\x01",
	"meta:", "have:", "sha224-", "claim|", "signerkeyid:", "~", " ", "\xc3\xa9", "0", "z",
}

var fills = []byte{'a', 0x00, 0xff, '|', 'z'}

type gen struct {
	r    *simcore.Rand
	cfg  *Config
	keys []*Str // key pool
	raw  []string
	nval int
}

func (g *gen) atom() string { return atoms[g.r.Intn(len(atoms))] }

func (g *gen) shortHead() string {
	n := g.r.Range(1, 3)
	var sb strings.Builder
	for i := 0; i < n; i++ {
		sb.WriteString(g.atom())
	}
	return sb.String()
}

func (g *gen) addKey(s *Str) {
	b, _ := s.Bytes()
	for _, have := range g.raw {
		if have == b {
			return
		}
	}
	g.keys = append(g.keys, s)
	g.raw = append(g.raw, b)
}

// genKey adds one key to the pool. The alphabet stresses byte ordering:
// separators the index uses ('|', ':'), 0x00, 0xff and other high bytes,
// keys that are prefixes of each other, and lengths around MaxKeySize.
func (g *gen) genKey() {
	r := g.r
	switch x := r.Intn(100); {
	case x < 25 && len(g.keys) > 0:
		// relative of an existing short key: extension, truncation, successor
		i := r.Intn(len(g.keys))
		if g.keys[i].Pad > 0 {
			g.addKey(mkStr(g.shortHead(), 0, 0))
			return
		}
		base := g.raw[i]
		switch r.Intn(4) {
		case 0:
			g.addKey(mkStr(base+g.atom(), 0, 0))
		case 1:
			g.addKey(mkStr(base+"\x00", 0, 0))
		case 2:
			if len(base) > 1 {
				g.addKey(mkStr(base[:len(base)-1], 0, 0))
			} else {
				g.addKey(mkStr(base+"\xff", 0, 0))
			}
		default:
			b := []byte(base)
			b[len(b)-1]++
			g.addKey(mkStr(string(b), 0, 0))
		}
	case x < 38:
		// at the documented key limit: 766, 767 (largest legal), 768 (skipped)
		head := g.shortHead()
		total := []int{sorted.MaxKeySize - 1, sorted.MaxKeySize, sorted.MaxKeySize + 1}[r.Intn(3)]
		g.addKey(mkStr(head, total-len(head), fills[r.Intn(len(fills))]))
	default:
		g.addKey(mkStr(g.shortHead(), 0, 0))
	}
}

func (g *gen) key() *Str { return g.keys[g.r.Intn(len(g.keys))] }

func (g *gen) val() *Str {
	r := g.r
	g.nval++
	switch x := r.Intn(100); {
	case x < 14:
		return mkStr("", 0, 0) // the empty value is a value
	case x < 60:
		return mkStr(fmt.Sprintf("v%d%s", g.nval, g.atom()), 0, 0)
	case x < 70:
		b := make([]byte, r.Range(1, 12))
		r.Bytes(b)
		return mkStr(string(b), 0, 0)
	case x < 82:
		return mkStr(fmt.Sprintf("m%d|", g.nval), r.Range(50, 3000), fills[r.Intn(len(fills))])
	default:
		// at the documented value limit: 62999, 63000 (largest legal), 63001 (skipped)
		head := fmt.Sprintf("L%d:", g.nval)
		total := []int{sorted.MaxValueSize - 1, sorted.MaxValueSize, sorted.MaxValueSize + 1}[r.Intn(3)]
		return mkStr(head, total-len(head), fills[r.Intn(len(fills))])
	}
}

// bound draws a Find bound.
func (g *gen) bound() *Str {
	r := g.r
	switch x := r.Intn(100); {
	case x < 18:
		return nil // ""
	case x < 60:
		return g.key()
	case x < 70:
		k := g.key()
		if k.Pad > 0 {
			return k
		}
		b, _ := k.Bytes()
		return mkStr(b+"\x00", 0, 0)
	case x < 80:
		k := g.key()
		b, _ := k.Bytes()
		if k.Pad > 0 || len(b) < 2 {
			return k
		}
		return mkStr(b[:r.Range(1, len(b)-1)], 0, 0)
	case x < 90:
		k := g.key()
		b, _ := k.Bytes()
		if k.Pad > 0 || len(b) == 0 {
			return mkStr(g.atom(), 0, 0)
		}
		bb := []byte(b)
		bb[len(bb)-1]++
		return mkStr(string(bb), 0, 0)
	default:
		return mkStr(g.atom(), 0, 0)
	}
}

func (g *gen) find(partial bool) Op {
	s, e := g.bound(), g.bound()
	sb, _ := s.Bytes()
	eb, _ := e.Bytes()
	// two thirds of the scans get ordered bounds; the rest keep whatever was
	// drawn, so start > end and start == end occur too
	if eb != "" && sb > eb && g.r.Bool(0.66) {
		s, e = e, s
	}
	op := Op{K: "find", S: s, E: e, N: -1}
	if partial {
		op.N = g.r.Range(0, 3)
	}
	return op
}

func (g *gen) batch() Op {
	r := g.r
	op := Op{K: "batch"}
	n := r.Range(1, 7)
	if r.Bool(0.12) {
		// a long batch: with the few keys there are, most occur several times
		n = r.Range(13, 40)
	}
	for i := 0; i < n; i++ {
		k := g.key()
		if r.Bool(0.3) {
			op.Muts = append(op.Muts, Mut{Del: true, Key: k})
		} else {
			op.Muts = append(op.Muts, Mut{Key: k, Val: g.val()})
		}
	}
	if r.Bool(0.45) {
		// one key touched twice, inserted at seeded positions (order kept)
		k := g.key()
		var a, b Mut
		switch r.Intn(4) {
		case 0:
			a, b = Mut{Key: k, Val: g.val()}, Mut{Key: k, Val: g.val()}
		case 1:
			a, b = Mut{Key: k, Val: g.val()}, Mut{Del: true, Key: k}
		case 2:
			a, b = Mut{Del: true, Key: k}, Mut{Key: k, Val: g.val()}
		default:
			a, b = Mut{Del: true, Key: k}, Mut{Del: true, Key: k}
		}
		i := r.Intn(len(op.Muts) + 1)
		op.Muts = append(op.Muts[:i], append([]Mut{a}, op.Muts[i:]...)...)
		j := r.Range(i+1, len(op.Muts))
		op.Muts = append(op.Muts[:j], append([]Mut{b}, op.Muts[j:]...)...)
	}
	return op
}

func genC10(tier string, run int, r *simcore.Rand) *harness.Plan {
	total := 0
	for _, c := range implTable {
		total += c.weight
	}
	pick := r.Intn(total)
	var ch implChoice
	for _, c := range implTable {
		if pick < c.weight {
			ch = c
			break
		}
		pick -= c.weight
	}
	cfg := &Config{Impl: ch.impl, Buffered: ch.buffered}
	if ch.buffered {
		// "If maxBufferBytes <= 0, no automatic flushing is performed" says the
		// documentation; the code flushes on every Set then. Either way it is
		// not observable through the KeyValue interface, so all are drawn.
		cfg.MaxBuf = []int64{-1, 0, 1, 10, 100, 1000, 5000, 70000, 200000, 1 << 40}[r.Intn(10)]
	}
	g := &gen{r: r, cfg: cfg}
	nkeys := r.Range(4, 14)
	for tries := 0; len(g.keys) < nkeys && tries < 100; tries++ {
		g.genKey()
	}
	// The empty key: the KeyValue documentation and the property statement
	// are silent about it and the index never uses it. memory, leveldb,
	// kvfile, sqlite and SimKV store and enumerate it like any other key
	// (checked), so it is generated for them. buffer.KeyValue's merge
	// iterator uses key == "" as its "sub-iterator not started yet" sentinel
	// (buffer.go, iter.Next), so the empty key is outside its domain and is
	// NOT generated for buffered configurations.
	if !cfg.Buffered && r.Bool(0.15) {
		g.addKey(mkStr("", 0, 0))
	}
	nops := r.Range(10, ch.maxOps)
	p := &harness.Plan{Mode: "seq", Config: harness.MustJSON(cfg)}
	// one run in 40 is wide: hundreds of rows in one range (an implementation
	// that pages its scans internally meets a second page), with range
	// boundaries inside that range among the keys
	wideAt := -1
	if run%40 == 17 {
		wideAt = r.Intn(nops/2 + 1)
		for _, k := range []string{"w|", "w|000100", "w|000256", "w|000257", "w}"} {
			g.addKey(mkStr(k, 0, 0))
		}
	}
	for i := 0; i < nops; i++ {
		if i == wideAt {
			p.Ops = append(p.Ops, harness.MustJSON(Op{K: "fill", N: r.Range(258, 1300)}))
		}
		var op Op
		switch x := r.Intn(100); {
		case x < 19:
			op = Op{K: "get", Key: g.key()}
		case x < 42:
			op = Op{K: "set", Key: g.key(), Val: g.val()}
		case x < 52:
			op = Op{K: "del", Key: g.key()}
		case x < 66:
			op = g.batch()
			if cfg.Impl == "sqlite" && !cfg.Buffered && r.Bool(0.35) {
				// a statement that fails in the middle of the transaction
				i := r.Intn(len(op.Muts) + 1)
				bad := Mut{Key: mkStr(fmt.Sprintf("poison|%d", r.Intn(1000)), 0, 0), Val: g.val()}
				op.Muts = append(op.Muts[:i], append([]Mut{bad}, op.Muts[i:]...)...)
				op.Poison = i + 1
			}
		case x < 85:
			op = g.find(false)
		case x < 91:
			op = g.find(true)
		case x < 96:
			if cfg.Impl == "leveldb" && r.Bool(0.4) {
				op = Op{K: "compact"}
			} else if cfg.Buffered {
				op = Op{K: "flush"}
			} else {
				op = Op{K: "get", Key: g.key()}
			}
		default:
			if cfg.reopenable() {
				op = Op{K: "reopen"}
			} else {
				op = Op{K: "set", Key: g.key(), Val: g.val()}
			}
		}
		p.Ops = append(p.Ops, harness.MustJSON(op))
	}
	return p
}
