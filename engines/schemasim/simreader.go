package schemasim

import (
	"errors"
	"io"

	"verif/simcore"
)

// ErrSimReader is the error a SimReader injects at byte ErrAt.
var ErrSimReader = errors.New("schemasim: injected source read error")

// Frag is one Read call of the source, as planned. Fragments are consumed in
// order; a fragment with At > 0 waits until the stream position has reached
// At (reads before that follow the default policy and stop at At).
type Frag struct {
	// N bytes are delivered at most (bounded by the caller's buffer and the
	// remaining content). N == 0 is a legal empty read (0, nil); N < 0 fills
	// the caller's buffer.
	N int `json:"n"`
	// At: stream position from which this fragment applies (0 = immediately).
	At int `json:"at,omitempty"`
	// Y: scheduling point before the read returns (uploads may complete or
	// fail while the writer is still consuming the source).
	Y bool `json:"y,omitempty"`
}

// ReaderCfg is the fragmentation policy around the explicit fragments.
type ReaderCfg struct {
	// Default read size once the fragments are exhausted (<=0: fill buffer).
	Default int `json:"default"`
	// EOFWithData: the call delivering the last byte also returns io.EOF;
	// otherwise EOF comes in a separate (0, io.EOF) call.
	EOFWithData bool `json:"eofWithData,omitempty"`
	// ErrAt >= 0: the source fails once ErrAt bytes have been delivered
	// (instead of EOF when ErrAt == length). ErrWithData: the error is
	// returned by the call that delivers the last bytes before ErrAt.
	ErrAt       int  `json:"errAt"`
	ErrWithData bool `json:"errWithData,omitempty"`
	// YieldEvery > 0: every YieldEvery-th default read is a scheduling point.
	YieldEvery int `json:"yieldEvery,omitempty"`
}

// SimReader delivers data in planned fragments. It never blocks.
type SimReader struct {
	data  []byte
	cfg   ReaderCfg
	frags []Frag
	fi    int
	pos   int
	calls int
	defs  int

	// observations
	SawEOFWithData bool
	SawEOFAlone    bool
	DeliveredErr   bool
	OneByteReads   int
	ShortReads     int
	EmptyReads     int
	Yields         int
}

func NewSimReader(data []byte, cfg ReaderCfg, frags []Frag) *SimReader {
	return &SimReader{data: data, cfg: cfg, frags: frags}
}

func (r *SimReader) limit() int {
	if r.cfg.ErrAt >= 0 && r.cfg.ErrAt <= len(r.data) {
		return r.cfg.ErrAt
	}
	return len(r.data)
}

func (r *SimReader) failing() bool {
	return r.cfg.ErrAt >= 0 && r.cfg.ErrAt <= len(r.data)
}

func (r *SimReader) Read(p []byte) (int, error) {
	r.calls++
	end := r.limit()
	if r.pos >= end {
		if r.failing() {
			r.DeliveredErr = true
			return 0, ErrSimReader
		}
		r.SawEOFAlone = true
		return 0, io.EOF
	}
	if len(p) == 0 {
		return 0, nil
	}
	want := len(p)
	yield := false
	stop := end
	if r.fi < len(r.frags) && r.frags[r.fi].At > r.pos {
		// default policy up to the next positioned fragment
		if a := r.frags[r.fi].At; a < stop {
			stop = a
		}
		want = r.defaultWant(len(p), &yield)
	} else if r.fi < len(r.frags) {
		f := r.frags[r.fi]
		r.fi++
		yield = f.Y
		if f.N == 0 {
			r.EmptyReads++
			if yield {
				r.Yields++
				simcore.Yield("rd:src")
			}
			return 0, nil
		}
		if f.N > 0 && f.N < want {
			want = f.N
		}
	} else {
		want = r.defaultWant(len(p), &yield)
	}
	if want > len(p) {
		want = len(p)
	}
	if r.pos+want > stop {
		want = stop - r.pos
	}
	n := copy(p[:want], r.data[r.pos:])
	r.pos += n
	if n == 1 {
		r.OneByteReads++
	} else if n < len(p) {
		r.ShortReads++
	}
	if yield {
		r.Yields++
		simcore.Yield("rd:src")
	}
	if r.pos >= end {
		if r.failing() {
			if r.cfg.ErrWithData {
				r.DeliveredErr = true
				return n, ErrSimReader
			}
		} else if r.cfg.EOFWithData {
			r.SawEOFWithData = true
			return n, io.EOF
		}
	}
	return n, nil
}

func (r *SimReader) defaultWant(buf int, yield *bool) int {
	r.defs++
	if r.cfg.YieldEvery > 0 && r.defs%r.cfg.YieldEvery == 0 {
		*yield = true
	}
	if r.cfg.Default > 0 && r.cfg.Default < buf {
		return r.cfg.Default
	}
	return buf
}
