package schemasim

import (
	"bytes"
	"context"
	"errors"
	"fmt"
	"io"

	"perkeep.org/pkg/blob"
	"perkeep.org/pkg/schema"
)

// ReadOp is one client read of a FileReader.
type ReadOp struct {
	// T: client task (reader mode runs tasks concurrently).
	T int `json:"t,omitempty"`
	// K: "readat" | "read" | "seek" | "readall" | "foreach"
	K string `json:"k"`
	// Off: offset (readat), or seek offset. When B >= 0 the offset is taken
	// relative to the B-th chunk boundary of the file (mod their number).
	Off    int64 `json:"off"`
	B      int   `json:"b"`
	Len    int   `json:"len,omitempty"`
	Whence int   `json:"whence,omitempty"`
}

func (o ReadOp) String() string {
	switch o.K {
	case "readat":
		return fmt.Sprintf("ReadAt(len %d, off %d)", o.Len, o.Off)
	case "read":
		return fmt.Sprintf("Read(len %d)", o.Len)
	case "seek":
		return fmt.Sprintf("Seek(%d, whence %d)", o.Off, o.Whence)
	}
	return o.K
}

// finding is a failed check of one read.
type finding struct {
	class  string
	detail string
}

// readChecker compares reads of one FileReader with the expected content.
// faulty() says whether any injected fault has fired so far in the run (an
// error result is then a permitted outcome; wrong bytes never are).
type readChecker struct {
	want   []byte
	faulty func() bool
	// chunkOracle: ForeachChunk's parts, taken literally (blobRef + offset +
	// size, zeros for holes), must concatenate to want. False for trees with
	// sub-ranged bytesRef parts, whose enumeration bytes.md does not settle.
	chunkOracle bool
	getBlob     func(string) ([]byte, bool)
	// Excused counts error results accepted because a fault had fired.
	Excused int
}

func (c *readChecker) excused() bool {
	if c.faulty != nil && c.faulty() {
		c.Excused++
		return true
	}
	return false
}

const maxReadLen = 4 << 20

// resolveOff turns an op's (B, Off) into an absolute offset.
func resolveOff(o ReadOp, bounds []int64) int64 {
	if o.B >= 0 && len(bounds) > 0 {
		return bounds[o.B%len(bounds)] + o.Off
	}
	return o.Off
}

// readAt executes and checks one ReadAt.
func (c *readChecker) readAt(fr *schema.FileReader, off int64, n int) *finding {
	if n < 0 {
		n = 0
	}
	if n > maxReadLen {
		n = maxReadLen
	}
	size := int64(len(c.want))
	p := make([]byte, n)
	for i := range p {
		p[i] = 0xA5 // poison
	}
	got, err := fr.ReadAt(p, off)
	desc := fmt.Sprintf("ReadAt(len %d, off %d) of a %d-byte file returned (%d, %v)", n, off, size, got, err)
	if off < 0 {
		if err == nil {
			return &finding{"readat-negative-offset-accepted", desc}
		}
		return nil
	}
	avail := size - off
	if avail < 0 {
		avail = 0
	}
	if got < 0 || got > n {
		return &finding{"readat-bad-count", desc}
	}
	if int64(got) > avail {
		return &finding{"readat-past-end", desc + ": more bytes than the file has"}
	}
	if got > 0 {
		if d := firstDiff(p[:got], c.want[off:off+int64(got)]); d >= 0 {
			return &finding{"read-wrong-bytes", fmt.Sprintf("%s; byte at file offset %d is 0x%02x, the schema denotes 0x%02x", desc, off+int64(d), p[d], c.want[off+int64(d)])}
		}
	}
	expect := int64(n)
	if avail < expect {
		expect = avail
	}
	if err == nil {
		if got < n {
			return &finding{"readat-short-without-error", desc + ": io.ReaderAt must explain a short read with an error"}
		}
		return nil
	}
	// err != nil
	if int64(got) == expect && (errors.Is(err, io.EOF) || errors.Is(err, io.ErrUnexpectedEOF)) && off+int64(got) >= size {
		return nil // end of file reached
	}
	if c.excused() {
		return nil // an injected fetch failure may surface as any error
	}
	return &finding{"read-spurious-error", desc + " although no fault was injected"}
}

// cursor is a private FileReader with the model of its position.
type cursor struct {
	fr  *schema.FileReader
	pos int64
}

func (c *readChecker) read(cu *cursor, n int) *finding {
	if n < 0 {
		n = 0
	}
	if n > maxReadLen {
		n = maxReadLen
	}
	size := int64(len(c.want))
	p := make([]byte, n)
	for i := range p {
		p[i] = 0xA5
	}
	at := cu.pos
	got, err := cu.fr.Read(p)
	desc := fmt.Sprintf("Read(len %d) at position %d of a %d-byte file returned (%d, %v)", n, at, size, got, err)
	if got < 0 || got > n {
		return &finding{"read-bad-count", desc}
	}
	cu.pos += int64(got) // the reader's position moves whatever the bytes are
	avail := size - at
	if avail < 0 {
		avail = 0
	}
	if int64(got) > avail {
		return &finding{"read-past-end", desc}
	}
	if got > 0 {
		if d := firstDiff(p[:got], c.want[at:at+int64(got)]); d >= 0 {
			return &finding{"read-wrong-bytes", fmt.Sprintf("%s; byte at file offset %d is 0x%02x, the schema denotes 0x%02x", desc, at+int64(d), p[d], c.want[at+int64(d)])}
		}
	}
	if err == nil {
		if got == 0 && n > 0 && avail == 0 {
			return &finding{"read-no-eof", desc + ": at the end of the file Read must report io.EOF"}
		}
		return nil
	}
	if errors.Is(err, io.EOF) {
		if avail > int64(got) && !c.excused() {
			return &finding{"read-early-eof", desc + ": EOF before the end of the file"}
		}
		return nil
	}
	if c.excused() {
		return nil
	}
	return &finding{"read-spurious-error", desc + " although no fault was injected"}
}

func (c *readChecker) seek(cu *cursor, off int64, whence int) *finding {
	size := int64(len(c.want))
	var base int64
	switch whence {
	case io.SeekStart:
	case io.SeekCurrent:
		base = cu.pos
	case io.SeekEnd:
		base = size
	default:
		whence = io.SeekStart
	}
	wantPos := base + off
	got, err := cu.fr.Seek(off, whence)
	desc := fmt.Sprintf("Seek(%d, %d) from position %d of a %d-byte file returned (%d, %v)", off, whence, cu.pos, size, got, err)
	if wantPos < 0 {
		if err == nil {
			return &finding{"seek-negative-accepted", desc}
		}
		return nil
	}
	if err != nil {
		return &finding{"seek-error", desc}
	}
	if got != wantPos {
		return &finding{"seek-wrong-position", desc + fmt.Sprintf(", want %d", wantPos)}
	}
	cu.pos = wantPos
	return nil
}

func (c *readChecker) readAll(cu *cursor) *finding {
	size := int64(len(c.want))
	at := cu.pos
	b, err := io.ReadAll(cu.fr)
	desc := fmt.Sprintf("io.ReadAll from position %d of a %d-byte file returned (%d bytes, %v)", at, size, len(b), err)
	var rest []byte
	if at < size {
		rest = c.want[at:]
	}
	cu.pos += int64(len(b))
	if len(b) > len(rest) {
		return &finding{"read-past-end", desc}
	}
	if d := firstDiff(b, rest[:len(b)]); d >= 0 {
		return &finding{"read-wrong-bytes", fmt.Sprintf("%s; byte at file offset %d is 0x%02x, the schema denotes 0x%02x", desc, at+int64(d), b[d], rest[d])}
	}
	if err == nil && len(b) < len(rest) {
		return &finding{"read-early-eof", desc + ": EOF before the end of the file"}
	}
	if err != nil && !c.excused() {
		return &finding{"read-spurious-error", desc + " although no fault was injected"}
	}
	return nil
}

func (c *readChecker) foreach(ctx context.Context, fr *schema.FileReader) *finding {
	var buf bytes.Buffer
	var bad *finding
	var total uint64
	err := fr.ForeachChunk(ctx, func(_ []blob.Ref, p schema.BytesPart) error {
		total += p.Size
		if !c.chunkOracle || bad != nil {
			return nil
		}
		if p.BytesRef.Valid() {
			bad = &finding{"foreach-bytesref", "ForeachChunk passed a part with a bytesRef to fn"}
			return nil
		}
		if !p.BlobRef.Valid() {
			buf.Write(make([]byte, p.Size))
			return nil
		}
		b, ok := c.getBlob(p.BlobRef.String())
		if !ok {
			bad = &finding{"foreach-unknown-chunk", "ForeachChunk named chunk " + p.BlobRef.String() + " which is not stored"}
			return nil
		}
		if p.Offset+p.Size > uint64(len(b)) {
			bad = &finding{"foreach-bad-part", fmt.Sprintf("ForeachChunk part %+v reaches past its %d-byte blob", p, len(b))}
			return nil
		}
		buf.Write(b[p.Offset : p.Offset+p.Size])
		return nil
	})
	if err != nil {
		if c.excused() {
			return nil
		}
		return &finding{"read-spurious-error", fmt.Sprintf("ForeachChunk returned %v although no fault was injected", err)}
	}
	if bad != nil {
		return bad
	}
	if !c.chunkOracle {
		return nil
	}
	if d := firstDiff(buf.Bytes(), c.want); d >= 0 {
		return &finding{"foreach-wrong-bytes", fmt.Sprintf("the chunks enumerated by ForeachChunk concatenate to %d bytes (sizes sum to %d), the file has %d; first difference at offset %d", buf.Len(), total, len(c.want), d)}
	}
	return nil
}
