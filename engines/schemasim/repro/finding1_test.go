//go:build findings

// Package repro holds stand-alone reproducers of the findings in
// ../findings.go. They run against the unmodified perkeep tree, without the
// simulator's overlay:
//
//	cd /verif && GOFLAGS=-mod=mod GOPROXY=off go test -tags findings ./engines/schemasim/repro -v
//
// A reproducer FAILS while the defect is present.
package repro

import (
	"context"
	"fmt"
	"io"
	"strings"
	"testing"

	"perkeep.org/pkg/blob"
	"perkeep.org/pkg/blobserver/memory"
	"perkeep.org/pkg/schema"
)

func put(t *testing.T, sto *memory.Storage, s string) blob.Ref {
	t.Helper()
	br := blob.RefFromString(s)
	if _, err := sto.ReceiveBlob(context.Background(), br, strings.NewReader(s)); err != nil {
		t.Fatal(err)
	}
	return br
}

// Finding 1: a part that uses only the beginning of its blob, read from an
// offset strictly inside the part.
//
//	blob B = "0123456789"
//	parts  = [ {blobRef B, size 4}, {blobRef B, offset 6, size 4} ]
//
// doc/schema/bytes.md: the schema denotes "0123" + "6789".
func TestFinding1ReaderForOffsetLimit(t *testing.T) {
	ctx := context.Background()
	sto := &memory.Storage{}
	b := put(t, sto, "0123456789")
	js := fmt.Sprintf(`{"camliVersion": 1,
 "camliType": "bytes",
 "parts": [
  {"blobRef": %q, "size": 4},
  {"blobRef": %q, "offset": 6, "size": 4}
 ]
}`, b, b)
	root := put(t, sto, js)
	const want = "01236789"

	fr, err := schema.NewFileReader(ctx, sto, root)
	if err != nil {
		t.Fatal(err)
	}
	if fr.Size() != int64(len(want)) {
		t.Fatalf("Size = %d, want %d", fr.Size(), len(want))
	}
	all, err := io.ReadAll(fr)
	if err != nil || string(all) != want {
		t.Errorf("sequential read from 0: %q, %v; want %q", all, err, want)
	}
	for off := 0; off < len(want); off++ {
		for n := 1; off+n <= len(want); n++ {
			p := make([]byte, n)
			got, err := fr.ReadAt(p, int64(off))
			if err != nil || got != n || string(p) != want[off:off+n] {
				t.Errorf("ReadAt(len %d, off %d) = (%d, %v) %q; want %q", n, off, got, err, p[:got], want[off:off+n])
			}
		}
	}
	// past the end of the file: the last part is also shorter than its blob
	js2 := fmt.Sprintf(`{"camliVersion": 1,
 "camliType": "bytes",
 "parts": [
  {"blobRef": %q, "size": 4}
 ]
}`, b)
	root2 := put(t, sto, js2)
	fr2, err := schema.NewFileReader(ctx, sto, root2)
	if err != nil {
		t.Fatal(err)
	}
	p := make([]byte, 10)
	got, err := fr2.ReadAt(p, 2)
	if got != 2 || string(p[:got]) != "23" {
		t.Errorf("4-byte file, ReadAt(len 10, off 2) = (%d, %v) %q; want 2 bytes %q", got, err, p[:got], "23")
	}
}
