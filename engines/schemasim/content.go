package schemasim

import (
	"sync"

	"go4.org/rollsum"

	"verif/simcore"
)

// Constants of pkg/schema/filewriter.go the content generator aims at (the
// oracle only uses maxChunk, the documented "largest blob we ever make when
// cutting up a file").
const (
	maxChunk     = 1 << 20   // schema.maxBlobSize
	firstChunk   = 256 << 10 // schema.firstChunkSize
	tooSmall     = 64 << 10  // schema.tooSmallThreshold
	bufioLook    = 32 << 10  // schema.bufioReaderSize
	rollWindow   = 64        // rollsum window: the sum depends on the last 64 bytes only
	maxContentSz = 3<<20 + 70000
)

// Content describes a byte stream; Materialise is a pure function of it.
type Content struct {
	// Kind: "rand" (splits often), "zero" (never splits), "const" (one
	// repeated non-zero byte: never splits either), "mixed" (alternating
	// zero and random stretches), "eng" (zeros with engineered 64-byte split
	// blocks ending at the positions in Splits).
	Kind string `json:"kind"`
	Len  int    `json:"len"`
	Seed uint64 `json:"seed"`
	// Splits (kind "eng"): a rolling-checksum split point of strength Bits is
	// placed so that the writer sees OnSplit after having consumed At bytes.
	Splits []Split `json:"splits,omitempty"`
}

type Split struct {
	At   int `json:"at"`
	Bits int `json:"bits"` // 13..16
}

// split blocks: 64-byte strings after which rollsum reports a split of
// exactly the given strength, whatever preceded them.
var (
	blocksOnce sync.Once
	blocks     map[int][][]byte
)

func splitBlocks() map[int][][]byte {
	blocksOnce.Do(func() {
		blocks = map[int][][]byte{}
		r := simcore.NewRand(0x5ca1ab1e)
		need := map[int]int{13: 4, 14: 4, 15: 3, 16: 2}
		missing := 0
		for _, n := range need {
			missing += n
		}
		buf := make([]byte, rollWindow)
		for tries := 0; missing > 0 && tries < 4_000_000; tries++ {
			r.Bytes(buf)
			rs := rollsum.New()
			for _, c := range buf {
				rs.Roll(c)
			}
			if !rs.OnSplit() {
				continue
			}
			b := rs.Bits()
			if need[b] > 0 {
				need[b]--
				missing--
				blocks[b] = append(blocks[b], append([]byte(nil), buf...))
			}
		}
	})
	return blocks
}

// Materialise builds the bytes.
func (c *Content) Materialise() []byte {
	n := c.Len
	if n < 0 {
		n = 0
	}
	if n > maxContentSz {
		n = maxContentSz
	}
	out := make([]byte, n)
	r := simcore.NewRand(c.Seed)
	switch c.Kind {
	case "rand":
		r.Bytes(out)
	case "zero":
	case "const":
		v := byte(1 + r.Intn(255))
		for i := range out {
			out[i] = v
		}
	case "mixed":
		pos := 0
		zero := r.Bool(0.5)
		for pos < n {
			l := []int{1, 63, 64, 65, 1000, 8192, 70000, 300000, 1100000}[r.Intn(9)]
			l = 1 + r.Intn(l)
			if pos+l > n {
				l = n - pos
			}
			if !zero {
				r.Bytes(out[pos : pos+l])
			}
			zero = !zero
			pos += l
		}
	case "eng":
		bl := splitBlocks()
		for _, s := range c.Splits {
			cands := bl[s.Bits]
			if len(cands) == 0 || s.At < rollWindow || s.At > n {
				continue
			}
			copy(out[s.At-rollWindow:s.At], cands[int(c.Seed%uint64(len(cands)))])
		}
	default:
		r.Bytes(out)
	}
	return out
}

// interesting lengths of the property's quantifier
var lenTable = []int{
	0, 1, 2, 63, 64, 65,
	tooSmall - 1, tooSmall, tooSmall + 1,
	firstChunk - 1, firstChunk, firstChunk + 1,
	firstChunk + tooSmall - 1, firstChunk + tooSmall, firstChunk + tooSmall + 1,
	firstChunk + bufioLook, firstChunk + bufioLook + 1,
	maxChunk - 1, maxChunk, maxChunk + 1,
	maxChunk + firstChunk - 1, maxChunk + firstChunk, maxChunk + firstChunk + 1,
	2*maxChunk - 1, 2 * maxChunk, 2*maxChunk + 1,
	2*maxChunk + firstChunk, 2*maxChunk + firstChunk + 1,
	3*maxChunk - 1, 3 * maxChunk, 3*maxChunk + 1,
}

// genContent draws a content description. big bounds the length.
func genContent(r *simcore.Rand, big int) Content {
	c := Content{Seed: r.Uint64()}
	switch x := r.Intn(100); {
	case x < 45:
		c.Len = lenTable[r.Intn(len(lenTable))]
		if d := r.Intn(6); d == 0 {
			c.Len += r.Range(-3, 3)
		}
	case x < 65:
		c.Len = r.Intn(5000)
	case x < 90:
		c.Len = r.Intn(400 << 10)
	default:
		c.Len = r.Intn(3<<20 + 4096)
	}
	if c.Len < 0 {
		c.Len = 0
	}
	for c.Len > big {
		c.Len = c.Len/2 + r.Intn(3)
	}
	switch x := r.Intn(100); {
	case x < 40:
		c.Kind = "rand"
	case x < 52:
		c.Kind = "zero"
	case x < 57:
		c.Kind = "const"
	case x < 72:
		c.Kind = "mixed"
	default:
		c.Kind = "eng"
		c.Splits = genSplits(r, c.Len)
	}
	return c
}

// genSplits places split blocks around the places where the chunker's rules
// change their mind: the 64 KiB minimum after the previous cut, the 256 KiB
// first chunk, the 1 MiB cap, and the 32 KiB EOF look-ahead.
func genSplits(r *simcore.Rand, n int) []Split {
	var out []Split
	add := func(at int) {
		if at >= rollWindow && at <= n {
			out = append(out, Split{At: at, Bits: 13 + []int{0, 0, 0, 1, 1, 2, 3}[r.Intn(7)]})
		}
	}
	k := r.Range(1, 12)
	last := 0 // generator's guess at the previous cut
	for i := 0; i < k; i++ {
		var at int
		switch r.Intn(8) {
		case 0:
			at = firstChunk + r.Range(-2, 2)
		case 1:
			at = last + tooSmall + r.Range(-2, 2)
		case 2:
			at = last + maxChunk + r.Range(-2, 2)
		case 3:
			at = n - r.Intn(bufioLook+3)
		case 4:
			at = last + tooSmall + r.Intn(3*tooSmall)
		case 5:
			at = firstChunk + tooSmall + r.Range(-2, 2)
		default:
			at = r.Intn(n + 1)
		}
		add(at)
		if at > last && at <= n {
			last = at
		}
	}
	// blocks must not overlap: keep them at least one window apart, sorted
	sortSplits(out)
	var kept []Split
	for _, s := range out {
		if len(kept) > 0 && s.At-kept[len(kept)-1].At < rollWindow {
			continue
		}
		kept = append(kept, s)
	}
	return kept
}

func sortSplits(s []Split) {
	for i := 1; i < len(s); i++ {
		for j := i; j > 0 && s[j].At < s[j-1].At; j-- {
			s[j], s[j-1] = s[j-1], s[j]
		}
	}
}
