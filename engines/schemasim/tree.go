package schemasim

import (
	"bytes"
	"context"
	"encoding/json"
	"fmt"
	"io"
	"strings"

	"perkeep.org/pkg/schema"

	"verif/harness"
	"verif/sim"
	"verif/simcore"
)

// TreeCfg is a hand-built part tree ("tree" mode is input generation: no
// scheduler, no faults). Nodes are listed children first; the last node is
// the root. The plan's Ops are ReadOps.
type TreeCfg struct {
	Blobs    []BlobSpec `json:"blobs"`
	Nodes    []NodeSpec `json:"nodes"`
	RootType string     `json:"rootType"` // "file" | "bytes"
}

type BlobSpec struct {
	Len  int    `json:"len"`
	Seed uint64 `json:"seed"`
}

type NodeSpec struct {
	Parts []PartSpec `json:"parts"`
}

// PartSpec: Blob >= 0 → blobRef to Blobs[Blob]; Node >= 0 → bytesRef to
// Nodes[Node] (an earlier node); both < 0 → a hole of Size zero bytes.
type PartSpec struct {
	Blob int    `json:"blob"`
	Node int    `json:"node"`
	Off  uint64 `json:"off"`
	Size uint64 `json:"size"`
}

// KnownLimitTag tags violations explained by findings.go, finding 1 (readerForOffset
// limits the part reader to the part's full size after seeking into it).
// The signature is the violation class followed by this tag.
const KnownLimitTag = "@tree/reader-opened-inside-part-that-ends-before-its-source"

// classes through which findings.go, finding 1 shows: bytes from beyond the part's end
// in place of the following parts' bytes, or past the end of the file
var limitDefectClasses = map[string]bool{"read-wrong-bytes": true, "readat-past-end": true, "read-past-end": true}

func genTree(tier string, run int, r *simcore.Rand) *harness.Plan {
	cfg := TreeCfg{RootType: []string{"file", "bytes"}[r.Intn(2)]}
	nb := r.Range(1, 6)
	for i := 0; i < nb; i++ {
		l := []int{1, 2, 10, 100, 1000, 4000}[r.Intn(6)]
		l = 1 + r.Intn(l)
		if r.Bool(0.04) {
			l = 60000 + r.Intn(20000)
		}
		cfg.Blobs = append(cfg.Blobs, BlobSpec{Len: l, Seed: r.Uint64()})
	}
	levels := r.Range(1, 3)
	// tight: every part ends where its source ends (offsets still vary)
	tight := r.Bool(0.35)
	var nodeSize []uint64
	var prevLevel []int // node indices of the level below
	subrange := func(srcLen uint64) (off, size uint64) {
		if srcLen <= 1 {
			return 0, srcLen
		}
		x := r.Intn(100)
		if tight && x >= 30 {
			x = 55 + r.Intn(20) // suffix
		}
		switch {
		case x < 30: // whole
			return 0, srcLen
		case x < 55: // prefix: the part ends before its source does
			return 0, 1 + uint64(r.Int63n(int64(srcLen-1)))
		case x < 75: // suffix: offset > 0
			off = 1 + uint64(r.Int63n(int64(srcLen-1)))
			return off, srcLen - off
		default: // middle (or a suffix when it happens to reach the end)
			off = uint64(r.Int63n(int64(srcLen)))
			size = 1 + uint64(r.Int63n(int64(srcLen-off)))
			return off, size
		}
	}
	genNode := func(level int, root bool) NodeSpec {
		var n NodeSpec
		np := r.Range(1, 6)
		if root && r.Bool(0.03) {
			np = 0
		}
		for i := 0; i < np; i++ {
			x := r.Intn(100)
			var usable []int
			for _, ni := range prevLevel {
				if nodeSize[ni] > 0 {
					usable = append(usable, ni)
				}
			}
			switch {
			case level > 1 && len(usable) > 0 && x < 45:
				ni := usable[r.Intn(len(usable))]
				off, size := subrange(nodeSize[ni])
				n.Parts = append(n.Parts, PartSpec{Blob: -1, Node: ni, Off: off, Size: size})
			case x < 82:
				bi := r.Intn(len(cfg.Blobs))
				off, size := subrange(uint64(cfg.Blobs[bi].Len))
				n.Parts = append(n.Parts, PartSpec{Blob: bi, Node: -1, Off: off, Size: size})
			default:
				hs := uint64(1 + r.Intn(3000))
				if r.Bool(0.05) {
					hs = uint64(100000 + r.Intn(100000))
				}
				n.Parts = append(n.Parts, PartSpec{Blob: -1, Node: -1, Size: hs})
			}
		}
		return n
	}
	for level := 1; level <= levels; level++ {
		cnt := r.Range(1, 3)
		if level == levels {
			cnt = 1
		}
		var this []int
		for i := 0; i < cnt; i++ {
			n := genNode(level, level == levels)
			var sz uint64
			for _, p := range n.Parts {
				sz += p.Size
			}
			cfg.Nodes = append(cfg.Nodes, n)
			nodeSize = append(nodeSize, sz)
			this = append(this, len(cfg.Nodes)-1)
		}
		// a level may also point two levels down (mixed depth)
		prevLevel = append(this, prevLevel...)
	}
	size := int(nodeSize[len(nodeSize)-1])
	p := &harness.Plan{Mode: "tree", Config: harness.MustJSON(cfg)}
	// root part boundaries known to the generator
	var rootBounds []int64
	var pos int64
	for _, pt := range cfg.Nodes[len(cfg.Nodes)-1].Parts {
		rootBounds = append(rootBounds, pos)
		pos += int64(pt.Size)
	}
	nops := r.Range(6, 40)
	for i := 0; i < nops; i++ {
		op := genReadOp(r, size, 1, true)
		op.T = 0
		if op.K == "readat" && r.Bool(0.4) {
			// stratum: start at/near a root part boundary, end at/near another
			if len(rootBounds) > 0 {
				a := rootBounds[r.Intn(len(rootBounds))] + int64(r.Range(-2, 2))
				b := rootBounds[r.Intn(len(rootBounds))] + int64(r.Range(-2, 2))
				if r.Bool(0.3) {
					b = int64(size) + int64(r.Range(-1, 1))
				}
				if a < 0 {
					a = 0
				}
				if b < a {
					a, b = b, a
				}
				if a < 0 {
					a = 0
				}
				op.B, op.Off, op.Len = -1, a, int(b-a)
			}
		}
		if op.K == "readat" && r.Bool(0.15) {
			op.B, op.Off, op.Len = -1, int64(r.Intn(size+1)), 1+r.Intn(8)
		}
		p.Ops = append(p.Ops, harness.MustJSON(op))
	}
	return p
}

// treeInfo is the harness's view of the stored tree.
type treeInfo struct {
	get     func(string) ([]byte, bool)
	schemas map[string]*jSchema
	memo    map[string][]byte
}

func (t *treeInfo) schemaOf(ref string) *jSchema {
	if s, ok := t.schemas[ref]; ok {
		return s
	}
	b, ok := t.get(ref)
	if !ok {
		return nil
	}
	s, err := parseSchema(b)
	if err != nil {
		return nil
	}
	t.schemas[ref] = s
	return s
}

func (t *treeInfo) srcLen(p jPart) uint64 {
	switch {
	case p.BlobRef != "":
		b, _ := t.get(p.BlobRef)
		return uint64(len(b))
	case p.BytesRef != "":
		b, _ := denote(t.get, p.BytesRef, t.memo)
		return uint64(len(b))
	}
	return p.Offset + p.Size
}

// opensInsideLoosePart reports whether a correct reader serving bytes
// [from,to) of ref, opened at from, would at some level open a part reader
// strictly inside a part whose source continues past the part's end — the
// precondition of findings.go, finding 1.
func (t *treeInfo) opensInsideLoosePart(ref string, from, to uint64) bool {
	s := t.schemaOf(ref)
	if s == nil {
		return false
	}
	var start uint64
	first := true
	for _, p := range s.Parts {
		end := start + p.Size
		if end <= from {
			start = end
			continue
		}
		if start >= to {
			break
		}
		var k uint64
		if first && from > start {
			k = from - start
		}
		first = false
		if p.BlobRef != "" || p.BytesRef != "" {
			if k > 0 && p.Offset+p.Size < t.srcLen(p) {
				return true
			}
			if p.BytesRef != "" {
				hi := p.Size
				if to-start < hi {
					hi = to - start
				}
				if t.opensInsideLoosePart(p.BytesRef, p.Offset+k, p.Offset+hi) {
					return true
				}
			}
		}
		start = end
	}
	return false
}

// anyLoose: some reachable part ends before its source does.
func (t *treeInfo) anyLoose(ref string, depth int) bool {
	s := t.schemaOf(ref)
	if s == nil || depth > 8 {
		return false
	}
	for _, p := range s.Parts {
		if (p.BlobRef != "" || p.BytesRef != "") && p.Offset+p.Size < t.srcLen(p) {
			return true
		}
		if p.BytesRef != "" && t.anyLoose(p.BytesRef, depth+1) {
			return true
		}
	}
	return false
}

type treeStats struct {
	holes, offsets, loose, nested, subBytes, levels int
}

func execTree(rc *harness.RunCtx, p *harness.Plan, cfg *TreeCfg) *harness.Outcome {
	out := &harness.Outcome{Ops: len(p.Ops), SubRuns: len(p.Ops)}
	ops, err := parseReadOps(p.Ops)
	if err != nil {
		out.Inconclusive = "bad op: " + err.Error()
		return out
	}
	if len(p.Faults) > 0 {
		out.Inconclusive = "bad plan: tree mode takes no faults"
		return out
	}
	if len(cfg.Nodes) == 0 || len(cfg.Nodes) > 64 || len(cfg.Blobs) > 64 {
		out.Inconclusive = "bad plan: node/blob count"
		return out
	}
	st := sim.NewStoreState("t")
	defer release(st)
	// raw blobs
	blobRefs := make([]string, len(cfg.Blobs))
	blobLen := make([]uint64, len(cfg.Blobs))
	for i, bs := range cfg.Blobs {
		if bs.Len < 1 || bs.Len > 1<<20 {
			out.Inconclusive = "bad plan: blob length"
			return out
		}
		b := make([]byte, bs.Len)
		simcore.NewRand(bs.Seed).Bytes(b)
		blobRefs[i] = refOf(b)
		blobLen[i] = uint64(bs.Len)
		st.Put(blobRefs[i], b)
	}
	// schema blobs, built with the harness's own JSON (not pkg/schema)
	nodeRefs := make([]string, len(cfg.Nodes))
	nodeSize := make([]uint64, len(cfg.Nodes))
	nodeLevel := make([]int, len(cfg.Nodes))
	var ts treeStats
	for i, n := range cfg.Nodes {
		js := jSchema{Version: 1, Type: "bytes", Parts: []jPart{}}
		if i == len(cfg.Nodes)-1 {
			if cfg.RootType == "file" {
				js.Type = "file"
				js.FileName = "tree.bin"
			} else if cfg.RootType != "bytes" {
				out.Inconclusive = "bad plan: root type"
				return out
			}
		}
		level := 1
		for _, ps := range n.Parts {
			if ps.Size == 0 {
				out.Inconclusive = "bad plan: part of size 0 (bytes.md: size must be greater than zero)"
				return out
			}
			jp := jPart{Size: ps.Size, Offset: ps.Off}
			var srcLen uint64
			switch {
			case ps.Blob >= 0 && ps.Node >= 0:
				out.Inconclusive = "bad plan: part with both blob and node"
				return out
			case ps.Blob >= 0:
				if ps.Blob >= len(cfg.Blobs) {
					out.Inconclusive = "bad plan: blob index"
					return out
				}
				jp.BlobRef = blobRefs[ps.Blob]
				srcLen = blobLen[ps.Blob]
			case ps.Node >= 0:
				if ps.Node >= i {
					out.Inconclusive = "bad plan: node refers forward"
					return out
				}
				jp.BytesRef = nodeRefs[ps.Node]
				srcLen = nodeSize[ps.Node]
				ts.nested++
				if nodeLevel[ps.Node]+1 > level {
					level = nodeLevel[ps.Node] + 1
				}
				if ps.Off > 0 || ps.Size < srcLen {
					ts.subBytes++
				}
			default:
				if ps.Off != 0 {
					out.Inconclusive = "bad plan: hole with offset"
					return out
				}
				ts.holes++
				srcLen = ps.Size
			}
			if ps.Off+ps.Size > srcLen || ps.Off+ps.Size < ps.Off {
				out.Inconclusive = "bad plan: part reaches past its source (meaning not settled by bytes.md)"
				return out
			}
			if ps.Off > 0 {
				ts.offsets++
			}
			if ps.Off+ps.Size < srcLen {
				ts.loose++
			}
			js.Parts = append(js.Parts, jp)
			nodeSize[i] += ps.Size
			if nodeSize[i] > 8<<20 {
				out.Inconclusive = "bad plan: tree larger than 8 MiB"
				return out
			}
		}
		nodeLevel[i] = level
		if level > 3 {
			out.Inconclusive = "bad plan: more than 3 schema levels"
			return out
		}
		raw, _ := json.MarshalIndent(js, "", " ")
		nodeRefs[i] = refOf(raw)
		st.Put(nodeRefs[i], raw)
	}
	root := nodeRefs[len(nodeRefs)-1]
	ts.levels = nodeLevel[len(nodeLevel)-1]
	ti := &treeInfo{get: st.Get, schemas: map[string]*jSchema{}, memo: map[string][]byte{}}
	want, derr := denote(st.Get, root, ti.memo)
	if derr != nil {
		out.Inconclusive = "reference interpreter: " + derr.Error()
		return out
	}
	if uint64(len(want)) != nodeSize[len(nodeSize)-1] {
		out.Inconclusive = "reference interpreter and plan disagree on the size"
		return out
	}
	bounds := leafBounds(st.Get, root)

	ctx := context.Background()
	clean := cleanView(st)
	describe := fmt.Sprintf("%s tree of %d bytes, %d schema level(s), %d nested, %d holes, %d parts with offset, %d parts ending before their source", cfg.RootType, len(want), ts.levels, ts.nested, ts.holes, ts.offsets, ts.loose)
	fr, err := schema.NewFileReader(ctx, clean, mustRef(root))
	if err != nil {
		return viol(out, "tree", "tree-unreadable", describe+": NewFileReader failed: "+err.Error(), -1)
	}
	if fr.Size() != int64(len(want)) {
		return viol(out, "tree", "tree-wrong-size", fmt.Sprintf("%s: Size() is %d", describe, fr.Size()), -1)
	}
	cfr, err := schema.NewFileReader(ctx, clean, mustRef(root))
	if err != nil {
		return viol(out, "tree", "tree-unreadable", describe+": NewFileReader failed: "+err.Error(), -1)
	}
	cu := &cursor{fr: cfr}
	chk := &readChecker{want: want, faulty: func() bool { return false }, chunkOracle: ts.subBytes == 0, getBlob: st.Get}
	size := uint64(len(want))

	var known, fresh *finding
	knownOp, freshOp := -1, -1
	var ks strings.Builder
	for i, op := range ops {
		ks.WriteByte(opLetter(op.K))
		var f *finding
		explained := false
		switch op.K {
		case "readat":
			off := resolveOff(op, bounds)
			f = chk.readAt(fr, off, op.Len)
			if f != nil && off >= 0 && uint64(off) < size {
				to := uint64(off) + uint64(op.Len)
				if to > size {
					to = size
				}
				explained = ti.opensInsideLoosePart(root, uint64(off), to)
			}
		case "read":
			at := cu.pos
			f = chk.read(cu, op.Len)
			if f != nil && at >= 0 && uint64(at) < size {
				to := uint64(at) + uint64(op.Len)
				if to > size {
					to = size
				}
				explained = ti.opensInsideLoosePart(root, uint64(at), to)
			}
		case "seek":
			off := op.Off
			if op.Whence == 0 {
				off = resolveOff(op, bounds)
			}
			f = chk.seek(cu, off, op.Whence)
		case "readall":
			f = chk.readAll(cu)
			// io.ReadAll issues reads at positions of its own choosing
			explained = f != nil && ts.loose > 0
		case "foreach":
			f = chk.foreach(ctx, fr)
		default:
			continue
		}
		if f == nil {
			continue
		}
		if explained && limitDefectClasses[f.class] {
			if known == nil {
				known, knownOp = f, i
			}
			// the cursor's position is still the model's; keep checking
			continue
		}
		fresh, freshOp = f, i
		break
	}

	reach(out, "tree-hole", ts.holes)
	reach(out, "tree-offset", ts.offsets)
	reach(out, "tree-ends-before-source", ts.loose)
	reach(out, "tree-subrange", ts.offsets+ts.loose)
	reach(out, "tree-nested", ts.nested)
	reach(out, "tree-subrange-bytesref", ts.subBytes)
	if ts.levels >= 3 {
		reach(out, "tree-depth3", 1)
	}
	if ts.loose == 0 {
		reach(out, "tree-tight", 1)
	}
	out.ShapeKey = fmt.Sprintf("t|%s|%d|l%d|n%d|h%d|o%d|e%d|%s", cfg.RootType, len(want), ts.levels, ts.nested, ts.holes, ts.offsets, ts.loose, ks.String())
	out.Nontrivial = len(want) > 0 && len(ops) > 0
	out.Sample = map[string]any{"mode": "tree (input generation)", "tree": describe, "reads": len(ops)}
	// The parts as pkg/schema hands them out ((*Blob).ByteParts, PartsSize),
	// put into a new file map the way an uploader does for content the
	// server already has (pkg/client fileMapFromDuplicate): the new schema
	// blob denotes the same bytes.
	if fresh == nil {
		if raw, ok := st.Get(root); ok {
			if sb, perr := schema.BlobFromReader(mustRef(root), bytes.NewReader(raw)); perr == nil {
				fm := schema.NewFileMap("copy.bin")
				if perr := fm.PopulateParts(sb.PartsSize(), sb.ByteParts()); perr == nil {
					js := fm.Blob().JSON()
					cref := refOf([]byte(js))
					st.Put(cref, []byte(js))
					cr, rerr := schema.NewFileReader(ctx, cleanView(st), mustRef(cref))
					var got []byte
					if rerr == nil {
						got, rerr = io.ReadAll(cr)
					}
					switch {
					case rerr != nil:
						fresh, freshOp = &finding{class: "copied-parts-unreadable", detail: fmt.Sprintf("a file map built from this blob's ByteParts() and PartsSize() cannot be read back: %v", rerr)}, len(ops)
					case !bytes.Equal(got, want):
						fresh, freshOp = &finding{class: "copied-parts-wrong-bytes", detail: fmt.Sprintf("a file map built from this blob's ByteParts() and PartsSize() denotes other bytes: %d bytes, first difference at %d of %d", len(got), firstDiff(got, want), len(want))}, len(ops)
					default:
						reach(out, "tree-parts-copied-into-a-new-file-map", 1)
					}
				}
			}
		}
	}
	if fresh != nil {
		return viol(out, "tree", fresh.class, fmt.Sprintf("%s; op #%d: %s", describe, freshOp, fresh.detail), freshOp)
	}
	if known != nil {
		reach(out, "tree-known-limit-defect", 1)
		out.Violation = harness.Viol(known.class, known.class+KnownLimitTag, fmt.Sprintf("%s; op #%d: %s [the read opens a part reader strictly inside a part that ends before its blob/bytes source does: findings.go, finding 1]", describe, knownOp, known.detail), knownOp)
	}
	return out
}
