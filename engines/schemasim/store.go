package schemasim

import (
	"context"
	"crypto/sha256"
	"encoding/hex"
	"encoding/json"
	"fmt"
	"io"
	"sync"

	"perkeep.org/pkg/blob"
	"perkeep.org/pkg/blobserver"

	"verif/sim"
	"verif/simcore"
)

// recvEv is one ReceiveBlob call as seen by the caller: event sequence
// numbers at entry and at return.
type recvEv struct {
	ref        string
	start, end uint64
	err        error
}

// recStore wraps a SimStore and stamps every receive with the run's event
// sequence at call and at return (the SimStore's own mutation log has one
// stamp per receive, taken when the blob becomes visible).
type recStore struct {
	inner *sim.SimStore
	mu    sync.Mutex
	recvs []recvEv
}

var _ blobserver.StatReceiver = (*recStore)(nil)

func (s *recStore) ReceiveBlob(ctx context.Context, br blob.Ref, src io.Reader) (blob.SizedRef, error) {
	st := simcore.Seq()
	sb, err := s.inner.ReceiveBlob(ctx, br, src)
	en := simcore.Seq()
	s.mu.Lock()
	s.recvs = append(s.recvs, recvEv{ref: br.String(), start: st, end: en, err: err})
	s.mu.Unlock()
	return sb, err
}

func (s *recStore) StatBlobs(ctx context.Context, blobs []blob.Ref, fn func(blob.SizedRef) error) error {
	return s.inner.StatBlobs(ctx, blobs, fn)
}

func (s *recStore) events() []recvEv {
	s.mu.Lock()
	defer s.mu.Unlock()
	return append([]recvEv(nil), s.recvs...)
}

// cleanView is a fault-free, yield-free SimStore over the same state.
func cleanView(st *sim.StoreState) *sim.SimStore {
	e := sim.NewEnv()
	e.FaultsOn = false
	return &sim.SimStore{Env: e, St: st}
}

// release drops the bulk data of a finished run (perkeep's blob hub registry
// keeps every storage value it has ever seen alive).
func release(st *sim.StoreState) {
	st.Restore(nil)
	st.Log = nil
}

func refOf(b []byte) string {
	h := sha256.Sum224(b)
	return "sha224-" + hex.EncodeToString(h[:])
}

func mustRef(s string) blob.Ref {
	br, ok := blob.Parse(s)
	if !ok {
		panic("schemasim: bad ref " + s)
	}
	return br
}

// ---- the harness's own reading of schema JSON (independent of pkg/schema) ----

type jPart struct {
	BlobRef  string `json:"blobRef,omitempty"`
	BytesRef string `json:"bytesRef,omitempty"`
	Size     uint64 `json:"size"`
	Offset   uint64 `json:"offset,omitempty"`
}

type jSchema struct {
	Version   int      `json:"camliVersion"`
	Type      string   `json:"camliType"`
	FileName  string   `json:"fileName,omitempty"`
	Parts     []jPart  `json:"parts"`
	Members   []string `json:"members,omitempty"`
	MergeSets []string `json:"mergeSets,omitempty"`
	Entries   string   `json:"entries,omitempty"`
}

func parseSchema(b []byte) (*jSchema, error) {
	var s jSchema
	if err := json.Unmarshal(b, &s); err != nil {
		return nil, err
	}
	return &s, nil
}

// walkResult is what a file blob reaches.
type walkResult struct {
	schemaRefs []string // bytes/file schema blobs, root first
	chunkRefs  []string // data chunks (blobRef targets), in content order, with repeats
	missing    []string
	nested     int // number of bytesRef parts
	maxDepth   int
	maxChunk   int
	maxChunkAt string
	badShape   string // both refs in one part etc.
}

// walkFile follows parts/bytesRef recursively from root in st.
func walkFile(st *sim.StoreState, root string) *walkResult {
	w := &walkResult{}
	seen := map[string]bool{}
	var rec func(ref string, depth int)
	rec = func(ref string, depth int) {
		if depth > w.maxDepth {
			w.maxDepth = depth
		}
		if depth > 64 {
			w.badShape = "bytesRef nesting deeper than 64"
			return
		}
		b, ok := st.Get(ref)
		if !ok {
			w.missing = append(w.missing, ref)
			return
		}
		if !seen[ref] {
			seen[ref] = true
			w.schemaRefs = append(w.schemaRefs, ref)
		}
		s, err := parseSchema(b)
		if err != nil {
			w.badShape = fmt.Sprintf("schema blob %s does not parse: %v", ref, err)
			return
		}
		if s.Type != "file" && s.Type != "bytes" {
			w.badShape = fmt.Sprintf("blob %s reached through bytesRef has camliType %q", ref, s.Type)
			return
		}
		for _, p := range s.Parts {
			switch {
			case p.BlobRef != "" && p.BytesRef != "":
				w.badShape = "part with both blobRef and bytesRef in " + ref
			case p.BlobRef != "":
				w.chunkRefs = append(w.chunkRefs, p.BlobRef)
				cb, ok := st.Get(p.BlobRef)
				if !ok {
					w.missing = append(w.missing, p.BlobRef)
					continue
				}
				if len(cb) > w.maxChunk {
					w.maxChunk = len(cb)
					w.maxChunkAt = p.BlobRef
				}
			case p.BytesRef != "":
				w.nested++
				rec(p.BytesRef, depth+1)
			}
		}
	}
	rec(root, 1)
	return w
}

// denote is the reference interpreter of doc/schema/bytes.md: the bytes a
// "bytes"/"file" schema blob stands for are the concatenation, over its
// parts, of `size` bytes taken `offset` bytes into the raw blob (blobRef) or
// into the bytes denoted by the nested schema (bytesRef), or `size` zero
// bytes when the part has neither.
func denote(get func(string) ([]byte, bool), ref string, memo map[string][]byte) ([]byte, error) {
	if b, ok := memo[ref]; ok {
		return b, nil
	}
	raw, ok := get(ref)
	if !ok {
		return nil, fmt.Errorf("blob %s not stored", ref)
	}
	s, err := parseSchema(raw)
	if err != nil {
		return nil, err
	}
	var out []byte
	for _, p := range s.Parts {
		var src []byte
		switch {
		case p.BlobRef != "":
			if src, ok = get(p.BlobRef); !ok {
				return nil, fmt.Errorf("blob %s not stored", p.BlobRef)
			}
		case p.BytesRef != "":
			if src, err = denote(get, p.BytesRef, memo); err != nil {
				return nil, err
			}
		default:
			out = append(out, make([]byte, p.Size)...)
			continue
		}
		if p.Offset+p.Size > uint64(len(src)) {
			return nil, fmt.Errorf("part of %s reaches past its source (bytes.md does not say what that means)", ref)
		}
		out = append(out, src[p.Offset:p.Offset+p.Size]...)
	}
	memo[ref] = out
	return out, nil
}

func firstDiff(a, b []byte) int {
	n := len(a)
	if len(b) < n {
		n = len(b)
	}
	for i := 0; i < n; i++ {
		if a[i] != b[i] {
			return i
		}
	}
	if len(a) != len(b) {
		return n
	}
	return -1
}
