// Package schemasim is the engine for property C15: files and directories
// written as schema blobs read back exactly.
//
// Plan modes
//
//	writer  simulation proper: schema.WriteFileFromReader fed by a SimReader
//	        (seeded fragmentation, EOF shape, source error) uploading to a
//	        SimStore whose completion order, latency and failures belong to
//	        the seeded scheduler and the fault plan.
//	reader  a file built by the real writer is read through FileReader
//	        (ReadAt/Read/Seek/ReadAll/ForeachChunk, several client tasks) over
//	        a SimStore with transient fetch faults: exact bytes or an error.
//	tree    INPUT GENERATION: hand-built bytes/file part trees (offsets,
//	        sub-ranges, holes, nesting up to 3 schema levels) compared with a
//	        reference interpreter of doc/schema/bytes.md.
//	dir     INPUT GENERATION (+ optional fetch faults): directories with member
//	        counts around the static-set splitting thresholds, fan-out lowered
//	        through the injected VerifSetMaxStaticSetMembers.
package schemasim

import (
	"encoding/json"
	"errors"

	"verif/harness"
	"verif/simcore"
)

type engine struct{}

func init() { harness.Register(engine{}) }

func (engine) Name() string    { return "schemasim" }
func (engine) Props() []string { return []string{"C15"} }

func (e engine) Gen(prop, tier string, run int, r *simcore.Rand) *harness.Plan {
	// mode mix: the writer is the expensive, simulated part
	switch x := run % 20; {
	case x < 7:
		return genWriter(tier, run, r)
	case x < 11:
		return genReader(tier, run, r)
	case x < 16:
		return genTree(tier, run, r)
	default:
		return genDir(tier, run, r)
	}
}

func (e engine) Exec(rc *harness.RunCtx, p *harness.Plan) *harness.Outcome {
	switch p.Mode {
	case "writer":
		var cfg WriterCfg
		if err := json.Unmarshal(p.Config, &cfg); err != nil {
			return &harness.Outcome{Inconclusive: "bad config: " + err.Error()}
		}
		return execWriter(rc, p, &cfg)
	case "reader":
		var cfg ReaderModeCfg
		if err := json.Unmarshal(p.Config, &cfg); err != nil {
			return &harness.Outcome{Inconclusive: "bad config: " + err.Error()}
		}
		return execReader(rc, p, &cfg)
	case "tree":
		var cfg TreeCfg
		if err := json.Unmarshal(p.Config, &cfg); err != nil {
			return &harness.Outcome{Inconclusive: "bad config: " + err.Error()}
		}
		return execTree(rc, p, &cfg)
	case "dir":
		var cfg DirCfg
		if err := json.Unmarshal(p.Config, &cfg); err != nil {
			return &harness.Outcome{Inconclusive: "bad config: " + err.Error()}
		}
		return execDir(rc, p, &cfg)
	}
	return &harness.Outcome{Inconclusive: "unknown mode " + p.Mode}
}

func viol(out *harness.Outcome, mode, class, detail string, op int) *harness.Outcome {
	out.Violation = harness.Viol(class, class+"@"+mode, detail, op)
	return out
}

// runTasks runs the started tasks to quiescence. It reports a hang (tasks
// that never finish) separately from an exhausted step budget.
func runTasks(rc *harness.RunCtx) (hang bool, trouble string) {
	if rc.Sched == nil {
		return false, ""
	}
	err := rc.Sched.Run()
	switch {
	case err == nil:
		return false, ""
	case errors.Is(err, simcore.ErrHang):
		return true, err.Error()
	default:
		return false, err.Error()
	}
}

func reach(out *harness.Outcome, name string, n int) {
	if n <= 0 {
		return
	}
	if out.Reached == nil {
		out.Reached = map[string]int{}
	}
	out.Reached[name] += n
}

func sizeClass(n int) string {
	switch {
	case n == 0:
		return "0"
	case n < tooSmall:
		return "<64K"
	case n <= firstChunk:
		return "<=256K"
	case n <= maxChunk:
		return "<=1M"
	case n <= 2*maxChunk:
		return "<=2M"
	}
	return ">2M"
}
