package schemasim

import (
	"context"
	"encoding/json"
	"fmt"
	"sort"
	"strings"

	"perkeep.org/pkg/blob"
	"perkeep.org/pkg/blobserver"
	"perkeep.org/pkg/schema"

	"verif/harness"
	"verif/sim"
	"verif/simcore"
)

// DirCfg configures a "dir" run (input generation; the read-back optionally
// sees transient fetch faults). The plan's Ops are the members.
type DirCfg struct {
	// FanOut is the value given to schema.maxStaticSetMembers for the run.
	FanOut  int    `json:"fanOut"`
	Name    string `json:"name"`
	Readdir bool   `json:"readdir,omitempty"`
	// FanOut == -1: the threshold perkeep ships with is left as it is (read
	// at run time, never written down here) and the directory gets that many
	// members plus ProdDelta; the members are synthesised by the executor.
	ProdDelta int `json:"prodDelta,omitempty"`
}

type MemberOp struct {
	Name string `json:"name"`
	// Kind: "file" | "dir" | "symlink" (what the member schema blob is)
	Kind string `json:"kind,omitempty"`
}

const dirStore = "d"

func genDir(tier string, run int, r *simcore.Rand) *harness.Plan {
	if run%2000 == 1117 || (tier == "thorough" && run%2000 == 117) {
		// the splitting threshold perkeep ships with: one member less, as
		// many, one more (every other run lowers the threshold to 3-10)
		cfg := DirCfg{FanOut: -1, ProdDelta: r.Range(-1, 1), Name: "d"}
		return &harness.Plan{Mode: "dir", Bubble: true, Config: harness.MustJSON(cfg)}
	}
	n := r.Range(3, 10)
	cfg := DirCfg{FanOut: n, Name: []string{"d", "dir with space", "", "ünï"}[r.Intn(4)]}
	var cnt int
	switch x := r.Intn(10); {
	case x < 3: // first threshold: members fit in one static-set or not
		cnt = n + r.Range(-1, 2)
	case x < 5: // multiples of the fan-out: with and without a remainder subset
		cnt = n*r.Range(2, n-1) + r.Range(-1, 1)
	case x < 8: // second threshold: subsets need subsets
		cnt = n*n + r.Range(-2, n+1)
	case x < 9:
		cnt = r.Intn(3)
	default:
		cnt = r.Intn(n*n*n + 5)
		if n*n*n > 350 && r.Bool(0.7) {
			cnt = r.Intn(350)
		} else if r.Bool(0.3) {
			cnt = n*n*n + r.Range(-2, 2)
		}
	}
	if cnt < 0 {
		cnt = 0
	}
	cfg.Readdir = cnt <= 150 && r.Bool(0.6)
	tag := r.Intn(1 << 16)
	p := &harness.Plan{Mode: "dir", Bubble: true, Config: harness.MustJSON(cfg)}
	for i := 0; i < cnt; i++ {
		m := MemberOp{Name: fmt.Sprintf("m%04d-%04x", i, tag), Kind: "file"}
		switch r.Intn(8) {
		case 0:
			m.Kind = "dir"
		case 1:
			m.Kind = "symlink"
		}
		p.Ops = append(p.Ops, harness.MustJSON(m))
	}
	if r.Bool(0.3) {
		est := cnt/n + 6
		if cfg.Readdir {
			est += cnt
		}
		for i, k := 0, r.Range(1, 2); i < k; i++ {
			f := sim.Fault{Op: -1, Call: r.Range(1, est), Seam: dirStore}
			f.Kind = []string{sim.FErr, sim.FShortRead, sim.FSlow}[r.Intn(3)]
			p.Faults = append(p.Faults, f)
		}
	}
	p.Sticky = []int{0, 500}[r.Intn(2)]
	return p
}

// staticSetMembers is the harness's reading of doc/schema/static-set.md: a
// static-set lists its members directly, or is the union of the static-sets
// named in mergeSets (recursively).
func staticSetMembers(get func(string) ([]byte, bool), ref string, depth int, st *dirShape) ([]string, error) {
	if depth > 32 {
		return nil, fmt.Errorf("mergeSets nested deeper than 32")
	}
	if depth > st.depth {
		st.depth = depth
	}
	raw, ok := get(ref)
	if !ok {
		return nil, fmt.Errorf("static-set blob %s is not stored", ref)
	}
	s, err := parseSchema(raw)
	if err != nil {
		return nil, err
	}
	if s.Type != "static-set" {
		return nil, fmt.Errorf("blob %s has camliType %q, want static-set", ref, s.Type)
	}
	st.sets++
	if len(s.Members) > 0 && len(s.MergeSets) > 0 {
		return nil, fmt.Errorf("static-set %s has both members and mergeSets (mutually exclusive)", ref)
	}
	if len(s.Members) > st.maxMembers {
		st.maxMembers = len(s.Members)
	}
	if len(s.MergeSets) > st.maxMerge {
		st.maxMerge = len(s.MergeSets)
	}
	out := append([]string(nil), s.Members...)
	for _, sub := range s.MergeSets {
		m, err := staticSetMembers(get, sub, depth+1, st)
		if err != nil {
			return nil, err
		}
		out = append(out, m...)
	}
	return out, nil
}

type dirShape struct {
	sets, depth, maxMembers, maxMerge int
}

// sameMembers compares as multisets: exactly the original members, each once.
func sameMembers(got, want []string) string {
	g := append([]string(nil), got...)
	w := append([]string(nil), want...)
	sort.Strings(g)
	sort.Strings(w)
	i, j := 0, 0
	var missing, extra []string
	for i < len(g) || j < len(w) {
		switch {
		case j == len(w) || (i < len(g) && g[i] < w[j]):
			extra = append(extra, g[i])
			i++
		case i == len(g) || w[j] < g[i]:
			missing = append(missing, w[j])
			j++
		default:
			i++
			j++
		}
	}
	if len(missing) == 0 && len(extra) == 0 {
		return ""
	}
	msg := fmt.Sprintf("%d listed, %d original; %d missing, %d extra or repeated", len(got), len(want), len(missing), len(extra))
	if len(missing) > 0 {
		msg += "; first missing " + missing[0]
	}
	if len(extra) > 0 {
		msg += "; first extra/repeated " + extra[0]
	}
	return msg
}

func execDir(rc *harness.RunCtx, p *harness.Plan, cfg *DirCfg) *harness.Outcome {
	out := &harness.Outcome{Ops: len(p.Ops), SubRuns: 1}
	prod := cfg.FanOut == -1
	if !prod && (cfg.FanOut < 3 || cfg.FanOut > 10000) {
		// fan-out 2 makes SetStaticSetMembers recurse forever (1 subset holding
		// everything); the production value is 10000
		out.Inconclusive = "bad plan: fan-out outside 3..10000"
		return out
	}
	if len(p.Ops) > 5000 {
		out.Inconclusive = "bad plan: too many members"
		return out
	}
	for _, f := range p.Faults {
		switch f.Kind {
		case sim.FErr, sim.FErrAfter, sim.FShortRead:
		case sim.FSlow:
			if rc.Sched == nil {
				out.Inconclusive = "bad plan: slow fault outside the bubble"
				return out
			}
		default:
			out.Inconclusive = "bad plan: fault kind " + f.Kind + " is not part of the dir model"
			return out
		}
	}
	members := make([]MemberOp, len(p.Ops))
	for i, raw := range p.Ops {
		if err := json.Unmarshal(raw, &members[i]); err != nil {
			out.Inconclusive = "bad op: " + err.Error()
			return out
		}
	}
	if prod {
		// read the shipped threshold (set, read back, restore)
		shipped := schema.VerifSetMaxStaticSetMembers(3)
		schema.VerifSetMaxStaticSetMembers(shipped)
		if shipped < 3 || shipped > 200000 {
			out.Inconclusive = fmt.Sprintf("shipped static-set threshold %d outside what this mode handles", shipped)
			return out
		}
		cfg.FanOut = shipped
		members = members[:0]
		for i := 0; i < shipped+cfg.ProdDelta; i++ {
			members = append(members, MemberOp{Name: fmt.Sprintf("m%06d", i), Kind: "file"})
		}
		out.Ops = len(members)
		out.Reached = map[string]int{"dir-shipped-threshold": 1}
	} else {
		old := schema.VerifSetMaxStaticSetMembers(cfg.FanOut)
		defer schema.VerifSetMaxStaticSetMembers(old)
	}

	st := sim.NewStoreState(dirStore)
	defer release(st)
	clean := cleanView(st)
	ctx := context.Background()
	put := func(b *schema.Blob) error {
		_, err := blobserver.Receive(ctx, clean, b.BlobRef(), strings.NewReader(b.JSON()))
		return err
	}
	run := func(name string, f func()) (string, bool) {
		if rc.Sched == nil {
			f()
			return "", false
		}
		rc.Sched.Go(name, f)
		hang, trouble := runTasks(rc)
		return trouble, hang
	}

	// 1. write: members, static-set(s) with the real builder, directory blob
	var refs []blob.Ref
	var want []string
	var dirRef blob.Ref
	var perr error
	var topSplit bool
	var builderPanic any
	if trouble, _ := run("build", func() {
		defer func() {
			// the builder panics on a schema blob above the size limit
			if r := recover(); r != nil {
				builderPanic = r
			}
		}()
		empty := blob.RefFromString("")
		for _, m := range members {
			var bb *schema.Builder
			switch m.Kind {
			case "dir":
				bb = schema.NewDirMap(m.Name).PopulateDirectoryMap(empty)
			case "symlink":
				bb = schema.NewFileMap(m.Name).SetType(schema.TypeSymlink).SetSymlinkTarget("t-" + m.Name)
			default:
				bb = schema.NewFileMap(m.Name)
				if perr = bb.PopulateParts(0, nil); perr != nil {
					return
				}
			}
			b := bb.Blob()
			if perr = put(b); perr != nil {
				return
			}
			refs = append(refs, b.BlobRef())
			want = append(want, b.BlobRef().String())
		}
		ss := schema.NewStaticSet()
		subsets := ss.SetStaticSetMembers(refs)
		topSplit = len(subsets) > 0
		for _, sub := range subsets {
			if perr = put(sub); perr != nil {
				return
			}
		}
		if perr = put(ss.Blob()); perr != nil {
			return
		}
		dir := schema.NewDirMap(cfg.Name).PopulateDirectoryMap(ss.Blob().BlobRef()).Blob()
		if perr = put(dir); perr != nil {
			return
		}
		dirRef = dir.BlobRef()
	}); trouble != "" {
		out.Inconclusive = "scheduler (build): " + trouble
		return out
	}
	if builderPanic != nil {
		return viol(out, "dir", "dir-builder-panic", fmt.Sprintf("directory of %d members with static-set fan-out %d: the builder panicked: %v", len(members), cfg.FanOut, builderPanic), -1)
	}
	if perr != nil && prod {
		return viol(out, "dir", "dir-builder-error", fmt.Sprintf("directory of %d members with the shipped static-set fan-out %d cannot be stored: %v", len(members), cfg.FanOut, perr), -1)
	}
	if perr != nil {
		out.Inconclusive = "building the directory: " + perr.Error()
		return out
	}
	describe := fmt.Sprintf("directory of %d members with static-set fan-out %d", len(want), cfg.FanOut)

	// 2. the stored blobs, read with the harness's own static-set.md reader
	draw, _ := st.Get(dirRef.String())
	ds, err := parseSchema(draw)
	if err != nil || ds.Type != "directory" || ds.Entries == "" {
		return viol(out, "dir", "dir-bad-directory-blob", fmt.Sprintf("%s: the directory blob is not a directory with entries: %s", describe, draw), -1)
	}
	var shape dirShape
	denoted, err := staticSetMembers(st.Get, ds.Entries, 1, &shape)
	if err != nil {
		return viol(out, "dir", "dir-builder-bad-static-set", fmt.Sprintf("%s: the static-set blobs SetStaticSetMembers produced do not form a valid static-set: %v", describe, err), -1)
	}
	if d := sameMembers(denoted, want); d != "" {
		return viol(out, "dir", "dir-builder-wrong-members", fmt.Sprintf("%s: the static-set blobs SetStaticSetMembers produced denote other members: %s", describe, d), -1)
	}

	// 3. DirReader over a store with transient fetch faults
	faulty := &sim.SimStore{Env: rc.Env, G: rc.Env.Gen, St: st}
	fired := func() bool {
		n := 0
		for k, v := range rc.Env.Fired {
			if k != sim.FSlow {
				n += v
			}
		}
		return n > 0
	}
	var f *finding
	errResults := 0
	rc.Env.BeginOp(0)
	trouble, hang := run("list", func() {
		for try := 0; try < 4; try++ {
			dr, err := schema.NewDirReader(ctx, faulty, dirRef)
			if err != nil {
				if !fired() {
					f = &finding{"dir-spurious-error", fmt.Sprintf("NewDirReader failed with %v although no fault was injected", err)}
					return
				}
				errResults++
				continue
			}
			var got []blob.Ref
			for again := 0; again < 3; again++ {
				got, err = dr.StaticSet(ctx)
				if err == nil {
					break
				}
				if !fired() {
					f = &finding{"dir-spurious-error", fmt.Sprintf("StaticSet failed with %v although no fault was injected", err)}
					return
				}
				errResults++
			}
			if err != nil {
				continue
			}
			gs := make([]string, len(got))
			for i, g := range got {
				gs[i] = g.String()
			}
			if d := sameMembers(gs, want); d != "" {
				f = &finding{"dir-wrong-members", "DirReader.StaticSet: " + d}
				return
			}
			// a second call answers from the reader's cache
			// (an empty listing is not cached and is fetched again)
			got2, err := dr.StaticSet(ctx)
			if err != nil {
				if !fired() {
					f = &finding{"dir-spurious-error", fmt.Sprintf("second StaticSet call failed with %v although no fault was injected", err)}
					return
				}
				errResults++
			} else if len(got2) != len(got) {
				f = &finding{"dir-wrong-members", fmt.Sprintf("second StaticSet call returned %d members, the first %d", len(got2), len(got))}
				return
			}
			if !cfg.Readdir {
				return
			}
			ents, err := dr.Readdir(ctx, -1)
			if err != nil {
				if !fired() {
					f = &finding{"dir-spurious-error", fmt.Sprintf("Readdir(-1) failed with %v although no fault was injected", err)}
					return
				}
				errResults++
				continue
			}
			es := make([]string, len(ents))
			for i, e := range ents {
				es[i] = e.BlobRef().String()
			}
			if d := sameMembers(es, want); d != "" {
				f = &finding{"dir-wrong-members", "DirReader.Readdir(-1): " + d}
			}
			return
		}
	})
	if hang {
		return viol(out, "dir", "dir-hang", describe+": listing never returned: "+trouble, -1)
	}
	if trouble != "" {
		out.Inconclusive = "scheduler (list): " + trouble
		return out
	}
	out.Fired = rc.Env.Fired
	nf := 0
	var kinds []string
	for _, fl := range p.Faults {
		kinds = append(kinds, fl.Kind)
	}
	for _, v := range rc.Env.Fired {
		nf += v
	}
	reach(out, "dir-fault", nf)
	reach(out, "dir-error-result", errResults)
	if topSplit {
		reach(out, "dir-split", 1)
	} else {
		reach(out, "dir-nosplit", 1)
	}
	if shape.depth >= 3 {
		reach(out, "dir-split-recursive", 1)
	}
	n := cfg.FanOut
	switch len(want) {
	case n, n + 1, n * n, n*n - 1, n*n + 1:
		reach(out, "dir-at-threshold", 1)
	}
	if cfg.Readdir {
		reach(out, "dir-readdir", 1)
	}
	out.ShapeKey = fmt.Sprintf("d|%d|%d|%v|%s", cfg.FanOut, len(want), cfg.Readdir, strings.Join(kinds, ","))
	out.Nontrivial = len(want) > 0
	out.Sample = map[string]any{"mode": "dir (input generation)", "members": len(want), "fanOut": cfg.FanOut, "staticSets": shape.sets, "depth": shape.depth, "faults": kinds}
	if f != nil {
		return viol(out, "dir", f.class, fmt.Sprintf("%s (%d static-set blobs, depth %d): %s", describe, shape.sets, shape.depth, f.detail), -1)
	}
	return out
}
