package schemasim

/*
FINDINGS of the C15 engine on the unchanged perkeep tree (commit 801bcab).

# Finding 1 — FileReader.readerForOffset over-reads a part that ends before its source (GENUINE DEFECT)

Reproduced against the unmodified /repo, without the simulator's overlay, by
repro/finding1_test.go:

	GOFLAGS=-mod=mod GOPROXY=off go test -tags findings ./engines/schemasim/repro -v

perkeep is not modified. Signature emitted by the engine (regexp for
KNOWN_FINDINGS.json: "@tree/reader-opened-inside-part-that-ends-before-its-source$"):

	<class>@tree/reader-opened-inside-part-that-ends-before-its-source
	class ∈ { read-wrong-bytes, readat-past-end, read-past-end }

Minimal reproducer

	blob B = "0123456789"                                   (10 bytes)
	{"camliVersion": 1, "camliType": "bytes",
	 "parts": [ {"blobRef": B, "size": 4},
	            {"blobRef": B, "offset": 6, "size": 4} ]}

doc/schema/bytes.md: every part contributes `size` bytes taken `offset` bytes
into its blob, so the schema denotes "0123" + "6789" (8 bytes; Size() is 8).

	call                                   returned                     denoted
	io.ReadAll from 0                      01236789                     01236789
	ReadAt(len 4, off 2)                   2345, nil                    2367
	ReadAt(len 5, off 1)                   12347, nil                   12367
	ReadAt(len 2, off 3)                   34, nil                      36
	1-part file {B, size 4}:
	ReadAt(len 10, off 2)                  4 bytes 2345, ErrUnexpEOF    2 bytes 23

Wrong bytes are returned without an error; the last case returns more bytes
than the file has. Read after Seek into the part behaves the same way
(io.SectionReader calls ReadAt). The same happens one level down when a
bytesRef part uses a sub-range of a nested bytes schema.

Cause: pkg/schema/filereader.go, readerForOffset, last statements:

	offRemain += int64(p0.Offset)
	... rsc.Seek(offRemain, io.SeekStart)
	return ... io.LimitReader(rsc, int64(p0.Size)) ...

After skipping offRemain bytes of the part, the part has p0.Size-offRemain
bytes left, but the reader is limited to the whole p0.Size. The surplus bytes
are taken from the blob (or nested bytes schema) beyond the part's end. The
hole case two branches above has the right limit (p0.Size-uint64(offRemain)).
The surplus is invisible when the part ends exactly where its source ends (the
source's own EOF stops the reader) — the only shape filewriter.go produces
(offset 0, size = blob length) and the only shape in which the cases of
fileread_test.go start a read in the middle of a part. It shows as soon as

  - a read (ReadAt, Read after Seek, or any Read not aligned to a part start)
    begins strictly inside a part, and
  - that part's source (blobRef blob or bytesRef schema) continues past
    offset+size.

How the engine separates it from other defects: for every failing read in tree
mode the engine evaluates (with its own reading of the stored JSON) whether a
correct reader serving that range would, at some schema level, open a part
reader strictly inside a part whose source continues past the part's end
(treeInfo.opensInsideLoosePart). Only then, and only for the classes above,
the violation gets the known signature; the run goes on checking its remaining
reads, and any other failing read of the same run takes precedence and is
reported with its generic signature (<class>@tree). 35 % of the generated
trees have no such part at all ("tight": offsets > 0 but every part ends with
its source), so other defects are always reportable there. The mutants "ignore
part offset" and "wrong hole limit" are reported as new violations while this
finding is listed as known.

In `bin/check C15 quick` (seed 1) about 31 % of the tree runs hit the defect.

# Observations outside the statement of C15 (not checked, never reported as violations)

  - DirReader.Readdir(ctx, n) with n > 0 never advances dr.current, so the
    documented paging ("subsequent calls yield further entries … at the end
    os.EOF") returns the first n entries forever. All callers in the tree pass
    -1. The engine exercises n <= 0 only.
  - Builder.SetStaticSetMembers recurses without end when maxStaticSetMembers
    is 2 (one subset receives all members). The variable is 10000 in production
    and only tests lower it; the engine uses 3…10.
  - FileReader.ForeachChunk enumerates all chunks of a nested bytes schema even
    when the referring part uses only a sub-range (offset/size) of it; bytes.md
    does not define chunk enumeration, so the engine compares ForeachChunk with
    the content only for trees without sub-ranged bytesRef parts.
*/
