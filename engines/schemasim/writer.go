package schemasim

import (
	"context"
	"encoding/json"
	"fmt"
	"io"
	"sort"
	"strings"

	"perkeep.org/pkg/blob"
	"perkeep.org/pkg/schema"

	"verif/harness"
	"verif/sim"
	"verif/simcore"
)

// WriterCfg is the configuration of a "writer" run; the plan's Ops are the
// source's explicit read fragments (Frag).
type WriterCfg struct {
	Content Content   `json:"content"`
	Reader  ReaderCfg `json:"reader"`
	Name    string    `json:"name"`
}

const writerStore = "w"

var fragSizes = []int{1, 1, 1, 2, 3, 7, 100, 4095, 4096, 8191, 32767, 32768, 32769, -1, -1}

func genFrag(r *simcore.Rand, at int, zeroBudget *int) Frag {
	f := Frag{N: fragSizes[r.Intn(len(fragSizes))], At: at, Y: r.Bool(0.3)}
	if *zeroBudget > 0 && r.Bool(0.03) {
		f.N = 0
		*zeroBudget--
	}
	return f
}

func genWriter(tier string, run int, r *simcore.Rand) *harness.Plan {
	big := maxContentSz
	cfg := WriterCfg{Content: genContent(r, big)}
	n := cfg.Content.Len
	cfg.Name = []string{"", "a", "file.bin", "with space.txt", "ünï.dat"}[r.Intn(5)]
	rc := ReaderCfg{ErrAt: -1}
	switch x := r.Intn(20); {
	case x < 8:
		rc.Default = -1
	case x < 10 && n <= 300<<10:
		rc.Default = 1
	default:
		rc.Default = []int{7, 1000, 4096, 8191, 32767, 32768}[r.Intn(6)]
	}
	rc.EOFWithData = r.Bool(0.5)
	if r.Bool(0.12) {
		rc.ErrAt = []int{0, 1, n / 2, n - 1, n, r.Intn(n + 1)}[r.Intn(6)]
		if rc.ErrAt < 0 {
			rc.ErrAt = 0
		}
		rc.ErrWithData = r.Bool(0.5)
	}
	// scheduling points inside default reads, bounded to a few thousand
	if r.Bool(0.7) {
		d := rc.Default
		if d <= 0 {
			d = bufioLook
		}
		reads := n/d + 1
		every := []int{1, 2, 5, 17}[r.Intn(4)]
		for reads/every > 2000 {
			every = every*4 + 1
		}
		rc.YieldEvery = every
	}
	cfg.Reader = rc

	p := &harness.Plan{Mode: "writer", Bubble: true, Config: harness.MustJSON(cfg)}
	zeros := 5
	// fragments at the start of the stream
	for i, k := 0, r.Intn(40); i < k; i++ {
		p.Ops = append(p.Ops, harness.MustJSON(genFrag(r, 0, &zeros)))
	}
	// fragments around interesting positions, ascending
	var ats []int
	for i, k := 0, r.Intn(4); i < k; i++ {
		at := []int{firstChunk, tooSmall, maxChunk, firstChunk + tooSmall, n / 2}[r.Intn(5)] + r.Range(-2, 2) - []int{0, 1, bufioLook}[r.Intn(3)]
		if at > 0 && at < n {
			ats = append(ats, at)
		}
	}
	// the end of the stream: what the bufio look-ahead and noteEOFReader see
	if r.Bool(0.8) {
		d := []int{0, 1, 2, 100, bufioLook - 1, bufioLook, bufioLook + 1, 2 * bufioLook}[r.Intn(8)]
		if at := n - d; at > 0 {
			ats = append(ats, at)
		}
	}
	sort.Ints(ats)
	for _, at := range ats {
		for i, k := 0, r.Range(1, 12); i < k; i++ {
			p.Ops = append(p.Ops, harness.MustJSON(genFrag(r, at, &zeros)))
		}
	}
	// upload faults: k-th store call of the run (stat and receive alternate)
	if r.Bool(0.5) {
		est := 2 * (n/tooSmall + 4)
		for i, k := 0, r.Range(1, 3); i < k; i++ {
			f := sim.Fault{Op: -1, Call: r.Range(1, est), Seam: writerStore}
			f.Kind = []string{sim.FErr, sim.FErr, sim.FErrAfter, sim.FSlow, sim.FSlow}[r.Intn(5)]
			if r.Bool(0.2) {
				f.Burst = r.Range(2, 4)
			}
			p.Faults = append(p.Faults, f)
		}
	}
	p.LockYield = []int{0, 0, 20, 200}[r.Intn(4)]
	p.Sticky = []int{0, 500, 900}[r.Intn(3)]
	return p
}

func parseFrags(ops []json.RawMessage) ([]Frag, error) {
	out := make([]Frag, len(ops))
	for i, raw := range ops {
		if err := json.Unmarshal(raw, &out[i]); err != nil {
			return nil, err
		}
	}
	return out, nil
}

func execWriter(rc *harness.RunCtx, p *harness.Plan, cfg *WriterCfg) *harness.Outcome {
	out := &harness.Outcome{Ops: len(p.Ops), SubRuns: 1}
	frags, err := parseFrags(p.Ops)
	if err != nil {
		out.Inconclusive = "bad op: " + err.Error()
		return out
	}
	if strings.Contains(cfg.Name, "/") {
		out.Inconclusive = "bad plan: file name with a slash"
		return out
	}
	zeroRun := 0
	for _, f := range frags {
		if f.N == 0 {
			zeroRun++
		}
	}
	if zeroRun > 50 {
		out.Inconclusive = "bad plan: too many empty reads (bufio gives up after 100 in a row)"
		return out
	}
	for _, f := range p.Faults {
		switch f.Kind {
		case sim.FErr, sim.FErrAfter, sim.FSlow:
		default:
			out.Inconclusive = "bad plan: fault kind " + f.Kind + " is not part of the writer model"
			return out
		}
	}
	data := cfg.Content.Materialise()
	st := sim.NewStoreState(writerStore)
	defer release(st)
	store := &recStore{inner: &sim.SimStore{Env: rc.Env, G: rc.Env.Gen, St: st}}
	src := NewSimReader(data, cfg.Reader, frags)
	ctx := context.Background()
	rc.Env.BeginOp(0)

	var (
		ref      blob.Ref
		werr     error
		returned bool
		panicked string
	)
	body := func() {
		defer func() {
			if r := recover(); r != nil {
				panicked = fmt.Sprint(r)
			}
		}()
		ref, werr = schema.WriteFileFromReader(ctx, store, cfg.Name, src)
		returned = true
	}
	if rc.Sched != nil {
		rc.Sched.Go("writer", body)
		hang, trouble := runTasks(rc)
		if hang {
			return viol(out, "writer", "writer-hang", fmt.Sprintf("WriteFileFromReader of %d bytes (%s) never finished: %s", len(data), cfg.Content.Kind, trouble), -1)
		}
		if trouble != "" {
			out.Inconclusive = "scheduler: " + trouble
			return out
		}
	} else {
		body()
	}
	if panicked != "" {
		return viol(out, "writer", "writer-panic", "WriteFileFromReader panicked: "+panicked, -1)
	}
	if !returned {
		out.Inconclusive = "writer task ended without returning"
		return out
	}

	errFaults := rc.Env.Fired[sim.FErr] + rc.Env.Fired[sim.FErrAfter]
	out.Fired = rc.Env.Fired
	reach(out, "upload-fault", errFaults)
	reach(out, "upload-slow", rc.Env.Fired[sim.FSlow])
	if src.SawEOFWithData {
		reach(out, "eof-with-data", 1)
	}
	if src.SawEOFAlone {
		reach(out, "eof-alone", 1)
	}
	if src.DeliveredErr {
		reach(out, "src-error", 1)
	}
	reach(out, "src-one-byte-reads", src.OneByteReads)
	reach(out, "src-short-reads", src.ShortReads)
	reach(out, "src-empty-reads", src.EmptyReads)
	reach(out, "src-yields", src.Yields)

	var kinds []string
	for _, f := range p.Faults {
		kinds = append(kinds, f.Kind)
	}
	out.ShapeKey = fmt.Sprintf("w|%s|%d|d%d|e%v|f%d|x%d|%s", cfg.Content.Kind, len(data), cfg.Reader.Default, cfg.Reader.EOFWithData, len(frags), cfg.Reader.ErrAt, strings.Join(kinds, ","))
	out.Nontrivial = len(data) > 0
	sample := map[string]any{"mode": "writer", "content": cfg.Content.Kind, "bytes": len(data), "fragments": len(frags), "defaultRead": cfg.Reader.Default, "eofWithData": cfg.Reader.EOFWithData, "faults": kinds}
	out.Sample = sample

	if werr != nil {
		reach(out, "writer-error-return", 1)
		sample["result"] = "error: " + werr.Error()
		if !src.DeliveredErr && errFaults == 0 {
			return viol(out, "writer", "writer-spurious-error", fmt.Sprintf("WriteFileFromReader of %d bytes (%s) failed with %q although neither the source nor the store failed", len(data), cfg.Content.Kind, werr), -1)
		}
		return out
	}

	// success: the returned ref must denote exactly the stream
	if src.DeliveredErr {
		return viol(out, "writer", "writer-swallowed-source-error", fmt.Sprintf("the source failed after %d of %d bytes but WriteFileFromReader returned %v without error", cfg.Reader.ErrAt, len(data), ref), -1)
	}
	if !ref.Valid() {
		return viol(out, "writer", "writer-invalid-ref", "WriteFileFromReader returned an invalid ref and no error", -1)
	}
	root := ref.String()
	w := walkFile(st, root)
	if len(w.missing) > 0 {
		return viol(out, "writer", "writer-missing-part", fmt.Sprintf("WriteFileFromReader of %d bytes (%s) returned %s without error, but %d blob(s) reachable from it are not in the store, first %s (upload faults fired: %d)", len(data), cfg.Content.Kind, root, len(w.missing), w.missing[0], errFaults), -1)
	}
	if w.badShape != "" {
		return viol(out, "writer", "writer-bad-schema", w.badShape, -1)
	}
	if w.maxChunk > maxChunk {
		return viol(out, "writer", "writer-chunk-too-big", fmt.Sprintf("data chunk %s of the %d-byte file (%s) has %d bytes, over the %d-byte limit", w.maxChunkAt, len(data), cfg.Content.Kind, w.maxChunk, maxChunk), -1)
	}
	clean := cleanView(st)
	fr, err := schema.NewFileReader(ctx, clean, ref)
	if err != nil {
		return viol(out, "writer", "writer-unreadable", fmt.Sprintf("the file %s returned by WriteFileFromReader cannot be opened: %v", root, err), -1)
	}
	if fr.Size() != int64(len(data)) {
		return viol(out, "writer", "writer-wrong-size", fmt.Sprintf("wrote %d bytes (%s), the file's Size() is %d", len(data), cfg.Content.Kind, fr.Size()), -1)
	}
	got, err := io.ReadAll(fr)
	if err != nil {
		return viol(out, "writer", "writer-unreadable", fmt.Sprintf("reading back the %d-byte file failed: %v", len(data), err), -1)
	}
	if d := firstDiff(got, data); d >= 0 {
		return viol(out, "writer", "writer-wrong-bytes", fmt.Sprintf("wrote %d bytes (%s), read back %d bytes, first difference at offset %d", len(data), cfg.Content.Kind, len(got), d), -1)
	}
	// history: the file blob's receive starts after every part's receive returned
	evs := store.events()
	var fileStart uint64
	for _, e := range evs {
		if e.ref == root && e.err == nil && (fileStart == 0 || e.start < fileStart) {
			fileStart = e.start
		}
	}
	if fileStart == 0 {
		return viol(out, "writer", "writer-file-blob-not-received", "no successful receive of the file blob "+root, -1)
	}
	firstEnd := map[string]uint64{}
	for _, e := range evs {
		if e.err != nil {
			continue
		}
		if cur, ok := firstEnd[e.ref]; !ok || e.end < cur {
			firstEnd[e.ref] = e.end
		}
	}
	parts := append(append([]string{}, w.schemaRefs[1:]...), w.chunkRefs...)
	for _, pr := range parts {
		if pr == root {
			continue
		}
		end, ok := firstEnd[pr]
		if !ok || end > fileStart {
			return viol(out, "writer", "writer-file-before-parts", fmt.Sprintf("the receive of file blob %s started (event %d) before the receive of its part %s had returned (event %d, 0 = never acknowledged); %d bytes, %d nested bytes blobs", root, fileStart, pr, end, len(data), w.nested), -1)
		}
	}
	// the same from the store's own mutation log (moment of visibility)
	logSeq := map[string]uint64{}
	for _, e := range st.Log {
		if e.Op == "recv" && e.OK {
			if _, ok := logSeq[e.Ref]; !ok {
				logSeq[e.Ref] = e.Seq
			}
		}
	}
	for _, pr := range parts {
		if pr != root && logSeq[pr] > logSeq[root] {
			return viol(out, "writer", "writer-file-before-parts", fmt.Sprintf("store log: file blob %s became visible (event %d) before its part %s (event %d)", root, logSeq[root], pr, logSeq[pr]), -1)
		}
	}

	if errFaults > 0 {
		reach(out, "upload-fault-masked", 1)
	}
	if len(w.chunkRefs) > 1 {
		reach(out, "writer-multichunk", 1)
	}
	if w.nested > 0 {
		reach(out, "writer-nested-bytes", 1)
	}
	if w.maxDepth > 2 {
		reach(out, "writer-depth3", 1)
	}
	if w.maxChunk == maxChunk {
		reach(out, "writer-chunk-at-cap", 1)
	}
	reach(out, "writer-success", 1)
	sample["result"] = fmt.Sprintf("ok: %d chunks, %d nested bytes blobs, depth %d, largest chunk %d", len(w.chunkRefs), w.nested, w.maxDepth, w.maxChunk)
	return out
}
