package schemasim

import (
	"bytes"
	"context"
	"encoding/json"
	"fmt"
	"strings"

	"perkeep.org/pkg/blob"
	"perkeep.org/pkg/schema"

	"verif/harness"
	"verif/sim"
	"verif/simcore"
)

// ReaderModeCfg configures a "reader" run; the plan's Ops are ReadOps.
type ReaderModeCfg struct {
	Content Content `json:"content"`
	Tasks   int     `json:"tasks"`
}

const readerStore = "r"

var readLens = []int{0, 1, 2, 3, 100, 4096, 65535, 65536, 65537, 300000}

func genReadOp(r *simcore.Rand, size int, tasks int, allowForeach bool) ReadOp {
	op := ReadOp{B: -1, T: r.Intn(tasks)}
	switch x := r.Intn(100); {
	case x < 52:
		op.K = "readat"
	case x < 74:
		op.K = "read"
	case x < 88:
		op.K = "seek"
	case x < 94:
		op.K = "readall"
	default:
		op.K = "foreach"
		if !allowForeach {
			op.K = "readat"
		}
	}
	pickLen := func() int {
		switch r.Intn(6) {
		case 0:
			return size
		case 1:
			return size + 1
		case 2:
			return r.Intn(70000)
		case 3:
			return r.Intn(size + 2)
		}
		return readLens[r.Intn(len(readLens))]
	}
	pickOff := func() int64 {
		switch r.Intn(8) {
		case 0:
			return []int64{0, 1, int64(size) - 1, int64(size), int64(size) + 1}[r.Intn(5)]
		case 1:
			return int64(r.Intn(4))*tooSmall + int64(r.Range(-1, 1))
		case 2:
			return int64([]int{firstChunk, maxChunk, firstChunk + tooSmall}[r.Intn(3)] + r.Range(-1, 1))
		case 3, 4:
			// relative to an actual chunk boundary
			op.B = r.Intn(1 << 10)
			return int64(r.Range(-3, 3))
		}
		return int64(r.Intn(size + 3))
	}
	switch op.K {
	case "readat":
		op.Off = pickOff()
		op.Len = pickLen()
		if op.Off < 0 && op.B < 0 && !r.Bool(0.1) {
			op.Off = 0
		}
	case "read":
		op.Len = pickLen()
	case "seek":
		op.Whence = r.Intn(3)
		switch op.Whence {
		case 0:
			op.Off = pickOff()
			if op.B >= 0 {
				// boundary-relative seeks are resolved like readat offsets
			}
		case 1:
			op.Off = int64(r.Range(-70000, 70000))
			if r.Bool(0.5) {
				op.Off = int64(r.Range(-3, 3))
			}
		case 2:
			op.Off = -int64(r.Intn(size + 3))
			if r.Bool(0.1) {
				op.Off = int64(r.Intn(3))
			}
		}
	}
	return op
}

func genReader(tier string, run int, r *simcore.Rand) *harness.Plan {
	cfg := ReaderModeCfg{Content: genContent(r, 2*maxChunk+4096)}
	cfg.Tasks = []int{1, 1, 2, 3}[r.Intn(4)]
	p := &harness.Plan{Mode: "reader", Bubble: true, Config: harness.MustJSON(cfg)}
	nops := r.Range(4, 40)
	for i := 0; i < nops; i++ {
		p.Ops = append(p.Ops, harness.MustJSON(genReadOp(r, cfg.Content.Len, cfg.Tasks, true)))
	}
	if r.Bool(0.6) {
		est := 2*nops + 6
		for i, k := 0, r.Range(1, 3); i < k; i++ {
			f := sim.Fault{Op: -1, Call: r.Range(1, est), Seam: readerStore}
			f.Kind = []string{sim.FErr, sim.FErr, sim.FShortRead, sim.FShortRead, sim.FSlow, sim.FWrongSize}[r.Intn(6)]
			if r.Bool(0.2) {
				f.Burst = r.Range(2, 3)
			}
			p.Faults = append(p.Faults, f)
		}
	}
	p.LockYield = []int{0, 0, 20, 200}[r.Intn(4)]
	p.Sticky = []int{0, 500, 900}[r.Intn(3)]
	return p
}

func parseReadOps(ops []json.RawMessage) ([]ReadOp, error) {
	out := make([]ReadOp, len(ops))
	for i, raw := range ops {
		out[i].B = -1
		if err := json.Unmarshal(raw, &out[i]); err != nil {
			return nil, err
		}
	}
	return out, nil
}

// leafBounds lists the file offsets at which the leaf parts of root start,
// plus the total size, following the tree with the harness's own parser.
func leafBounds(get func(string) ([]byte, bool), root string) []int64 {
	var out []int64
	var pos int64
	var rec func(ref string, depth int)
	rec = func(ref string, depth int) {
		b, ok := get(ref)
		if !ok || depth > 16 {
			return
		}
		s, err := parseSchema(b)
		if err != nil {
			return
		}
		for _, p := range s.Parts {
			if p.BytesRef != "" && p.Offset == 0 {
				before := pos
				rec(p.BytesRef, depth+1)
				pos = before + int64(p.Size)
				continue
			}
			out = append(out, pos)
			pos += int64(p.Size)
		}
	}
	rec(root, 0)
	return append(out, pos)
}

func execReader(rc *harness.RunCtx, p *harness.Plan, cfg *ReaderModeCfg) *harness.Outcome {
	out := &harness.Outcome{Ops: len(p.Ops), SubRuns: len(p.Ops)}
	ops, err := parseReadOps(p.Ops)
	if err != nil {
		out.Inconclusive = "bad op: " + err.Error()
		return out
	}
	for _, f := range p.Faults {
		switch f.Kind {
		case sim.FErr, sim.FErrAfter, sim.FShortRead, sim.FSlow, sim.FWrongSize:
		default:
			// a store returning other bytes than it was given is outside
			// FileReader's contract (it does not verify chunk digests)
			out.Inconclusive = "bad plan: fault kind " + f.Kind + " is not part of the reader model"
			return out
		}
		if f.Kind == sim.FSlow && rc.Sched == nil {
			out.Inconclusive = "bad plan: slow fault outside the bubble"
			return out
		}
	}
	tasks := cfg.Tasks
	if tasks < 1 {
		tasks = 1
	}
	if tasks > 8 {
		tasks = 8
	}
	data := cfg.Content.Materialise()
	st := sim.NewStoreState(readerStore)
	defer release(st)
	clean := cleanView(st)
	ctx := context.Background()

	run := func(name string, f func()) (string, bool) {
		if rc.Sched == nil {
			f()
			return "", false
		}
		rc.Sched.Go(name, f)
		hang, trouble := runTasks(rc)
		return trouble, hang
	}

	// 1. the file, built by the real writer without faults
	var ref blob.Ref
	var berr error
	if trouble, hang := run("build", func() {
		ref, berr = schema.WriteFileFromReader(ctx, clean, "f", bytes.NewReader(data))
	}); trouble != "" {
		if hang {
			return viol(out, "reader", "writer-hang", "fault-free WriteFileFromReader never finished: "+trouble, -1)
		}
		out.Inconclusive = "scheduler (build): " + trouble
		return out
	}
	if berr != nil {
		return viol(out, "reader", "writer-spurious-error", fmt.Sprintf("fault-free WriteFileFromReader of %d bytes failed: %v", len(data), berr), -1)
	}
	root := ref.String()
	den, derr := denote(st.Get, root, map[string][]byte{})
	if derr != nil {
		return viol(out, "reader", "writer-missing-part", "the file the writer built cannot be interpreted: "+derr.Error(), -1)
	}
	if d := firstDiff(den, data); d >= 0 {
		return viol(out, "reader", "writer-wrong-bytes", fmt.Sprintf("the part tree the writer built for %d bytes denotes %d bytes, first difference at %d", len(data), len(den), d), -1)
	}
	bounds := leafBounds(st.Get, root)

	// 2. reads through a store with transient fetch faults
	faulty := &sim.SimStore{Env: rc.Env, G: rc.Env.Gen, St: st}
	fired := func() bool {
		n := 0
		for k, v := range rc.Env.Fired {
			if k != sim.FSlow {
				n += v
			}
		}
		return n > 0
	}
	chk := &readChecker{want: data, faulty: fired, chunkOracle: true, getBlob: st.Get}
	open := func() (*schema.FileReader, *finding) {
		for try := 0; try < 6; try++ {
			fr, err := schema.NewFileReader(ctx, faulty, ref)
			if err == nil {
				return fr, nil
			}
			if !chk.excused() {
				return nil, &finding{"read-spurious-error", fmt.Sprintf("NewFileReader failed with %v although no fault was injected", err)}
			}
		}
		return nil, nil
	}
	var shared *schema.FileReader
	var first *finding
	firstOp := -1
	note := func(i int, f *finding) {
		if f != nil && (first == nil || i < firstOp) {
			first, firstOp = f, i
		}
	}
	rc.Env.BeginOp(0)
	if trouble, hang := run("open", func() {
		var f *finding
		shared, f = open()
		note(-1, f)
	}); trouble != "" {
		if hang {
			return viol(out, "reader", "reader-hang", "NewFileReader never returned: "+trouble, -1)
		}
		out.Inconclusive = "scheduler (open): " + trouble
		return out
	}
	if first != nil {
		return viol(out, "reader", first.class, first.detail, -1)
	}
	if shared == nil {
		reach(out, "reader-open-failed", 1)
	} else if shared.Size() != int64(len(data)) {
		return viol(out, "reader", "writer-wrong-size", fmt.Sprintf("Size() is %d for a %d-byte file", shared.Size(), len(data)), -1)
	}
	counts := map[string]int{}
	if shared != nil {
		body := func(t int) func() {
			return func() {
				var cu *cursor
				for i, op := range ops {
					if op.T%tasks != t {
						continue
					}
					var f *finding
					switch op.K {
					case "readat":
						f = chk.readAt(shared, resolveOff(op, bounds), op.Len)
					case "foreach":
						f = chk.foreach(ctx, shared)
					case "read", "seek", "readall":
						if cu == nil {
							fr, of := open()
							if of != nil {
								f = of
								break
							}
							if fr == nil {
								continue
							}
							cu = &cursor{fr: fr}
						}
						switch op.K {
						case "read":
							f = chk.read(cu, op.Len)
						case "seek":
							off := op.Off
							if op.Whence == 0 {
								off = resolveOff(op, bounds)
							}
							f = chk.seek(cu, off, op.Whence)
						case "readall":
							f = chk.readAll(cu)
						}
					default:
						continue
					}
					counts[op.K]++
					if f != nil {
						note(i, f)
						return
					}
				}
			}
		}
		if rc.Sched == nil {
			for t := 0; t < tasks; t++ {
				body(t)()
			}
		} else {
			for t := 0; t < tasks; t++ {
				rc.Sched.Go(fmt.Sprintf("c%d", t), body(t))
			}
			hang, trouble := runTasks(rc)
			if hang {
				return viol(out, "reader", "reader-hang", "a read never returned: "+trouble, -1)
			}
			if trouble != "" {
				out.Inconclusive = "scheduler (reads): " + trouble
				return out
			}
		}
	}
	out.Fired = rc.Env.Fired
	nf := 0
	var kinds []string
	for _, f := range p.Faults {
		kinds = append(kinds, f.Kind)
	}
	for _, v := range rc.Env.Fired {
		nf += v
	}
	reach(out, "reader-fault", nf)
	reach(out, "reader-error-result", chk.Excused)
	if tasks > 1 {
		reach(out, "reader-concurrent", 1)
	}
	if len(bounds) > 2 {
		reach(out, "reader-multichunk", 1)
	}
	for k, v := range counts {
		reach(out, "reader-"+k, v)
	}
	var ks strings.Builder
	for _, op := range ops {
		ks.WriteByte(opLetter(op.K))
	}
	out.ShapeKey = fmt.Sprintf("r|%s|%d|t%d|%s|%s", cfg.Content.Kind, len(data), tasks, ks.String(), strings.Join(kinds, ","))
	out.Nontrivial = len(data) > 0 && len(ops) > 0
	out.Sample = map[string]any{"mode": "reader", "content": cfg.Content.Kind, "bytes": len(data), "chunks": len(bounds) - 1, "tasks": tasks, "reads": len(ops), "faults": kinds, "errorResults": chk.Excused}
	if first != nil {
		return viol(out, "reader", first.class, fmt.Sprintf("%d-byte file (%s, %d chunks), op #%d %s: %s", len(data), cfg.Content.Kind, len(bounds)-1, firstOp, opString(ops, firstOp), first.detail), firstOp)
	}
	return out
}

func opLetter(k string) byte {
	switch k {
	case "readat":
		return 'A'
	case "read":
		return 'R'
	case "seek":
		return 'S'
	case "readall":
		return 'L'
	case "foreach":
		return 'F'
	}
	return '?'
}

func opString(ops []ReadOp, i int) string {
	if i < 0 || i >= len(ops) {
		return ""
	}
	return ops[i].String()
}
