package httpsim

import (
	"fmt"

	"verif/harness"
	"verif/sim"
	"verif/simcore"
)

type c02gen struct {
	r *simcore.Rand
	n int
}

func (g *c02gen) name(t string) string {
	g.n++
	return fmt.Sprintf("%s%d", t, g.n)
}

func (g *c02gen) leaf() *sim.Node {
	switch g.r.Intn(9) {
	case 0, 1, 2:
		return &sim.Node{Type: "sim", Name: g.name("s")}
	case 3:
		return &sim.Node{Type: "memory", Name: g.name("m")}
	case 4, 5:
		return &sim.Node{Type: "files", Name: g.name("f")}
	case 6, 7:
		sizes := []int{50, 5000, 1 << 20, 64 << 20}
		return &sim.Node{Type: "diskpacked", Name: g.name("d"), MaxFileSize: sizes[g.r.Intn(len(sizes))]}
	default:
		return &sim.Node{Type: "localdisk", Name: g.name("l")}
	}
}

var c02Roots = []string{"sim", "memory", "files", "diskpacked", "localdisk", "namespace", "replica", "shard", "encrypt", "overlay", "blobpacked", "proxycache", "memory", "encrypt", "cond"}

func (g *c02gen) root(t string) *sim.Node {
	switch t {
	case "sim", "memory", "files", "diskpacked", "localdisk":
		for {
			if n := g.leaf(); n.Type == t {
				return n
			}
		}
	case "namespace":
		return &sim.Node{Type: "namespace", Name: g.name("ns"), Kids: []*sim.Node{g.leaf()}}
	case "replica":
		nd := &sim.Node{Type: "replica", Name: g.name("rep")}
		for i, n := 0, g.r.Range(1, 3); i < n; i++ {
			nd.Kids = append(nd.Kids, g.leaf())
		}
		nd.Min = g.r.Range(1, len(nd.Kids))
		return nd
	case "shard":
		nd := &sim.Node{Type: "shard", Name: g.name("sh")}
		for i, n := 0, g.r.Range(1, 3); i < n; i++ {
			nd.Kids = append(nd.Kids, g.leaf())
		}
		return nd
	case "encrypt":
		return &sim.Node{Type: "encrypt", Name: g.name("enc"), Kids: []*sim.Node{
			{Type: "sim", Name: g.name("s")}, {Type: "sim", Name: g.name("s")}}}
	case "overlay":
		return &sim.Node{Type: "overlay", Name: g.name("ov"), Kids: []*sim.Node{g.leaf(), g.leaf()}}
	case "blobpacked":
		return &sim.Node{Type: "blobpacked", Name: g.name("bp"), Kids: []*sim.Node{
			g.leaf(), {Type: "sim", Name: g.name("s")}}}
	case "cond":
		// the generated configuration's shape: schema blobs to
		// replica(x, y), everything else to x, reads and removals from x
		// (cond sniffs the beginning of every upload to tell which it is)
		x, y := g.leaf(), g.leaf()
		then := &sim.Node{Type: "replica", Name: g.name("rep"), Kids: []*sim.Node{x, y}, Min: 2}
		return &sim.Node{Type: "cond", Name: g.name("cond"), Kids: []*sim.Node{then, x, x, x}}
	case "proxycache":
		return &sim.Node{Type: "proxycache", Name: g.name("pc"), Kids: []*sim.Node{g.leaf()}, CacheBytes: int64([]int{0, 100, 100000}[g.r.Intn(3)])}
	}
	return g.leaf()
}

var badRefs = []string{"nodash", "sha224-zz", "sha1-1234", "sha224-", "-abcd", "sha224-D14A028C2A3A2BC9476102BB288234C415A2B01F828EA62AC5B3E42F", "sha256-00", "sha1-da39a3ee5e6b4b0d3255bfef95601890afd8070", "sha224-d14a028c2a3a2bc9476102bb288234c415a2b01f828ea62ac5b3e42f00"}

func (g *c02gen) part(nblobs int, http bool) Part {
	r := g.r
	pt := Part{B: r.Intn(nblobs)}
	switch x := r.Intn(100); {
	case x < 34:
	case x < 44:
		pt.Mut, pt.Arg = "trunc", r.Intn(1<<20)
		if r.Bool(0.3) {
			pt.Arg = -1 // cut the last byte: arg%len == len-1
		}
	case x < 54:
		pt.Mut, pt.Arg = "extend", r.Intn(300)
	case x < 66:
		pt.Mut, pt.Arg = "flip", r.Intn(1<<24)
	case x < 72:
		pt.Mut, pt.Arg = "perm", r.Intn(1<<20)
	case x < 77:
		pt.Mut = "empty"
	case x < 84:
		pt.Mut, pt.Arg = "other", r.Intn(8)
	case x < 93:
		pt.Hash = []string{"md5", "sha999"}[r.Intn(2)]
		if r.Bool(0.3) {
			pt.Mut, pt.Arg = "flip", r.Intn(1<<20)
		}
	default:
		if http {
			pt.Bad = badRefs[r.Intn(len(badRefs))]
		}
	}
	if pt.Hash == "" && r.Bool(0.3) {
		pt.Hash = []string{"sha1", "sha224", "sha256"}[r.Intn(3)]
	}
	if pt.Mut == "trunc" && pt.Arg == -1 {
		pt.Arg = 0
		pt.Mut = "trunc1"
	}
	return pt
}

func (g *c02gen) reader(big bool) ReaderSpec {
	r := g.r
	sp := ReaderSpec{FailAt: -1, Seed: r.Uint64()}
	sp.Frag = []string{"whole", "whole", "one", "short", "short", "mixed", "mixed", "edge1"}[r.Intn(8)]
	if big {
		sp.Frag = []string{"whole", "edge1", "edge1"}[r.Intn(3)]
	}
	sp.EOFWithData = r.Bool(0.4)
	return sp
}

func genC02(tier string, run int, r *simcore.Rand) *harness.Plan {
	g := &c02gen{r: r}
	rootType := c02Roots[run%len(c02Roots)]
	big := r.Bool(0.08)
	if big {
		// 16 MiB cases: keep the backend cheap
		rootType = []string{"memory", "sim", "files", "diskpacked", "replica", "encrypt", "localdisk"}[r.Intn(7)]
	}
	cfg := C02Config{Root: g.root(rootType)}
	reverifies := cfg.Root.Type == "memory" || cfg.Root.Type == "encrypt"
	nblobs := r.Range(2, 8)
	maxSize := 70000
	if r.Bool(0.1) {
		maxSize = 1 << 20
	}
	cfg.Blobs = sim.GenBlobSpecs(r, nblobs, maxSize)
	var bigIdx []int
	if big {
		for _, sz := range []int{maxBlob - 1, maxBlob, maxBlob + 1} {
			if r.Bool(0.6) || len(bigIdx) == 0 && sz == maxBlob {
				bigIdx = append(bigIdx, len(cfg.Blobs))
				cfg.Blobs = append(cfg.Blobs, sim.BlobSpec{Size: sz, Hash: []string{"sha224", "sha224", "sha1", "sha256"}[r.Intn(4)], Kind: "raw", Salt: r.Uint64()})
			}
		}
	}
	sizes := make([]int, len(cfg.Blobs))
	for i, sp := range cfg.Blobs {
		sizes[i] = sp.Size
	}
	path := func() string {
		switch x := r.Intn(100); {
		case x < 28:
			return "receive"
		case x < 42:
			return "put"
		case x < 54:
			return "put-chunked"
		case x < 76:
			return "mp"
		case x < 84:
			return "mp-chunked"
		case x < 93:
			if reverifies {
				return "nohash"
			}
			return "receive"
		default:
			if reverifies {
				return "direct"
			}
			return "put-chunked"
		}
	}
	offer := func() Offer {
		of := Offer{Path: path()}
		http := of.Path != "receive" && of.Path != "nohash" && of.Path != "direct"
		nparts := 1
		if of.Path == "mp" || of.Path == "mp-chunked" {
			nparts = r.Range(1, 6)
		}
		used := map[string]bool{}
		for len(of.Parts) < nparts {
			pt := g.part(nblobs, http)
			k := fmt.Sprint(pt.B, pt.Hash, pt.Bad)
			if used[k] {
				if len(used) >= nblobs {
					break
				}
				continue
			}
			used[k] = true
			of.Parts = append(of.Parts, pt)
		}
		largest := 0
		for _, pt := range of.Parts {
			largest = max(largest, sizes[pt.B])
		}
		of.Reader = g.reader(largest > 100000)
		if r.Bool(0.2) {
			// the stream fails: position is relative to what travels (the blob
			// for single offers, the encoded form for multipart); the engine
			// ignores positions beyond the end
			total := 0
			for _, pt := range of.Parts {
				total += sizes[pt.B]
			}
			if nparts > 1 || of.Path == "mp" || of.Path == "mp-chunked" {
				total += 150 * len(of.Parts)
			}
			of.Reader.Kind = []string{"err", "err", "ueof", "eof", "eof"}[r.Intn(5)]
			switch r.Intn(5) {
			case 0:
				of.Reader.FailAt = 0
			case 1:
				of.Reader.FailAt = sizes[of.Parts[0].B] // right behind the first blob's bytes
			case 2:
				of.Reader.FailAt = max(0, sizes[of.Parts[0].B]-1)
			default:
				of.Reader.FailAt = r.Intn(total + 1)
			}
			of.Reader.ErrWithData = r.Bool(0.4)
		}
		return of
	}
	var offers []Offer
	for i, n := 0, r.Range(5, 16); i < n; i++ {
		if r.Bool(0.12) {
			// the same ref offered concurrently, e.g. good and bad bytes at once
			gid := i + 1
			a, b := offer(), offer()
			if r.Bool(0.7) && len(a.Parts) > 0 && len(b.Parts) > 0 {
				b.Parts[0].B, b.Parts[0].Hash, b.Parts[0].Bad = a.Parts[0].B, a.Parts[0].Hash, ""
			}
			a.G, b.G = gid, gid
			offers = append(offers, a, b)
			continue
		}
		offers = append(offers, offer())
	}
	// 16 MiB cases: exact at the cap, one byte beyond, and a body whose first
	// 16 MiB hash to the ref but that goes on
	for _, bi := range bigIdx {
		size := cfg.Blobs[bi].Size
		var muts []Part
		muts = append(muts, Part{B: bi})
		if size == maxBlob {
			muts = append(muts, Part{B: bi, Mut: "extend", Arg: []int{0, 1, 299}[r.Intn(3)]})
		}
		if r.Bool(0.5) {
			muts = append(muts, Part{B: bi, Mut: "flip", Arg: r.Intn(1 << 24)})
		}
		if r.Bool(0.3) {
			muts = append(muts, Part{B: bi, Mut: "trunc1"})
		}
		for _, pt := range muts {
			p := []string{"receive", "put", "put-chunked", "mp", "mp-chunked"}[r.Intn(5)]
			if reverifies && r.Bool(0.25) {
				p = "nohash"
			}
			of := Offer{Path: p, Parts: []Part{pt}, Reader: g.reader(true)}
			if (p == "mp" || p == "mp-chunked") && r.Bool(0.5) {
				of.Parts = append(of.Parts, g.part(nblobs, true))
			}
			if r.Bool(0.1) {
				of.Reader.Kind, of.Reader.FailAt = "err", size
			}
			pos := r.Intn(len(offers) + 1)
			offers = append(offers[:pos], append([]Offer{of}, offers[pos:]...)...)
		}
	}
	// removals: the store is told to forget a blob (one it was given through
	// an upload, or one the lower layer of an overlay held from the start),
	// and bad bytes are offered under that ref afterwards
	if cfg.Root.Type == "overlay" && len(cfg.Root.Kids) > 0 && r.Bool(0.7) {
		cfg.Preseed = map[string][]int{}
		for k := r.Range(1, 3); k > 0; k-- {
			cfg.Preseed[cfg.Root.Kids[0].Name] = append(cfg.Preseed[cfg.Root.Kids[0].Name], r.Intn(nblobs))
		}
	}
	if !big && r.Bool(0.35) {
		for k := r.Range(1, 2); k > 0; k-- {
			bi := r.Intn(nblobs)
			var pre []int
			if len(cfg.Root.Kids) > 0 {
				pre = cfg.Preseed[cfg.Root.Kids[0].Name]
			}
			if len(pre) > 0 && r.Bool(0.7) {
				bi = pre[r.Intn(len(pre))]
			}
			pos := r.Intn(len(offers) + 1)
			for pos < len(offers) && pos > 0 && offers[pos].G > 0 && offers[pos].G == offers[pos-1].G {
				pos++ // not into the middle of a concurrent group
			}
			rm := Offer{Path: "remove", Parts: []Part{{B: bi}}, Reader: ReaderSpec{FailAt: -1}}
			bad := offer()
			bad.G = 0
			if len(bad.Parts) > 0 {
				bad.Parts[0].B, bad.Parts[0].Hash, bad.Parts[0].Bad = bi, "", ""
				if bad.Parts[0].Mut == "" {
					bad.Parts[0].Mut, bad.Parts[0].Arg = []string{"flip", "trunc1", "extend", "perm"}[r.Intn(4)], r.Intn(1<<16)
				}
			}
			offers = append(offers[:pos], append([]Offer{rm, bad}, offers[pos:]...)...)
		}
	}
	// small fragments only for small streams (every fragment is a lower-layer
	// write, hence a scheduling point, in the file-backed stores)
	maxAll := 0
	for _, sz := range sizes {
		maxAll = max(maxAll, sz)
	}
	for i := range offers {
		largest := 0
		for _, pt := range offers[i].Parts {
			largest = max(largest, sizes[pt.B])
			if pt.Mut == "other" {
				largest = max(largest, maxAll)
			}
		}
		if f := offers[i].Reader.Frag; largest > 100000 && (f == "one" || f == "short" || f == "mixed") {
			offers[i].Reader.Frag = "edge1"
		}
	}
	p := &harness.Plan{Mode: "c02", Config: harness.MustJSON(cfg), Bubble: true}
	p.Sticky = []int{0, 500, 900}[r.Intn(3)]
	for _, of := range offers {
		p.Ops = append(p.Ops, harness.MustJSON(of))
	}
	return p
}
