package httpsim

import (
	"errors"
	"io"

	"verif/simcore"
)

// ReaderSpec describes how a SimReader delivers its bytes: the stream is the
// faulty component of C02.
type ReaderSpec struct {
	// Frag: whole | one (1-byte reads) | short (seeded short reads) | mixed |
	// edge1 (1-byte reads at both ends, large reads in between)
	Frag string `json:"frag,omitempty"`
	// EOFWithData: the last bytes come together with io.EOF in one call.
	EOFWithData bool `json:"eofWithData,omitempty"`
	// FailAt >= 0: after that many bytes the stream fails (Kind err:
	// an error; ueof: io.ErrUnexpectedEOF; eof: premature end of stream).
	// -1 (and 0 with an empty Kind): healthy.
	FailAt int    `json:"failAt"`
	Kind   string `json:"kind,omitempty"`
	// ErrWithData: the failing call also delivers the bytes before the failure.
	ErrWithData bool   `json:"errWithData,omitempty"`
	Seed        uint64 `json:"seed,omitempty"`
}

func (s ReaderSpec) fails() bool { return s.Kind != "" && s.FailAt >= 0 }

// ErrSimReader is the injected stream error.
var ErrSimReader = errors.New("simreader: injected stream error")

// SimReader is an io.Reader over data with seeded fragmentation and an
// optional failure at byte FailAt.
type SimReader struct {
	data []byte
	pos  int
	spec ReaderSpec
	r    *simcore.Rand
	// Failed: the failure was returned to the consumer.
	Failed bool
	// SawEnd: io.EOF was returned to the consumer.
	SawEnd bool
	Reads  int
}

func NewSimReader(data []byte, spec ReaderSpec) *SimReader {
	return &SimReader{data: data, spec: spec, r: simcore.NewRand(simcore.Mix(spec.Seed, "simreader"))}
}

func (s *SimReader) failure() error {
	s.Failed = true
	switch s.spec.Kind {
	case "ueof":
		return io.ErrUnexpectedEOF
	case "eof":
		s.SawEnd = true
		return io.EOF
	}
	return ErrSimReader
}

func (s *SimReader) Read(p []byte) (int, error) {
	s.Reads++
	if len(p) == 0 {
		return 0, nil
	}
	end := len(s.data)
	failing := s.spec.fails() && s.spec.FailAt <= len(s.data)
	if failing {
		end = s.spec.FailAt
	}
	if s.pos >= end {
		if failing {
			return 0, s.failure()
		}
		s.SawEnd = true
		return 0, io.EOF
	}
	n := len(p)
	switch s.spec.Frag {
	case "one":
		n = 1
	case "short":
		n = 1 + s.r.Intn(97)
	case "mixed":
		switch s.r.Intn(4) {
		case 0:
			n = 1
		case 1:
			n = 1 + s.r.Intn(7)
		case 2:
			n = 1 + s.r.Intn(4096)
		}
	case "edge1":
		if s.pos < 24 || s.pos >= len(s.data)-24 {
			n = 1
		} else {
			n = 1 + s.r.Intn(256<<10)
			if rest := len(s.data) - 24 - s.pos; n > rest {
				n = rest
			}
		}
	}
	if n > len(p) {
		n = len(p)
	}
	if n > end-s.pos {
		n = end - s.pos
	}
	copy(p, s.data[s.pos:s.pos+n])
	s.pos += n
	if s.pos == end {
		if failing && s.spec.ErrWithData {
			return n, s.failure()
		}
		if !failing && s.spec.EOFWithData {
			s.SawEnd = true
			return n, io.EOF
		}
	}
	return n, nil
}
