// Package httpsim drives perkeep's HTTP blob protocol (handlers, serverinit,
// pkg/client) and its ingest paths inside the simulator: no socket is ever
// opened, every request is served by calling the installed http.Handler on a
// new goroutine of the bubble.
package httpsim

import (
	"context"
	"errors"
	"fmt"
	"io"
	"net/http"
	"net/url"
	"runtime/debug"
	"strconv"
	"sync"

	"verif/simcore"
)

// SimServer is the server side shared by the transports of all simulated
// peers: one http.Handler and a few counters.
type SimServer struct {
	Handler http.Handler

	mu       sync.Mutex
	seq      int
	perLabel map[string]int
	Requests int
	// Panics holds the text of handler panics (a real server would drop the
	// connection; here the client sees a transport error and the engine
	// reports the panic).
	Panics []string
}

// next numbers the requests of one label: concurrent requests of the same
// peer get distinct scheduling-point labels.
func (s *SimServer) next(label string) int {
	s.mu.Lock()
	defer s.mu.Unlock()
	s.seq++
	s.Requests++
	if s.perLabel == nil {
		s.perLabel = map[string]int{}
	}
	s.perLabel[label]++
	return s.perLabel[label]
}

type labelKey struct{}

// WithLabel makes requests issued under ctx carry label in their
// scheduling-point names (instead of the transport's).
func WithLabel(ctx context.Context, label string) context.Context {
	return context.WithValue(ctx, labelKey{}, label)
}

func (s *SimServer) notePanic(msg string) {
	s.mu.Lock()
	s.Panics = append(s.Panics, msg)
	s.mu.Unlock()
}

// TakePanic returns the first handler panic, if any, and forgets them.
func (s *SimServer) TakePanic() string {
	s.mu.Lock()
	defer s.mu.Unlock()
	if len(s.Panics) > 0 {
		p := s.Panics[0]
		s.Panics = nil
		return p
	}
	return ""
}

// SimTransport is the http.RoundTripper of one simulated peer.
type SimTransport struct {
	Srv *SimServer
	// Peer is what the handler sees as req.RemoteAddr.
	Peer string
	// Label names the peer in scheduling-point labels.
	Label string
}

// respBufSize mimics net/http's server-side buffering: the response head is
// sent when this many body bytes have been written, on Flush, or when the
// handler returns.
const respBufSize = 4096

// stream is an unbounded byte pipe: writes never block (a connection with a
// large window), reads block until data, end or error.
type stream struct {
	mu      sync.Mutex
	c       *sync.Cond
	buf     []byte
	done    bool
	err     error
	rclosed bool
}

func newStream() *stream {
	s := &stream{}
	s.c = sync.NewCond(&s.mu)
	return s
}

func (s *stream) write(p []byte) {
	s.mu.Lock()
	if !s.rclosed && !s.done {
		s.buf = append(s.buf, p...)
	}
	s.c.Broadcast()
	s.mu.Unlock()
}

func (s *stream) finish(err error) {
	s.mu.Lock()
	if !s.done {
		s.done = true
		s.err = err
	}
	s.c.Broadcast()
	s.mu.Unlock()
}

func (s *stream) read(p []byte) (int, error) {
	s.mu.Lock()
	defer s.mu.Unlock()
	for len(s.buf) == 0 && !s.done && !s.rclosed {
		s.c.Wait()
	}
	if s.rclosed {
		return 0, errors.New("httpsim: read on closed response body")
	}
	if len(s.buf) > 0 {
		n := copy(p, s.buf)
		s.buf = s.buf[n:]
		return n, nil
	}
	if s.err != nil {
		return 0, s.err
	}
	return 0, io.EOF
}

func (s *stream) closeRead() {
	s.mu.Lock()
	s.rclosed = true
	s.buf = nil
	s.c.Broadcast()
	s.mu.Unlock()
}

// simRW is the http.ResponseWriter handed to the handler.
type simRW struct {
	label  string
	isHead bool

	mu          sync.Mutex
	hdr         http.Header // the handler's live header map
	sent        http.Header // snapshot at WriteHeader
	status      int
	wroteHeader bool
	handlerDone bool
	pending     []byte // body bytes written before the head was sent
	written     int64
	committed   chan struct{}
	isCommitted bool
	contentLen  int64
	body        *stream
}

func (w *simRW) Header() http.Header { return w.hdr }

func bodyAllowed(status int) bool {
	switch {
	case status >= 100 && status <= 199, status == 204, status == 304:
		return false
	}
	return true
}

func (w *simRW) WriteHeader(code int) {
	w.mu.Lock()
	defer w.mu.Unlock()
	w.writeHeaderLocked(code)
}

func (w *simRW) writeHeaderLocked(code int) {
	if w.wroteHeader || (code >= 100 && code <= 199) {
		return
	}
	w.wroteHeader = true
	w.status = code
	w.sent = w.hdr.Clone()
	if w.sent == nil {
		w.sent = http.Header{}
	}
}

func (w *simRW) Write(p []byte) (int, error) {
	w.mu.Lock()
	defer w.mu.Unlock()
	if w.handlerDone {
		return 0, http.ErrHandlerTimeout
	}
	if !w.wroteHeader {
		w.writeHeaderLocked(200)
	}
	if !bodyAllowed(w.status) {
		return 0, http.ErrBodyNotAllowed
	}
	w.written += int64(len(p))
	if w.isCommitted {
		if !w.isHead {
			w.body.write(p)
		}
		return len(p), nil
	}
	w.pending = append(w.pending, p...)
	if len(w.pending) > respBufSize {
		w.commitLocked()
	}
	return len(p), nil
}

func (w *simRW) Flush() {
	w.mu.Lock()
	defer w.mu.Unlock()
	if !w.wroteHeader {
		w.writeHeaderLocked(200)
	}
	w.commitLocked()
}

// commitLocked sends the response head (and what was buffered so far).
func (w *simRW) commitLocked() {
	if w.isCommitted {
		return
	}
	w.isCommitted = true
	h := w.sent
	w.contentLen = -1
	if v := h.Get("Content-Length"); v != "" {
		if n, err := strconv.ParseInt(v, 10, 64); err == nil && n >= 0 {
			w.contentLen = n
		}
	} else if w.handlerDone && bodyAllowed(w.status) && (!w.isHead || len(w.pending) > 0) {
		// like net/http: the whole body is known when the head goes out
		w.contentLen = int64(len(w.pending))
		h.Set("Content-Length", strconv.Itoa(len(w.pending)))
	}
	if len(w.pending) > 0 && h.Get("Content-Type") == "" {
		h.Set("Content-Type", http.DetectContentType(w.pending))
	}
	if !bodyAllowed(w.status) {
		w.contentLen = 0
	}
	if !w.isHead && len(w.pending) > 0 {
		w.body.write(w.pending)
	}
	w.pending = nil
	close(w.committed)
}

func (w *simRW) finish(err error) {
	w.mu.Lock()
	w.handlerDone = true
	if err == nil {
		if !w.wroteHeader {
			w.writeHeaderLocked(200)
		}
		w.commitLocked()
	} else if !w.isCommitted {
		// connection dropped before any byte of the response
		w.isCommitted = true
		w.status = 0
		close(w.committed)
	}
	w.mu.Unlock()
	w.body.finish(err)
}

// reqBody is the server's view of the request body: it pulls from the
// client's body reader (the client is as slow as its reader), enforces the
// declared Content-Length and is a scheduling point for the first reads.
type reqBody struct {
	src    io.ReadCloser
	label  string
	remain int64 // -1: unknown length (chunked)
	reads  int
	mu     sync.Mutex
	closed bool
}

var errBodyClosed = errors.New("http: invalid Read on closed Body")

func (b *reqBody) Read(p []byte) (int, error) {
	b.mu.Lock()
	if b.closed {
		b.mu.Unlock()
		return 0, errBodyClosed
	}
	b.reads++
	n := b.reads
	b.mu.Unlock()
	if n <= 4 || (n%64 == 0 && n <= 64*60) {
		simcore.Yield("body:" + b.label)
	}
	if b.remain == 0 {
		return 0, io.EOF
	}
	if b.remain > 0 && int64(len(p)) > b.remain {
		p = p[:b.remain]
	}
	k, err := b.src.Read(p)
	if b.remain > 0 {
		b.remain -= int64(k)
		if err == io.EOF && b.remain > 0 {
			err = io.ErrUnexpectedEOF
		}
		if b.remain == 0 && err == nil {
			// like net/http's body: EOF is reported by the next call
		}
	}
	return k, err
}

func (b *reqBody) Close() error {
	b.mu.Lock()
	defer b.mu.Unlock()
	if b.closed {
		return nil
	}
	b.closed = true
	return b.src.Close()
}

type respBody struct {
	s      *stream
	label  string
	cancel context.CancelFunc
	reads  int
	remain int64 // declared Content-Length still to deliver; -1 unknown
}

func (b *respBody) Read(p []byte) (int, error) {
	b.reads++
	if b.reads <= 2 {
		simcore.Yield("rbody:" + b.label)
	}
	if b.remain == 0 {
		return 0, io.EOF
	}
	if b.remain > 0 && int64(len(p)) > b.remain {
		p = p[:b.remain]
	}
	n, err := b.s.read(p)
	if b.remain > 0 {
		b.remain -= int64(n)
		if err == io.EOF && b.remain > 0 {
			// the server announced more than it sent and closed
			err = io.ErrUnexpectedEOF
		}
	}
	return n, err
}

func (b *respBody) Close() error {
	b.s.closeRead()
	b.cancel()
	return nil
}

// RoundTrip serves req by the server's handler on a new goroutine.
func (t *SimTransport) RoundTrip(req *http.Request) (*http.Response, error) {
	label := t.Label
	if l, ok := req.Context().Value(labelKey{}).(string); ok {
		label = l + "/" + t.Label
	}
	label = fmt.Sprintf("%s#%d", label, t.Srv.next(label))
	sctx, cancel := context.WithCancel(context.Background())

	u := &url.URL{Path: req.URL.Path, RawPath: req.URL.RawPath, RawQuery: req.URL.RawQuery}
	sreq := (&http.Request{
		Method:     req.Method,
		URL:        u,
		Proto:      "HTTP/1.1",
		ProtoMajor: 1,
		ProtoMinor: 1,
		Header:     req.Header.Clone(),
		Host:       req.URL.Host,
		RemoteAddr: t.Peer,
		RequestURI: u.RequestURI(),
	}).WithContext(sctx)
	if sreq.Header == nil {
		sreq.Header = http.Header{}
	}
	if req.Host != "" {
		sreq.Host = req.Host
	}
	var rb *reqBody
	if req.Body == nil || req.Body == http.NoBody {
		sreq.Body = http.NoBody
		sreq.ContentLength = 0
	} else {
		cl := req.ContentLength
		if cl == 0 {
			cl = -1 // outgoing: 0 with a body means unknown
		}
		rb = &reqBody{src: req.Body, label: label, remain: cl}
		sreq.Body = rb
		sreq.ContentLength = cl
		if cl < 0 {
			sreq.TransferEncoding = []string{"chunked"}
		} else {
			sreq.Header.Set("Content-Length", strconv.FormatInt(cl, 10))
		}
	}

	rw := &simRW{
		label:     label,
		isHead:    req.Method == "HEAD",
		hdr:       http.Header{},
		committed: make(chan struct{}),
		body:      newStream(),
	}
	go func() {
		simcore.Yield("h:" + label)
		var herr error
		func() {
			defer func() {
				if r := recover(); r != nil {
					if r == http.ErrAbortHandler {
						herr = errors.New("httpsim: handler aborted")
						return
					}
					msg := fmt.Sprintf("%s %s: panic: %v\n%s", req.Method, req.URL.Path, r, debug.Stack())
					t.Srv.notePanic(msg)
					herr = errors.New("httpsim: connection closed (handler panic)")
				}
			}()
			t.Srv.Handler.ServeHTTP(rw, sreq)
		}()
		rw.finish(herr)
		cancel()
		if rb != nil {
			rb.Close()
		}
	}()

	select {
	case <-rw.committed:
	case <-req.Context().Done():
		cancel()
		return nil, req.Context().Err()
	}
	simcore.Yield("rt:" + label)
	rw.mu.Lock()
	status, hdr, cl := rw.status, rw.sent, rw.contentLen
	rw.mu.Unlock()
	if status == 0 {
		cancel()
		return nil, errors.New("httpsim: server closed the connection without a response")
	}
	resp := &http.Response{
		Status:        fmt.Sprintf("%d %s", status, http.StatusText(status)),
		StatusCode:    status,
		Proto:         "HTTP/1.1",
		ProtoMajor:    1,
		ProtoMinor:    1,
		Header:        hdr,
		ContentLength: cl,
		Request:       req,
	}
	if rw.isHead || !bodyAllowed(status) {
		resp.Body = http.NoBody
		if !bodyAllowed(status) {
			resp.ContentLength = 0
		}
	} else {
		resp.Body = &respBody{s: rw.body, label: label, cancel: cancel, remain: cl}
		if cl < 0 {
			resp.TransferEncoding = []string{"chunked"}
		}
	}
	return resp, nil
}
