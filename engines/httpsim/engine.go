package httpsim

import (
	"verif/harness"
	"verif/simcore"
)

type engine struct{}

func init() { harness.Register(engine{}) }

func (engine) Name() string    { return "httpsim" }
func (engine) Props() []string { return []string{"C18", "C02"} }

func (e engine) Gen(prop, tier string, run int, r *simcore.Rand) *harness.Plan {
	switch prop {
	case "C18":
		return genC18(tier, run, r)
	case "C02":
		return genC02(tier, run, r)
	}
	return nil
}

func (e engine) Exec(rc *harness.RunCtx, p *harness.Plan) *harness.Outcome {
	switch p.Prop {
	case "C18":
		return execC18(rc, p)
	case "C02":
		return execC02(rc, p)
	}
	return &harness.Outcome{Inconclusive: "httpsim: unknown property " + p.Prop}
}
