package httpsim

import (
	"bytes"
	"context"
	"crypto/md5"
	"crypto/sha1"
	"crypto/sha256"
	"encoding/hex"
	"encoding/json"
	"errors"
	"fmt"
	"io"
	"mime/multipart"
	"net/http"
	"net/textproto"
	"os"
	"path/filepath"
	"sort"
	"strings"
	"sync"

	"perkeep.org/pkg/blob"
	"perkeep.org/pkg/blobserver"
	"perkeep.org/pkg/blobserver/handlers"

	"verif/harness"
	"verif/sim"
	"verif/simcore"
	"verif/simdisk"
)

const maxBlob = 16 << 20

// ageTestKey is a fixed age identity for encrypt compositions (the one
// storesim uses).
const ageTestKey = "AGE-SECRET-KEY-1FSHC0YC7XUCUJ7JWRT0LDHY4EWTM5M60APTCXTM2ZQ5YCTEEFCXSKSMYMJ"

// C02Config is the engine-specific part of a C02 plan.
type C02Config struct {
	Root  *sim.Node      `json:"root"`
	Blobs []sim.BlobSpec `json:"blobs"`
	// Preseed: node name -> blob indices received directly into that store
	// of the composition before the first offer (the read-only lower layer
	// of an overlay cannot be filled any other way).
	Preseed map[string][]int `json:"preseed,omitempty"`
}

// Part is one (ref, bytes) pair offered to an ingest path.
type Part struct {
	// B: the base blob; its true content is what the ref is computed from.
	B int `json:"b"`
	// Mut: how the offered bytes differ from the true content:
	// "" exact | trunc | trunc1 (last byte cut) | extend | flip | perm | empty | other
	Mut string `json:"mut,omitempty"`
	Arg int    `json:"arg,omitempty"`
	// Hash: hash function of the ref ("" = the base blob's own): sha1 |
	// sha224 | sha256 | md5 | sha999 (the last two are unknown to perkeep)
	Hash string `json:"hash,omitempty"`
	// Bad: a malformed ref literal used instead (HTTP paths only)
	Bad string `json:"bad,omitempty"`
}

// Offer is one upload attempt.
type Offer struct {
	// Path: receive (blobserver.Receive) | nohash (blobserver.ReceiveNoHash
	// into a store that re-verifies) | direct (ReceiveBlob of such a store) |
	// put | put-chunked | mp | mp-chunked; "remove": not an upload - the
	// part's base blob is removed through the store (where it supports
	// removal), so that a later rejected upload of that ref meets a ref
	// the store has been told to forget
	Path   string     `json:"path"`
	Parts  []Part     `json:"parts"`
	Reader ReaderSpec `json:"reader"`
	// G > 0: consecutive offers with the same G run concurrently
	G int `json:"g,omitempty"`
}

func (p Part) String() string {
	s := fmt.Sprintf("b%d", p.B)
	if p.Mut != "" {
		s += ":" + p.Mut
		if p.Arg != 0 {
			s += fmt.Sprint(p.Arg)
		}
	}
	if p.Hash != "" {
		s += ":" + p.Hash
	}
	if p.Bad != "" {
		s += ":ref=" + p.Bad
	}
	return s
}

func (o Offer) String() string {
	var ps []string
	for _, p := range o.Parts {
		ps = append(ps, p.String())
	}
	s := o.Path + "(" + strings.Join(ps, ",") + ")"
	if o.Reader.Frag != "" {
		s += "/" + o.Reader.Frag
	}
	if o.Reader.fails() {
		s += fmt.Sprintf("/%s@%d", o.Reader.Kind, o.Reader.FailAt)
	}
	if o.G > 0 {
		s += fmt.Sprintf("#g%d", o.G)
	}
	return s
}

// recvStore is what the upload handlers and Receive get: the composition's
// root plus the Config the batch handler asks for. One value, one hub.
type recvStore struct {
	blobserver.Storage
	conf *blobserver.Config
}

func (r *recvStore) Config() *blobserver.Config { return r.conf }

type partRes struct {
	part    Part
	refStr  string
	ref     blob.Ref
	refOK   bool
	offered []byte
	// eff: the bytes the stream actually carries (offered, cut by a premature end)
	eff    []byte
	failAt int // offset of the stream failure inside offered (if any)
	// static verdict
	valid     bool
	why       string // why not valid
	ambiguous bool   // either outcome is acceptable
	mustTake  bool   // a healthy, valid, unobstructed offer: refusal would make the check vacuous
	// outcome
	accepted bool
	err      error
	status   int
	size     uint32
}

type offerRes struct {
	offer Offer
	parts []*partRes
	panic string
	note  string
}

type hubRec struct {
	mu    sync.Mutex
	hooks []string
	ch    chan blob.Ref
	name  string
}

type c02 struct {
	rc     *harness.RunCtx
	p      *harness.Plan
	cfg    *C02Config
	out    *harness.Outcome
	world  *sim.World
	pool   []*sim.TBlob
	sto    blobserver.Storage
	recv   *recvStore
	srv    *SimServer
	hubs   []*hubRec
	stored map[string][]byte
	// removed: refs removed through the store and not validly accepted since
	removed map[string]bool
	reach   map[string]int
	mu      sync.Mutex
}

func (s *c02) reached(name string) {
	s.mu.Lock()
	s.reach[name]++
	s.mu.Unlock()
}

func digestOf(name string, data []byte) (string, bool) {
	switch name {
	case "sha1":
		d := sha1.Sum(data)
		return hex.EncodeToString(d[:]), true
	case "sha224":
		d := sha256.Sum224(data)
		return hex.EncodeToString(d[:]), true
	case "sha256":
		d := sha256.Sum256(data)
		return hex.EncodeToString(d[:]), true
	}
	return "", false
}

func mutate(base []byte, mut string, arg int, other []byte) []byte {
	if arg < 0 {
		arg = -arg
	}
	switch mut {
	case "trunc":
		if len(base) == 0 {
			return base
		}
		return base[:arg%len(base)]
	case "trunc1":
		if len(base) == 0 {
			return base
		}
		return base[:len(base)-1]
	case "extend":
		n := 1 + arg%300
		ext := make([]byte, len(base)+n)
		copy(ext, base)
		for i := len(base); i < len(ext); i++ {
			ext[i] = byte(i*7 + arg)
		}
		return ext
	case "flip":
		if len(base) == 0 {
			return []byte{1}
		}
		c := append([]byte(nil), base...)
		bit := arg % (8 * len(c))
		c[bit/8] ^= 1 << (bit % 8)
		return c
	case "perm":
		c := append([]byte(nil), base...)
		if len(c) >= 2 {
			i := arg % len(c)
			for k := 1; k < len(c); k++ {
				j := (i + k) % len(c)
				if c[j] != c[i] {
					c[i], c[j] = c[j], c[i]
					break
				}
			}
		}
		return c
	case "empty":
		return nil
	case "other":
		return other
	}
	return base
}

// materialise computes the ref string and the offered bytes of a part.
func (s *c02) materialise(pt Part) *partRes {
	b := s.pool[pt.B]
	pr := &partRes{part: pt}
	hn := pt.Hash
	if hn == "" {
		hn = b.Spec.Hash
		if hn == "" {
			hn = "sha224"
		}
	}
	switch hn {
	case "md5":
		d := md5.Sum(b.Data)
		pr.refStr = "md5-" + hex.EncodeToString(d[:])
	case "sha999":
		d := sha256.Sum256(b.Data)
		pr.refStr = "sha999-" + hex.EncodeToString(d[:20])
	default:
		d, _ := digestOf(hn, b.Data)
		pr.refStr = hn + "-" + d
	}
	if pt.Bad != "" {
		pr.refStr = pt.Bad
	}
	pr.ref, pr.refOK = blob.Parse(pr.refStr)
	other := s.pool[(pt.B+1+pt.Arg%len(s.pool)+len(s.pool))%len(s.pool)].Data
	pr.offered = mutate(b.Data, pt.Mut, pt.Arg, other)
	pr.eff = pr.offered
	return pr
}

// judge sets the static verdict of a part whose stream carries eff and
// fails (readerErr) or not.
func judge(pr *partRes, readerErr bool) {
	if readerErr && pr.failAt >= maxBlob && len(pr.eff) > maxBlob {
		// the stream fails only behind the first 16 MiB of an oversize body:
		// what counts is that the body is oversize
		readerErr = false
	}
	name, dig, found := strings.Cut(pr.refStr, "-")
	want, known := "", false
	if found {
		want, known = digestOf(name, pr.eff)
	}
	switch {
	case !pr.refOK:
		pr.why = "malformed-ref"
	case !known:
		pr.why = "unknown-hash"
	case readerErr:
		pr.why = "reader-error"
	case len(pr.eff) > maxBlob:
		pr.why = "oversize"
		if d, _ := digestOf(name, pr.eff[:maxBlob]); d == dig {
			pr.why = "oversize-prefix"
		}
	case want != dig:
		pr.why = "hash-mismatch"
	default:
		pr.valid = true
	}
}

// --- execution of one offer (inside a task) ---

func (s *c02) execOffer(of Offer, task string) (res *offerRes) {
	res = &offerRes{offer: of}
	defer func() {
		if r := recover(); r != nil {
			res.panic = fmt.Sprint(r)
		}
	}()
	ctx := WithLabel(context.Background(), task)
	dup := map[string]bool{}
	for _, pt := range of.Parts {
		pr := s.materialise(pt)
		if dup[pr.refStr] {
			continue // one ref once per offer
		}
		dup[pr.refStr] = true
		res.parts = append(res.parts, pr)
	}
	if len(res.parts) == 0 {
		return res
	}
	sp := of.Reader
	if (of.Path == "nohash" || of.Path == "direct") && s.cfg.Root.Type != "memory" && s.cfg.Root.Type != "encrypt" {
		// only stores that re-verify may be fed without the verifying entry point
		of.Path = "receive"
		res.offer = of
	}
	switch of.Path {
	case "receive", "nohash", "direct":
		pr := res.parts[0]
		res.parts = res.parts[:1]
		readerErr := false
		if sp.fails() && sp.FailAt <= len(pr.offered) {
			pr.failAt = sp.FailAt
			if sp.Kind == "eof" {
				pr.eff = pr.offered[:sp.FailAt]
			} else {
				readerErr = true
				if sp.FailAt == len(pr.offered) && len(pr.offered) >= maxBlob {
					// the error sits where the size limit stops reading anyway
					pr.ambiguous = true
				}
			}
		}
		judge(pr, readerErr)
		if of.Path == "direct" && len(pr.eff) > maxBlob {
			// BlobReceiver: an implementation "can trust that the source isn't
			// larger than MaxBlobSize"; the cap is the entry points' business
			pr.ambiguous = true
		}
		pr.mustTake = pr.valid && !sp.fails()
		if !pr.refOK {
			pr.err = errors.New("not offered: a malformed ref has no blob.Ref value")
			return res
		}
		rd := NewSimReader(pr.offered, sp)
		var sb blob.SizedRef
		var err error
		switch of.Path {
		case "receive":
			sb, err = blobserver.Receive(ctx, s.recv, pr.ref, rd)
		case "nohash":
			sb, err = blobserver.ReceiveNoHash(ctx, s.recv, pr.ref, rd)
		case "direct":
			sb, err = s.sto.ReceiveBlob(ctx, pr.ref, rd)
		}
		pr.err, pr.accepted, pr.size = err, err == nil, sb.Size
		if rd.Failed {
			s.reached("reader-error-midstream")
		}
	case "put", "put-chunked":
		pr := res.parts[0]
		res.parts = res.parts[:1]
		readerErr := false
		if sp.fails() && sp.FailAt <= len(pr.offered) {
			pr.failAt = sp.FailAt
			switch {
			case sp.Kind == "eof" && of.Path == "put-chunked":
				pr.eff = pr.offered[:sp.FailAt]
			case sp.Kind == "eof" && sp.FailAt == len(pr.offered):
			default:
				// with a declared length a premature end is a transport error
				readerErr = true
				if sp.FailAt == len(pr.offered) && (of.Path == "put" || len(pr.offered) >= maxBlob) {
					// every declared byte arrived; the failure lies behind the body
					pr.ambiguous = true
				}
			}
		}
		judge(pr, readerErr)
		pr.mustTake = pr.valid && !sp.fails()
		rd := NewSimReader(pr.offered, sp)
		req, err := http.NewRequestWithContext(ctx, "PUT", "http://c02.sim/camli/"+pr.refStr, io.NopCloser(rd))
		if err != nil {
			pr.err = err
			return res
		}
		if of.Path == "put" {
			req.ContentLength = int64(len(pr.offered))
			if len(pr.offered) == 0 {
				req.Body = http.NoBody
			}
		} else {
			s.reached("put-no-content-length")
		}
		resp, err := (&http.Client{Transport: &SimTransport{Srv: s.srv, Peer: "10.1.1.1:1", Label: "put"}}).Do(req)
		if err != nil {
			pr.err = err
			return res
		}
		body, _ := io.ReadAll(io.LimitReader(resp.Body, 400))
		resp.Body.Close()
		pr.status = resp.StatusCode
		pr.accepted = resp.StatusCode/100 == 2
		pr.size = uint32(len(pr.eff))
		if !pr.accepted {
			pr.err = fmt.Errorf("HTTP %d: %s", resp.StatusCode, firstN(strings.TrimSpace(string(body)), 80))
		}
		if rd.Failed {
			s.reached("reader-error-midstream")
		}
	case "mp", "mp-chunked":
		var body bytes.Buffer
		mw := multipart.NewWriter(&body)
		mw.SetBoundary(fmt.Sprintf("verifC02boundary%dx%d", s.p.Run, len(of.Parts)))
		type span struct{ start, end int }
		spans := make([]span, len(res.parts))
		for i, pr := range res.parts {
			h := textproto.MIMEHeader{}
			h.Set("Content-Disposition", fmt.Sprintf(`form-data; name="%s"; filename="blob%d"`, pr.refStr, i+1))
			h.Set("Content-Type", "application/octet-stream")
			pw, _ := mw.CreatePart(h)
			spans[i].start = body.Len()
			pw.Write(pr.offered)
			spans[i].end = body.Len()
		}
		mw.Close()
		enc := body.Bytes()
		failAt := -1
		if sp.fails() && sp.FailAt <= len(enc) {
			failAt = sp.FailAt
		}
		obstructed := false // an earlier part made the handler stop
		for i, pr := range res.parts {
			readerErr := false
			if failAt >= 0 {
				next := len(enc)
				if i+1 < len(spans) {
					next = spans[i+1].start
				}
				switch {
				case failAt < spans[i].end:
					readerErr = true
					pr.failAt = max(0, failAt-spans[i].start)
				case failAt < next:
					// data complete, closing delimiter cut: the server cannot
					// tell; either outcome
					pr.ambiguous = true
				}
			}
			judge(pr, readerErr)
			pr.mustTake = pr.valid && failAt < 0 && !obstructed
			if !pr.valid && pr.why != "malformed-ref" {
				obstructed = true // the handler stops at the first failing part
			}
			if pr.valid && strings.Contains(s.cfg.Root.Shape(), "encrypt") && len(pr.eff) > maxBlob-(64<<10) {
				// refused by the encrypting store (ciphertext over the cap):
				// the handler stops here too
				obstructed = true
			}
		}
		rd := NewSimReader(enc, sp)
		req, err := http.NewRequestWithContext(ctx, "POST", "http://c02.sim/camli/upload", io.NopCloser(rd))
		if err != nil {
			res.note = err.Error()
			return res
		}
		req.Header.Set("Content-Type", mw.FormDataContentType())
		if of.Path == "mp" {
			req.ContentLength = int64(len(enc))
		}
		resp, err := (&http.Client{Transport: &SimTransport{Srv: s.srv, Peer: "10.1.1.2:1", Label: "mp"}}).Do(req)
		if err != nil {
			res.note = err.Error()
			for _, pr := range res.parts {
				pr.err = err
			}
			return res
		}
		data, _ := io.ReadAll(resp.Body)
		resp.Body.Close()
		var ur struct {
			Received *[]struct {
				BlobRef string `json:"blobRef"`
				Size    int64  `json:"size"`
			} `json:"received"`
			ErrorText string `json:"errorText"`
		}
		listed := map[string]uint32{}
		if resp.StatusCode == 200 {
			if jerr := json.Unmarshal(data, &ur); jerr == nil && ur.Received != nil {
				for _, r := range *ur.Received {
					listed[r.BlobRef] = uint32(r.Size)
				}
			} else {
				res.note = "unparsable upload response: " + firstN(string(data), 100)
			}
		}
		res.note += firstN(ur.ErrorText, 160)
		for _, pr := range res.parts {
			pr.status = resp.StatusCode
			if sz, ok := listed[pr.refStr]; ok {
				pr.accepted, pr.size = true, sz
				delete(listed, pr.refStr)
			} else {
				pr.err = fmt.Errorf("not listed as received (HTTP %d, errorText %q)", resp.StatusCode, firstN(ur.ErrorText, 100))
			}
		}
		for k := range listed {
			res.note += " | response lists " + k + " which was not sent"
		}
		if rd.Failed {
			s.reached("reader-error-midstream")
		}
	}
	return res
}

// --- observation of the store after quiescence ---

type refObs struct {
	fetchErr  error
	fetched   []byte
	fetchSize uint32
	stat      bool
	statSize  uint32
	enum      bool
	leaf      []string // where stray bytes under the ref were found
}

func (s *c02) enumAll(ctx context.Context) (map[string]uint32, error) {
	out := map[string]uint32{}
	after := ""
	for {
		ch := make(chan blob.SizedRef, 64)
		errc := make(chan error, 1)
		go func() { errc <- s.sto.EnumerateBlobs(ctx, ch, after, 1000) }()
		n := 0
		for sb := range ch {
			out[sb.Ref.String()] = sb.Size
			after = sb.Ref.String()
			n++
		}
		if err := <-errc; err != nil {
			return out, err
		}
		if n < 1000 {
			return out, nil
		}
	}
}

// leafScan looks for bytes kept under ref in every leaf of the composition.
func (s *c02) leafScan(ctx context.Context, ref blob.Ref) []string {
	var found []string
	key := ref.String()
	s.cfg.Root.Walk(func(n *sim.Node) {
		switch n.Type {
		case "sim":
			if s.world.Store(n.Name).Has(key) {
				found = append(found, "sim:"+n.Name)
			}
		case "memory":
			if n == s.cfg.Root {
				return
			}
			if sto, err := s.world.GetStorage("/" + n.Name + "/"); err == nil {
				if rc, _, err := sto.Fetch(ctx, ref); err == nil {
					rc.Close()
					found = append(found, "memory:"+n.Name)
				}
			}
		case "files":
			for _, f := range s.world.VFS(n.Name).FileNames() {
				if strings.Contains(f, key) {
					found = append(found, "files:"+f)
				}
			}
		case "localdisk":
			filepath.Walk(filepath.Join(s.world.Dir, n.Name), func(p string, fi os.FileInfo, err error) error {
				if err == nil && !fi.IsDir() && strings.Contains(p, key) {
					found = append(found, "localdisk:"+filepath.Base(p))
				}
				return nil
			})
		case "diskpacked":
			names, _ := filepath.Glob(filepath.Join(s.world.NodeDir(n.Name), "pack-*.blobs"))
			sort.Strings(names)
			for _, p := range names {
				if b, err := os.ReadFile(p); err == nil && bytes.Contains(b, []byte("["+key+" ")) {
					found = append(found, "diskpacked:"+filepath.Base(p))
				}
			}
		}
	})
	return found
}

func (s *c02) tempFiles() []string {
	var found []string
	s.cfg.Root.Walk(func(n *sim.Node) {
		switch n.Type {
		case "files":
			for _, f := range s.world.VFS(n.Name).FileNames() {
				if strings.Contains(f, ".tmp") {
					found = append(found, f)
				}
			}
		case "localdisk":
			filepath.Walk(filepath.Join(s.world.Dir, n.Name), func(p string, fi os.FileInfo, err error) error {
				if err == nil && !fi.IsDir() && strings.Contains(filepath.Base(p), ".tmp") {
					found = append(found, p)
				}
				return nil
			})
		}
	})
	return found
}

func (s *c02) observe(refs []blob.Ref) (map[string]*refObs, map[string]uint32, error) {
	ctx := context.Background()
	obs := map[string]*refObs{}
	for _, r := range refs {
		o := &refObs{}
		obs[r.String()] = o
		rc, size, err := s.sto.Fetch(ctx, r)
		o.fetchErr, o.fetchSize = err, size
		if err == nil {
			o.fetched, o.fetchErr = io.ReadAll(rc)
			rc.Close()
		}
		o.leaf = s.leafScan(ctx, r)
	}
	err := s.sto.StatBlobs(ctx, refs, func(sb blob.SizedRef) error {
		if o := obs[sb.Ref.String()]; o != nil {
			o.stat, o.statSize = true, sb.Size
		}
		return nil
	})
	if err != nil {
		return obs, nil, fmt.Errorf("stat: %w", err)
	}
	all, err := s.enumAll(ctx)
	if err != nil {
		return obs, all, fmt.Errorf("enumerate: %w", err)
	}
	for k := range obs {
		_, obs[k].enum = all[k]
	}
	return obs, all, nil
}

func (s *c02) report(class, detail string, opIndex int) bool {
	sig := class + "@" + s.cfg.Root.Shape()
	if what, ok := harness.Known(s.p.Prop, sig); ok {
		s.out.NoteKnown(what)
		return false
	}
	if s.out.Violation == nil {
		s.out.Violation = harness.Viol(class, sig, fmt.Sprintf("backend %s, offer #%d: %s", s.cfg.Root.Shape(), opIndex, detail), opIndex)
	}
	return true
}

func (s *c02) task(name string, f func()) error {
	s.rc.Sched.Go(name, f)
	return s.rc.Sched.Run()
}

func size(b []byte) string {
	if len(b) >= 1<<20 {
		return fmt.Sprintf("%d bytes (16 MiB%+d)", len(b), len(b)-maxBlob)
	}
	return fmt.Sprintf("%d bytes", len(b))
}

// runGroup executes offers[i:j] concurrently, observes the store at
// quiescence and judges. It reports whether the run should stop.
// runRemove executes a "remove" offer. The removal counts only when the store
// afterwards does not serve the ref any more (whether removal works is C01's
// subject); its leaves may keep the bytes (an overlay never touches its lower
// layer), so leaf scans are not traces for such a ref from then on.
func (s *c02) runRemove(of Offer, i int) bool {
	if len(of.Parts) == 0 {
		return false
	}
	b := s.pool[of.Parts[0].B]
	ref := b.Ref.String()
	rm, ok := s.sto.(blobserver.BlobRemover)
	if !ok {
		return false
	}
	var rerr error
	if herr := s.task("remove", func() { rerr = rm.RemoveBlobs(context.Background(), []blob.Ref{b.Ref}) }); herr != nil {
		return s.report("hang:remove", "RemoveBlobs never returned: "+herr.Error(), i) || true
	}
	if rerr != nil {
		s.reached("remove-refused")
		return false
	}
	var obs map[string]*refObs
	var oerr error
	if herr := s.task("observe", func() { obs, _, oerr = s.observe([]blob.Ref{b.Ref}) }); herr != nil || oerr != nil {
		return s.report("observe-failed", fmt.Sprintf("reading the store back after a removal failed: %v %v", herr, oerr), i) || true
	}
	o := obs[ref]
	if o.fetchErr == nil || o.stat || o.enum {
		s.reached("remove-without-effect")
		return false
	}
	if _, had := s.stored[ref]; had {
		s.reached("stored-blob-removed")
	}
	delete(s.stored, ref)
	if s.removed == nil {
		s.removed = map[string]bool{}
	}
	s.removed[ref] = true
	// drain the hubs: a removal notifies nobody, and what it may have
	// caused is not attributed to the next offer
	for _, h := range s.hubs {
		h.mu.Lock()
		h.hooks = nil
		h.mu.Unlock()
	}
	return false
}

func (s *c02) runGroup(offers []Offer, i, j int) bool {
	group := offers[i:j]
	if len(group) == 1 && group[0].Path == "remove" {
		return s.runRemove(group[0], i)
	}
	res := make([]*offerRes, len(group))
	for k := range group {
		k := k
		task := fmt.Sprintf("u%d", k)
		s.rc.Sched.Go(task, func() { res[k] = s.execOffer(group[k], task) })
	}
	if err := s.rc.Sched.Run(); err != nil {
		if errors.Is(err, simcore.ErrSteps) {
			s.out.Inconclusive = "scheduler step budget exhausted in " + group[0].String()
			return true
		}
		var stuck []string
		for k, r := range res {
			if r == nil {
				stuck = append(stuck, group[k].String())
			}
		}
		return s.report("hang:"+group[0].Path, fmt.Sprintf("%s never returned: %v", strings.Join(stuck, ", "), err), i) || true
	}
	if p := s.srv.TakePanic(); p != "" {
		if s.report("handler-panic", "an upload handler panicked: "+firstN(p, 700), i) {
			return true
		}
	}
	// hubs: who was told about what
	notified := map[string][]string{}
	for _, h := range s.hubs {
		for {
			select {
			case br := <-h.ch:
				notified[br.String()] = append(notified[br.String()], "listener of "+h.name)
				continue
			default:
			}
			break
		}
		h.mu.Lock()
		for _, k := range h.hooks {
			notified[k] = append(notified[k], "receive hook of "+h.name)
		}
		h.hooks = nil
		h.mu.Unlock()
	}
	var refs []blob.Ref
	seen := map[string]bool{}
	for _, r := range res {
		for _, pr := range r.parts {
			if pr.refOK && !seen[pr.refStr] {
				seen[pr.refStr] = true
				refs = append(refs, pr.ref)
			}
		}
	}
	var obs map[string]*refObs
	var oerr error
	if herr := s.task("observe", func() { obs, _, oerr = s.observe(refs) }); herr != nil {
		return s.report("hang:observe", "fetch/stat/enumerate after the upload never returned: "+herr.Error(), i) || true
	}
	if oerr != nil {
		return s.report("observe-failed", "reading the store back failed: "+oerr.Error(), i) || true
	}

	// verdicts on acceptance
	okNow := map[string]bool{} // refs validly accepted by this group
	validElsewhere := map[string]bool{}
	for _, r := range res {
		for _, pr := range r.parts {
			if pr.accepted && pr.valid {
				validElsewhere[pr.refStr] = true
			}
		}
	}
	for k, r := range res {
		of := group[k]
		if r.panic != "" {
			if s.report("panic:"+of.Path, fmt.Sprintf("%s: panic instead of a rejection: %s", of, firstN(r.panic, 300)), i+k) {
				return true
			}
		}
		for _, pr := range r.parts {
			what := fmt.Sprintf("%s: part %s (ref %s, %s offered", of, pr.part, firstN(pr.refStr, 70), size(pr.offered))
			if len(pr.eff) != len(pr.offered) {
				what += fmt.Sprintf(", stream ends after %d", len(pr.eff))
			}
			what += ")"
			switch {
			case pr.accepted && !pr.valid && !pr.ambiguous:
				detail := what + " was ACCEPTED although " + map[string]string{
					"hash-mismatch":   "its bytes do not hash to the ref",
					"oversize":        "it is larger than the 16 MiB limit",
					"oversize-prefix": "it is larger than the 16 MiB limit (only its first 16 MiB hash to the ref; the rest was dropped silently)",
					"unknown-hash":    "the ref names an unsupported hash function",
					"malformed-ref":   "the ref is malformed",
					"reader-error":    "the stream failed before its end",
				}[pr.why]
				class := "accepted:"
				if _, had := s.stored[pr.refStr]; had || validElsewhere[pr.refStr] {
					// the ref is (or is concurrently being) validly stored: the
					// bad bytes were acknowledged, not kept
					class = "accepted-over-stored:"
					detail += "; the ref was already held with its true bytes"
				}
				if s.report(class+pr.why+":"+of.Path, detail, i+k) {
					return true
				}
				if pr.why == "oversize-prefix" {
					// known finding: the store now holds the first 16 MiB, which do hash to the ref
					s.stored[pr.refStr] = pr.eff[:maxBlob]
					okNow[pr.refStr] = true
				}
			case pr.accepted:
				if pr.valid || s.plausible(pr) {
					s.stored[pr.refStr] = pr.eff
					delete(s.removed, pr.refStr)
					okNow[pr.refStr] = true
					if int(pr.size) != len(pr.eff) {
						if s.report("accepted-wrong-size:"+of.Path, fmt.Sprintf("%s accepted, reported size %d", what, pr.size), i+k) {
							return true
						}
					}
				}
			case pr.mustTake && strings.Contains(s.cfg.Root.Shape(), "encrypt") && len(pr.eff) > maxBlob-(64<<10):
				// The encrypting store's ciphertext is larger than the
				// plaintext, so a plaintext blob just under the cap does not
				// fit the wrapped store's cap and is refused (loudly, since
				// the "refuse an oversized source" repair; before it the
				// ciphertext was silently truncated). The statement gives a
				// necessary condition for acceptance, not a sufficient one.
				s.reached("encrypt-near-cap-refused")
			case pr.mustTake:
				if s.report("valid-rejected:"+of.Path, fmt.Sprintf("%s is valid and was offered through a healthy stream, but was rejected: %v", what, pr.err), i+k) {
					return true
				}
			case of.Path == "receive" && pr.refOK && pr.why == "hash-mismatch" && !of.Reader.fails():
				// (an oversized body may be refused as "too large" — the
				// statement lists corrupt blob / too large / unsupported hash)
				// Receive: "The error will be ErrCorruptBlob if the blobref didn't match"
				if !errors.Is(pr.err, blobserver.ErrCorruptBlob) {
					if s.report("rejection-not-ErrCorruptBlob", fmt.Sprintf("%s rejected with %q, not ErrCorruptBlob", what, pr.err), i+k) {
						return true
					}
				}
			}
			s.probe(of, pr)
		}
	}
	// no trace of what was rejected; exact bytes of what is stored
	for k, r := range res {
		of := group[k]
		for _, pr := range r.parts {
			if !pr.refOK {
				continue
			}
			o := obs[pr.refStr]
			what := fmt.Sprintf("%s: part %s (ref %s)", of, pr.part, firstN(pr.refStr, 70))
			if want, ok := s.stored[pr.refStr]; ok {
				if o.fetchErr != nil {
					class := "stored-unfetchable"
					if len(want) > maxBlob-(64<<10) {
						class += ":near-cap"
					}
					if s.report(class, fmt.Sprintf("%s: the ref was accepted with valid bytes but fetch now fails: %v", what, o.fetchErr), i+k) {
						return true
					}
				} else if !bytes.Equal(o.fetched, want) {
					if s.report("stored-wrong-bytes", fmt.Sprintf("%s: the store serves %d bytes under the ref that are not the accepted %d bytes", what, len(o.fetched), len(want)), i+k) {
						return true
					}
				}
				if pr.accepted || okNow[pr.refStr] {
					continue
				}
				s.reached("bad-bytes-over-stored-ref")
				continue
			}
			if pr.accepted {
				continue // accepted-invalid: reported above
			}
			var traces []string
			if o.fetchErr == nil {
				traces = append(traces, fmt.Sprintf("fetch: fetch returns %d bytes", len(o.fetched)))
			} else if !errors.Is(o.fetchErr, os.ErrNotExist) {
				traces = append(traces, fmt.Sprintf("fetch-error: fetch fails with %q instead of not-exist", o.fetchErr))
			}
			if o.stat {
				traces = append(traces, fmt.Sprintf("stat: stat reports it with size %d", o.statSize))
			}
			if o.enum {
				traces = append(traces, "enumerate: enumerate lists it")
			}
			for _, l := range o.leaf {
				if s.removed[pr.refStr] {
					// removed earlier: a lower layer may keep the bytes
					continue
				}
				kind, _, _ := strings.Cut(l, ":")
				traces = append(traces, "leaf-"+kind+": bytes kept under the ref in "+l)
			}
			if s.removed[pr.refStr] && len(traces) == 0 {
				s.reached("rejected-upload-of-removed-ref-left-no-trace")
			}
			for _, n := range notified[pr.refStr] {
				kind := "hub-listener"
				if strings.HasPrefix(n, "receive hook") {
					kind = "hub-hook"
				}
				traces = append(traces, kind+": the "+n+" was notified of it")
			}
			for _, t := range traces {
				kind, msg, _ := strings.Cut(t, ": ")
				if s.report("trace:"+kind+":"+of.Path, fmt.Sprintf("%s was rejected (%v) but left a trace: %s", what, pr.err, msg), i+k) {
					return true
				}
			}
		}
	}
	if tf := s.tempFiles(); len(tf) > 0 {
		if s.report("trace:temp-file", fmt.Sprintf("%s: temp file(s) left behind: %v", group[0], tf), i) {
			return true
		}
	}
	return false
}

// plausible: an ambiguous part that was accepted counts as stored when its
// bytes do hash to the ref.
func (s *c02) plausible(pr *partRes) bool {
	name, dig, _ := strings.Cut(pr.refStr, "-")
	d, ok := digestOf(name, pr.eff)
	return pr.ambiguous && ok && d == dig && len(pr.eff) <= maxBlob
}

func (s *c02) probe(of Offer, pr *partRes) {
	if len(pr.offered) > maxBlob {
		s.reached("oversize-offered")
	}
	if len(pr.eff) == maxBlob && pr.accepted && pr.valid {
		s.reached("exact-at-cap-accepted")
	}
	if len(pr.offered) == maxBlob-1 {
		s.reached("cap-minus-1-offered")
	}
	if pr.why == "oversize-prefix" {
		s.reached("oversize-prefix-offered")
	}
	if pr.why == "unknown-hash" {
		s.reached("unknown-hash")
	}
	if pr.why == "malformed-ref" {
		s.reached("malformed-ref")
	}
	if pr.valid && pr.accepted {
		s.reached("accepted-" + strings.SplitN(pr.refStr, "-", 2)[0])
	}
	if !pr.valid && !pr.accepted {
		s.reached("rejected-" + pr.why)
	}
	if pr.ambiguous {
		s.reached("ambiguous")
	}
}

func execC02(rc *harness.RunCtx, p *harness.Plan) *harness.Outcome {
	out := &harness.Outcome{}
	var cfg C02Config
	if err := json.Unmarshal(p.Config, &cfg); err != nil || cfg.Root == nil {
		out.Inconclusive = "bad config"
		return out
	}
	offers := make([]Offer, len(p.Ops))
	for i, raw := range p.Ops {
		if err := json.Unmarshal(raw, &offers[i]); err != nil {
			out.Inconclusive = "bad op: " + err.Error()
			return out
		}
	}
	out.Ops = len(offers)
	if rc.Sched == nil {
		out.Inconclusive = "C02 needs the bubble"
		return out
	}
	s := &c02{rc: rc, p: p, cfg: &cfg, out: out, stored: map[string][]byte{}, reach: map[string]int{}}
	for _, sp := range cfg.Blobs {
		s.pool = append(s.pool, sim.Materialise(sp))
	}
	if len(s.pool) == 0 {
		out.Inconclusive = "no blobs"
		return out
	}
	for _, of := range offers {
		for _, pt := range of.Parts {
			if pt.B < 0 || pt.B >= len(s.pool) {
				out.Inconclusive = "part refers to blob outside pool"
				return out
			}
		}
	}
	s.world = sim.NewWorld(rc.Env, rc.Scratch)
	simdisk.Reset()
	kf := filepath.Join(rc.Scratch, "age.key")
	if err := os.WriteFile(kf, []byte(ageTestKey+"\n"), 0o600); err != nil {
		out.Inconclusive = err.Error()
		return out
	}
	s.world.KeyFile = kf
	var berr error
	if herr := s.task("build", func() {
		s.sto, berr = s.world.Build(cfg.Root)
		if berr != nil {
			return
		}
		for _, name := range sim.SortedKeys(cfg.Preseed) {
			kid, err := s.world.GetStorage("/" + name + "/")
			if err != nil {
				berr = fmt.Errorf("preseed: %w", err)
				return
			}
			for _, bi := range cfg.Preseed[name] {
				if bi < 0 || bi >= len(s.pool) {
					continue
				}
				b := s.pool[bi]
				if _, err := blobserver.Receive(context.Background(), kid, b.Ref, bytes.NewReader(b.Data)); err != nil {
					berr = fmt.Errorf("preseed %s into %s: %w", b.Ref, name, err)
					return
				}
				s.stored[b.Ref.String()] = b.Data
				s.reached("preseeded-blob")
			}
		}
		s.recv = &recvStore{Storage: s.sto, conf: &blobserver.Config{Writable: true, Readable: true, CanLongPoll: true}}
		put := handlers.CreatePutUploadHandler(s.recv)
		batch := handlers.CreateBatchUploadHandler(s.recv)
		s.srv = &SimServer{Handler: http.HandlerFunc(func(w http.ResponseWriter, r *http.Request) {
			switch {
			case r.Method == "PUT" && strings.HasPrefix(r.URL.Path, "/camli/"):
				put.ServeHTTP(w, r)
			case r.Method == "POST" && r.URL.Path == "/camli/upload":
				batch.ServeHTTP(w, r)
			default:
				http.Error(w, "unsupported", http.StatusBadRequest)
			}
		})}
		// observers: a listener and a receive hook on the hub of the store
		// the ingest paths see and of every store of the composition
		watch := func(name string, sto any) {
			h := &hubRec{name: name, ch: make(chan blob.Ref, 8192)}
			hub := blobserver.GetHub(sto)
			hub.RegisterListener(h.ch)
			hub.AddReceiveHook(func(sb blob.SizedRef) error {
				h.mu.Lock()
				h.hooks = append(h.hooks, sb.Ref.String())
				h.mu.Unlock()
				return nil
			})
			s.hubs = append(s.hubs, h)
		}
		watch("the receiving store", s.recv)
		var names []string
		cfg.Root.Walk(func(n *sim.Node) { names = append(names, n.Name) })
		for _, n := range names {
			if sto, err := s.world.GetStorage("/" + n + "/"); err == nil {
				watch("store "+n, sto)
			}
		}
	}); herr != nil {
		out.Inconclusive = "build never finished: " + herr.Error()
		return out
	}
	if berr != nil {
		out.Inconclusive = "build: " + berr.Error()
		return out
	}
	finish := func() *harness.Outcome {
		var kinds []string
		for _, of := range offers {
			k := of.Path
			for _, pt := range of.Parts {
				k += "." + pt.Mut + pt.Hash
				if pt.Bad != "" {
					k += "bad"
				}
			}
			if of.Reader.fails() {
				k += "!" + of.Reader.Kind
			}
			kinds = append(kinds, k)
		}
		out.ShapeKey = cfg.Root.Shape() + "|" + strings.Join(kinds, ",")
		out.Nontrivial = len(offers) >= 2
		out.Reached = s.reach
		var sample []string
		for i, of := range offers {
			if i >= 10 {
				sample = append(sample, fmt.Sprintf("… %d more", len(offers)-i))
				break
			}
			sample = append(sample, of.String())
		}
		out.Sample = map[string]any{"backend": cfg.Root.Shape(), "blobs": len(cfg.Blobs), "offers": sample}
		s.task("close", func() { s.world.Restart(true) })
		return out
	}
	for i := 0; i < len(offers); {
		j := i + 1
		if offers[i].G > 0 {
			for j < len(offers) && offers[j].G == offers[i].G {
				j++
			}
			s.reached("concurrent-offers")
		}
		for _, of := range offers[i:j] {
			if len(of.Parts) > 1 {
				bad, good := 0, 0
				for _, pt := range of.Parts {
					if pt.Mut != "" || pt.Bad != "" || pt.Hash == "md5" || pt.Hash == "sha999" {
						bad++
					} else {
						good++
					}
				}
				if bad > 0 && good > 0 {
					s.reached("multipart-mixed")
				}
			}
		}
		if s.runGroup(offers, i, j) {
			return finish()
		}
		i = j
	}
	return finish()
}
