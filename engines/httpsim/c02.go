package httpsim

import (
	"verif/harness"
	"verif/simcore"
)

func genC02(tier string, run int, r *simcore.Rand) *harness.Plan {
	return &harness.Plan{Bubble: true}
}

func execC02(rc *harness.RunCtx, p *harness.Plan) *harness.Outcome {
	return &harness.Outcome{Inconclusive: "C02 not implemented yet"}
}
