package httpsim

import (
	"bytes"
	"context"
	"encoding/json"
	"errors"
	"fmt"
	"io"
	"mime/multipart"
	"net/http"
	"net/textproto"
	"net/url"
	"os"
	"regexp"
	"sort"
	"strconv"
	"strings"
	"sync"
	"time"

	"perkeep.org/pkg/auth"
	"perkeep.org/pkg/blob"
	"perkeep.org/pkg/blobserver"
	"perkeep.org/pkg/client"

	"verif/harness"
	"verif/sim"
	"verif/simcore"
)

// C18Config is the engine-specific part of a C18 plan.
type C18Config struct {
	Server ServerCfg      `json:"server"`
	Blobs  []sim.BlobSpec `json:"blobs"`
	// PubKey: call Config.UploadPublicKey after start, as perkeepd does.
	PubKey bool `json:"pubKey,omitempty"`
	// closing sweep: page size and blob root
	SweepLimit int    `json:"sweepLimit,omitempty"`
	SweepRoot  string `json:"sweepRoot,omitempty"`
}

// Op is one protocol-level client operation.
type Op struct {
	// K: up (pkg/client upload) | mp (raw multipart POST) | put (raw PUT) |
	// stat (raw batch stat) | cstat (client.StatBlobs) | get (raw GET/HEAD) |
	// fetch (client.Fetch) | enum (one raw enumerate page) | page (raw
	// enumerate following continueAfter) | cenum (client.EnumerateBlobs)
	K string `json:"k"`
	// Root: "" = the blob root discovery announces, "bs" = /bs
	Root string `json:"root,omitempty"`
	B    []int  `json:"b,omitempty"`
	// N (stat): pad the batch with absent refs up to N refs; PF: pads first
	N  int  `json:"n,omitempty"`
	PF bool `json:"pf,omitempty"`
	// Range (get): "" or the Range header value
	Range string `json:"range,omitempty"`
	After string `json:"after,omitempty"`
	Limit int    `json:"limit,omitempty"` // 0: parameter omitted
	Wait  int    `json:"wait,omitempty"`  // maxwaitsec
	// Delay: virtual seconds before the operation starts (inside a group)
	Delay int `json:"delay,omitempty"`
	// Via: up: stat|nostat|slurp|recv; stat: POST|GET; get: GET|HEAD; put: cl|chunked
	Via string `json:"via,omitempty"`
	// G > 0: consecutive operations with the same G run concurrently
	G int `json:"g,omitempty"`
}

func (o Op) String() string {
	s := o.K
	if o.Via != "" {
		s += "/" + o.Via
	}
	if o.Root != "" {
		s += "@" + o.Root
	}
	if len(o.B) > 0 {
		if len(o.B) > 8 {
			s += fmt.Sprintf("[%d blobs]", len(o.B))
		} else {
			s += fmt.Sprint(o.B)
		}
	}
	if o.N > 0 {
		s += fmt.Sprintf("n=%d", o.N)
	}
	if o.Range != "" {
		s += "{" + o.Range + "}"
	}
	switch o.K {
	case "enum", "page", "cenum":
		s += fmt.Sprintf("(after=%q,limit=%d", o.After, o.Limit)
		if o.Wait > 0 {
			s += fmt.Sprintf(",maxwaitsec=%d", o.Wait)
		}
		s += ")"
	case "stat":
		if o.Wait > 0 {
			s += fmt.Sprintf("(maxwaitsec=%d)", o.Wait)
		}
	}
	if o.Delay > 0 {
		s += fmt.Sprintf("+%ds", o.Delay)
	}
	if o.G > 0 {
		s += fmt.Sprintf("#g%d", o.G)
	}
	return s
}

func (o Op) isWrite() bool { return o.K == "up" || o.K == "mp" || o.K == "put" }

// pv is a protocol-level violation found while executing an operation.
type pv struct{ class, detail string }

// obs is what one operation observed.
type obs struct {
	op Op
	// model-level view: parallel slices of operations and results
	mops []sim.Op
	mres []sim.Result
	viol []pv
	// t0/t1: virtual time around the operation (after its delay)
	t0, t1  time.Duration
	skipped bool // pkg/client said the server already had the blob
	// long-poll stat/enum
	nBlobs  int
	statGot map[string]bool
	failed  error // transport-level failure of a read
	status  int
	ctx     context.Context
}

func (o *obs) bad(class, format string, args ...any) {
	o.viol = append(o.viol, pv{class, fmt.Sprintf(format, args...)})
}

// c18FaultOp is the pseudo operation index of the call-count addressed faults
// of a run over a simulated store (Fault{Seam, Method, K}: the K-th call of
// Method on the store since the operations began).
const c18FaultOp = 1 << 20

type c18 struct {
	// faulty: the server stands on a simulated store with a fault plan
	faulty bool
	rc     *harness.RunCtx
	p      *harness.Plan
	cfg    *C18Config
	srv    *Server
	pool   []*sim.TBlob
	model  *sim.Model
	out    *harness.Outcome
	base   time.Time

	mu      sync.Mutex
	reached map[string]int
	clients map[string]*client.Client
	used    map[string]bool // pkg/client instance (by root) has completed a call
	gen     int
	raw     *http.Client
}

// newClients (re)creates the pkg/client instances: one that discovers the
// blob root from the base URL, one bound to /bs.
func (s *c18) newClients() error {
	s.gen++
	s.used = map[string]bool{}
	for _, root := range []string{"", "bs"} {
		server := baseURL
		if root == "bs" {
			server = baseURL + "/bs"
		}
		cl, err := client.New(client.OptionServer(server), client.OptionAuthMode(auth.NewBasicAuth(testUser, testPass)), client.OptionNoExternalConfig())
		if err != nil {
			return fmt.Errorf("client.New: %w", err)
		}
		cl.SetHTTPClient(&http.Client{Transport: s.srv.Transport(fmt.Sprintf("pk%s%d", root, s.gen))})
		cl.Logger.SetOutput(io.Discard)
		if s.p.SchedSeed%2 == 1 {
			// every other run: the client remembers which blobs the server
			// has, as pk-put does (no blob is ever removed here)
			cl.SetHaveCache(&mapHaveCache{m: map[blob.Ref]uint32{}})
			s.reach("client-with-have-cache")
		}
		s.mu.Lock()
		s.clients[root] = cl
		s.mu.Unlock()
	}
	return nil
}

// mapHaveCache is a client.HaveCache kept in memory.
type mapHaveCache struct {
	mu sync.Mutex
	m  map[blob.Ref]uint32
}

func (c *mapHaveCache) StatBlobCache(br blob.Ref) (uint32, bool) {
	c.mu.Lock()
	defer c.mu.Unlock()
	sz, ok := c.m[br]
	return sz, ok
}

func (c *mapHaveCache) NoteBlobExists(br blob.Ref, size uint32) {
	c.mu.Lock()
	c.m[br] = size
	c.mu.Unlock()
}

func (s *c18) reach(name string) {
	s.mu.Lock()
	s.reached[name]++
	s.mu.Unlock()
}

func (s *c18) now() time.Duration { return time.Since(s.base) }

func (s *c18) rootPath(root string) string {
	if root == "bs" {
		return "/bs"
	}
	return s.srv.BlobRoot
}

func (s *c18) client(root string) *client.Client {
	s.mu.Lock()
	defer s.mu.Unlock()
	return s.clients[root]
}

func absentRef(i int) blob.Ref {
	return blob.RefFromString(fmt.Sprintf("verif-absent-%d", i))
}

// doRaw sends one raw request and reads the whole response.
func (s *c18) doRaw(ctx context.Context, method, u string, hdr map[string]string, body io.Reader, clen int64) (*http.Response, []byte, error, error) {
	req, err := http.NewRequestWithContext(ctx, method, u, body)
	if err != nil {
		return nil, nil, nil, err
	}
	if body != nil {
		req.ContentLength = clen
	}
	req.SetBasicAuth(testUser, testPass)
	for k, v := range hdr {
		req.Header.Set(k, v)
	}
	resp, err := s.raw.Do(req)
	if err != nil {
		return nil, nil, nil, err
	}
	data, rerr := io.ReadAll(resp.Body)
	resp.Body.Close()
	return resp, data, rerr, nil
}

type enumJSON struct {
	Blobs *[]struct {
		BlobRef *string `json:"blobRef"`
		Size    *int64  `json:"size"`
	} `json:"blobs"`
	ContinueAfter *string `json:"continueAfter"`
	CanLongPoll   *bool   `json:"canLongPoll"`
}

type enumPage struct {
	status int
	blobs  []blob.SizedRef
	cont   string
	hasC   bool
}

// enumRaw fetches one enumerate page.
func (s *c18) enumRaw(o *obs, root, after string, limit, wait int, sendAfter bool) (*enumPage, error) {
	q := url.Values{}
	if after != "" || sendAfter {
		q.Set("after", after)
	}
	if limit > 0 {
		q.Set("limit", strconv.Itoa(limit))
	}
	if wait > 0 {
		q.Set("maxwaitsec", strconv.Itoa(wait))
	}
	u := baseURL + s.rootPath(root) + "/camli/enumerate-blobs"
	if len(q) > 0 {
		u += "?" + q.Encode()
	}
	resp, data, rerr, err := s.doRaw(o.ctx, "GET", u, nil, nil, 0)
	if err != nil {
		return nil, err
	}
	pg := &enumPage{status: resp.StatusCode}
	if resp.StatusCode != 200 {
		return pg, fmt.Errorf("enumerate: HTTP status %d: %s", resp.StatusCode, firstN(string(data), 80))
	}
	if rerr != nil {
		return pg, fmt.Errorf("enumerate: reading body: %w", rerr)
	}
	var ej enumJSON
	if err := json.Unmarshal(data, &ej); err != nil {
		o.bad("enum-bad-json", "enumerate response is not JSON (%v): %s", err, firstN(string(data), 120))
		return pg, fmt.Errorf("enumerate: bad JSON")
	}
	if ej.Blobs == nil {
		o.bad("enum-bad-json", "enumerate response lacks the required \"blobs\" array: %s", firstN(string(data), 120))
		return pg, fmt.Errorf("enumerate: no blobs key")
	}
	for _, e := range *ej.Blobs {
		if e.BlobRef == nil || e.Size == nil {
			o.bad("enum-bad-json", "enumerate item lacks blobRef/size: %s", firstN(string(data), 120))
			continue
		}
		br, ok := blob.Parse(*e.BlobRef)
		if !ok || *e.Size < 0 || *e.Size > 1<<32-1 {
			o.bad("enum-bad-item", "enumerate item %q size %d is not a valid (blobref, size)", *e.BlobRef, *e.Size)
			continue
		}
		pg.blobs = append(pg.blobs, blob.SizedRef{Ref: br, Size: uint32(*e.Size)})
	}
	if ej.ContinueAfter != nil {
		pg.hasC, pg.cont = true, *ej.ContinueAfter
	}
	if limit > 0 && len(pg.blobs) > limit {
		o.bad("enum-over-limit", "enumerate returned %d blobs for limit=%d", len(pg.blobs), limit)
	}
	return pg, nil
}

func firstN(s string, n int) string {
	if len(s) > n {
		return s[:n] + "…"
	}
	return s
}

// exec performs one operation (inside a scheduled task).
func (s *c18) exec(op Op, task string) *obs {
	o := &obs{op: op}
	if op.Delay > 0 {
		time.Sleep(time.Duration(op.Delay) * time.Second)
	}
	o.t0 = s.now()
	defer func() {
		if r := recover(); r != nil {
			o.bad("client-panic", "panic in client code during %s: %v", op, r)
		}
		o.t1 = s.now()
	}()
	ctx := WithLabel(context.Background(), task)
	o.ctx = ctx
	root := baseURL + s.rootPath(op.Root)
	switch op.K {
	case "up":
		b := s.pool[op.B[0]]
		cl := s.client(op.Root)
		var res sim.Result
		if op.Via == "recv" {
			res.Sized, res.Err = cl.ReceiveBlob(ctx, b.Ref, bytes.NewReader(b.Data))
		} else {
			h := &client.UploadHandle{BlobRef: b.Ref, Size: uint32(len(b.Data)), Contents: bytes.NewReader(b.Data), SkipStat: op.Via == "nostat"}
			if op.Via == "slurp" {
				h.Size = 0
			}
			pr, err := cl.Upload(ctx, h)
			res.Err = err
			if err == nil {
				res.Sized = pr.SizedBlobRef()
				if pr.Skipped {
					o.skipped = true
					s.reach("upload-skipped-by-stat")
				}
			}
		}
		o.mops = append(o.mops, sim.Op{Kind: "recv", B: []int{op.B[0]}})
		o.mres = append(o.mres, res)
	case "mp":
		var body bytes.Buffer
		mw := multipart.NewWriter(&body)
		mw.SetBoundary(fmt.Sprintf("verifboundary%dx%d", s.p.Run, len(op.B)))
		for i, bi := range op.B {
			b := s.pool[bi]
			h := textproto.MIMEHeader{}
			h.Set("Content-Disposition", fmt.Sprintf(`form-data; name="%s"; filename="blob%d"`, b.Ref, i+1))
			h.Set("Content-Type", "application/octet-stream")
			pw, _ := mw.CreatePart(h)
			pw.Write(b.Data)
		}
		mw.Close()
		resp, data, rerr, err := s.doRaw(ctx, "POST", root+"/camli/upload", map[string]string{"Content-Type": mw.FormDataContentType()}, bytes.NewReader(body.Bytes()), int64(body.Len()))
		var got map[string]uint32
		var ferr error
		switch {
		case err != nil:
			ferr = err
		case resp.StatusCode != 200:
			// (303 is allowed by the document; this server never sends it)
			ferr = fmt.Errorf("multipart upload: HTTP status %d: %s", resp.StatusCode, firstN(string(data), 80))
		case rerr != nil:
			ferr = rerr
		default:
			var ur struct {
				Received *[]struct {
					BlobRef string `json:"blobRef"`
					Size    int64  `json:"size"`
				} `json:"received"`
				ErrorText string `json:"errorText"`
			}
			if jerr := json.Unmarshal(data, &ur); jerr != nil || ur.Received == nil {
				o.bad("upload-bad-json", "upload response lacks the required \"received\" array: %s", firstN(string(data), 120))
				ferr = errors.New("bad upload response")
				break
			}
			got = map[string]uint32{}
			sent := map[string]bool{}
			for _, bi := range op.B {
				sent[s.pool[bi].Ref.String()] = true
			}
			for _, r := range *ur.Received {
				if !sent[r.BlobRef] {
					o.bad("upload-received-unsent", "upload response lists %s which was not part of the request", r.BlobRef)
				}
				got[r.BlobRef] = uint32(r.Size)
			}
			if ur.ErrorText != "" {
				ferr = errors.New("errorText: " + firstN(ur.ErrorText, 100))
			}
		}
		if len(op.B) > 1 {
			s.reach("multipart-several-parts")
		}
		for _, bi := range op.B {
			b := s.pool[bi]
			var res sim.Result
			if sz, ok := got[b.Ref.String()]; ok {
				res.Sized = blob.SizedRef{Ref: b.Ref, Size: sz}
			} else if ferr != nil {
				res.Err = ferr
			} else {
				res.Err = errors.New("multipart upload: part not listed as received")
			}
			o.mops = append(o.mops, sim.Op{Kind: "recv", B: []int{bi}})
			o.mres = append(o.mres, res)
		}
	case "put":
		b := s.pool[op.B[0]]
		var body io.Reader = bytes.NewReader(b.Data)
		clen := int64(len(b.Data))
		if op.Via == "chunked" {
			body = struct{ io.Reader }{body}
			clen = 0
			s.reach("put-no-content-length")
		}
		if len(b.Data) == 0 && op.Via != "chunked" {
			body = nil
		}
		resp, data, _, err := s.doRaw(ctx, "PUT", root+"/camli/"+b.Ref.String(), nil, body, clen)
		var res sim.Result
		switch {
		case err != nil:
			res.Err = err
		case resp.StatusCode/100 != 2:
			res.Err = fmt.Errorf("PUT: HTTP status %d: %s", resp.StatusCode, firstN(string(data), 80))
		default:
			res.Sized = blob.SizedRef{Ref: b.Ref, Size: uint32(len(b.Data))}
		}
		o.mops = append(o.mops, sim.Op{Kind: "recv", B: []int{op.B[0]}})
		o.mres = append(o.mres, res)
	case "stat":
		var refs []string
		seen := map[string]bool{}
		var idx []int
		for _, bi := range op.B {
			k := s.pool[bi].Ref.String()
			if !seen[k] {
				seen[k] = true
				refs = append(refs, k)
				idx = append(idx, bi)
			}
		}
		var pads []string
		for i := 0; len(refs)+len(pads) < op.N; i++ {
			pads = append(pads, absentRef(i).String())
		}
		if op.PF {
			refs = append(pads, refs...)
		} else {
			refs = append(refs, pads...)
		}
		form := url.Values{}
		form.Set("camliversion", "1")
		for i, r := range refs {
			form.Set(fmt.Sprintf("blob%d", i+1), r)
		}
		if op.Wait > 0 {
			form.Set("maxwaitsec", strconv.Itoa(op.Wait))
		}
		var resp *http.Response
		var data []byte
		var rerr, err error
		if op.Via == "GET" {
			resp, data, rerr, err = s.doRaw(ctx, "GET", root+"/camli/stat?"+form.Encode(), nil, nil, 0)
		} else {
			enc := form.Encode()
			resp, data, rerr, err = s.doRaw(ctx, "POST", root+"/camli/stat", map[string]string{"Content-Type": "application/x-www-form-urlencoded"}, strings.NewReader(enc), int64(len(enc)))
		}
		switch {
		case len(refs) == 1000:
			s.reach("stat-1000")
		case len(refs) > 1000:
			s.reach("stat-1001")
		}
		var res sim.Result
		o.statGot = map[string]bool{}
		switch {
		case err != nil:
			res.Err = err
		case len(refs) > 1000 && resp.StatusCode == 400:
			// "servers may return a 400 Bad Request if you ask for too many"
			s.reach("stat-1001-refused-400")
			o.status = 400
			return o
		case resp.StatusCode != 200:
			res.Err = fmt.Errorf("stat of %d refs: HTTP status %d: %s", len(refs), resp.StatusCode, firstN(string(data), 80))
		case rerr != nil:
			res.Err = rerr
		default:
			var sr struct {
				Stat *[]struct {
					BlobRef *string `json:"blobRef"`
					Size    *int64  `json:"size"`
				} `json:"stat"`
			}
			if jerr := json.Unmarshal(data, &sr); jerr != nil || sr.Stat == nil {
				o.bad("stat-bad-json", "stat response lacks the required \"stat\" array: %s", firstN(string(data), 120))
				res.Err = errors.New("bad stat response")
				break
			}
			for _, e := range *sr.Stat {
				if e.BlobRef == nil || e.Size == nil {
					o.bad("stat-bad-json", "stat item lacks blobRef/size: %s", firstN(string(data), 120))
					continue
				}
				br, ok := blob.Parse(*e.BlobRef)
				if !ok {
					o.bad("stat-bad-item", "stat item %q is not a blobref", *e.BlobRef)
					continue
				}
				for _, p := range pads {
					if p == *e.BlobRef {
						o.bad("stat-reported-absent", "stat reported %s, which was never uploaded", p)
					}
				}
				res.Stat = append(res.Stat, blob.SizedRef{Ref: br, Size: uint32(*e.Size)})
				o.statGot[*e.BlobRef] = true
			}
		}
		o.failed = res.Err
		o.mops = append(o.mops, sim.Op{Kind: "stat", B: idx})
		o.mres = append(o.mres, res)
	case "cstat":
		var refs []blob.Ref
		seen := map[blob.Ref]bool{}
		var idx []int
		for _, bi := range op.B {
			if r := s.pool[bi].Ref; !seen[r] {
				seen[r] = true
				refs = append(refs, r)
				idx = append(idx, bi)
			}
		}
		for i := 0; len(refs) < op.N; i++ {
			refs = append(refs, absentRef(i))
		}
		var res sim.Result
		var mu sync.Mutex
		res.Err = s.client(op.Root).StatBlobs(ctx, refs, func(sb blob.SizedRef) error {
			mu.Lock()
			res.Stat = append(res.Stat, sb)
			mu.Unlock()
			return nil
		})
		for _, sb := range res.Stat {
			for i := 0; i < op.N; i++ {
				if sb.Ref == absentRef(i) {
					o.bad("stat-reported-absent", "client.StatBlobs reported %s, which was never uploaded", sb.Ref)
				}
			}
		}
		sort.SliceStable(res.Stat, func(i, j int) bool { return res.Stat[i].Ref.String() < res.Stat[j].Ref.String() })
		// BlobStatter: "calling fn in serial for each found blob, in any
		// order, but with no duplicates"
		var uniq []blob.SizedRef
		for i, sb := range res.Stat {
			if i > 0 && sb == res.Stat[i-1] {
				if len(o.viol) == 0 {
					o.bad("client-stat-duplicate", "client.StatBlobs called fn more than once for %s (%d calls for %d distinct blobs)", sb.Ref, len(res.Stat), len(uniq))
				}
				continue
			}
			uniq = append(uniq, sb)
		}
		res.Stat = uniq
		o.mops = append(o.mops, sim.Op{Kind: "stat", B: idx})
		o.mres = append(o.mres, res)
	case "get":
		s.execGet(o, root)
	case "fetch":
		b := s.pool[op.B[0]]
		var res sim.Result
		rc, size, err := s.client(op.Root).Fetch(ctx, b.Ref)
		res.Err, res.Size = err, size
		if err == nil {
			res.Data, res.ReadErr = io.ReadAll(rc)
			rc.Close()
		}
		o.mops = append(o.mops, sim.Op{Kind: "fetch", B: []int{op.B[0]}})
		o.mres = append(o.mres, res)
	case "enum":
		pg, err := s.enumRaw(o, op.Root, op.After, op.Limit, op.Wait, false)
		if op.Wait > 0 && op.After != "" {
			// "It is an error to send this option with a non-zero value along with 'after'"
			s.reach("enum-after-with-maxwaitsec")
			if err == nil {
				o.bad("enum-after-maxwaitsec-accepted", "enumerate with after=%q and maxwaitsec=%d was answered with 200", op.After, op.Wait)
			} else if pg == nil || pg.status/100 != 4 {
				o.bad("enum-after-maxwaitsec-status", "enumerate with after and maxwaitsec: %v (a client error status was expected)", err)
			}
			return o
		}
		var res sim.Result
		res.Err = err
		o.failed = err
		mop := sim.Op{Kind: "page", After: op.After}
		if pg != nil && err == nil {
			res.Enum = pg.blobs
			o.nBlobs = len(pg.blobs)
			if pg.hasC {
				s.reach("continueAfter-seen")
				if len(pg.blobs) == 0 {
					o.bad("continueAfter-on-empty-page", "enumerate returned no blobs but continueAfter=%q", pg.cont)
				} else if last := pg.blobs[len(pg.blobs)-1].Ref.String(); pg.cont != last {
					o.bad("continueAfter-not-last", "continueAfter=%q is not the last returned blobref %q", pg.cont, last)
				}
				// the page is a truncated listing: model it as a full page of its own length
				mop = sim.Op{Kind: "enum", After: op.After, Limit: len(pg.blobs)}
				if len(pg.blobs) == 0 {
					mop = sim.Op{Kind: "page", After: op.After}
				}
			}
		}
		o.mops = append(o.mops, mop)
		o.mres = append(o.mres, res)
		if pg != nil && err == nil && pg.hasC && op.Limit > 0 && len(pg.blobs) < op.Limit {
			// checked against the model by the caller (needs the map)
			o.viol = append(o.viol, pv{"?short-page-continue", pg.cont})
		}
	case "page":
		var res sim.Result
		after := op.After
		for {
			pg, err := s.enumRaw(o, op.Root, after, op.Limit, 0, false)
			res.Pages++
			if err != nil {
				res.Err = err
				break
			}
			res.Enum = append(res.Enum, pg.blobs...)
			if !pg.hasC {
				if res.Pages > 1 && len(pg.blobs) == 0 {
					s.reach("empty-last-page")
				}
				break
			}
			if pg.cont <= after {
				o.bad("continueAfter-no-progress", "page %d: continueAfter=%q does not advance beyond after=%q", res.Pages, pg.cont, after)
				break
			}
			if n := len(pg.blobs); n > 0 && pg.cont != pg.blobs[n-1].Ref.String() {
				o.bad("continueAfter-not-last", "page %d: continueAfter=%q is not the last returned blobref %q", res.Pages, pg.cont, pg.blobs[n-1].Ref)
			}
			after = pg.cont
			if res.Pages > 5000 {
				o.bad("enum-endless", "enumeration did not end after 5000 pages")
				break
			}
		}
		if res.Pages > 1 {
			s.reach("continueAfter-followed")
		}
		o.failed = res.Err
		o.mops = append(o.mops, sim.Op{Kind: "page", After: op.After})
		o.mres = append(o.mres, res)
	case "cenum":
		var res sim.Result
		ch := make(chan blob.SizedRef, 16)
		done := make(chan struct{})
		go func() {
			for sb := range ch {
				res.Enum = append(res.Enum, sb)
			}
			close(done)
		}()
		cl := s.client(op.Root)
		if op.Wait > 0 || op.Limit == 0 {
			// (EnumerateBlobs documents limit 0 as "nothing"; the Opts form takes 0 as no limit)
			res.Err = cl.EnumerateBlobsOpts(ctx, ch, client.EnumerateOpts{After: op.After, MaxWait: time.Duration(op.Wait) * time.Second, Limit: op.Limit})
		} else {
			res.Err = cl.EnumerateBlobs(ctx, ch, op.After, op.Limit)
		}
		<-done
		if os.Getenv("VERIF_DEBUG") != "" {
			fmt.Fprintf(os.Stderr, "c18 cenum %+v: %d blobs, err=%v\n", op, len(res.Enum), res.Err)
		}
		o.nBlobs = len(res.Enum)
		o.failed = res.Err
		o.mops = append(o.mops, sim.Op{Kind: "enum", After: op.After, Limit: op.Limit})
		o.mres = append(o.mres, res)
	default:
		o.bad("?bad-op", "unknown op kind %q", op.K)
	}
	return o
}

// execGet performs a raw GET/HEAD, optionally ranged; ranged and HEAD results
// are checked by checkGet against the map, plain GETs through Model.Check.
func (s *c18) execGet(o *obs, root string) {
	op := o.op
	b := s.pool[op.B[0]]
	method := "GET"
	if op.Via == "HEAD" {
		method = "HEAD"
	}
	var hdr map[string]string
	if op.Range != "" {
		hdr = map[string]string{"Range": op.Range}
	}
	resp, data, rerr, err := s.doRaw(o.ctx, method, root+"/camli/"+b.Ref.String(), hdr, nil, 0)
	var res sim.Result
	switch {
	case err != nil:
		res.Err = err
	case resp.StatusCode == 404:
		res.Err = os.ErrNotExist
	case resp.StatusCode == 200 || resp.StatusCode == 206 || resp.StatusCode == 416:
		o.status = resp.StatusCode
		res.Data, res.ReadErr = data, rerr
		clh := resp.Header.Get("Content-Length")
		if resp.StatusCode != 416 {
			if clh == "" {
				// "The response must include an explicit Content-Length"
				o.bad("get-no-content-length", "%s %s: status %d without a Content-Length header", method, b.Ref, resp.StatusCode)
			} else if n, perr := strconv.ParseInt(clh, 10, 64); perr != nil || n < 0 {
				o.bad("get-bad-content-length", "%s %s: Content-Length %q", method, b.Ref, clh)
			} else {
				res.Size = uint32(n)
				if method == "GET" && rerr == nil && int64(len(data)) != n {
					o.bad("get-content-length-mismatch", "GET %s %s: Content-Length %d but %d body bytes", b.Ref, op.Range, n, len(data))
				}
			}
		}
		if resp.StatusCode == 206 {
			res.ReadErr = fmt.Errorf("%s|%v", resp.Header.Get("Content-Range"), rerr) // carried to checkGet
		}
	default:
		res.Err = fmt.Errorf("%s: HTTP status %d: %s", method, resp.StatusCode, firstN(string(data), 80))
	}
	o.failed = res.Err
	if method == "GET" && op.Range == "" {
		o.mops = append(o.mops, sim.Op{Kind: "fetch", B: []int{op.B[0]}})
		o.mres = append(o.mres, res)
		return
	}
	// HEAD / ranged: custom check, result kept aside
	o.mops = append(o.mops, sim.Op{Kind: "?get", B: []int{op.B[0]}})
	o.mres = append(o.mres, res)
}

// parseRange understands "bytes=a-b", "bytes=a-" and "bytes=-n".
func parseRange(h string, size int64) (off, end int64, ok bool) {
	v, found := strings.CutPrefix(h, "bytes=")
	if !found || strings.Contains(v, ",") {
		return 0, 0, false
	}
	a, b, found := strings.Cut(v, "-")
	if !found {
		return 0, 0, false
	}
	if a == "" {
		n, err := strconv.ParseInt(b, 10, 64)
		if err != nil || n <= 0 {
			return 0, 0, false
		}
		if n > size {
			n = size
		}
		return size - n, size, size > 0
	}
	off, err := strconv.ParseInt(a, 10, 64)
	if err != nil || off < 0 {
		return 0, 0, false
	}
	if off >= size {
		return off, off, false // unsatisfiable
	}
	end = size
	if b != "" {
		e, err := strconv.ParseInt(b, 10, 64)
		if err != nil || e < off {
			return 0, 0, false
		}
		if e+1 < size {
			end = e + 1
		}
	}
	return off, end, true
}

// checkGet checks a HEAD or ranged GET against the presence st of its blob.
func checkGet(o *obs, b *sim.TBlob, st sim.Presence, res sim.Result) {
	op := o.op
	what := fmt.Sprintf("%s %s", op.Via, b.Ref)
	if op.Range != "" {
		what += " Range:" + op.Range
	}
	if res.Err != nil {
		if errors.Is(res.Err, os.ErrNotExist) {
			if st == sim.Present {
				o.bad("get-present-404", "%s: 404 for a present blob", what)
			}
			return
		}
		o.bad("get-failed", "%s: %v", what, res.Err)
		return
	}
	if st == sim.Absent {
		o.bad("get-absent-found", "%s: status %d for an absent blob", what, o.status)
		return
	}
	size := int64(len(b.Data))
	if op.Via == "HEAD" {
		if o.status == 200 && int64(res.Size) != size {
			o.bad("head-wrong-content-length", "%s: Content-Length %d, blob has %d bytes", what, res.Size, size)
		}
		if op.Range == "" && o.status != 200 {
			o.bad("head-bad-status", "%s: status %d", what, o.status)
		}
		return
	}
	if size == 0 {
		// ranges over an empty representation: RFC 7233 leaves room (a suffix
		// range is satisfiable, a first-byte range is not); only the body is pinned
		if (o.status == 200 || o.status == 206) && len(res.Data) != 0 {
			o.bad("get-wrong-bytes", "%s: status %d with %d bytes for the empty blob", what, o.status, len(res.Data))
		}
		return
	}
	off, end, sat := parseRange(op.Range, size)
	switch o.status {
	case 200:
		// the server may ignore Range; then the whole blob must come
		if !bytes.Equal(res.Data, b.Data) {
			o.bad("get-wrong-bytes", "%s: status 200 with %d bytes, blob has %d", what, len(res.Data), size)
		}
	case 206:
		cr, rerr, _ := strings.Cut(res.ReadErr.Error(), "|")
		if rerr != "<nil>" {
			o.bad("range-body-error", "%s: reading the body failed: %s", what, rerr)
			return
		}
		if !sat {
			o.bad("range-bad-status", "%s: 206 for an unsatisfiable or unparsable range (size %d)", what, size)
			return
		}
		if !bytes.Equal(res.Data, b.Data[off:end]) {
			o.bad("range-wrong-bytes", "%s: got %d bytes, want bytes [%d,%d) of %d", what, len(res.Data), off, end, size)
		}
		if int64(res.Size) != end-off {
			o.bad("range-wrong-content-length", "%s: Content-Length %d for a range of %d bytes", what, res.Size, end-off)
		}
		if want := fmt.Sprintf("bytes %d-%d/%d", off, end-1, size); cr != want {
			o.bad("range-wrong-content-range", "%s: Content-Range %q, want %q", what, cr, want)
		}
	case 416:
		if sat {
			o.bad("range-bad-status", "%s: 416 for a satisfiable range (size %d)", what, size)
		}
	}
}

// ---------------------------------------------------------------------------

var refRx = regexp.MustCompile(`sha(1|224|256)-[0-9a-f]+`)
var numRx = regexp.MustCompile(`[0-9]+`)

// classOf derives a short class, stable under shrinking, from a model
// violation text: blobrefs and numbers are abstracted.
func classOf(v string) string {
	v = refRx.ReplaceAllString(v, "REF")
	i := strings.Index(v, ": ")
	msg := v
	if i >= 0 {
		msg = v[i+2:]
	}
	words := strings.Fields(msg)
	if len(words) > 4 {
		words = words[:4]
	}
	kind := v
	if j := strings.IndexAny(v, "[(@:"); j > 0 {
		kind = v[:j]
	}
	return kind + ":" + numRx.ReplaceAllString(strings.Join(words, "-"), "N")
}

// report turns a violation into the outcome's violation unless it is a listed
// known finding; it reports whether the run should stop.
func (s *c18) report(class, detail string, opIndex int) bool {
	sig := class + "@" + s.cfg.Server.Shape()
	if what, ok := harness.Known(s.p.Prop, sig); ok {
		s.out.NoteKnown(what)
		return false
	}
	if s.out.Violation == nil {
		s.out.Violation = harness.Viol(class, sig, fmt.Sprintf("server %s, op #%d: %s", s.cfg.Server.Shape(), opIndex, detail), opIndex)
	}
	return true
}

// runGroup executes ops[i:j] concurrently and checks them. It reports whether
// the run should stop.
func (s *c18) firedTotal() int {
	n := 0
	if s.faulty {
		for _, v := range s.rc.Env.FiredSnapshot() {
			n += v
		}
	}
	return n
}

// excusedUnderFault: ways in which an operation shows that it failed (an
// enumerate handler has no other way to report a failing store than a body
// that does not parse). Wrong bytes, untruthful items, misplaced
// continuation cursors and incomplete answers that claim success are not
// excused.
var excusedUnderFault = map[string]bool{
	"enum-bad-json": true, "stat-bad-json": true, "upload-bad-json": true,
	"get-failed": true, "get-present-404": false, "head-bad-status": true, "range-body-error": true,
	"get-no-content-length": true,
}

func (s *c18) runGroup(ops []Op, i, j int) bool {
	group := ops[i:j]
	firedBefore := s.firedTotal()
	res := make([]*obs, len(group))
	for k := range group {
		k := k
		task := fmt.Sprintf("c%d", k)
		s.rc.Sched.Go(task, func() { res[k] = s.exec(group[k], task) })
	}
	if err := s.rc.Sched.Run(); err != nil {
		var stuck []string
		class := ""
		for k, r := range res {
			if r != nil {
				continue
			}
			op := group[k]
			stuck = append(stuck, op.String())
			c := "hang:" + op.K
			switch op.K {
			case "up", "cstat", "fetch", "cenum":
				if !s.used[op.Root] {
					// the pkg/client instance had not completed any call yet
					// (no discovery, no prefix)
					c += "-first-use"
				}
			}
			// a batch StatBlobs on a fresh client wedges the client for
			// everybody else: name the hang after it
			if class == "" || (op.K == "cstat" && !s.used[op.Root]) {
				class = c
			}
		}
		if errors.Is(err, simcore.ErrSteps) {
			s.out.Inconclusive = "scheduler step budget exhausted in " + strings.Join(stuck, ", ")
			return true
		}
		if s.report(class, fmt.Sprintf("operation(s) %s never returned: %v", strings.Join(stuck, ", "), err), i) {
			return true
		}
		// known finding: leave the stuck goroutines behind, start over with
		// fresh clients; the group's uploads may or may not have happened
		s.rc.Sched.AbandonTasks()
		if cerr := s.newClients(); cerr != nil {
			s.out.Inconclusive = cerr.Error()
			return true
		}
		for _, op := range group {
			if op.isWrite() {
				for _, bi := range op.B {
					if s.model.Get(bi) != sim.Present {
						s.model.Set(bi, sim.Maybe)
					}
				}
			}
		}
		return false
	}
	for k, r := range res {
		switch group[k].K {
		case "up", "cstat", "fetch", "cenum":
			if r != nil {
				s.used[group[k].Root] = true
			}
		}
	}
	if p := s.srv.Sim.TakePanic(); p != "" {
		if s.report("handler-panic", "an HTTP handler panicked: "+firstN(p, 600), i) {
			return true
		}
	}
	// a fault fired in the store while the group ran: any of its operations
	// may have failed; none may have returned a wrong or incomplete answer
	faulted := s.firedTotal() != firedBefore
	if faulted {
		s.reach("group-with-a-store-fault")
	}
	// reads are judged against the map before the group, with the blobs being
	// uploaded by the group's writes of unknown presence
	pre := s.model
	inflight := map[int]bool{}
	if len(group) > 1 {
		pre = s.model.Clone()
		for _, op := range group {
			if op.isWrite() {
				for _, bi := range op.B {
					inflight[bi] = true
					if pre.Get(bi) == sim.Absent {
						pre.Set(bi, sim.Maybe)
					}
				}
			}
		}
	}
	emptyBefore := len(s.model.PresentRefs()) == 0
	presentBefore := map[int]bool{}
	for bi := range s.pool {
		presentBefore[bi] = s.model.Get(bi) == sim.Present
	}
	lpEmpty := map[int]bool{}
	for k, o := range res {
		op := group[k]
		seen := 0
		flush := func() bool {
			for ; seen < len(o.viol); seen++ {
				v := o.viol[seen]
				if strings.HasPrefix(v.class, "?") {
					continue
				}
				if faulted && excusedUnderFault[v.class] {
					s.reach("failed-under-store-fault:" + v.class)
					continue
				}
				if s.report(v.class, op.String()+": "+v.detail, i+k) {
					return true
				}
			}
			return false
		}
		if flush() {
			return true
		}
		if op.isWrite() {
			continue
		}
		if op.Wait > 0 && op.After == "" && (op.K == "enum" || op.K == "cenum") && o.failed == nil && !emptyBefore && o.nBlobs == 0 {
			// "the server will return immediately if any blobs are available"
			lpEmpty[k] = true
			if s.report("longpoll-enum-empty", fmt.Sprintf("%s: the store holds %d blobs but the long-poll enumeration returned an empty list after %v", op, len(s.model.PresentRefs()), o.t1-o.t0), i+k) {
				return true
			}
			continue
		}
		m := pre
		if len(group) > 1 {
			m = pre.Clone()
		}
		for x, mop := range o.mops {
			if mop.Kind == "?get" {
				checkGet(o, s.pool[mop.B[0]], m.Get(mop.B[0]), o.mres[x])
				if flush() {
					return true
				}
				continue
			}
			if faulted && mop.Kind == "fetch" && len(mop.B) == 1 && errors.Is(o.mres[x].Err, os.ErrNotExist) && m.Get(mop.B[0]) == sim.Present && !inflight[mop.B[0]] {
				// a failing store makes a fetch fail; "does not exist" is
				// not a failure report but an answer, and a wrong one
				if s.report(op.K+">absent-under-store-fault", fmt.Sprintf("%s: the blob is present and the store's read failed, yet the client is told it does not exist: %v", op, o.mres[x].Err), i+k) {
					return true
				}
			}
			if vs := m.Check(mop, o.mres[x], faulted); len(vs) > 0 {
				cl := classOf(vs[0])
				if s.report(op.K+">"+cl, op.String()+": "+vs[0], i+k) {
					return true
				}
			}
		}
		// continueAfter on a short page asserts truncation
		for _, v := range o.viol {
			if v.class != "?short-page-continue" {
				continue
			}
			more := false
			for bi, b := range s.pool {
				if b.Ref.String() > v.detail && m.Get(bi) != sim.Absent {
					more = true
				}
			}
			if !more {
				if s.report("continueAfter-without-truncation", fmt.Sprintf("%s: %d blobs returned for limit=%d with continueAfter=%q although nothing follows it", op, o.nBlobs, op.Limit, v.detail), i+k) {
					return true
				}
			}
		}
	}
	// long-poll expectations
	for k, o := range res {
		op := group[k]
		if op.Wait <= 0 || o.failed != nil || o.status == 400 || faulted {
			continue
		}
		capS := op.Wait
		if capS > 30 {
			capS = 30
		}
		capD := time.Duration(capS) * time.Second
		el := o.t1 - o.t0
		// acknowledgements of uploads through the same blob root inside the window
		type ack struct {
			at time.Duration
			b  []int
		}
		var acks []ack
		for k2, o2 := range res {
			op2 := group[k2]
			if !op2.isWrite() || s.rootPath(op2.Root) != s.rootPath(op.Root) {
				continue
			}
			var okb []int
			for x, r := range o2.mres {
				if r.Err == nil && !o2.skipped {
					okb = append(okb, o2.mops[x].B[0])
				}
			}
			if len(okb) > 0 && o2.t1 > o.t0 && o2.t1 < o.t0+capD-time.Second {
				acks = append(acks, ack{o2.t1, okb})
			}
		}
		switch op.K {
		case "enum", "cenum":
			if op.After != "" {
				continue
			}
			s.reach("longpoll-enum")
			if lpEmpty[k] {
				continue
			}
			if !emptyBefore {
				if el > time.Second {
					if s.report("longpoll-enum-not-immediate", fmt.Sprintf("%s: blobs were available but the answer took %v", op, el), i+k) {
						return true
					}
				} else {
					s.reach("longpoll-enum-immediate")
				}
				continue
			}
			if len(acks) > 0 {
				first := acks[0].at
				for _, a := range acks {
					if a.at < first {
						first = a.at
					}
				}
				switch {
				case first-o.t0 < time.Second:
					// started together: no order between arrival and request
				case o.nBlobs == 0 && first <= o.t1:
					if s.report("longpoll-enum-missed-arrival", fmt.Sprintf("%s: started on an empty store at %v, an upload through the same root was acknowledged at %v, yet the answer at %v is empty", op, o.t0, first, o.t1), i+k) {
						return true
					}
				case o.t1 > first+time.Second:
					if s.report("longpoll-enum-no-wake", fmt.Sprintf("%s: an upload was acknowledged at %v but the long-poll only answered at %v", op, first, o.t1), i+k) {
						return true
					}
				case o.nBlobs > 0:
					s.reach("longpoll-enum-woke")
				default:
					s.reach("longpoll-enum-returned-early-empty")
				}
			} else if el > capD+time.Second {
				if s.report("longpoll-overlong", fmt.Sprintf("%s: answered after %v", op, el), i+k) {
					return true
				}
			} else if el >= capD-time.Second {
				s.reach("longpoll-timed-out")
			}
		case "stat":
			s.reach("longpoll-stat")
			var missing []int
			for _, bi := range op.B {
				if !presentBefore[bi] {
					missing = append(missing, bi)
				}
			}
			if op.N > len(op.B) {
				// absent pads can never arrive
				if el > capD+time.Second {
					if s.report("longpoll-overlong", fmt.Sprintf("%s: answered after %v", op, el), i+k) {
						return true
					}
				}
				continue
			}
			if len(missing) == 0 {
				// "return immediately if all the requested blobs are available"
				if el > time.Second {
					if s.report("longpoll-stat-not-immediate", fmt.Sprintf("%s: all blobs were present but the answer took %v", op, el), i+k) {
						return true
					}
				} else {
					s.reach("longpoll-stat-immediate")
				}
				continue
			}
			arrived := map[int]time.Duration{}
			for _, a := range acks {
				for _, bi := range a.b {
					for _, mi := range missing {
						if s.pool[mi].Ref == s.pool[bi].Ref {
							if t, ok := arrived[mi]; !ok || a.at < t {
								arrived[mi] = a.at
							}
						}
					}
				}
			}
			if len(arrived) == len(missing) {
				var last time.Duration
				for _, t := range arrived {
					if t > last {
						last = t
					}
				}
				all := true
				for _, mi := range missing {
					if !o.statGot[s.pool[mi].Ref.String()] {
						all = false
					}
				}
				if o.t1 > last+time.Second {
					if s.report("longpoll-stat-no-wake", fmt.Sprintf("%s: the last awaited blob was acknowledged at %v but the long-poll only answered at %v", op, last, o.t1), i+k) {
						return true
					}
				} else if all && last-o.t0 >= time.Second {
					s.reach("longpoll-stat-woke")
				} else if !all && last <= o.t1 && last-o.t0 >= time.Second {
					if s.report("longpoll-stat-missed-arrival", fmt.Sprintf("%s: every awaited blob was acknowledged by %v, yet the answer at %v does not list them all", op, last, o.t1), i+k) {
						return true
					}
				}
			} else if el > capD+time.Second {
				if s.report("longpoll-overlong", fmt.Sprintf("%s: answered after %v", op, el), i+k) {
					return true
				}
			} else if el >= capD-time.Second {
				s.reach("longpoll-timed-out")
			}
		}
	}
	// writes take effect
	for k, o := range res {
		op := group[k]
		if !op.isWrite() {
			continue
		}
		for x, mop := range o.mops {
			bi := mop.B[0]
			if o.skipped && len(group) == 1 && s.model.Get(bi) == sim.Absent {
				if s.report("upload-skipped-absent", fmt.Sprintf("%s: pkg/client skipped the upload (stat said the server has it) but the blob was never uploaded", op), i+k) {
					return true
				}
			}
			if vs := s.model.Check(mop, o.mres[x], faulted); len(vs) > 0 {
				cl := classOf(vs[0])
				if s.report(op.K+">"+cl, op.String()+": "+vs[0], i+k) {
					return true
				}
				// known finding: the map no longer knows
				if s.model.Get(bi) != sim.Present {
					s.model.Set(bi, sim.Maybe)
				}
			}
		}
	}
	return false
}

func execC18(rc *harness.RunCtx, p *harness.Plan) *harness.Outcome {
	out := &harness.Outcome{}
	var cfg C18Config
	if err := json.Unmarshal(p.Config, &cfg); err != nil {
		out.Inconclusive = "bad config: " + err.Error()
		return out
	}
	ops := make([]Op, len(p.Ops))
	for i, raw := range p.Ops {
		if err := json.Unmarshal(raw, &ops[i]); err != nil {
			out.Inconclusive = "bad op: " + err.Error()
			return out
		}
	}
	out.Ops = len(ops)
	if rc.Sched == nil {
		out.Inconclusive = "C18 needs the bubble"
		return out
	}
	s := &c18{rc: rc, p: p, cfg: &cfg, out: out, reached: map[string]int{}, clients: map[string]*client.Client{}, base: time.Now()}
	for _, sp := range cfg.Blobs {
		s.pool = append(s.pool, sim.Materialise(sp))
	}
	if len(s.pool) > 1000 {
		s.reach("pool-larger-than-the-client-enumerate-page")
	}
	for _, op := range ops {
		for _, bi := range op.B {
			if bi < 0 || bi >= len(s.pool) {
				out.Inconclusive = "op refers to blob outside pool"
				return out
			}
		}
		switch op.K {
		case "up", "put", "get", "fetch":
			if len(op.B) != 1 {
				out.Inconclusive = "op needs exactly one blob"
				return out
			}
		}
	}
	if cfg.Server.Storage == "sim" {
		// the server's blob storage is a simulated store carrying the run's
		// fault plan (call-count addressed, like syncsim's); faults are off
		// while the server starts and while the closing sweep runs
		st := sim.NewStoreState("bs")
		env := rc.Env
		env.BeginOp(c18FaultOp)
		for i := range env.Faults {
			env.Faults[i].Op = c18FaultOp
		}
		env.FaultsOn = false
		sim.SetSimStorageHook(func(name string) (blobserver.Storage, error) {
			if name != "bs" {
				return nil, fmt.Errorf("unknown simulated store %q", name)
			}
			return &sim.SimStore{Env: env, G: env.Gen, St: st}, nil
		})
		defer sim.SetSimStorageHook(nil)
		s.faulty = true
		s.reach("server-over-simulated-store")
	}
	// server start-up happens before the scheduler runs: its own goroutines
	// belong to the bubble, its locks are not yet scheduling points
	srv, err := StartServer(cfg.Server, rc.Scratch)
	if err != nil {
		out.Inconclusive = "server: " + firstN(err.Error(), 400)
		return out
	}
	s.srv = srv
	defer srv.Close()
	s.raw = &http.Client{Transport: srv.Transport("raw")}
	if err := s.newClients(); err != nil {
		out.Inconclusive = err.Error()
		return out
	}

	// what the server holds before the first operation (its public key)
	var initial []blob.SizedRef
	var initErr error
	var initData [][]byte
	rc.Sched.Go("init", func() {
		if cfg.PubKey {
			if err := srv.Config.UploadPublicKey(context.Background()); err != nil {
				initErr = fmt.Errorf("UploadPublicKey: %w", err)
				return
			}
		}
		o := &obs{ctx: context.Background()}
		after := ""
		for n := 0; n < 100; n++ {
			pg, err := s.enumRaw(o, "bs", after, 1000, 0, false)
			if err != nil {
				initErr = err
				return
			}
			initial = append(initial, pg.blobs...)
			if !pg.hasC {
				break
			}
			after = pg.cont
		}
		for _, sb := range initial {
			_, data, rerr, err := s.doRaw(o.ctx, "GET", baseURL+"/bs/camli/"+sb.Ref.String(), nil, nil, 0)
			if err != nil || rerr != nil {
				initErr = fmt.Errorf("initial fetch of %v: %v %v", sb.Ref, err, rerr)
				return
			}
			initData = append(initData, data)
		}
	})
	if err := rc.Sched.Run(); err != nil {
		out.Inconclusive = "initial enumeration never finished: " + err.Error()
		return out
	}
	if initErr != nil {
		out.Inconclusive = "initial enumeration: " + initErr.Error()
		return out
	}
	for i, sb := range initial {
		s.pool = append(s.pool, &sim.TBlob{Spec: sim.BlobSpec{Size: len(initData[i]), Kind: "server"}, Ref: sb.Ref, Data: initData[i]})
	}
	s.model = sim.NewModel(s.pool, sim.Caps{NoRemove: true, NoSubFetch: true})
	for i := range initial {
		s.model.Set(len(s.pool)-len(initial)+i, sim.Present)
	}
	if len(initial) > 0 {
		s.reach("server-own-blobs")
	}

	finish := func() *harness.Outcome {
		var kinds strings.Builder
		for _, op := range ops {
			kinds.WriteString(op.K[:2])
			if op.G > 0 {
				kinds.WriteByte('*')
			}
		}
		out.ShapeKey = cfg.Server.Shape() + "|" + kinds.String()
		out.Nontrivial = len(ops) >= 3
		out.Reached = s.reached
		var sample []string
		for i, op := range ops {
			if i >= 14 {
				sample = append(sample, fmt.Sprintf("… %d more", len(ops)-i))
				break
			}
			sample = append(sample, op.String())
		}
		out.Sample = map[string]any{"server": cfg.Server.Shape(), "blobs": len(cfg.Blobs), "ops": sample, "requests": srv.Sim.Requests}
		return out
	}

	if s.faulty {
		rc.Env.FaultsOn = true
	}
	for i := 0; i < len(ops); {
		j := i + 1
		if ops[i].G > 0 {
			for j < len(ops) && ops[j].G == ops[i].G {
				j++
			}
			s.reach("concurrent-group")
		}
		if s.runGroup(ops, i, j) {
			return finish()
		}
		i = j
	}
	if s.faulty {
		rc.Env.FaultsOn = false
		for k, v := range rc.Env.Fired {
			if out.Fired == nil {
				out.Fired = map[string]int{}
			}
			out.Fired[k] += v
		}
	}

	// closing sweep: complete paging, GET of every blob, one batch stat
	lim := cfg.SweepLimit
	if lim <= 0 {
		lim = 3
	}
	all := make([]int, len(s.pool))
	for i := range all {
		all[i] = i
	}
	sweep := []Op{{K: "page", Root: cfg.SweepRoot, Limit: lim}, {K: "stat", Root: cfg.SweepRoot, B: all, Via: "POST"}}
	for i := range s.pool {
		sweep = append(sweep, Op{K: "get", Root: cfg.SweepRoot, B: []int{i}, Via: "GET"})
	}
	allOps := append(append([]Op{}, ops...), sweep...)
	for k := range sweep {
		if s.runGroup(allOps, len(ops)+k, len(ops)+k+1) {
			if out.Violation != nil {
				out.Violation.Detail = "closing sweep: " + out.Violation.Detail
				out.Violation.OpIndex = len(ops)
			}
			return finish()
		}
	}
	return finish()
}
