package httpsim

import (
	"encoding/json"
	"fmt"
	"go4.org/jsonconfig"
	"io"
	"net/http"
	"os"
	"path/filepath"
	"strings"

	"perkeep.org/pkg/serverinit"

	// handler and storage constructors a high-level configuration refers to
	_ "perkeep.org/pkg/blobserver/blobpacked"
	_ "perkeep.org/pkg/blobserver/cond"
	_ "perkeep.org/pkg/blobserver/diskpacked"
	_ "perkeep.org/pkg/blobserver/localdisk"
	_ "perkeep.org/pkg/blobserver/memory"
	_ "perkeep.org/pkg/blobserver/replica"
	_ "perkeep.org/pkg/importer"
	_ "perkeep.org/pkg/index"
	_ "perkeep.org/pkg/jsonsign/signhandler"
	_ "perkeep.org/pkg/search"
	_ "perkeep.org/pkg/server"
	_ "perkeep.org/pkg/sorted/kvfile"
	_ "perkeep.org/pkg/sorted/leveldb"
	_ "perkeep.org/pkg/sorted/sqlite"
)

const (
	testUser    = "sim"
	testPass    = "pass3179"
	testKeyID   = "26F5ABDA"
	testSecring = "pkg/jsonsign/testdata/test-secring.gpg"
	baseURL     = "http://perkeep.sim"
)

// ServerCfg selects one high-level configuration.
type ServerCfg struct {
	// Storage: memory | localdisk | diskpacked | blobpacked
	Storage string `json:"storage"`
	// Index: memory | leveldb | kvfile | sqlite | none (runIndex=false)
	Index string `json:"index"`
}

func (c ServerCfg) Shape() string { return c.Storage + "+" + c.Index }

// repoRoot finds the perkeep checkout the binary was built against (the
// test identity lives in its testdata).
func repoRoot() string {
	if v := os.Getenv("VERIF_REPO"); v != "" {
		return v
	}
	return "/repo"
}

// highLevelJSON renders the high-level ("user") configuration for cfg with
// every path under dir.
func highLevelJSON(cfg ServerCfg, dir string) ([]byte, error) {
	ring := filepath.Join(dir, "secring.gpg")
	src, err := os.ReadFile(filepath.Join(repoRoot(), testSecring))
	if err != nil {
		return nil, err
	}
	if err := os.WriteFile(ring, src, 0o600); err != nil {
		return nil, err
	}
	m := map[string]any{
		"listen":             "perkeep.sim:80",
		"baseURL":            baseURL,
		"https":              false,
		"auth":               "userpass:" + testUser + ":" + testPass,
		"identity":           testKeyID,
		"identitySecretRing": ring,
		"ownerName":          "Sim",
	}
	blobs := filepath.Join(dir, "blobs")
	switch cfg.Storage {
	case "memory", "sim":
		// ("sim": the memory storage handler is replaced in the low-level
		// configuration, see StartServer)
		m["memoryStorage"] = true
	case "localdisk":
		m["blobPath"] = blobs
	case "diskpacked":
		m["blobPath"] = blobs
		m["packBlobs"] = true
	case "blobpacked":
		m["blobPath"] = blobs
		m["packRelated"] = true
	default:
		return nil, fmt.Errorf("unknown storage %q", cfg.Storage)
	}
	if cfg.Storage != "memory" && cfg.Storage != "sim" {
		// serverinit creates these itself unless an earlier memoryStorage
		// configuration of the same process switched that off (package-level
		// noMkdir): create them here so that runs are independent
		for _, d := range []string{blobs, filepath.Join(blobs, "cache"), filepath.Join(blobs, "packed")} {
			if err := os.MkdirAll(d, 0o700); err != nil {
				return nil, err
			}
		}
	}
	idx := filepath.Join(dir, "index")
	if err := os.MkdirAll(idx, 0o700); err != nil {
		return nil, err
	}
	switch cfg.Index {
	case "memory":
		m["memoryIndex"] = true
	case "leveldb":
		m["levelDB"] = filepath.Join(idx, "index.leveldb")
	case "kvfile":
		m["kvIndexFile"] = filepath.Join(idx, "index.kv")
	case "sqlite":
		m["sqlite"] = filepath.Join(idx, "index.sqlite")
	case "none":
		m["runIndex"] = false
		if cfg.Storage == "diskpacked" || cfg.Storage == "blobpacked" {
			// the packed stores still need a sorted type for their own index
			m["levelDB"] = filepath.Join(idx, "unused-index.leveldb")
		}
	default:
		return nil, fmt.Errorf("unknown index %q", cfg.Index)
	}
	return json.MarshalIndent(m, "", "  ")
}

// stripInternal drops jsonconfig's bookkeeping keys ("_knownkeys") from a
// configuration tree that is to be parsed again.
func stripInternal(v any) any {
	switch x := v.(type) {
	case map[string]any:
		out := map[string]any{}
		for k, e := range x {
			if strings.HasPrefix(k, "_") {
				continue
			}
			out[k] = stripInternal(e)
		}
		return out
	case jsonconfig.Obj:
		return stripInternal(map[string]any(x))
	case []any:
		out := make([]any, len(x))
		for i, e := range x {
			out[i] = stripInternal(e)
		}
		return out
	}
	return v
}

// Server is one configured perkeep server reachable through SimTransports.
type Server struct {
	Cfg      ServerCfg
	Sim      *SimServer
	Mux      *http.ServeMux
	Config   *serverinit.Config
	shutdown io.Closer
	// BlobRoot is the prefix (no trailing slash) discovery announces.
	BlobRoot string
}

// StartServer loads the configuration and installs the handlers. It must be
// called inside the bubble: everything the server starts (index, sync loops)
// then belongs to it.
func StartServer(cfg ServerCfg, dir string) (*Server, error) {
	os.Setenv("CAMLI_CONFIG_DIR", filepath.Join(dir, "config"))
	os.Setenv("CAMLI_CACHE_DIR", filepath.Join(dir, "cache"))
	conf, err := highLevelJSON(cfg, dir)
	if err != nil {
		return nil, err
	}
	c, err := serverinit.Load(conf)
	if err != nil {
		return nil, fmt.Errorf("serverinit.Load: %w", err)
	}
	if cfg.Storage == "sim" {
		// the generated low-level configuration, with the blob storage
		// handler swapped for the simulated store "bs"
		low := c.LowLevelJSONConfig()
		prefixes, _ := low["prefixes"].(map[string]any)
		swapped := false
		for k, v := range prefixes {
			h, _ := v.(map[string]any)
			if k == "/bs/" && h != nil && h["handler"] == "storage-memory" {
				prefixes[k] = map[string]any{"handler": "storage-verifsim", "handlerArgs": map[string]any{"name": "bs"}}
				swapped = true
			}
		}
		if !swapped {
			return nil, fmt.Errorf("low-level configuration has no memory storage at /bs/ to replace")
		}
		lowJSON, err := json.Marshal(stripInternal(low))
		if err != nil {
			return nil, err
		}
		if c, err = serverinit.Load(lowJSON); err != nil {
			return nil, fmt.Errorf("serverinit.Load (low-level, simulated storage): %w", err)
		}
	}
	c.SetKeepGoing(true)
	mux := http.NewServeMux()
	sh, err := c.InstallHandlers(mux, baseURL)
	if err != nil {
		return nil, fmt.Errorf("InstallHandlers: %w", err)
	}
	s := &Server{Cfg: cfg, Mux: mux, Config: c, shutdown: sh}
	s.Sim = &SimServer{Handler: mux}
	s.BlobRoot = "/bs-and-maybe-also-index"
	if cfg.Index == "none" {
		s.BlobRoot = "/bs"
	}
	return s, nil
}

// Close shuts the handlers down.
func (s *Server) Close() error {
	if s.shutdown != nil {
		return s.shutdown.Close()
	}
	return nil
}

// Transport returns the RoundTripper of a peer.
func (s *Server) Transport(label string) *SimTransport {
	return &SimTransport{Srv: s.Sim, Peer: "10.0.0." + fmt.Sprint(1+len(label)%200) + ":40000", Label: label}
}
