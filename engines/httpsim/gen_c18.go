package httpsim

import (
	"fmt"

	"verif/harness"
	"verif/sim"
	"verif/simcore"
)

var (
	c18Storages = []string{"memory", "localdisk", "diskpacked", "blobpacked"}
	c18Indexes  = []string{"memory", "leveldb", "kvfile", "sqlite", "none"}
)

type c18gen struct {
	r     *simcore.Rand
	pool  []*sim.TBlob
	up    map[int]bool // blobs some earlier op uploaded
	roots []string
	g     int
}

func (g *c18gen) root() string {
	if len(g.roots) > 1 && g.r.Bool(0.3) {
		return g.roots[1]
	}
	return g.roots[0]
}

// pick draws a blob index, biased towards uploaded (present) or not.
func (g *c18gen) pick(present float64) int {
	want := g.r.Bool(present)
	for try := 0; try < 8; try++ {
		i := g.r.Intn(len(g.pool))
		if g.up[i] == want {
			return i
		}
	}
	return g.r.Intn(len(g.pool))
}

func (g *c18gen) upload() Op {
	switch x := g.r.Intn(12); {
	case x < 5:
		bi := g.pick(0.2)
		g.up[bi] = true
		return Op{K: "up", Root: g.root(), B: []int{bi}, Via: []string{"stat", "stat", "nostat", "slurp", "recv"}[g.r.Intn(5)]}
	case x < 9:
		n := g.r.Range(1, 6)
		if len(g.pool) > 40 {
			n = g.r.Range(20, 70)
		}
		var b []int
		seen := map[int]bool{}
		for len(b) < n && len(b) < len(g.pool) {
			bi := g.pick(0.15)
			if seen[bi] {
				bi = g.r.Intn(len(g.pool))
				if seen[bi] {
					continue
				}
			}
			seen[bi] = true
			g.up[bi] = true
			b = append(b, bi)
		}
		return Op{K: "mp", Root: g.root(), B: b}
	default:
		bi := g.pick(0.2)
		g.up[bi] = true
		return Op{K: "put", Root: g.root(), B: []int{bi}, Via: []string{"cl", "cl", "chunked"}[g.r.Intn(3)]}
	}
}

func (g *c18gen) after() string {
	switch x := g.r.Intn(20); {
	case x < 10:
		return ""
	case x < 17:
		return g.pool[g.r.Intn(len(g.pool))].Ref.String()
	case x < 18:
		return "sha1-"
	case x < 19:
		return "sha224-" + fmt.Sprintf("%x", g.r.Intn(16))
	default:
		return "sha256-"
	}
}

func (g *c18gen) limit() int {
	switch x := g.r.Intn(10); {
	case x < 2:
		return 0
	case x < 7:
		return g.r.Range(1, 5)
	case x < 9:
		return g.r.Range(1, len(g.pool)+2)
	default:
		return 1000
	}
}

func (g *c18gen) rangeHdr(size int) string {
	a := g.r.Intn(size + 2)
	switch g.r.Intn(5) {
	case 0:
		return fmt.Sprintf("bytes=%d-", a)
	case 1:
		return fmt.Sprintf("bytes=-%d", 1+g.r.Intn(size+2))
	case 2:
		return fmt.Sprintf("bytes=%d-%d", a, a)
	default:
		return fmt.Sprintf("bytes=%d-%d", a, a+g.r.Intn(size+3))
	}
}

func (g *c18gen) subset(max int, present float64) []int {
	n := g.r.Range(1, max)
	var b []int
	for i := 0; i < n; i++ {
		b = append(b, g.pick(present))
	}
	return b
}

func (g *c18gen) read() Op {
	switch x := g.r.Intn(24); {
	case x < 5:
		op := Op{K: "stat", Root: g.root(), B: g.subset(min(len(g.pool), 12), 0.6), Via: "POST"}
		if g.r.Bool(0.4) {
			op.Via = "GET"
		}
		if g.r.Bool(0.4) {
			op.N = len(op.B) + g.r.Range(1, 20)
			op.PF = g.r.Bool(0.5)
		}
		return op
	case x < 7:
		op := Op{K: "cstat", Root: g.root(), B: g.subset(min(len(g.pool), 12), 0.6)}
		if g.r.Bool(0.4) {
			op.N = len(op.B) + g.r.Range(1, 6)
		}
		return op
	case x < 12:
		bi := g.pick(0.7)
		op := Op{K: "get", Root: g.root(), B: []int{bi}, Via: "GET"}
		if g.r.Bool(0.3) {
			op.Via = "HEAD"
		}
		if g.r.Bool(0.4) {
			op.Range = g.rangeHdr(len(g.pool[bi].Data))
		}
		return op
	case x < 15:
		return Op{K: "fetch", Root: g.root(), B: []int{g.pick(0.7)}}
	case x < 19:
		op := Op{K: "enum", Root: g.root(), After: g.after(), Limit: g.limit()}
		if g.r.Bool(0.12) {
			op.Wait = g.r.Range(1, 40)
			if g.r.Bool(0.7) {
				op.After = ""
			}
		}
		return op
	case x < 22:
		return Op{K: "page", Root: g.root(), After: g.after(), Limit: g.limit()}
	default:
		op := Op{K: "cenum", Root: g.root(), After: g.after(), Limit: g.r.Range(1, len(g.pool)+3)}
		if g.r.Bool(0.1) {
			op.After = ""
			op.Wait = g.r.Range(1, 10)
			if g.r.Bool(0.5) {
				op.Limit = 0
			}
		}
		return op
	}
}

// group draws a set of operations that run concurrently.
func (g *c18gen) group() []Op {
	g.g++
	var ops []Op
	root := g.root()
	switch g.r.Intn(4) {
	case 0: // long-poll enumerate while another client uploads after a delay
		lp := Op{K: "enum", Root: root, Wait: g.r.Range(2, 35), Limit: g.limit()}
		if g.r.Bool(0.25) {
			lp = Op{K: "cenum", Root: root, Wait: g.r.Range(2, 20), Limit: g.r.Range(0, 5)}
		}
		ops = append(ops, lp)
		for i, n := 0, g.r.Range(1, 2); i < n; i++ {
			u := g.upload()
			if g.r.Bool(0.85) {
				u.Root = root
			}
			u.Delay = g.r.Range(0, lp.Wait+2)
			ops = append(ops, u)
		}
	case 1: // long-poll stat of blobs that arrive meanwhile
		var b []int
		for i, n := 0, g.r.Range(1, 3); i < n; i++ {
			b = append(b, g.pick(0.1))
		}
		if g.r.Bool(0.3) {
			b = append(b, g.pick(0.9))
		}
		lp := Op{K: "stat", Root: root, B: b, Wait: g.r.Range(2, 35), Via: "POST"}
		if g.r.Bool(0.1) {
			lp.N = len(b) + 1
		}
		ops = append(ops, lp)
		for _, bi := range b {
			if g.up[bi] || g.r.Bool(0.15) {
				continue
			}
			g.up[bi] = true
			u := Op{K: "put", Root: root, B: []int{bi}, Via: "cl", Delay: g.r.Range(0, lp.Wait+2)}
			switch g.r.Intn(3) {
			case 0:
				u = Op{K: "mp", Root: root, B: []int{bi}, Delay: u.Delay}
			case 1:
				u = Op{K: "up", Root: root, B: []int{bi}, Via: "nostat", Delay: u.Delay}
			}
			if g.r.Bool(0.1) {
				u.Root = g.root()
			}
			ops = append(ops, u)
		}
	default: // free mix
		for i, n := 0, g.r.Range(2, 5); i < n; i++ {
			if g.r.Bool(0.5) {
				ops = append(ops, g.upload())
			} else {
				op := g.read()
				if op.Wait > 0 && g.r.Bool(0.5) {
					op.Wait = 0
				}
				ops = append(ops, op)
			}
			if g.r.Bool(0.3) {
				ops[len(ops)-1].Delay = g.r.Range(0, 3)
			}
		}
	}
	for i := range ops {
		ops[i].G = g.g
	}
	return ops
}

func genC18(tier string, run int, r *simcore.Rand) *harness.Plan {
	combo := run % 20
	cfg := C18Config{Server: ServerCfg{Storage: c18Storages[combo%4], Index: c18Indexes[combo/4]}}
	cfg.PubKey = r.Bool(0.5)
	// one run in eight: the server stands on a simulated store that fails
	// now and then (own choice stream: the other runs are as before)
	rf := simcore.NewRand(simcore.Mix(r.Uint64(), "store-faults"))
	faulty := rf.Intn(8) == 0
	if faulty {
		cfg.Server = ServerCfg{Storage: "sim", Index: []string{"none", "none", "memory"}[rf.Intn(3)]}
	}
	g := &c18gen{r: r, up: map[int]bool{}, roots: []string{""}}
	if cfg.Server.Index != "none" {
		g.roots = append(g.roots, "bs")
	}
	nblobs := r.Range(2, 16)
	maxSize := 70000
	if r.Bool(0.15) {
		maxSize = 1 << 20
	}
	many := r.Bool(0.07)
	if many {
		// more blobs than the enumerate handler's default page
		nblobs = r.Range(101, 230)
		maxSize = 100
	}
	// one run in 150: more blobs than pkg/client asks for in one enumerate
	// request (1000), so that its own paging loop runs
	huge := !many && r.Intn(150) == 0
	if huge {
		many = true
		nblobs = r.Range(1005, 1100)
		maxSize = 40
	}
	cfg.Blobs = sim.GenBlobSpecs(r, nblobs, maxSize)
	if huge {
		// distinct contents, so that the store really holds that many
		for i := range cfg.Blobs {
			cfg.Blobs[i] = sim.BlobSpec{Size: 8 + i%32, Hash: []string{"sha224", "sha224", "sha1"}[i%3], Kind: "raw", Salt: r.Uint64()}
		}
	}
	// one run in fifty: a batch within the documented limits (every blob well
	// under 16 MiB, the request under 32 MiB) whose blobs add up to more
	// than the size limit of a single blob
	var heavy []int
	if !many && r.Bool(0.02) {
		for k := r.Range(3, 4); k > 0; k-- {
			heavy = append(heavy, len(cfg.Blobs))
			cfg.Blobs = append(cfg.Blobs, sim.BlobSpec{Size: r.Range(5<<20, 6<<20), Hash: "sha224", Kind: "raw", Salt: r.Uint64()})
		}
	}
	for _, sp := range cfg.Blobs {
		g.pool = append(g.pool, sim.Materialise(sp))
	}
	cfg.SweepLimit = r.Range(1, 6)
	if many {
		cfg.SweepLimit = []int{7, 50, 100, 1000}[r.Intn(4)]
	}
	cfg.SweepRoot = g.root()

	var ops []Op
	nops := r.Range(10, 40)
	groups := r.Bool(0.45)
	if !cfg.PubKey && r.Bool(0.5) {
		// long-poll on a still empty store
		g.g++
		lp := Op{K: "enum", Root: g.root(), Wait: r.Range(2, 35), Limit: g.limit(), G: g.g}
		u := g.upload()
		u.Root, u.Delay, u.G = lp.Root, r.Range(1, lp.Wait+1), g.g
		ops = append(ops, lp, u)
	}
	if many {
		for len(g.up) < nblobs*3/4 && !huge {
			ops = append(ops, g.upload())
		}
		if huge {
			// everything, 70 blobs per multipart request
			for at := 0; at < nblobs; at += 70 {
				var b []int
				for i := at; i < at+70 && i < nblobs; i++ {
					b = append(b, i)
					g.up[i] = true
				}
				ops = append(ops, Op{K: "mp", Root: g.roots[0], B: b})
			}
			ops = append(ops, Op{K: "cenum", Root: g.roots[0], Limit: 0, Wait: r.Range(1, 5)}, Op{K: "cenum", Root: g.roots[0], Limit: nblobs + 5})
			nops = len(ops) + r.Range(2, 6)
		}
		ops = append(ops, Op{K: "enum", Root: g.root()}, Op{K: "page", Root: g.root()})
	}
	bigStat := 0
	switch x := r.Intn(100); {
	case x < 5:
		bigStat = 1000
	case x < 8:
		bigStat = 1001
	case x < 10:
		bigStat = 999
	}
	for len(ops) < nops {
		switch {
		case groups && r.Bool(0.2):
			ops = append(ops, g.group()...)
		case r.Bool(0.4):
			ops = append(ops, g.upload())
		default:
			ops = append(ops, g.read())
		}
		if bigStat > 0 && len(ops) > nops/2 {
			ops = append(ops, Op{K: "stat", Root: g.root(), B: g.subset(min(len(g.pool), 12), 0.7), N: bigStat, PF: r.Bool(0.5), Via: "POST"})
			bigStat = 0
		}
	}
	if len(heavy) > 0 {
		hb := Op{K: "mp", Root: g.root(), B: heavy}
		if r.Bool(0.5) {
			ops = append([]Op{hb}, ops...)
		} else {
			ops = append(ops, hb)
		}
	}
	var faults []sim.Fault
	if faulty {
		// no long-polls and no delays: the waiting side of the protocol is
		// judged on healthy stores
		for i := range ops {
			ops[i].Wait, ops[i].Delay = 0, 0
		}
		add := func(method string, kinds []string, p float64, kmax int) {
			for k := 1; k <= kmax; k++ {
				if rf.Bool(p) {
					f := sim.Fault{Seam: "bs", Method: method, K: k, Kind: kinds[rf.Intn(len(kinds))]}
					if f.Kind == sim.FIterErr {
						f.Arg = rf.Range(0, 4)
					}
					faults = append(faults, f)
				}
			}
		}
		rate := []float64{0.05, 0.15, 0.3}[rf.Intn(3)]
		add("EnumerateBlobs", []string{sim.FErr, sim.FIterErr, sim.FIterErr}, rate, 40)
		add("StatBlobs", []string{sim.FErr}, rate, 60)
		add("Fetch", []string{sim.FErr}, rate, 60)
		add("ReceiveBlob", []string{sim.FErr, sim.FErrAfter}, rate/2, 60)
	}
	p := &harness.Plan{Mode: "c18", Config: harness.MustJSON(cfg), Bubble: true, Faults: faults}
	// Lock sites are not scheduling points here (LockYield 0): the server's
	// own goroutines (sync-to-index loop, hub notifications, index) reach
	// lock sites in an order that depends on Go map iteration inside perkeep
	// and, with file-backed stores, on real time spent in system calls; who
	// draws which lock-site decision would then differ between executions of
	// the same plan. Scheduling points are the transport's (handler start,
	// body reads, response delivery) and task starts, all uniquely labelled.
	p.Sticky = []int{0, 500, 900}[r.Intn(3)]
	for _, op := range ops {
		p.Ops = append(p.Ops, harness.MustJSON(op))
	}
	return p
}
