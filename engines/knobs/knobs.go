// Package knobs applies the per-run tuning knobs of a plan that live inside
// perkeep packages (through accessors that exist only under the overlay, so
// only engine packages may import this one).
package knobs

import (
	"os"

	"perkeep.org/pkg/blobserver"

	"verif/harness"
)

// Apply sets the knobs of p. The returned function restores them and, when a
// knob was actually lowered, records that in the outcome it is given.
func Apply(p *harness.Plan) (done func(out *harness.Outcome)) {
	if p.EnumBatch <= 0 || p.EnumBatch == 1000 || os.Getenv("VERIF_NOKNOBS") != "" { // (switch for comparison runs)
		return func(*harness.Outcome) {}
	}
	old, ok := blobserver.VerifSetEnumerateAllBatch(p.EnumBatch)
	if !ok {
		return func(*harness.Outcome) {}
	}
	return func(out *harness.Outcome) {
		blobserver.VerifSetEnumerateAllBatch(old)
		if out != nil {
			if out.Reached == nil {
				out.Reached = map[string]int{}
			}
			out.Reached["enumerate-all-page-size-lowered"]++
		}
	}
}
