package indexsim

import (
	"context"
	"errors"
	"fmt"
	"os"
	"sort"
	"strings"
	"time"

	"perkeep.org/pkg/blob"
	"perkeep.org/pkg/index"
	"perkeep.org/pkg/schema"
	"perkeep.org/pkg/sorted"
	"perkeep.org/pkg/types/camtypes"

	"verif/harness"
	"verif/simcore"
)

// C06 — live index and corpus equal what a restart would load. Same worlds and
// arrival histories as C05, the index always with a corpus (KeepInMemory
// before the first arrival, or at a "corpus" op after k arrivals). At every
// "check" barrier and at the end — at quiescence — a FRESH index.New over a
// copy of the rows + KeepInMemory is opened and a battery of exported reads is
// compared between the live and the fresh index for every ref of the world
// and a few absent ones.

func genC06(tier string, run int, r *simcore.Rand) *harness.Plan {
	cfg := Config{}
	max := 12
	if r.Bool(0.5) {
		max = 7
	}
	spec := genWorld(r, r.Range(3, max), r.Bool(0.3))
	ops := genArrivals(r, spec, false, false)
	every := tier == "thorough" && r.Bool(0.5)
	// One run in ten: permanodes whose time comes from their content (own
	// choice stream: the other draws are as before).
	if r2 := simcore.NewRand(simcore.Mix(r.Uint64(), "content-world")); r2.Bool(0.1) {
		spec, ops = genContentWorld(r2)
	}
	cfg.World = *spec
	// One restart in five meets a read error while the index is re-opened.
	if r4 := simcore.NewRand(simcore.Mix(r.Uint64(), "scan-fault")); true {
		for i := range ops {
			if ops[i].K == "restart" && r4.Bool(0.2) {
				ops[i].IterFault = r4.Range(1, 3)
			}
		}
	}
	// One run in seven: the index rows refuse the commit of one delivery.
	if r3 := simcore.NewRand(simcore.Mix(r.Uint64(), "commit-fault")); r3.Bool(0.15) {
		var ds []int
		for i, op := range ops {
			if op.K == "deliver" {
				ds = append(ds, i)
			}
		}
		if len(ds) > 0 {
			at := ds[r3.Intn(len(ds))]
			f := ops[at]
			f.K, f.Race = "faildeliver", false
			if r3.Bool(0.35) {
				// no failure: the client goes away (context cancelled) the
				// moment the rows are committed
				f.Cancel = true
				ops[at] = f
			} else if r3.Bool(0.7) {
				// the client tries again (the original delivery stays)
				ops = append(ops[:at], append([]Op{f}, ops[at:]...)...)
			} else {
				ops[at] = f
			}
		}
	}
	if r.Bool(0.6) {
		cfg.Corpus = "start"
	} else {
		cfg.Corpus = "op"
		at := 0
		if len(ops) > 0 {
			at = r.Intn(len(ops) + 1)
		}
		ops = append(ops[:at], append([]Op{{K: "corpus"}}, ops[at:]...)...)
	}
	if every {
		var o2 []Op
		for _, op := range ops {
			o2 = append(o2, op)
			if op.K == "deliver" {
				o2 = append(o2, Op{K: "check"})
			}
		}
		ops = o2
	} else {
		for k := 0; k < 3 && len(ops) > 0; k++ {
			at := r.Range(1, len(ops))
			ops = append(ops[:at], append([]Op{{K: "check"}}, ops[at:]...)...)
		}
	}
	// a few extra query instants
	for k := r.Intn(3); k > 0; k-- {
		cfg.Times = append(cfg.Times, int64(r.Range(0, 61000)))
	}
	p := &harness.Plan{Mode: "seeded", Config: harness.MustJSON(cfg), Bubble: true, Ops: opsJSON(ops)}
	p.LockYield = []int{0, 0, 50, 300, 1000}[r.Intn(5)]
	p.Sticky = []int{0, 0, 500, 900}[r.Intn(4)]
	return p
}

// genContentWorld: two or three permanodes with a few claims each, some of
// them pointing (camliContent) at files whose modification time lies among
// the claim dates or far from them, so that a permanode's place in the
// orderings by time depends on a file blob. The file schema blobs arrive in a
// second phase, after the claims that point at them.
func genContentWorld(r *simcore.Rand) (*WorldSpec, []Op) {
	b := newWB(r, 1, false)
	npn := r.Range(2, 3)
	var pns []int
	for i := 0; i < npn; i++ {
		pns = append(pns, b.addPN())
	}
	nfile := r.Range(1, 2)
	var files []int
	for i := 0; i < nfile; i++ {
		chunk := b.addBlob()
		it := Item{K: "file", Parts: []int{chunk}, Name: "f.txt"}
		switch r.Intn(3) {
		case 0:
			it.MT = int64(r.Range(1, 60)) // among the claim dates
		case 1:
			it.MT = int64(r.Range(61, 100000))
		}
		files = append(files, b.add(it))
	}
	for _, pn := range pns {
		for k := r.Range(0, 2); k > 0; k-- {
			b.add(Item{K: "claim", CT: []string{"set", "add"}[r.Intn(2)], PN: pn, S: b.item(pn).S, Attr: []string{"tag", "title"}[r.Intn(2)], Val: plainVals[r.Intn(len(plainVals))], D: b.date()})
		}
	}
	for i, f := range files {
		pn := pns[i%len(pns)]
		if r.Bool(0.3) {
			pn = b.pick(pns)
		}
		b.add(Item{K: "claim", CT: "set", PN: pn, S: b.item(pn).S, Attr: "camliContent", Ref: f + 1, D: b.date()})
	}
	spec := &WorldSpec{Items: b.items}
	isFile := map[int]bool{}
	for _, f := range files {
		isFile[f] = true
	}
	w := &world{spec: spec}
	all := make([]int, len(spec.Items))
	for i := range all {
		all[i] = i
	}
	order := w.canonicalOrder(all)
	if r.Bool(0.5) {
		p := r.Perm(len(order))
		o2 := make([]int, len(order))
		for i, j := range p {
			o2[i] = order[j]
		}
		order = o2
	}
	nclients := r.Range(1, 3)
	var ops []Op
	for _, i := range order {
		if !isFile[i] {
			ops = append(ops, Op{K: "deliver", I: i, C: 1 + r.Intn(nclients)})
		}
	}
	if r.Bool(0.3) {
		ops = append(ops, Op{K: "restart"})
	}
	ops = append(ops, Op{K: "check"})
	for _, f := range files {
		ops = append(ops, Op{K: "deliver", I: f, C: 1 + r.Intn(nclients)})
		if r.Bool(0.5) {
			ops = append(ops, Op{K: "check"})
		}
	}
	return spec, ops
}

// ---------------------------------------------------------------------------
// the battery of reads

type answer struct {
	method string // e.g. "Corpus.PermanodeAttrValue"
	key    string // arguments, human readable
	val    string
	refs   []string // refs the question is about (for cause attribution)
}

func errClass(err error) string {
	switch {
	case err == nil:
		return ""
	case errors.Is(err, os.ErrNotExist):
		return "ERR(not-exist)"
	case errors.Is(err, sorted.ErrNotFound):
		return "ERR(not-found)"
	}
	return "ERR(" + err.Error() + ")"
}

func fmtTime(t time.Time) string {
	if t.IsZero() {
		return "0"
	}
	return t.UTC().Format(time.RFC3339Nano)
}

func fmtClaim(c *camtypes.Claim) string {
	return fmt.Sprintf("%s/%s/%s/%s/%s/%s=%q/%s", short(c.BlobRef.String()), short(c.Signer.String()), short(c.Permanode.String()), fmtTime(c.Date), c.Type, c.Attr, c.Value, short(c.Target.String()))
}

func short(ref string) string {
	if len(ref) > 15 {
		return ref[:15]
	}
	return ref
}

func refSet(m map[blob.Ref]struct{}) string {
	var s []string
	for r := range m {
		s = append(s, short(r.String()))
	}
	sort.Strings(s)
	return strings.Join(s, ",")
}

// questions fixes WHAT is asked (a function of the world and the plan only),
// so that live and fresh are asked exactly the same things.
type questions struct {
	w       *world
	refs    []blob.Ref // every ref of the world + absent ones
	pns     []int      // permanode items
	times   []time.Time
	attrs   map[int][]string // pn item -> attributes claimed on it
	vals    map[string][]string
	signers []blob.Ref
	keyIDs  []string
	sufs    []string
	ntypes  []string
}

func newQuestions(w *world, cfg *Config) *questions {
	q := &questions{w: w, attrs: map[int][]string{}, vals: map[string][]string{}}
	seen := map[string]bool{}
	for _, b := range w.b {
		if !seen[b.RefS] {
			seen[b.RefS] = true
			q.refs = append(q.refs, b.Ref)
		}
	}
	q.refs = append(q.refs, blob.RefFromString("absent-1"), blob.RefFromString("absent-2"))
	tset := map[int64]bool{}
	aset := map[string]bool{}
	vset := map[string]bool{}
	sset := map[string]bool{}
	nset := map[string]bool{}
	for i := range w.spec.Items {
		it := w.item(i)
		switch it.K {
		case "pn":
			q.pns = append(q.pns, i)
		case "claim":
			tset[it.D] = true
			k := fmt.Sprintf("%d|%s", it.PN, it.Attr)
			if !aset[k] {
				aset[k] = true
				q.attrs[it.PN] = append(q.attrs[it.PN], it.Attr)
			}
			v := w.claimValue(i)
			if !vset[it.Attr+"|"+v] {
				vset[it.Attr+"|"+v] = true
				q.vals[it.Attr] = append(q.vals[it.Attr], v)
			}
			if strings.HasPrefix(it.Attr, "camliPath:") {
				if s := strings.TrimPrefix(it.Attr, "camliPath:"); !sset[s] {
					sset[s] = true
					q.sufs = append(q.sufs, s)
				}
			}
			if it.Attr == "camliNodeType" && !nset[v] {
				nset[v] = true
				q.ntypes = append(q.ntypes, v)
			}
		case "del":
			tset[it.D] = true
		}
	}
	for pn := range q.attrs {
		q.attrs[pn] = append(q.attrs[pn], "neverSet")
	}
	for a := range q.vals {
		q.vals[a] = append(q.vals[a], "zz-never")
	}
	q.ntypes = append(q.ntypes, "never")
	q.times = []time.Time{{}}
	var ds []int64
	for d := range tset {
		ds = append(ds, d)
	}
	sort.Slice(ds, func(i, j int) bool { return ds[i] < ds[j] })
	for _, d := range ds {
		t := dateOf(d)
		q.times = append(q.times, t.Add(-1), t, t.Add(1))
	}
	for _, ms := range cfg.Times {
		q.times = append(q.times, dateOf(ms))
	}
	ids, _ := loadIdentities()
	var ss []int
	for s := range w.keyID {
		ss = append(ss, s)
	}
	sort.Ints(ss)
	for _, s := range ss {
		q.signers = append(q.signers, ids[s].ref)
		q.keyIDs = append(q.keyIDs, w.keyID[s])
	}
	q.signers = append(q.signers, blob.RefFromString("absent-signer"))
	q.keyIDs = append(q.keyIDs, "0000000000000000")
	return q
}

// ask runs the battery against one index (inside a task, under the index
// read lock, as the search handler does).
func (q *questions) ask(idx *index.Index, c *index.Corpus, light bool) []answer {
	ctx := context.Background()
	var out []answer
	add := func(m, k, v string, refs ...string) { out = append(out, answer{m, k, v, refs}) }
	idx.RLock()
	defer idx.RUnlock()
	w := q.w
	for _, r := range q.refs {
		rs := r.String()
		k := short(rs)
		bm, err := idx.GetBlobMeta(ctx, r)
		add("Index.GetBlobMeta", k, fmt.Sprintf("%d/%s%s", bm.Size, bm.CamliType, errClass(err)), rs)
		add("Index.IsDeleted", k, fmt.Sprint(idx.IsDeleted(r)), rs)
		kid, err := idx.KeyId(ctx, r)
		add("Index.KeyId", k, kid+errClass(err), rs)
		fi, err := idx.GetFileInfo(ctx, r)
		fiv := errClass(err)
		if err == nil {
			ft, fm := "", ""
			if fi.Time != nil {
				ft = fi.Time.String()
			}
			if fi.ModTime != nil {
				fm = fi.ModTime.String()
			}
			fiv = fmt.Sprintf("%q/%d/%s/%s/%s/%s", fi.FileName, fi.Size, fi.MIMEType, ft, fm, short(fi.WholeRef.String()))
		}
		add("Index.GetFileInfo", k, fiv, rs)
		dest := make(chan blob.Ref, 64)
		err = idx.GetDirMembers(ctx, r, dest, 0)
		var ms []string
		for m := range dest {
			ms = append(ms, short(m.String()))
		}
		sort.Strings(ms)
		add("Index.GetDirMembers", k, strings.Join(ms, ",")+errClass(err), rs)
		edges, err := idx.EdgesTo(r, nil)
		var es []string
		for _, e := range edges {
			es = append(es, fmt.Sprintf("%s/%s/%s", short(e.From.String()), e.FromType, short(e.BlobRef.String())))
		}
		sort.Strings(es)
		add("Index.EdgesTo", k, strings.Join(es, ",")+errClass(err), rs)
		for si, sg := range q.signers {
			paths, err := idx.PathsOfSignerTarget(ctx, sg, r)
			var ps []string
			for _, p := range paths {
				ps = append(ps, fmt.Sprintf("%s/%s/%s/%s/%q", short(p.Claim.String()), short(p.Base.String()), short(p.Target.String()), fmtTime(p.ClaimDate), p.Suffix))
			}
			sort.Strings(ps)
			add("Index.PathsOfSignerTarget", fmt.Sprintf("signer%d,%s", si, k), strings.Join(ps, ",")+errClass(err), rs)
		}
		if c != nil {
			add("Corpus.IsDeleted", k, fmt.Sprint(c.IsDeleted(r)), rs)
			ch, err := c.GetDirChildren(ctx, r)
			add("Corpus.GetDirChildren", k, refSet(ch)+errClass(err), rs)
			pa, err := c.GetParentDirs(ctx, r)
			add("Corpus.GetParentDirs", k, refSet(pa)+errClass(err), rs)
			wr, ok := c.GetWholeRef(ctx, r)
			add("Corpus.GetWholeRef", k, fmt.Sprintf("%s/%v", short(wr.String()), ok), rs)
			cbm, err := c.GetBlobMeta(ctx, r)
			add("Corpus.GetBlobMeta", k, fmt.Sprintf("%d/%s%s", cbm.Size, cbm.CamliType, errClass(err)), rs)
			var back []string
			c.ForeachClaimBack(r, time.Time{}, func(cl *camtypes.Claim) bool {
				back = append(back, fmtClaim(cl))
				return true
			})
			sort.Strings(back)
			add("Corpus.ForeachClaimBack", k, strings.Join(back, ";"), rs)
		}
	}
	// permanodes (and one blob that is not a permanode, one absent)
	pnRefs := []blob.Ref{}
	pnItem := []int{}
	for _, pi := range q.pns {
		pnRefs = append(pnRefs, w.b[pi].Ref)
		pnItem = append(pnItem, pi)
	}
	pnRefs = append(pnRefs, q.refs[len(q.refs)-1])
	pnItem = append(pnItem, -1)
	for i, pn := range pnRefs {
		rs := pn.String()
		k := short(rs)
		attrs := []string{"title"}
		if pnItem[i] >= 0 {
			attrs = q.attrs[pnItem[i]]
		}
		for fi, sf := range append([]string{""}, q.keyIDs...) {
			for _, af := range append([]string{""}, attrs...) {
				cls, err := idx.AppendClaims(ctx, nil, pn, sf, af)
				var cs []string
				for j := range cls {
					cs = append(cs, fmtClaim(&cls[j]))
				}
				sort.Strings(cs) // "The items may be appended in any order"
				add("Index.AppendClaims", fmt.Sprintf("%s,signerFilter%d,attr=%q", k, fi, af), strings.Join(cs, ";")+errClass(err), rs)
			}
		}
		for si, sg := range q.signers {
			for _, suf := range q.sufs {
				paths, err := idx.PathsLookup(ctx, sg, pn, suf)
				var ps []string
				for _, p := range paths {
					ps = append(ps, fmt.Sprintf("%s/%s/%s", short(p.Claim.String()), short(p.Target.String()), fmtTime(p.ClaimDate)))
				}
				sort.Strings(ps)
				add("Index.PathsLookup", fmt.Sprintf("signer%d,%s,%q", si, k, suf), strings.Join(ps, ",")+errClass(err), rs)
			}
		}
		if c == nil {
			continue
		}
		mt, ok := c.PermanodeModtime(pn)
		add("Corpus.PermanodeModtime", k, fmt.Sprintf("%s/%v", fmtTime(mt), ok), rs)
		at, ok := c.PermanodeAnyTime(pn)
		add("Corpus.PermanodeAnyTime", k, fmt.Sprintf("%s/%v", fmtTime(at), ok), rs)
		var fc []string
		c.ForeachClaim(pn, time.Time{}, func(cl *camtypes.Claim) bool {
			fc = append(fc, fmtClaim(cl))
			return true
		})
		sort.Strings(fc) // "Iteration is in an undefined order"
		add("Corpus.ForeachClaim", k, strings.Join(fc, ";"), rs)
		times := q.times
		if light && len(times) > 7 {
			times = times[:7]
		}
		for _, t := range times {
			for _, a := range attrs {
				for fi, sf := range append([]string{""}, q.keyIDs...) {
					kk := fmt.Sprintf("%s,%q,at=%s,signerFilter%d", k, a, fmtTime(t), fi)
					add("Corpus.PermanodeAttrValue", kk, c.PermanodeAttrValue(pn, a, t, sf), rs)
					add("Corpus.AppendPermanodeAttrValues", kk, strings.Join(c.AppendPermanodeAttrValues(nil, pn, a, t, sf), "\x1f"), rs)
				}
				for _, v := range q.vals[a] {
					add("Corpus.PermanodeHasAttrValue", fmt.Sprintf("%s,%q=%q,at=%s", k, a, v, fmtTime(t)), fmt.Sprint(c.PermanodeHasAttrValue(pn, t, a, v)), rs)
				}
			}
		}
	}
	// global questions
	for si, sg := range q.signers {
		for _, a := range []string{"title", "tag", "camliRoot"} {
			for _, v := range append([]string{""}, q.vals[a]...) {
				for _, t := range []time.Time{{}, q.times[len(q.times)/2]} {
					dest := make(chan blob.Ref, 64)
					err := idx.SearchPermanodesWithAttr(ctx, dest, &camtypes.PermanodeByAttrRequest{Signer: sg, Attribute: a, Query: v, At: t})
					var rs []string
					for r := range dest {
						rs = append(rs, short(r.String()))
					}
					add("Index.SearchPermanodesWithAttr", fmt.Sprintf("signer%d,%s=%q,at=%s", si, a, v, fmtTime(t)), strings.Join(rs, ",")+errClass(err))
				}
				if v != "" {
					pn, err := idx.PermanodeOfSignerAttrValue(ctx, sg, a, v)
					add("Index.PermanodeOfSignerAttrValue", fmt.Sprintf("signer%d,%s=%q", si, a, v), short(pn.String())+errClass(err))
				}
			}
		}
		for _, before := range []time.Time{{}, q.times[len(q.times)/2]} {
			dest := make(chan camtypes.RecentPermanode, 64)
			err := idx.GetRecentPermanodes(ctx, dest, sg, 0, before)
			var rs []string
			for r := range dest {
				rs = append(rs, fmt.Sprintf("%s@%s", short(r.Permanode.String()), fmtTime(r.LastModTime)))
			}
			add("Index.GetRecentPermanodes", fmt.Sprintf("signer%d,before=%s", si, fmtTime(before)), strings.Join(rs, ",")+errClass(err))
		}
	}
	var metas []string
	err := idx.EnumerateBlobMeta(ctx, func(bm camtypes.BlobMeta) bool {
		metas = append(metas, fmt.Sprintf("%s/%d/%s", short(bm.Ref.String()), bm.Size, bm.CamliType))
		return true
	})
	sort.Strings(metas)
	add("Index.EnumerateBlobMeta", "", strings.Join(metas, ",")+errClass(err))
	if c != nil {
		var seq []string
		c.EnumeratePermanodesLastModified(func(bm camtypes.BlobMeta) bool {
			seq = append(seq, short(bm.Ref.String()))
			return true
		})
		add("Corpus.EnumeratePermanodesLastModified", "", strings.Join(seq, ","))
		for _, nf := range []bool{true, false} {
			seq = nil
			c.EnumeratePermanodesCreated(func(bm camtypes.BlobMeta) bool {
				seq = append(seq, short(bm.Ref.String()))
				return true
			}, nf)
			add("Corpus.EnumeratePermanodesCreated", fmt.Sprintf("newestFirst=%v", nf), strings.Join(seq, ","))
		}
		for _, ct := range []string{"", "permanode", "claim", "file", "directory", "static-set", "bytes"} {
			var set []string
			c.EnumerateCamliBlobs(schema.CamliType(ct), func(bm camtypes.BlobMeta) bool {
				set = append(set, short(bm.Ref.String()))
				return true
			})
			sort.Strings(set)
			add("Corpus.EnumerateCamliBlobs", ct, strings.Join(set, ","))
		}
		var set []string
		c.EnumeratePermanodesByNodeTypes(func(bm camtypes.BlobMeta) bool {
			set = append(set, short(bm.Ref.String()))
			return true
		}, q.ntypes)
		sort.Strings(set)
		add("Corpus.EnumeratePermanodesByNodeTypes", strings.Join(q.ntypes, ","), strings.Join(set, ","))
	}
	return out
}

// ---------------------------------------------------------------------------

func execC06(rc *harness.RunCtx, p *harness.Plan, cfg *Config, w *world, ops []Op) *harness.Outcome {
	out := &harness.Outcome{Ops: len(ops), Reached: map[string]int{}}
	seed := p.SchedSeed
	s := newSession(rc, w, "main")
	s.corpusOn = cfg.Corpus == "start" || cfg.Corpus == ""
	for _, op := range ops {
		if op.K == "faildeliver" {
			s.faultKV = true
		}
	}
	s.reseed(simcore.Mix(seed, "seg", "open"))
	if err := s.open(); err != nil {
		out.Inconclusive = "open: " + err.Error()
		return out
	}
	defer func() {
		for k, v := range s.reach {
			out.Reached[k] += v
		}
	}()
	q := newQuestions(w, cfg)
	var fl histFlags
	clients := map[int]bool{}
	for _, op := range ops {
		if op.K == "deliver" {
			clients[op.C] = true
			if op.Race {
				fl.race = true
			}
		}
	}
	fl.conc = len(clients) > 1
	fl.corpus = true
	probeStatic(w, ops, out, true)
	mode := cfg.Corpus
	if mode == "" {
		mode = "start"
	}
	cz := newC06Causes(w)
	ncmp := 0

	report := func(method, cause, detail string, opIdx int) bool {
		class := "live-vs-fresh:" + method
		sig := class
		if cause != "" {
			sig += "~" + cause
		}
		sig += "@" + mode + "+" + fl.String()
		if what, ok := harness.Known(p.Prop, sig); ok {
			out.NoteKnown(what)
			return false
		}
		if survey {
			if os.Getenv("INDEXSIM_SURVEY") == "2" && cause == "" {
				out.NoteKnown("SURVEY " + sig + " :: " + detail)
			} else {
				out.NoteKnown("SURVEY " + sig)
			}
			return false
		}
		out.Violation = harness.Viol(class, sig, fmt.Sprintf("%s [history up to the comparison: %s]", detail, strings.Join(w.describeOps(ops[:min(opIdx, len(ops))]), " | ")), opIdx)
		rp := *p
		rp.Tape = nil
		out.ReplayPlan = &rp
		return true
	}

	compare := func(opIdx int) (stop bool) {
		ncmp++
		out.SubRuns++
		if !s.corpusOn {
			out.Reached["compare-before-corpus"]++
		}
		light := ncmp > 1 && opIdx < len(ops) // the end and the first comparison use every instant
		var live []answer
		s.reseed(simcore.Mix(seed, "ask-live", opIdx))
		if herr := s.task("ask", func() { live = q.ask(s.idx, s.corpus, light) }); herr != nil {
			out.Inconclusive = "battery on the live index never finished: " + herr.Error()
			return true
		}
		f := newSession(rc, w, "fresh")
		f.kvSt.Restore(s.kvSt.Snapshot())
		f.srcSt = s.srcSt
		f.corpusOn = s.corpusOn
		f.reseed(simcore.Mix(seed, "fresh", opIdx))
		if err := f.open(); err != nil {
			if report("open", "", "a fresh index could not be opened over the live index's rows: "+err.Error(), opIdx) {
				return true
			}
			return false
		}
		var fresh []answer
		if herr := f.task("ask", func() { fresh = q.ask(f.idx, f.corpus, light) }); herr != nil {
			out.Inconclusive = "battery on the fresh index never finished: " + herr.Error()
			return true
		}
		if len(live) != len(fresh) {
			out.Inconclusive = fmt.Sprintf("battery length differs: %d vs %d", len(live), len(fresh))
			return true
		}
		rows := s.rows()
		refs := map[string]bool{}
		for k := range s.delivered {
			refs[k] = true
		}
		if len(newDepStatePending(w, refs)) > 0 {
			out.Reached["compare-with-pending"]++
		}
		cz.prepare(rows, refs)
		reported := map[string]bool{}
		for i := range live {
			if live[i].val == fresh[i].val {
				continue
			}
			m := live[i].method
			if live[i].key != fresh[i].key {
				out.Inconclusive = "battery out of step"
				return true
			}
			cause := cz.explain(m, live[i].refs, s.corpusOn)
			if reported[m+"~"+cause] {
				continue
			}
			reported[m+"~"+cause] = true
			if report(m, cause, fmt.Sprintf("%s(%s): the live index answers %q, a fresh index opened over the same rows answers %q", m, live[i].key, live[i].val, fresh[i].val), opIdx) {
				return true
			}
		}
		out.Reached["answers-compared"] += len(live)
		return false
	}

	start, seg := 0, 0
	for i := 0; i <= len(ops); i++ {
		if i < len(ops) && !ops[i].barrier() {
			continue
		}
		cz.beginSegment(s.corpusOn, s.rows())
		cz.sequential = oneClient(ops[start:i]) && !cz.pendingAtStart
		for _, op := range ops[start:i] {
			cz.noteDelivery(op, s.corpusOn)
		}
		s.reseed(simcore.Mix(seed, "seg", seg))
		seg++
		if err := s.segment(ops[start:i], start); err != nil {
			out.Inconclusive = "segment never quiesced: " + err.Error()
			return out
		}
		s.flushRec()
		cz.endSegment()
		start = i + 1
		if i == len(ops) {
			break
		}
		switch ops[i].K {
		case "restart":
			out.Reached["restart-mid-history"]++
			fl.restart = true
			cz.restart()
			if _, err := s.reopen(ops[i]); err != nil {
				if report("open", "", "re-opening the index over its own rows failed: "+err.Error(), i) {
					return out
				}
				out.Inconclusive = "restart: " + err.Error()
				return out
			}
		case "corpus":
			if !s.corpusOn {
				out.Reached["corpus-scanned-mid-history"]++
			}
			if err := s.enableCorpus(); err != nil {
				out.Inconclusive = "corpus: " + err.Error()
				return out
			}
		case "check":
			if compare(i) {
				return out
			}
		case "faildeliver":
			failed, err := s.failDeliver(ops[i], i)
			if err != nil {
				out.Inconclusive = "faildeliver never quiesced: " + err.Error()
				return out
			}
			s.flushRec()
			if !failed {
				// an ordinary delivery, in a segment of its own
				op := ops[i]
				op.K = "deliver"
				cz.beginSegment(s.corpusOn, s.rows())
				cz.sequential = !cz.pendingAtStart
				cz.noteDelivery(op, s.corpusOn)
				cz.endSegment()
				if ops[i].Cancel {
					// the blob is committed (once or on the repeated
					// upload): live and fresh must agree about it now
					out.Reached["compare-after-cancelled-upload"]++
					if compare(i + 1) {
						return out
					}
				}
				break
			}
			// The upload failed and nothing of it was committed: a fresh
			// index over the rows knows nothing of the blob, and neither
			// may the live one.
			if s.corpusOn {
				out.Reached["compare-after-failed-commit"]++
			}
			if compare(i + 1) {
				return out
			}
		}
	}
	if !s.corpusOn {
		if err := s.enableCorpus(); err != nil {
			out.Inconclusive = "corpus: " + err.Error()
			return out
		}
	}
	if compare(len(ops)) {
		return out
	}
	out.ShapeKey = fmt.Sprintf("%s|%s|ly%d", mode, opKinds(w, ops), p.LockYield)
	ndel := 0
	for _, op := range ops {
		if op.K == "deliver" {
			ndel++
		}
	}
	out.Nontrivial = ndel >= 2
	out.Sample = map[string]any{"corpus": mode, "blobs": len(w.b), "comparisons": ncmp, "history": firstN(w.describeOps(ops), 10)}
	return out
}

func newDepStatePending(w *world, refs map[string]bool) []string {
	ds := newDepState(w, refs)
	var p []string
	for ref := range refs {
		if ds.refState(ref) != 1 {
			p = append(p, ref)
		}
	}
	return p
}

// ---------------------------------------------------------------------------
// cause attribution for the recorded C06 findings

type c06Causes struct {
	w *world
	// hasDeletedRows: the rows hold deleted| entries (the fresh index's deletes
	// cache is emptied by initNeededMapsLocked right after it was loaded)
	hasDeletedRows bool
	// liveRestarted: the live index was itself re-opened over deleted| rows
	// dupDel: delete claims that may have been received by the live corpus
	// before their target had a meta row (the later re-index is ignored by
	// Corpus.addBlob because the blob is already known)
	dupDel    map[string]bool
	segSeen   map[string]bool // refs delivered before the current segment
	segNow    []string
	affected  map[string]bool
	eqDatePN  map[string]bool
	delivered map[int]bool
	oddTarget map[string]bool
	// sequential: the current segment is driven by one client
	sequential     bool
	pendingAtStart bool
	race           *causes // blobs whose source put raced with the index receive
}

func newC06Causes(w *world) *c06Causes {
	return &c06Causes{w: w, dupDel: map[string]bool{}, segSeen: map[string]bool{}, affected: map[string]bool{}, eqDatePN: map[string]bool{}, delivered: map[int]bool{}, oddTarget: map[string]bool{}, race: newCauses(w)}
}

func (c *c06Causes) noteDelivery(op Op, corpusOn bool) {
	if op.K != "deliver" {
		return
	}
	it := c.w.item(op.I)
	ref := c.w.b[op.I].RefS
	c.segNow = append(c.segNow, ref)
	c.delivered[op.I] = true
	if op.Race {
		c.race.raced[ref] = true
	}
	if c.sequential {
		// once a blob has to wait for a dependency, its later re-indexing is
		// asynchronous: the rest of the segment is not sequential any more
		seen := map[string]bool{ref: true}
		for k := range c.segSeen {
			seen[k] = true
		}
		for _, r := range c.segNow {
			seen[r] = true
		}
		ds := newDepState(c.w, seen)
		for i, b := range c.w.b {
			if seen[b.RefS] && ds.state(i) != 1 {
				defer func() { c.sequential = false }()
				break
			}
		}
	}
	if it.K == "del" {
		switch c.w.item(it.T).K {
		case "pn", "claim", "del":
		default:
			c.oddTarget[c.w.b[it.T].RefS] = true
		}
	}
	if it.K == "del" && corpusOn {
		// By the dependency model the target had no meta row when the segment
		// of this delivery began: the live corpus may see the claim twice
		// (partial commit first, complete re-index later).
		// (a segment driven by a single client is sequential: everything
		// delivered earlier in it has been processed)
		seen := c.segSeen
		if c.sequential {
			seen = map[string]bool{}
			for k := range c.segSeen {
				seen[k] = true
			}
			for _, r := range c.segNow[:len(c.segNow)-1] {
				seen[r] = true
			}
		}
		ds := newDepState(c.w, seen)
		if st := ds.refState(c.w.b[it.T].RefS); st == 3 {
			c.dupDel[ref] = true
		}
		// the target may also be stuck un-indexed because it, or a blob it
		// fetches, reached the index before the blob source (C05 finding)
		if c.race.raced[c.w.b[it.T].RefS] || c.race.fetchDepRaced(it.T) {
			c.dupDel[ref] = true
		}
	}
}

// beginSegment: delete claims already delivered but not completely indexed
// (by the model) can be completed during this segment; a live corpus - built
// incrementally or scanned from rows that hold their partial meta row -
// already knows the blob and will ignore the completed mutation.
//
// rows are the index rows at the start of the segment. A delete claim that was
// delivered and, by the rows, is committed partially only (a meta row, no
// "|indexed" mark) is in that state whatever the dependency model says: the
// recorded C05 finding (a delete claim waiting for its target is forgotten
// across a restart) leaves claims like that although every dependency has
// arrived since. A corpus that is live, or is scanned from these rows, knows
// the blob and ignores its completion.
func (c *c06Causes) beginSegment(corpusOn bool, rows map[string]string) {
	c.sequential = false
	c.pendingAtStart = false
	ds := newDepState(c.w, c.segSeen)
	for i, b := range c.w.b {
		if c.segSeen[b.RefS] && ds.state(i) != 1 {
			c.pendingAtStart = true // a delivery of this segment may wake it asynchronously
		}
	}
	if !corpusOn {
		return
	}
	for i, b := range c.w.b {
		if c.w.item(i).K != "del" || !c.segSeen[b.RefS] {
			continue
		}
		if ds.state(i) != 1 {
			c.dupDel[b.RefS] = true
		}
		if _, meta := rows["meta:"+b.RefS]; meta && !strings.HasSuffix(rows["have:"+b.RefS], "|indexed") {
			c.dupDel[b.RefS] = true
		}
	}
}

func (c *c06Causes) endSegment() {
	for _, r := range c.segNow {
		c.segSeen[r] = true
	}
	c.segNow = nil
}

// restart: the live corpus is rebuilt from the rows; earlier duplicates are healed.
func (c *c06Causes) restart() { c.dupDel = map[string]bool{} }

func (c *c06Causes) prepare(rows map[string]string, refs map[string]bool) {
	c.hasDeletedRows = false
	for k := range rows {
		if strings.HasPrefix(k, "deleted|") {
			c.hasDeletedRows = true
			break
		}
	}
	// blobs whose answers a missed delete claim can change: its target, and
	// onward: the target's target (undelete), the permanode of a claim
	c.affected = map[string]bool{}
	var mark func(i int, depth int)
	mark = func(i int, depth int) {
		if depth > 8 {
			return
		}
		c.affected[c.w.b[i].RefS] = true
		it := c.w.item(i)
		switch it.K {
		case "del":
			mark(it.T, depth+1)
		case "claim":
			mark(it.PN, depth+1)
			if it.Ref > 0 {
				c.affected[c.w.b[it.Ref-1].RefS] = true // claimBack / paths / edges of the value
			}
		}
	}
	for i, b := range c.w.b {
		if c.dupDel[b.RefS] {
			mark(i, 0)
		}
	}
	// permanodes with two delivered claims of equal date
	c.eqDatePN = map[string]bool{}
	byPN := map[int]map[int64]int{}
	for i := range c.w.b {
		it := c.w.item(i)
		if it.K == "claim" && c.delivered[i] {
			if byPN[it.PN] == nil {
				byPN[it.PN] = map[int64]int{}
			}
			byPN[it.PN][it.D]++
			if byPN[it.PN][it.D] > 1 {
				c.eqDatePN[c.w.b[it.PN].RefS] = true
			}
		}
	}
}

var idxDeletesMethods = map[string]bool{
	"Index.IsDeleted": true, "Index.GetRecentPermanodes": true, "Index.SearchPermanodesWithAttr": true,
	"Index.PermanodeOfSignerAttrValue": true, "Index.PathsOfSignerTarget": true, "Index.PathsLookup": true, "Index.EdgesTo": true,
}

func (c *c06Causes) explain(method string, refs []string, corpusOn bool) string {
	// without a corpus Index.AppendClaims filters with the index's own deletes cache
	if idxDeletesMethods[method] || (method == "Index.AppendClaims" && !corpusOn) {
		// (the former cause "idxdeletes" — index.New discarding the deletes
		// cache it had just loaded — has been repaired in /repo; a difference
		// it would have explained is now reported)
		for _, r := range refs {
			if c.oddTarget[r] {
				return "delnonclaim"
			}
		}
		return ""
	}
	var cs []string
	// a delivered delete claim whose target is neither a permanode nor a
	// claim: no deleted| row is written, yet the claim is entered into the
	// in-memory deletes caches of the running index and corpus
	for _, r := range refs {
		if c.oddTarget[r] {
			cs = append(cs, "delnonclaim")
			break
		}
	}
	if len(c.affected) > 0 {
		hit := len(refs) == 0 // global enumerations
		for _, r := range refs {
			if c.affected[r] {
				hit = true
			}
		}
		if hit {
			cs = append(cs, "corpusdup")
		}
	}
	switch method {
	case "Corpus.PermanodeAttrValue", "Corpus.AppendPermanodeAttrValues", "Corpus.PermanodeHasAttrValue", "Corpus.PermanodeAnyTime", "Corpus.EnumeratePermanodesCreated":
		hit := len(refs) == 0 && len(c.eqDatePN) > 0
		for _, r := range refs {
			if c.eqDatePN[r] {
				hit = true
			}
		}
		if hit {
			cs = append(cs, "eqdate")
		}
	}
	return strings.Join(cs, "+")
}

// oneClient: every delivery of the segment is made by the same client and
// none has its source put racing.
func oneClient(ops []Op) bool {
	c := -1
	for _, op := range ops {
		if op.K != "deliver" {
			continue
		}
		if op.Race || (c >= 0 && op.C != c) {
			return false
		}
		c = op.C
	}
	return true
}
