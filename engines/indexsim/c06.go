package indexsim

import (
	"verif/harness"
	"verif/simcore"
)

func genC06(tier string, run int, r *simcore.Rand) *harness.Plan { return genC05(tier, run, r) }

func execC06(rc *harness.RunCtx, p *harness.Plan, cfg *Config, w *world, ops []Op) *harness.Outcome {
	return &harness.Outcome{Inconclusive: "C06 not implemented yet"}
}
