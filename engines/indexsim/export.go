package indexsim

// Exported view of the world materialiser, the dependency model and the index
// session for other engines (engines/searchsim). This file only adds aliases
// and thin wrappers; nothing else in the package changed.

import (
	"encoding/json"
	"time"

	"perkeep.org/pkg/blob"
	"perkeep.org/pkg/index"

	"verif/harness"
)

// World is a materialised (signed) world.
type World = world

// Blob is one materialised blob of a world.
type Blob = mblob

// DepState is the dependency model over a delivered set.
type DepState = depState

// Session is one index over one durable KV and one blob source.
type Session = session

// Materialise builds and signs every blob of the spec.
func Materialise(spec *WorldSpec) (*World, error) { return materialise(spec) }

// Blobs lists the materialised blobs (index = item index).
func (w *world) Blobs() []*mblob { return w.b }

// Spec returns the declarative description.
func (w *world) Spec() *WorldSpec { return w.spec }

// Describe renders item i for humans.
func (w *world) Describe(i int) string { return w.describe(i) }

// DescribeOps renders a history for humans.
func (w *world) DescribeOps(ops []Op) []string { return w.describeOps(ops) }

// ClaimValue is the attribute value a claim item carries.
func (w *world) ClaimValue(i int) string { return w.claimValue(i) }

// Valid reports whether i is an item of the world.
func (w *world) Valid(i int) bool { return w.valid(i) }

// Identity returns the GPG key id and public-key blobref of signer s.
func Identity(s int) (keyID string, ref blob.Ref, ok bool) {
	idl, err := loadIdentities()
	if err != nil || s < 0 || s >= len(idl) {
		return "", blob.Ref{}, false
	}
	return idl[s].keyID, idl[s].ref, true
}

// BaseDate is the origin of the claim dates of a world (Item.D is in
// milliseconds after it).
func BaseDate() time.Time { return baseDate }

// DateOf converts an Item.D value.
func DateOf(ms int64) time.Time { return dateOf(ms) }

// NewDepState evaluates the dependency model over the refs handed to the index.
func NewDepState(w *World, have map[string]bool) *DepState { return newDepState(w, have) }

// State: 1 fully indexed, 2 meta row only (delete claim waiting for its
// target), 3 nothing committed.
func (d *depState) State(i int) int { return d.state(i) }

// NewSession creates a session (not yet opened).
func NewSession(rc *harness.RunCtx, w *World, name string) *Session { return newSession(rc, w, name) }

// SetCorpusOn decides whether the next Open keeps a corpus in memory.
func (s *session) SetCorpusOn(on bool) { s.corpusOn = on }

// CorpusOn reports whether a corpus is kept.
func (s *session) CorpusOn() bool { return s.corpusOn }

// Open creates a new index object over the durable rows (start or restart).
func (s *session) Open() error { return s.open() }

// EnableCorpus loads the corpus from the existing rows.
func (s *session) EnableCorpus() error { return s.enableCorpus() }

// Segment executes deliveries concurrently (one task per client) and waits
// for quiescence.
func (s *session) Segment(ops []Op, base int) error { return s.segment(ops, base) }

// Tasks runs functions as scheduler tasks and returns at quiescence.
func (s *session) Tasks(names []string, fs []func()) error { return s.tasks(names, fs) }

// Task runs one function as a scheduler task.
func (s *session) Task(name string, f func()) error { return s.task(name, f) }

// Reseed restarts the scheduler's choice streams.
func (s *session) Reseed(seed uint64) { s.reseed(seed) }

// Index is the current index object.
func (s *session) Index() *index.Index { return s.idx }

// Corpus is the current corpus (nil without one).
func (s *session) Corpus() *index.Corpus { return s.corpus }

// Delivered returns a copy of the set of refs handed to the index.
func (s *session) Delivered() map[string]bool {
	s.mu.Lock()
	defer s.mu.Unlock()
	m := make(map[string]bool, len(s.delivered))
	for k := range s.delivered {
		m[k] = true
	}
	return m
}

// RecvErrs lists errors returned by the index or the blob source.
func (s *session) RecvErrs() []string {
	s.mu.Lock()
	defer s.mu.Unlock()
	return append([]string(nil), s.recvErrs...)
}

// Rows is a snapshot of the index rows.
func (s *session) Rows() map[string]string { return s.rows() }

// OpsJSON marshals a history.
func OpsJSON(ops []Op) []json.RawMessage { return opsJSON(ops) }

// BlobData is the content of an opaque blob item {K:"blob", Seed, Size}.
func BlobData(seed uint64, size int) []byte { return blobData(seed, size) }
