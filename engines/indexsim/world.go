// Package indexsim drives perkeep's index (pkg/index: receive path,
// out-of-order re-indexing, corpus) through simulated arrival histories for
// the properties C05 (the index is a function of the set of blobs), C06 (live
// index and corpus equal what a restart would load) and C07 (claim
// semantics).
package indexsim

import (
	"bytes"
	"context"
	"errors"
	"fmt"
	"io"
	"os"
	"path/filepath"
	"sort"
	"strings"
	"sync"
	"time"

	"golang.org/x/crypto/openpgp"
	"perkeep.org/pkg/blob"
	"perkeep.org/pkg/jsonsign"
	"perkeep.org/pkg/schema"

	"verif/simcore"
)

// ---------------------------------------------------------------------------
// Declarative world description (carried in Plan.Config)

// Item describes one blob of the world. Items refer to earlier items only, so
// a world is materialised front to back.
type Item struct {
	// K: key | blob | bytes | file | sset | dir | pn | claim | del
	K string `json:"k"`
	// S: signer index (pn, claim, del) or identity index (key)
	S int `json:"s,omitempty"`
	// pn
	Key string `json:"key,omitempty"`
	// claim: CT set|add|del, PN item index of the permanode, Attr, Val; when
	// Ref > 0 the value is the blobref of item Ref-1
	CT   string `json:"ct,omitempty"`
	PN   int    `json:"pn,omitempty"`
	Attr string `json:"attr,omitempty"`
	Val  string `json:"val,omitempty"`
	Ref  int    `json:"ref,omitempty"`
	// claim, del: claim date in milliseconds after the world's base date
	D int64 `json:"d,omitempty"`
	// del: target item index
	T int `json:"t,omitempty"`
	// blob: Size bytes drawn from Seed. Media: "png" = the bytes begin with
	// the PNG signature (sniffable, not decodable); "jpeg" = a real JPEG with
	// EXIF data from perkeep's test data; "junkjpeg" = the same behind four
	// junk bytes (not sniffable: an image only by a file's extension)
	Seed  uint64 `json:"seed,omitempty"`
	Size  int    `json:"size,omitempty"`
	Media string `json:"media,omitempty"`
	// bytes, file: parts (item indices of blob or bytes items)
	Parts []int  `json:"parts,omitempty"`
	Name  string `json:"name,omitempty"`
	MT    int64  `json:"mt,omitempty"` // file/dir modtime, seconds after base (0 = none)
	// sset: members (item indices) or sub-sets to merge (item indices of sset)
	Mem   []int `json:"mem,omitempty"`
	Merge []int `json:"merge,omitempty"`
	// dir: item index of the static set
	Ent int `json:"ent,omitempty"`
}

// WorldSpec is the declarative world.
type WorldSpec struct {
	Items []Item `json:"items"`
}

// baseDate: claim dates must lie before the synctest bubble's clock origin
// (2000-01-01T00:00:00Z), because perkeep folds "now" as time.Now().
var baseDate = time.Date(1999, 1, 1, 0, 0, 0, 0, time.UTC)

// sigTime is the FIXED signature time: blob refs are a function of the spec.
var sigTime = time.Date(1998, 12, 31, 12, 0, 0, 0, time.UTC)

func dateOf(ms int64) time.Time { return baseDate.Add(time.Duration(ms) * time.Millisecond) }

// ---------------------------------------------------------------------------
// Signing identities (process-wide, read from the repository's test key rings)

type identity struct {
	ent     *openpgp.Entity
	keyID   string // GPG key id, e.g. 2931A67C26F5ABDA
	armored string // public key blob contents
	ref     blob.Ref
}

var (
	idOnce sync.Once
	ids    []*identity
	idErr  error

	signMu    sync.Mutex
	signCache = map[string]string{}
)

func repoDir() string {
	if v := os.Getenv("VERIF_KEYRING_DIR"); v != "" {
		return v
	}
	// the key rings are test data, never mutated; always read from /repo
	return "/repo/pkg/jsonsign/testdata"
}

func loadIdentities() ([]*identity, error) {
	idOnce.Do(func() {
		for _, f := range []string{"test-secring.gpg", "test-secring2.gpg"} {
			path := filepath.Join(repoDir(), f)
			kid, err := jsonsign.KeyIdFromRing(path)
			if err != nil {
				if len(ids) > 0 {
					break // second identity unavailable: one signer only
				}
				idErr = err
				return
			}
			ent, err := jsonsign.EntityFromSecring(kid, path)
			if err != nil {
				idErr = err
				return
			}
			arm, err := jsonsign.ArmoredPublicKey(ent)
			if err != nil {
				idErr = err
				return
			}
			ids = append(ids, &identity{ent: ent, keyID: kid, armored: arm, ref: blob.RefFromString(arm)})
		}
	})
	return ids, idErr
}

// NumIdentities reports how many signer identities are available offline.
func NumIdentities() int {
	x, _ := loadIdentities()
	return len(x)
}

type idFetcher struct{}

func (idFetcher) Fetch(ctx context.Context, br blob.Ref) (io.ReadCloser, uint32, error) {
	for _, id := range ids {
		if id.ref == br {
			return io.NopCloser(strings.NewReader(id.armored)), uint32(len(id.armored)), nil
		}
	}
	return nil, 0, os.ErrNotExist
}

type entFetcher struct{}

func (entFetcher) FetchEntity(fingerprint string) (*openpgp.Entity, error) {
	for _, id := range ids {
		if fmt.Sprintf("%X", id.ent.PrivateKey.PublicKey.Fingerprint) == fingerprint {
			return id.ent, nil
		}
	}
	return nil, errors.New("indexsim: no entity for fingerprint " + fingerprint)
}

func signJSON(unsigned string, signer int) (string, error) {
	k := fmt.Sprintf("%d|%s", signer, unsigned)
	signMu.Lock()
	if s, ok := signCache[k]; ok {
		signMu.Unlock()
		return s, nil
	}
	signMu.Unlock()
	sr := &jsonsign.SignRequest{
		UnsignedJSON:  unsigned,
		Fetcher:       idFetcher{},
		EntityFetcher: entFetcher{},
		SignatureTime: sigTime,
	}
	s, err := sr.Sign(context.Background())
	if err != nil {
		return "", err
	}
	signMu.Lock()
	if len(signCache) > 20000 {
		signCache = map[string]string{}
	}
	signCache[k] = s
	signMu.Unlock()
	return s, nil
}

// ---------------------------------------------------------------------------
// Materialised world

type mblob struct {
	Item int
	Ref  blob.Ref
	RefS string
	Data []byte
	Size int64 // for blob/bytes: number of content bytes it contributes
}

type world struct {
	spec  *WorldSpec
	b     []*mblob
	keyID map[int]string // signer index -> GPG key id
	keyOf map[int]int    // signer index -> item index of its key blob (-1 if the world has none)
}

func (w *world) item(i int) *Item { return &w.spec.Items[i] }

func (w *world) valid(i int) bool { return i >= 0 && i < len(w.b) && w.b[i] != nil }

func blobData(seed uint64, size int) []byte {
	r := simcore.NewRand(seed)
	const alpha = "abcdefghijklmnopqrstuvwxyz0123456789 \n"
	b := make([]byte, size)
	for i := range b {
		b[i] = alpha[r.Intn(len(alpha))]
	}
	return b
}

// materialise builds (and signs) every blob of the spec. Items with dangling
// references (possible after plan shrinking never touches Config, so only on
// hand-written plans) yield an error.
func materialise(spec *WorldSpec) (*world, error) {
	idl, err := loadIdentities()
	if err != nil {
		return nil, fmt.Errorf("signing identities: %w", err)
	}
	w := &world{spec: spec, b: make([]*mblob, len(spec.Items)), keyID: map[int]string{}, keyOf: map[int]int{}}
	for i := range spec.Items {
		it := &spec.Items[i]
		if it.K == "key" {
			if it.S >= len(idl) {
				return nil, fmt.Errorf("item %d: identity %d not available", i, it.S)
			}
			if _, dup := w.keyOf[it.S]; !dup {
				w.keyOf[it.S] = i
			}
			w.keyID[it.S] = idl[it.S].keyID
		}
	}
	refOf := func(i, self int) (blob.Ref, error) {
		if i < 0 || i >= self || w.b[i] == nil {
			return blob.Ref{}, fmt.Errorf("item %d refers to item %d which is not an earlier item", self, i)
		}
		return w.b[i].Ref, nil
	}
	signerRef := func(s int) (blob.Ref, error) {
		if s < 0 || s >= len(idl) {
			return blob.Ref{}, fmt.Errorf("signer %d not available", s)
		}
		w.keyID[s] = idl[s].keyID
		if _, ok := w.keyOf[s]; !ok {
			w.keyOf[s] = -1
		}
		return idl[s].ref, nil
	}
	for i := range spec.Items {
		it := &spec.Items[i]
		mb := &mblob{Item: i}
		var data string
		switch it.K {
		case "key":
			data = idl[it.S].armored
		case "blob":
			d := blobData(it.Seed, it.Size)
			switch it.Media {
			case "png":
				copy(d, "\x89PNG\r\n\x1a\n")
			case "jpeg", "junkjpeg":
				j, err := os.ReadFile("/repo/pkg/index/indextest/testdata/dude-exif.jpg")
				if err != nil {
					return nil, fmt.Errorf("item %d: %w", i, err)
				}
				d = j
				if it.Media == "junkjpeg" {
					d = append([]byte("junk"), j...)
				}
			}
			data = string(d)
			mb.Size = int64(len(d))
		case "bytes", "file":
			var parts []schema.BytesPart
			var total int64
			for _, pi := range it.Parts {
				r, err := refOf(pi, i)
				if err != nil {
					return nil, err
				}
				p := schema.BytesPart{Size: uint64(w.b[pi].Size)}
				switch spec.Items[pi].K {
				case "blob":
					p.BlobRef = r
				case "bytes":
					p.BytesRef = r
				default:
					return nil, fmt.Errorf("item %d: part %d is a %s", i, pi, spec.Items[pi].K)
				}
				total += w.b[pi].Size
				parts = append(parts, p)
			}
			var bb *schema.Builder
			if it.K == "file" {
				bb = schema.NewFileMap(it.Name)
				if it.MT != 0 {
					bb.SetModTime(baseDate.Add(time.Duration(it.MT) * time.Second))
				}
			} else {
				bb = schema.NewFileMap("").SetType(schema.TypeBytes)
			}
			if err := bb.PopulateParts(total, parts); err != nil {
				return nil, fmt.Errorf("item %d: %v", i, err)
			}
			js, err := bb.JSON()
			if err != nil {
				return nil, err
			}
			data = js
			mb.Size = total
		case "sset":
			if len(it.Merge) > 0 {
				var q []string
				for _, mi := range it.Merge {
					r, err := refOf(mi, i)
					if err != nil {
						return nil, err
					}
					q = append(q, fmt.Sprintf("    %q", r.String()))
				}
				data = "{\"camliVersion\": 1,\n  \"camliType\": \"static-set\",\n  \"mergeSets\": [\n" + strings.Join(q, ",\n") + "\n  ]\n}"
			} else {
				var refs []blob.Ref
				for _, mi := range it.Mem {
					r, err := refOf(mi, i)
					if err != nil {
						return nil, err
					}
					refs = append(refs, r)
				}
				ss := schema.NewStaticSet()
				ss.SetStaticSetMembers(refs)
				data = ss.Blob().JSON()
			}
		case "dir":
			r, err := refOf(it.Ent, i)
			if err != nil {
				return nil, err
			}
			bb := schema.NewDirMap(it.Name)
			bb.PopulateDirectoryMap(r)
			if it.MT != 0 {
				bb.SetModTime(baseDate.Add(time.Duration(it.MT) * time.Second))
			}
			js, err := bb.JSON()
			if err != nil {
				return nil, err
			}
			data = js
		case "pn":
			sr, err := signerRef(it.S)
			if err != nil {
				return nil, err
			}
			bb := schema.NewPlannedPermanode(it.Key)
			bb.SetSigner(sr)
			u, err := bb.JSON()
			if err != nil {
				return nil, err
			}
			if data, err = signJSON(u, it.S); err != nil {
				return nil, err
			}
		case "claim":
			sr, err := signerRef(it.S)
			if err != nil {
				return nil, err
			}
			pn, err := refOf(it.PN, i)
			if err != nil {
				return nil, err
			}
			val := it.Val
			if it.Ref > 0 {
				r, err := refOf(it.Ref-1, i)
				if err != nil {
					return nil, err
				}
				val = r.String()
			}
			var bb *schema.Builder
			switch it.CT {
			case "set":
				bb = schema.NewSetAttributeClaim(pn, it.Attr, val)
			case "add":
				bb = schema.NewAddAttributeClaim(pn, it.Attr, val)
			case "del":
				bb = schema.NewDelAttributeClaim(pn, it.Attr, val)
			default:
				return nil, fmt.Errorf("item %d: claim type %q", i, it.CT)
			}
			bb.SetClaimDate(dateOf(it.D))
			bb.SetSigner(sr)
			u, err := bb.JSON()
			if err != nil {
				return nil, err
			}
			if data, err = signJSON(u, it.S); err != nil {
				return nil, err
			}
		case "del":
			sr, err := signerRef(it.S)
			if err != nil {
				return nil, err
			}
			tr, err := refOf(it.T, i)
			if err != nil {
				return nil, err
			}
			bb := schema.NewDeleteClaim(tr)
			bb.SetClaimDate(dateOf(it.D))
			bb.SetSigner(sr)
			u, err := bb.JSON()
			if err != nil {
				return nil, err
			}
			if data, err = signJSON(u, it.S); err != nil {
				return nil, err
			}
		default:
			return nil, fmt.Errorf("item %d: unknown kind %q", i, it.K)
		}
		mb.Data = []byte(data)
		mb.Ref = blob.RefFromString(data)
		mb.RefS = mb.Ref.String()
		w.b[i] = mb
	}
	return w, nil
}

// claimValue is the attribute value a claim item carries.
func (w *world) claimValue(i int) string {
	it := w.item(i)
	if it.Ref > 0 {
		return w.b[it.Ref-1].RefS
	}
	return it.Val
}

// itemsByRef maps a ref to the first item carrying it (duplicates share it).
func (w *world) itemsByRef() map[string]int {
	m := map[string]int{}
	for i, b := range w.b {
		if _, ok := m[b.RefS]; !ok {
			m[b.RefS] = i
		}
	}
	return m
}

// ---------------------------------------------------------------------------
// Dependency model (what the receive path needs before a blob is indexed),
// written from the statement of C05: signing keys, targets of delete claims,
// file chunks, directory listings.

// depState answers, for a set of refs present in the blob source (= delivered
// set once arrivals stopped), which items are fully indexed / have a meta row.
type depState struct {
	w    *world
	have map[string]bool // refs in the blob source and received by the index
	memo map[int]int     // 0 unknown, 1 full, 2 meta only, 3 nothing
}

func newDepState(w *world, have map[string]bool) *depState {
	return &depState{w: w, have: have, memo: map[int]int{}}
}

// fetchOK reports whether every blob the indexer must FETCH for item i is in
// the source.
func (d *depState) fetchOK(i int) bool {
	it := d.w.item(i)
	switch it.K {
	case "pn", "claim", "del":
		ki, ok := d.w.keyOf[it.S]
		if !ok || ki < 0 {
			return false
		}
		return d.have[d.w.b[ki].RefS]
	case "file":
		return d.partsOK(i)
	case "dir":
		return d.ssetOK(it.Ent)
	}
	return true
}

func (d *depState) partsOK(i int) bool {
	for _, pi := range d.w.item(i).Parts {
		if !d.have[d.w.b[pi].RefS] {
			return false
		}
		if d.w.item(pi).K == "bytes" && !d.partsOK(pi) {
			return false
		}
	}
	return true
}

func (d *depState) ssetOK(i int) bool {
	if !d.have[d.w.b[i].RefS] {
		return false
	}
	it := d.w.item(i)
	if len(it.Mem) > 0 {
		return true // members listed directly: mergeSets are not followed
	}
	for _, mi := range it.Merge {
		if !d.ssetOK(mi) {
			return false
		}
	}
	return true
}

// state: 1 fully indexed, 2 meta row only (delete claim waiting for its
// target), 3 nothing committed (waiting for a fetch dependency or absent).
func (d *depState) state(i int) int {
	if v := d.memo[i]; v != 0 {
		return v
	}
	st := 1
	switch {
	case !d.have[d.w.b[i].RefS]:
		st = 3
	case !d.fetchOK(i):
		st = 3
	case d.w.item(i).K == "del":
		t := d.w.item(i).T
		// the target needs a meta row; any item carrying the target's ref will do
		ok := false
		for j := range d.w.b {
			if d.w.b[j].RefS == d.w.b[t].RefS && j != i {
				if s := d.state(j); s == 1 || s == 2 {
					ok = true
				}
			}
		}
		if !ok {
			st = 2
		}
	}
	d.memo[i] = st
	return st
}

// refState folds state over all items sharing a ref (best state wins).
func (d *depState) refState(ref string) int {
	best := 3
	for i, b := range d.w.b {
		if b.RefS == ref {
			if s := d.state(i); s < best {
				best = s
			}
		}
	}
	return best
}

// ---------------------------------------------------------------------------
// Canonical order: dependencies first.

func kindRank(k string) int {
	switch k {
	case "key":
		return 0
	case "blob":
		return 1
	case "bytes":
		return 2
	case "file":
		return 3
	case "sset":
		return 4
	case "dir":
		return 5
	case "pn":
		return 6
	case "claim":
		return 7
	case "del":
		return 8
	}
	return 9
}

func (w *world) delDepth(i int) int {
	d := 0
	for w.item(i).K == "del" {
		d++
		i = w.item(i).T
	}
	return d
}

// canonicalOrder sorts the given item indices: public keys, chunks, bytes,
// files, static sets (sub-sets first = item order), directories, permanodes,
// claims in date order, delete claims after their targets (by chain depth,
// then date).
func (w *world) canonicalOrder(items []int) []int {
	out := append([]int(nil), items...)
	sort.SliceStable(out, func(a, b int) bool {
		ia, ib := w.item(out[a]), w.item(out[b])
		ra, rb := kindRank(ia.K), kindRank(ib.K)
		if ra != rb {
			return ra < rb
		}
		switch ia.K {
		case "claim":
			if ia.D != ib.D {
				return ia.D < ib.D
			}
		case "del":
			da, db := w.delDepth(out[a]), w.delDepth(out[b])
			if da != db {
				return da < db
			}
			if ia.D != ib.D {
				return ia.D < ib.D
			}
		}
		return out[a] < out[b]
	})
	return out
}

// rowFamily is the part of an index key before its first separator.
func rowFamily(k string) string {
	if i := strings.IndexAny(k, "|:"); i > 0 {
		return k[:i]
	}
	return k
}

func sortedKeys[V any](m map[string]V) []string {
	ks := make([]string, 0, len(m))
	for k := range m {
		ks = append(ks, k)
	}
	sort.Strings(ks)
	return ks
}

var _ = bytes.NewReader
