package indexsim

import (
	"bytes"
	"context"
	"encoding/json"
	"fmt"
	"runtime/debug"
	"sort"
	"strings"
	"time"

	"perkeep.org/pkg/blob"
	"perkeep.org/pkg/blobserver"
	"perkeep.org/pkg/index"
	"perkeep.org/pkg/schema"
	"perkeep.org/pkg/search"
	"perkeep.org/pkg/types/camtypes"

	"verif/harness"
	"verif/sim"
	"verif/simcore"
)

// C14, index part (pseudo property id "C14X", run by the driver as part of
// C14): the index is fed concurrently while it is queried.
//
// A run: a world W (6-20 blobs), an index over SimKV with a blob source and,
// in most runs, a KeepInMemory corpus; a sequential PRELUDE (signer keys and a
// few whole dependency components); then 1-3 WRITER tasks deliver disjoint,
// dependency-ordered slices of W (source put, then Index.ReceiveBlob) while
// 1-4 READER tasks put reads from the C06 battery to the same index, each read
// being 1-3 questions asked under one hold of the index read lock exactly as
// the search handler does (Index.IsDeleted also without that lock, as
// pkg/server/share.go does; search.Handler.Query takes the lock itself).
// Every delivery and every read is stamped Call/Return with simcore.Seq().
//
// Oracle. The state of the index during the concurrent phase is a vector
// (n_1..n_k): writer j's first n_j deliveries are visible. For a read r the
// candidates are the vectors between "deliveries returned before r was
// called" and "deliveries called before r returned" (prefix-closed per writer
// because a writer is sequential). r's answer must equal the answer of the
// same read on a reference index built single-threaded, dependencies first,
// from the candidate's blobs — for at least one candidate
// (index-read-not-linearizable otherwise). Then one candidate per read is
// chosen such that the chosen vectors form a chain that respects the reads'
// real-time order (index-reads-not-jointly-linearizable otherwise). Panics
// escaping a call, errors of a well-formed delivery and hangs are violations.
// After quiescence the whole C06 battery must equal the reference built from
// everything delivered.
//
// The worlds avoid the shapes of the recorded C05-C07 findings (dependencies
// first within a writer and across writers via the prelude, no delete claim
// before its target, distinct claim dates, delete claims only on permanodes
// and on delete claims, blobs in the source before Index.ReceiveBlob), so
// that a difference is about concurrency.

type c14Cfg struct {
	// Prelude: items delivered sequentially before the concurrent phase.
	Prelude []int `json:"prelude,omitempty"`
	// Hub: a search.Handler is attached (Query reads allowed) and deliveries
	// go through blobserver.Receive, so that the handler's new-blob listener
	// (index read lock + GetBlobMeta) is one more concurrent reader.
	Hub bool `json:"hub,omitempty"`
}

type c14Op struct {
	K string `json:"k"` // deliver | read
	C int    `json:"c"` // writer or reader number
	I int    `json:"i,omitempty"`
	// read: questions put under one hold of the index read lock
	Q []c14Q `json:"q,omitempty"`
	// NL: no index lock (only honoured for a single Index.IsDeleted question)
	NL bool `json:"nl,omitempty"`
}

type c14Q struct {
	M string `json:"m"`
	// R: item index+1 whose ref is asked about; 0 = a ref outside the world
	R int `json:"r,omitempty"`
	// CI: claim item index+1; attribute and value are taken from it
	CI int    `json:"ci,omitempty"`
	A  string `json:"a,omitempty"`
	V  string `json:"v,omitempty"`
	// S: 0 = no signer filter (signer 0 where a signer ref is required); k = signer k-1
	S int `json:"s,omitempty"`
	// T: instant in ms after the base date; 0 = the zero time ("now")
	T int64 `json:"t,omitempty"`
	N int   `json:"n,omitempty"`
}

func (q c14Q) String() string {
	var a []string
	if q.R > 0 {
		a = append(a, fmt.Sprintf("#%d", q.R-1))
	}
	if q.CI > 0 {
		a = append(a, fmt.Sprintf("attr/value of claim #%d", q.CI-1))
	}
	if q.A != "" {
		a = append(a, fmt.Sprintf("%q", q.A))
	}
	if q.V != "" {
		a = append(a, fmt.Sprintf("=%q", q.V))
	}
	if q.S > 0 {
		a = append(a, fmt.Sprintf("signer%d", q.S-1))
	}
	if q.T != 0 {
		a = append(a, fmt.Sprintf("at=%dms", q.T))
	}
	if q.N != 0 {
		a = append(a, fmt.Sprintf("n=%d", q.N))
	}
	return q.M + "(" + strings.Join(a, ",") + ")"
}

func (op *c14Op) describe() string {
	var qs []string
	for _, q := range op.Q {
		qs = append(qs, q.String())
	}
	s := strings.Join(qs, " + ")
	if op.noLock() {
		s += " [without the index lock]"
	}
	return s
}

// noLock: a single Index.IsDeleted call without the index lock (two calls
// without the lock would be two reads, not one).
func (op *c14Op) noLock() bool {
	return op.NL && len(op.Q) == 1 && op.Q[0].M == "Index.IsDeleted"
}

func (op *c14Op) isQuery() bool { return len(op.Q) == 1 && op.Q[0].M == "Handler.Query" }

func (op *c14Op) methods() string {
	seen := map[string]bool{}
	var ms []string
	for _, q := range op.Q {
		if !seen[q.M] {
			seen[q.M] = true
			ms = append(ms, q.M)
		}
	}
	sort.Strings(ms)
	return strings.Join(ms, "+")
}

// ---------------------------------------------------------------------------
// generator

// c14HardDeps: the items that must be indexed / fetchable before item i can
// be indexed completely, signer keys excepted (they are always in the prelude).
func c14HardDeps(items []Item, i int) []int {
	it := items[i]
	switch it.K {
	case "del":
		return []int{it.T}
	case "file", "bytes":
		return it.Parts
	case "dir":
		return []int{it.Ent}
	case "sset":
		return it.Merge
	}
	return nil
}

// genC14World: like genWorld, with delete claims only on permanodes and on
// delete claims of such chains, and globally distinct claim dates.
func genC14World(r *simcore.Rand, target int) *WorldSpec {
	signers := 1
	if NumIdentities() >= 2 && r.Bool(0.25) {
		signers = 2
	}
	b := newWB(r, signers, false)
	wPN, wClaim, wDel, wFile, wDir, wBlob := 2, 6, 2, 2, 1, 1
	if r.Bool(0.3) {
		wFile, wDir = 0, 0
	}
	if r.Bool(0.15) {
		wClaim, wDel, wPN = 1, 0, 1
	}
	if r.Bool(0.25) {
		wDel = 6
	}
	addDel := func() bool {
		var cands []int
		for _, d := range b.dels {
			if b.depth(d) < 4 {
				cands = append(cands, d)
			}
		}
		cands = append(cands, b.pns...)
		if len(cands) == 0 {
			return false
		}
		t := b.pick(cands)
		b.add(Item{K: "del", S: b.items[t].S, T: t, D: b.date()})
		return true
	}
	for guard := 0; b.n() < target && guard < 200; guard++ {
		budget := target - b.n()
		total := wPN + wClaim + wDel + wFile + wDir + wBlob
		x := r.Intn(total)
		switch {
		case x < wPN:
			b.addPN()
		case x < wPN+wClaim:
			if len(b.pns) == 0 {
				b.addPN()
				continue
			}
			b.addClaim(b.pick(b.pns))
		case x < wPN+wClaim+wDel:
			if !addDel() {
				b.addPN()
			}
		case x < wPN+wClaim+wDel+wFile:
			b.addFile(budget)
		case x < wPN+wClaim+wDel+wFile+wDir:
			b.addDir(budget)
		default:
			b.addBlob()
		}
	}
	return &WorldSpec{Items: b.items}
}

var c14RefMethods = []string{"Index.GetBlobMeta", "Index.IsDeleted", "Index.KeyId", "Index.GetFileInfo", "Index.GetDirMembers", "Index.EdgesTo", "Index.PathsOfSignerTarget"}
var c14RefCorpusMethods = []string{"Corpus.IsDeleted", "Corpus.GetDirChildren", "Corpus.GetParentDirs", "Corpus.GetWholeRef", "Corpus.GetBlobMeta", "Corpus.ForeachClaimBack"}
var c14PNMethods = []string{"Index.AppendClaims", "Index.AppendClaims", "Index.PathsLookup", "Index.IsDeleted", "Index.GetBlobMeta"}
var c14PNCorpusMethods = []string{"Corpus.PermanodeModtime", "Corpus.PermanodeAnyTime", "Corpus.ForeachClaim", "Corpus.PermanodeAttrValue", "Corpus.PermanodeAttrValue", "Corpus.AppendPermanodeAttrValues", "Corpus.AppendPermanodeAttrValues", "Corpus.PermanodeHasAttrValue", "Corpus.IsDeleted"}
var c14GlobalMethods = []string{"Index.SearchPermanodesWithAttr", "Index.PermanodeOfSignerAttrValue", "Index.GetRecentPermanodes", "Index.EnumerateBlobMeta"}
var c14GlobalCorpusMethods = []string{"Corpus.EnumeratePermanodesLastModified", "Corpus.EnumeratePermanodesLastModified", "Corpus.EnumeratePermanodesCreated", "Corpus.EnumerateCamliBlobs", "Corpus.EnumeratePermanodesByNodeTypes"}

const c14QueryPanel = 7

func genC14X(tier string, run int, r *simcore.Rand) *harness.Plan {
	cfg := Config{}
	spec := genC14World(r, r.Range(6, 20))
	cfg.World = *spec
	items := spec.Items
	n := len(items)
	corpus := r.Bool(0.75)
	cfg.Corpus = "rows"
	if corpus {
		cfg.Corpus = "start"
	}
	cc := &c14Cfg{Hub: corpus && r.Bool(0.5)}
	cfg.C14 = cc

	// dependency components (keys aside): a component goes to one writer
	parent := make([]int, n)
	for i := range parent {
		parent[i] = i
	}
	var find func(i int) int
	find = func(i int) int {
		for parent[i] != i {
			parent[i] = parent[parent[i]]
			i = parent[i]
		}
		return i
	}
	for i := range items {
		for _, d := range c14HardDeps(items, i) {
			if items[d].K != "key" {
				a, b := find(i), find(d)
				if a != b {
					if a < b {
						a, b = b, a
					}
					parent[a] = b // the root is the smallest item of the component
				}
			}
		}
	}
	nW := r.Range(1, 3)
	owner := make([]int, n) // -1 prelude, else writer
	compOwner := map[int]int{}
	for i := range items {
		if items[i].K == "key" {
			owner[i] = -1
			continue
		}
		root := find(i)
		o, ok := compOwner[root]
		if !ok {
			o = r.Intn(nW)
			if r.Bool(0.2) {
				o = -1
			}
			compOwner[root] = o
		}
		owner[i] = o
	}
	for i := range items {
		if owner[i] == -1 {
			cc.Prelude = append(cc.Prelude, i)
		}
	}
	var ops []c14Op
	var concurrent []int // items delivered during the concurrent phase
	for w := 0; w < nW; w++ {
		var mine []int
		for i := range items {
			if owner[i] == w {
				mine = append(mine, i)
			}
		}
		emitted := map[int]bool{}
		for len(mine) > 0 {
			var avail []int
			for k, i := range mine {
				ok := true
				for _, d := range c14HardDeps(items, i) {
					if owner[d] == w && !emitted[d] {
						ok = false
					}
				}
				if ok {
					avail = append(avail, k)
				}
			}
			k := avail[0]
			if r.Bool(0.7) {
				k = avail[r.Intn(len(avail))]
			}
			i := mine[k]
			mine = append(mine[:k], mine[k+1:]...)
			emitted[i] = true
			ops = append(ops, c14Op{K: "deliver", C: w, I: i})
			concurrent = append(concurrent, i)
		}
	}

	// what can be asked
	var pns, claims, keys []int
	claimsOf := map[int][]int{}
	for i, it := range items {
		switch it.K {
		case "pn":
			pns = append(pns, i)
		case "claim":
			claims = append(claims, i)
			claimsOf[it.PN] = append(claimsOf[it.PN], i)
		case "key":
			keys = append(keys, i)
		}
	}
	pickItem := func() int {
		// mostly blobs that arrive during the concurrent phase
		if len(concurrent) > 0 && r.Bool(0.8) {
			return concurrent[r.Intn(len(concurrent))]
		}
		return r.Intn(n)
	}
	signer := func() int {
		if r.Bool(0.6) {
			return 0
		}
		return 1 + r.Intn(len(keys)+1) // sometimes a signer the world does not have
	}
	instant := func(ci int) int64 {
		if ci < 0 || r.Bool(0.7) {
			return 0
		}
		return items[ci].D + int64(r.Intn(3)) - 1
	}
	subjectQs := func(k int) []c14Q {
		var qs []c14Q
		switch x := r.Intn(10); {
		case x < 4 && len(pns) > 0: // a permanode
			pn := pns[r.Intn(len(pns))]
			if len(concurrent) > 0 && r.Bool(0.7) {
				// prefer a permanode that something arriving now is about
				i := concurrent[r.Intn(len(concurrent))]
				switch items[i].K {
				case "pn":
					pn = i
				case "claim":
					pn = items[i].PN
				case "del":
					t := i
					for items[t].K == "del" {
						t = items[t].T
					}
					if items[t].K == "pn" {
						pn = t
					}
				}
			}
			ms := append([]string{}, c14PNMethods...)
			if corpus {
				ms = append(ms, c14PNCorpusMethods...)
				ms = append(ms, c14PNCorpusMethods...)
			}
			for j := 0; j < k; j++ {
				q := c14Q{M: ms[r.Intn(len(ms))], R: pn + 1}
				ci := -1
				if cl := claimsOf[pn]; len(cl) > 0 && r.Bool(0.9) {
					ci = cl[r.Intn(len(cl))]
				}
				switch q.M {
				case "Index.AppendClaims":
					q.S = signer()
					if ci >= 0 && r.Bool(0.5) {
						q.CI = ci + 1
					}
				case "Index.PathsLookup":
					q.S = signer()
					q.A = []string{"foo", "b r"}[r.Intn(2)]
				case "Corpus.PermanodeAttrValue", "Corpus.AppendPermanodeAttrValues", "Corpus.PermanodeHasAttrValue":
					q.S = signer()
					if ci >= 0 {
						q.CI = ci + 1
					} else {
						q.A, q.V = "title", "a"
					}
					q.T = instant(ci)
				}
				qs = append(qs, q)
			}
		case x < 8: // any ref
			i := pickItem()
			rr := i + 1
			if r.Bool(0.04) {
				rr = 0
			}
			ms := append([]string{}, c14RefMethods...)
			if corpus {
				ms = append(ms, c14RefCorpusMethods...)
			}
			for j := 0; j < k; j++ {
				q := c14Q{M: ms[r.Intn(len(ms))], R: rr}
				if q.M == "Index.PathsOfSignerTarget" {
					q.S = signer()
				}
				if q.M == "Index.KeyId" && len(keys) > 0 && r.Bool(0.5) {
					q.R = keys[r.Intn(len(keys))] + 1
				}
				qs = append(qs, q)
			}
		default: // global questions
			ms := append([]string{}, c14GlobalMethods...)
			if corpus {
				ms = append(ms, c14GlobalCorpusMethods...)
				ms = append(ms, c14GlobalCorpusMethods...)
			}
			for j := 0; j < k; j++ {
				q := c14Q{M: ms[r.Intn(len(ms))]}
				switch q.M {
				case "Index.SearchPermanodesWithAttr", "Index.PermanodeOfSignerAttrValue":
					q.S = signer()
					q.A = []string{"title", "tag", "camliRoot"}[r.Intn(3)]
					var cs []int
					for _, ci := range claims {
						if items[ci].Attr == q.A {
							cs = append(cs, ci)
						}
					}
					if len(cs) > 0 && r.Bool(0.8) {
						q.CI = cs[r.Intn(len(cs))] + 1
					} else if q.M == "Index.PermanodeOfSignerAttrValue" {
						q.V = plainVals[r.Intn(len(plainVals))]
					}
					if q.M == "Index.SearchPermanodesWithAttr" && r.Bool(0.3) {
						q.N = 1 // empty value: every permanode with the attribute
					}
				case "Index.GetRecentPermanodes":
					q.S = signer()
					if len(claims) > 0 && r.Bool(0.3) {
						q.T = items[claims[r.Intn(len(claims))]].D
					}
				case "Corpus.EnumeratePermanodesCreated":
					q.N = r.Intn(2)
				case "Corpus.EnumerateCamliBlobs":
					q.A = []string{"", "permanode", "claim", "file", "directory", "static-set", "bytes"}[r.Intn(7)]
				}
				qs = append(qs, q)
			}
		}
		return qs
	}
	// twinQs: the same fact asked through a path that reads the rows (or the
	// index's own deletes cache) and through the corpus, under one lock hold:
	// a delivery must be visible through both or through neither.
	twinQs := func() []c14Q {
		if !corpus || len(concurrent) == 0 {
			return nil
		}
		i := concurrent[r.Intn(len(concurrent))]
		it := items[i]
		var qs []c14Q
		switch it.K {
		case "del":
			t := it.T
			if r.Bool(0.5) {
				for items[t].K == "del" {
					t = items[t].T
				}
			}
			qs = []c14Q{{M: "Index.IsDeleted", R: t + 1}, {M: "Corpus.IsDeleted", R: t + 1}}
		case "dir":
			qs = []c14Q{{M: "Index.GetDirMembers", R: i + 1}, {M: "Corpus.GetDirChildren", R: i + 1}}
		case "claim":
			switch {
			case strings.HasPrefix(it.Attr, "camliPath:") && r.Bool(0.7):
				qs = []c14Q{{M: "Index.PathsLookup", R: it.PN + 1, S: it.S + 1, A: strings.TrimPrefix(it.Attr, "camliPath:")}, {M: "Corpus.PermanodeAttrValue", R: it.PN + 1, CI: i + 1}}
			case it.Ref > 0 && r.Bool(0.7):
				qs = []c14Q{{M: "Index.EdgesTo", R: it.Ref}, {M: "Corpus.ForeachClaimBack", R: it.Ref}}
			case (it.Attr == "title" || it.Attr == "tag" || it.Attr == "camliRoot") && r.Bool(0.7):
				qs = []c14Q{{M: "Index.SearchPermanodesWithAttr", S: it.S + 1, A: it.Attr, CI: i + 1}, {M: "Corpus.PermanodeHasAttrValue", R: it.PN + 1, CI: i + 1}}
			default:
				qs = []c14Q{{M: "Index.GetRecentPermanodes", S: it.S + 1}, {M: "Corpus.PermanodeModtime", R: it.PN + 1}}
			}
		case "pn":
			qs = []c14Q{{M: "Index.GetRecentPermanodes", S: it.S + 1}, {M: "Corpus.EnumeratePermanodesLastModified"}}
		default:
			return nil
		}
		if r.Bool(0.5) {
			qs[0], qs[1] = qs[1], qs[0]
		}
		return qs
	}
	nR := r.Range(1, 4)
	for rd := 0; rd < nR; rd++ {
		for k := r.Range(2, 8); k > 0; k-- {
			op := c14Op{K: "read", C: rd}
			switch x := r.Intn(100); {
			case x < 12:
				op.NL = true
				i := pickItem()
				if len(pns) > 0 && r.Bool(0.6) {
					i = pns[r.Intn(len(pns))]
				}
				// mostly what a delete claim arriving now is about
				var cd []int
				for _, ci := range concurrent {
					if items[ci].K == "del" {
						cd = append(cd, ci)
					}
				}
				if len(cd) > 0 && r.Bool(0.7) {
					i = items[cd[r.Intn(len(cd))]].T
					for items[i].K == "del" && r.Bool(0.5) {
						i = items[i].T
					}
				}
				// one question only: without the lock two calls are two reads
				op.Q = []c14Q{{M: "Index.IsDeleted", R: i + 1}}
			case x < 28 && cc.Hub:
				op.Q = []c14Q{{M: "Handler.Query", N: r.Intn(c14QueryPanel)}}
			case x < 50 && corpus:
				if op.Q = twinQs(); op.Q == nil {
					op.Q = subjectQs(1)
				}
			default:
				nq := 1
				switch y := r.Intn(100); {
				case y < 25:
					nq = 2
				case y < 40:
					nq = 3
				}
				op.Q = subjectQs(nq)
			}
			ops = append(ops, op)
		}
	}
	p := &harness.Plan{Mode: "concurrent", Config: harness.MustJSON(cfg), Bubble: true}
	for _, op := range ops {
		p.Ops = append(p.Ops, harness.MustJSON(op))
	}
	p.LockYield = []int{0, 50, 300, 1000}[r.Intn(4)]
	p.Sticky = []int{0, 0, 500, 900}[r.Intn(4)]
	// lock releases as scheduling points: the goroutines a release wakes can
	// run before the releasing one goes on
	p.UnlockYield = []int{0, 100, 500, 1000}[r.Intn(4)]
	return p
}

// ---------------------------------------------------------------------------
// one index that can be asked: the live one or a reference

type idxHandle struct {
	idx    *index.Index
	corpus *index.Corpus
	sh     *search.Handler
}

func newSearchHandler(idx *index.Index, c *index.Corpus) *search.Handler {
	ids, _ := loadIdentities()
	sh := search.NewHandler(idx, index.NewOwner(ids[0].keyID, ids[0].ref))
	if c != nil {
		sh.SetCorpus(c)
	}
	return sh
}

func c14Query(n int) (*search.SearchQuery, bool) {
	q := &search.SearchQuery{Limit: -1}
	ordered := true
	switch n {
	case 0:
		q.Constraint = &search.Constraint{Permanode: &search.PermanodeConstraint{}}
		q.Sort = search.LastModifiedDesc
	case 1:
		q.Constraint = &search.Constraint{Permanode: &search.PermanodeConstraint{Attr: "tag", Value: "a"}}
		q.Sort = search.CreatedDesc
	case 2:
		q.Constraint = &search.Constraint{CamliType: schema.TypeClaim}
		q.Sort = search.BlobRefAsc
	case 3:
		q.Constraint = &search.Constraint{File: &search.FileConstraint{}}
		q.Sort = search.BlobRefAsc
	case 4:
		q.Constraint = &search.Constraint{Permanode: &search.PermanodeConstraint{Attr: "camliContent", ValueInSet: &search.Constraint{File: &search.FileConstraint{}}}}
		q.Sort = search.LastModifiedAsc
	case 5:
		q.Constraint = &search.Constraint{Permanode: &search.PermanodeConstraint{Attr: "title", NumValue: &search.IntConstraint{Min: 1}}}
		q.Sort = search.CreatedAsc
	default:
		q.Constraint = &search.Constraint{AnyCamliType: true}
		q.Sort = search.Unsorted
		ordered = false
	}
	return q, ordered
}

// answerQ answers one question. The caller holds whatever lock the read is
// made under.
func (h *idxHandle) answerQ(w *world, q c14Q) string {
	ctx := context.Background()
	idx, c := h.idx, h.corpus
	ref := blob.RefFromString("absent-1")
	if q.R > 0 && w.valid(q.R-1) {
		ref = w.b[q.R-1].Ref
	}
	attr, val := q.A, q.V
	if q.CI > 0 && w.valid(q.CI-1) && w.item(q.CI-1).K == "claim" {
		attr, val = w.item(q.CI-1).Attr, w.claimValue(q.CI-1)
	}
	var at time.Time
	if q.T != 0 {
		at = dateOf(q.T)
	}
	ids, _ := loadIdentities()
	signerRef, keyFilter := ids[0].ref, ""
	if q.S > 0 {
		if q.S-1 < len(ids) {
			signerRef, keyFilter = ids[q.S-1].ref, ids[q.S-1].keyID
		} else {
			signerRef, keyFilter = blob.RefFromString("absent-signer"), "0000000000000000"
		}
	}
	if strings.HasPrefix(q.M, "Corpus.") && c == nil {
		return "n/a"
	}
	switch q.M {
	case "Index.GetBlobMeta":
		bm, err := idx.GetBlobMeta(ctx, ref)
		return fmt.Sprintf("%d/%s%s", bm.Size, bm.CamliType, errClass(err))
	case "Index.IsDeleted":
		return fmt.Sprint(idx.IsDeleted(ref))
	case "Index.KeyId":
		kid, err := idx.KeyId(ctx, ref)
		return kid + errClass(err)
	case "Index.GetFileInfo":
		fi, err := idx.GetFileInfo(ctx, ref)
		if err != nil {
			return errClass(err)
		}
		ft, fm := "", ""
		if fi.Time != nil {
			ft = fi.Time.String()
		}
		if fi.ModTime != nil {
			fm = fi.ModTime.String()
		}
		return fmt.Sprintf("%q/%d/%s/%s/%s/%s", fi.FileName, fi.Size, fi.MIMEType, ft, fm, short(fi.WholeRef.String()))
	case "Index.GetDirMembers":
		dest := make(chan blob.Ref, 256)
		err := idx.GetDirMembers(ctx, ref, dest, 0)
		var ms []string
		for m := range dest {
			ms = append(ms, short(m.String()))
		}
		sort.Strings(ms)
		return strings.Join(ms, ",") + errClass(err)
	case "Index.EdgesTo":
		edges, err := idx.EdgesTo(ref, nil)
		var es []string
		for _, e := range edges {
			es = append(es, fmt.Sprintf("%s/%s/%s", short(e.From.String()), e.FromType, short(e.BlobRef.String())))
		}
		sort.Strings(es)
		return strings.Join(es, ",") + errClass(err)
	case "Index.PathsOfSignerTarget":
		paths, err := idx.PathsOfSignerTarget(ctx, signerRef, ref)
		var ps []string
		for _, p := range paths {
			ps = append(ps, fmt.Sprintf("%s/%s/%s/%s/%q", short(p.Claim.String()), short(p.Base.String()), short(p.Target.String()), fmtTime(p.ClaimDate), p.Suffix))
		}
		sort.Strings(ps)
		return strings.Join(ps, ",") + errClass(err)
	case "Index.AppendClaims":
		cls, err := idx.AppendClaims(ctx, nil, ref, keyFilter, attr)
		var cs []string
		for j := range cls {
			cs = append(cs, fmtClaim(&cls[j]))
		}
		sort.Strings(cs)
		return strings.Join(cs, ";") + errClass(err)
	case "Index.PathsLookup":
		paths, err := idx.PathsLookup(ctx, signerRef, ref, attr)
		var ps []string
		for _, p := range paths {
			ps = append(ps, fmt.Sprintf("%s/%s/%s", short(p.Claim.String()), short(p.Target.String()), fmtTime(p.ClaimDate)))
		}
		sort.Strings(ps)
		return strings.Join(ps, ",") + errClass(err)
	case "Index.SearchPermanodesWithAttr":
		if q.N == 1 {
			val = ""
		}
		dest := make(chan blob.Ref, 256)
		err := idx.SearchPermanodesWithAttr(ctx, dest, &camtypes.PermanodeByAttrRequest{Signer: signerRef, Attribute: attr, Query: val, At: at})
		var rs []string
		for r := range dest {
			rs = append(rs, short(r.String()))
		}
		return strings.Join(rs, ",") + errClass(err)
	case "Index.PermanodeOfSignerAttrValue":
		pn, err := idx.PermanodeOfSignerAttrValue(ctx, signerRef, attr, val)
		return short(pn.String()) + errClass(err)
	case "Index.GetRecentPermanodes":
		dest := make(chan camtypes.RecentPermanode, 256)
		err := idx.GetRecentPermanodes(ctx, dest, signerRef, 0, at)
		var rs []string
		for r := range dest {
			rs = append(rs, fmt.Sprintf("%s@%s", short(r.Permanode.String()), fmtTime(r.LastModTime)))
		}
		return strings.Join(rs, ",") + errClass(err)
	case "Index.EnumerateBlobMeta":
		var metas []string
		err := idx.EnumerateBlobMeta(ctx, func(bm camtypes.BlobMeta) bool {
			metas = append(metas, fmt.Sprintf("%s/%d/%s", short(bm.Ref.String()), bm.Size, bm.CamliType))
			return true
		})
		sort.Strings(metas)
		return strings.Join(metas, ",") + errClass(err)
	case "Corpus.IsDeleted":
		return fmt.Sprint(c.IsDeleted(ref))
	case "Corpus.GetDirChildren":
		ch, err := c.GetDirChildren(ctx, ref)
		return refSet(ch) + errClass(err)
	case "Corpus.GetParentDirs":
		pa, err := c.GetParentDirs(ctx, ref)
		return refSet(pa) + errClass(err)
	case "Corpus.GetWholeRef":
		wr, ok := c.GetWholeRef(ctx, ref)
		return fmt.Sprintf("%s/%v", short(wr.String()), ok)
	case "Corpus.GetBlobMeta":
		bm, err := c.GetBlobMeta(ctx, ref)
		return fmt.Sprintf("%d/%s%s", bm.Size, bm.CamliType, errClass(err))
	case "Corpus.ForeachClaimBack":
		var back []string
		c.ForeachClaimBack(ref, at, func(cl *camtypes.Claim) bool {
			back = append(back, fmtClaim(cl))
			return true
		})
		sort.Strings(back)
		return strings.Join(back, ";")
	case "Corpus.PermanodeModtime":
		mt, ok := c.PermanodeModtime(ref)
		return fmt.Sprintf("%s/%v", fmtTime(mt), ok)
	case "Corpus.PermanodeAnyTime":
		t, ok := c.PermanodeAnyTime(ref)
		return fmt.Sprintf("%s/%v", fmtTime(t), ok)
	case "Corpus.ForeachClaim":
		var fc []string
		c.ForeachClaim(ref, at, func(cl *camtypes.Claim) bool {
			fc = append(fc, fmtClaim(cl))
			return true
		})
		sort.Strings(fc)
		return strings.Join(fc, ";")
	case "Corpus.PermanodeAttrValue":
		return c.PermanodeAttrValue(ref, attr, at, keyFilter)
	case "Corpus.AppendPermanodeAttrValues":
		return strings.Join(c.AppendPermanodeAttrValues(nil, ref, attr, at, keyFilter), "\x1f")
	case "Corpus.PermanodeHasAttrValue":
		return fmt.Sprint(c.PermanodeHasAttrValue(ref, at, attr, val))
	case "Corpus.EnumeratePermanodesLastModified":
		var seq []string
		c.EnumeratePermanodesLastModified(func(bm camtypes.BlobMeta) bool {
			seq = append(seq, short(bm.Ref.String()))
			return true
		})
		return strings.Join(seq, ",")
	case "Corpus.EnumeratePermanodesCreated":
		var seq []string
		c.EnumeratePermanodesCreated(func(bm camtypes.BlobMeta) bool {
			seq = append(seq, short(bm.Ref.String()))
			return true
		}, q.N == 1)
		return strings.Join(seq, ",")
	case "Corpus.EnumerateCamliBlobs":
		var set []string
		c.EnumerateCamliBlobs(schema.CamliType(attr), func(bm camtypes.BlobMeta) bool {
			set = append(set, short(bm.Ref.String()))
			return true
		})
		sort.Strings(set)
		return strings.Join(set, ",")
	case "Corpus.EnumeratePermanodesByNodeTypes":
		var set []string
		c.EnumeratePermanodesByNodeTypes(func(bm camtypes.BlobMeta) bool {
			set = append(set, short(bm.Ref.String()))
			return true
		}, []string{"foursquare.com:checkin", "dir|x"})
		sort.Strings(set)
		return strings.Join(set, ",")
	case "Handler.Query":
		if h.sh == nil {
			return "n/a"
		}
		sq, ordered := c14Query(q.N)
		res, err := h.sh.Query(ctx, sq)
		if err != nil {
			return "ERR(" + err.Error() + ")"
		}
		var rs []string
		for _, b := range res.Blobs {
			rs = append(rs, short(b.Blob.String()))
		}
		if !ordered {
			sort.Strings(rs)
		}
		return strings.Join(rs, ",")
	}
	return "unknown-method"
}

// answerRead makes one read: all its questions under one hold of the index
// read lock (none for an unlocked IsDeleted; a Query takes the lock itself).
func (h *idxHandle) answerRead(w *world, op *c14Op) string {
	if op.isQuery() {
		return h.answerQ(w, op.Q[0])
	}
	if !op.noLock() {
		h.idx.RLock()
		defer h.idx.RUnlock()
	}
	parts := make([]string, 0, len(op.Q))
	for _, q := range op.Q {
		if q.M == "Handler.Query" {
			parts = append(parts, "n/a") // never inside a lock hold: the handler locks itself
			continue
		}
		parts = append(parts, h.answerQ(w, q))
	}
	return strings.Join(parts, " && ")
}

// ---------------------------------------------------------------------------
// execution

type c14Delivery struct {
	op, w, pos, item int
	call, ret        uint64
	err, pan         string
	done             bool
}

type c14Read struct {
	op, r     int
	call, ret uint64
	ans, pan  string
	done      bool
}

const c14MaxCandidates = 16

func execC14X(rc *harness.RunCtx, p *harness.Plan, cfg *Config, w *world) *harness.Outcome {
	ctx := context.Background()
	out := &harness.Outcome{Ops: len(p.Ops), Reached: map[string]int{}}
	ops := make([]c14Op, len(p.Ops))
	for i, raw := range p.Ops {
		if err := json.Unmarshal(raw, &ops[i]); err != nil {
			out.Inconclusive = "bad op: " + err.Error()
			return out
		}
	}
	cc := cfg.C14
	if cc == nil {
		cc = &c14Cfg{}
	}
	seed := p.SchedSeed
	corpusOn := cfg.Corpus == "start"
	mode := "rows"
	if corpusOn {
		mode = "corpus"
	}
	if cc.Hub {
		mode += "+hub"
	}
	s := newSession(rc, w, "main")
	s.corpusOn = corpusOn
	s.reseed(simcore.Mix(seed, "open"))
	if err := s.open(); err != nil {
		out.Inconclusive = "open: " + err.Error()
		return out
	}
	live := &idxHandle{idx: s.idx, corpus: s.corpus}
	if cc.Hub {
		live.sh = newSearchHandler(s.idx, s.corpus)
	}
	fail := func(class, comp, detail string, op int) *harness.Outcome {
		sig := class + ":" + comp + "@" + mode
		if what, ok := harness.Known("C14", sig); ok {
			out.NoteKnown(what)
			return nil
		}
		out.Violation = harness.Viol(class, sig, detail, op)
		rp := *p
		rp.Tape = nil
		out.ReplayPlan = &rp
		return out
	}

	// --- the programme: prelude, writers, readers (dependency-checked, so that
	// any sub-list of Ops is a valid programme)
	have := map[string]bool{}
	var prelude []int
	for _, i := range cc.Prelude {
		if !w.valid(i) {
			out.Inconclusive = "prelude refers to an item outside the world"
			return out
		}
		have[w.b[i].RefS] = true
		if newDepState(w, have).state(i) != 1 {
			out.Inconclusive = fmt.Sprintf("prelude is not dependency ordered at %s", w.describe(i))
			return out
		}
		prelude = append(prelude, i)
	}
	var writerIDs, readerIDs []int
	writers := map[int][]*c14Delivery{}
	readers := map[int][]*c14Read{}
	haveW := map[int]map[string]bool{}
	var deliveries []*c14Delivery
	var reads []*c14Read
	taken := map[int]bool{}
	for _, i := range prelude {
		taken[i] = true
	}
	for oi := range ops {
		op := &ops[oi]
		switch op.K {
		case "deliver":
			if !w.valid(op.I) {
				out.Inconclusive = "op refers to an item outside the world"
				return out
			}
			if taken[op.I] {
				out.Reached["delivery-skipped-duplicate-item"]++
				continue
			}
			hw := haveW[op.C]
			if hw == nil {
				hw = map[string]bool{}
				for k := range have {
					hw[k] = true
				}
				haveW[op.C] = hw
				writerIDs = append(writerIDs, op.C)
			}
			hw[w.b[op.I].RefS] = true
			if newDepState(w, hw).state(op.I) != 1 {
				// only after shrinking: its dependency was dropped
				delete(hw, w.b[op.I].RefS)
				out.Reached["delivery-skipped-unsatisfied"]++
				continue
			}
			taken[op.I] = true
			d := &c14Delivery{op: oi, w: op.C, pos: len(writers[op.C]), item: op.I}
			writers[op.C] = append(writers[op.C], d)
			deliveries = append(deliveries, d)
		case "read":
			if len(op.Q) == 0 {
				continue
			}
			if _, ok := readers[op.C]; !ok {
				readerIDs = append(readerIDs, op.C)
			}
			rd := &c14Read{op: oi, r: op.C}
			readers[op.C] = append(readers[op.C], rd)
			reads = append(reads, rd)
		}
	}
	sort.Ints(writerIDs)
	sort.Ints(readerIDs)
	// a writer that lost all its deliveries
	{
		var ws []int
		for _, id := range writerIDs {
			if len(writers[id]) > 0 {
				ws = append(ws, id)
			}
		}
		writerIDs = ws
	}
	wIndex := map[int]int{}
	for k, id := range writerIDs {
		wIndex[id] = k
	}

	deliverOne := func(item int, viaHub bool) error {
		b := w.b[item]
		if viaHub {
			_, err := blobserver.Receive(ctx, s.idx, b.Ref, bytes.NewReader(b.Data))
			return err
		}
		_, err := s.idx.ReceiveBlob(ctx, b.Ref, bytes.NewReader(b.Data))
		return err
	}

	// --- prelude (sequential)
	var preErr error
	s.reseed(simcore.Mix(seed, "prelude"))
	if herr := s.task("prelude", func() {
		for _, i := range prelude {
			b := w.b[i]
			if _, err := s.srcW.ReceiveBlob(ctx, b.Ref, bytes.NewReader(b.Data)); err != nil {
				preErr = err
				return
			}
			if err := deliverOne(i, live.sh != nil); err != nil {
				preErr = fmt.Errorf("%s: %w", w.describe(i), err)
				return
			}
		}
		s.idx.VerifAwaitReindex()
	}); herr != nil || preErr != nil {
		out.Inconclusive = fmt.Sprint("prelude: ", herr, " ", preErr)
		return out
	}

	// Free-running configuration: the race detector is the judge. The (sound)
	// oracle is kept on every other programme only; in the others every read
	// is repeated a few times (only the last answer is kept, unchecked): more
	// reader pressure per delivery for the detector.
	checkReads, reps := true, 1
	if rc.Sched == nil && p.Run%2 == 1 {
		checkReads, reps = false, 6
	}

	// --- concurrent phase
	var names []string
	var fs []func()
	for _, id := range writerIDs {
		list := writers[id]
		names = append(names, fmt.Sprintf("w%02d", id))
		label := fmt.Sprintf("writer%02d", id)
		fs = append(fs, func() {
			for _, d := range list {
				simcore.Yield(label)
				stop := false
				func() {
					defer func() {
						if r := recover(); r != nil {
							d.pan = fmt.Sprint(r) + "\n" + string(debug.Stack())
							stop = true
						}
					}()
					b := w.b[d.item]
					if _, err := s.srcW.ReceiveBlob(ctx, b.Ref, bytes.NewReader(b.Data)); err != nil {
						d.err = "source put: " + err.Error()
						stop = true
						return
					}
					d.call = simcore.Seq()
					err := deliverOne(d.item, live.sh != nil)
					d.ret = simcore.Seq()
					if err != nil {
						d.err = err.Error()
					}
					d.done = true
				}()
				if stop {
					return
				}
			}
		})
	}
	for _, id := range readerIDs {
		list := readers[id]
		names = append(names, fmt.Sprintf("r%02d", id))
		label := fmt.Sprintf("reader%02d", id)
		fs = append(fs, func() {
			for _, rd := range list {
				simcore.Yield(label)
				func() {
					defer func() {
						if r := recover(); r != nil {
							rd.pan = fmt.Sprint(r) + "\n" + string(debug.Stack())
						}
					}()
					for k := 0; k < reps; k++ {
						rd.call = simcore.Seq()
						rd.ans = live.answerRead(w, &ops[rd.op])
						rd.ret = simcore.Seq()
					}
					rd.done = true
				}()
			}
		})
	}
	s.reseed(simcore.Mix(seed, "concurrent"))
	if len(fs) > 0 {
		if err := s.tasks(names, fs); err != nil {
			if err == simcore.ErrSteps {
				out.Inconclusive = "scheduler step budget exhausted"
				return out
			}
			for _, d := range deliveries {
				if !d.done && d.pan == "" && d.err == "" {
					if fail("index-concurrent-hang", "deliver", fmt.Sprintf("writer %d: the delivery of %s never returned (%v)", d.w, w.describe(d.item), err), d.op) != nil {
						return out
					}
					break
				}
			}
			for _, rd := range reads {
				if !rd.done && rd.pan == "" {
					if fail("index-concurrent-hang", ops[rd.op].methods(), fmt.Sprintf("reader %d: %s never returned (%v)", rd.r, ops[rd.op].describe(), err), rd.op) != nil {
						return out
					}
					break
				}
			}
			out.Inconclusive = "concurrent phase: " + err.Error()
			return out
		}
	}
	s.flushRec()
	for _, d := range deliveries {
		if d.pan != "" {
			if fail("index-panic", "deliver", fmt.Sprintf("writer %d: delivering %s panicked: %s", d.w, w.describe(d.item), d.pan), d.op) != nil {
				return out
			}
		}
	}
	for _, rd := range reads {
		if rd.pan != "" {
			if fail("index-panic", ops[rd.op].methods(), fmt.Sprintf("reader %d: %s panicked: %s", rd.r, ops[rd.op].describe(), rd.pan), rd.op) != nil {
				return out
			}
		}
	}
	for _, d := range deliveries {
		if d.err != "" {
			if fail("index-receive-error", w.item(d.item).K, fmt.Sprintf("writer %d: the index refused %s, whose dependencies it had all received, in a fault-free run: %s", d.w, w.describe(d.item), d.err), d.op) != nil {
				return out
			}
		}
	}
	for _, d := range deliveries {
		if !d.done {
			// after a known panic / error: the history is not complete
			out.Inconclusive = "a delivery did not complete"
			return out
		}
	}
	for _, rd := range reads {
		if !rd.done {
			out.Inconclusive = "a read did not complete"
			return out
		}
	}

	// --- quiescence
	s.reseed(simcore.Mix(seed, "await"))
	var pend [3]int
	if herr := s.task("await", func() {
		s.idx.VerifAwaitReindex()
		pend[0], pend[1], pend[2] = s.idx.VerifPending()
	}); herr != nil {
		if fail("index-concurrent-hang", "await-reindex", "the index's re-indexing goroutines never finished after the writers returned: "+herr.Error(), len(ops)) != nil {
			return out
		}
		out.Inconclusive = "await: " + herr.Error()
		return out
	}
	if pend[0]+pend[1]+pend[2] != 0 {
		out.Inconclusive = fmt.Sprintf("dependency-ordered deliveries left pending blobs behind (needs %d, neededBy %d, readyReindex %d)", pend[0], pend[1], pend[2])
		return out
	}

	// --- oracle
	o := &c14Oracle{w: w, cfg: cfg, ops: ops, corpusOn: corpusOn, hub: cc.Hub, prelude: prelude, writerIDs: writerIDs, writers: writers,
		refs: map[string]*idxHandle{}, answers: map[string]string{}, out: out}
	var viol *c14Verdict
	var oerr string
	s.reseed(simcore.Mix(seed, "oracle"))
	if herr := s.task("oracle", func() {
		defer func() {
			if r := recover(); r != nil {
				oerr = "oracle panic: " + fmt.Sprint(r) + "\n" + string(debug.Stack())
			}
		}()
		if checkReads {
			viol, oerr = o.checkReads(reads)
		}
		if viol == nil && oerr == "" {
			viol, oerr = o.checkFinal(live)
		}
	}); herr != nil {
		out.Inconclusive = "oracle never finished: " + herr.Error()
		return out
	}
	if oerr != "" {
		out.Inconclusive = oerr
		return out
	}
	if viol != nil {
		if fail(viol.class, viol.comp, viol.detail, viol.op) != nil {
			return out
		}
	}

	// --- bookkeeping
	var sk strings.Builder
	sk.WriteString(mode)
	for _, id := range writerIDs {
		sk.WriteString("|w")
		for _, d := range writers[id] {
			k := w.item(d.item).K
			sk.WriteString(k[:1])
			if k == "del" {
				sk.WriteString("x")
			}
		}
	}
	for _, id := range readerIDs {
		sk.WriteString("|r")
		for _, rd := range readers[id] {
			sk.WriteString(c14Abbrev(&ops[rd.op]))
		}
	}
	fmt.Fprintf(&sk, "|ly%d|uy%d", p.LockYield, p.UnlockYield)
	out.ShapeKey = sk.String()
	out.Nontrivial = len(deliveries) >= 2 && len(reads) >= 2 && out.Reached["read-overlaps-delivery"] > 0
	var prog []string
	for _, id := range writerIDs {
		var l []string
		for _, d := range writers[id] {
			l = append(l, w.describe(d.item))
		}
		prog = append(prog, fmt.Sprintf("writer %d: %s", id, strings.Join(firstN(l, 6), " | ")))
	}
	for _, id := range readerIDs {
		var l []string
		for _, rd := range readers[id] {
			l = append(l, ops[rd.op].describe())
		}
		prog = append(prog, fmt.Sprintf("reader %d: %s", id, strings.Join(firstN(l, 4), " | ")))
	}
	out.Sample = map[string]any{"index": mode, "blobs": len(w.b), "prelude": len(prelude), "writers": len(writerIDs), "readers": len(readerIDs),
		"deliveries": len(deliveries), "reads": len(reads), "lockYieldPermille": p.LockYield, "unlockYieldPermille": p.UnlockYield, "programme": firstN(prog, 7)}
	return out
}

func c14Abbrev(op *c14Op) string {
	var sb strings.Builder
	for _, q := range op.Q {
		m := q.M
		if i := strings.IndexByte(m, '.'); i >= 0 {
			// first letter of the receiver + capitals of the method
			sb.WriteByte(m[0] | 0x20)
			for _, ch := range m[i+1:] {
				if ch >= 'A' && ch <= 'Z' {
					sb.WriteRune(ch)
				}
			}
		}
	}
	if op.noLock() {
		sb.WriteString("!")
	}
	sb.WriteString(".")
	return sb.String()
}

// ---------------------------------------------------------------------------
// oracle

type c14Verdict struct {
	class, comp, detail string
	op                  int
}

type c14Oracle struct {
	w         *world
	cfg       *Config
	ops       []c14Op
	corpusOn  bool
	hub       bool
	prelude   []int
	writerIDs []int
	writers   map[int][]*c14Delivery
	refs      map[string]*idxHandle
	answers   map[string]string
	out       *harness.Outcome
}

func vecKey(v []int) string {
	var sb strings.Builder
	for _, x := range v {
		fmt.Fprintf(&sb, "%d,", x)
	}
	return sb.String()
}

func vecLE(a, b []int) bool {
	for i := range a {
		if a[i] > b[i] {
			return false
		}
	}
	return true
}

// itemsOf: the blobs visible in state v.
func (o *c14Oracle) itemsOf(v []int) []int {
	items := append([]int(nil), o.prelude...)
	for k, id := range o.writerIDs {
		for _, d := range o.writers[id][:v[k]] {
			items = append(items, d.item)
		}
	}
	return items
}

// ref returns the reference index of state v: a fresh index over fresh rows
// (same configuration as the live one), fed single-threaded, dependencies
// first.
func (o *c14Oracle) ref(v []int) (*idxHandle, error) {
	key := vecKey(v)
	if h, ok := o.refs[key]; ok {
		return h, nil
	}
	ctx := context.Background()
	env := sim.NewEnv()
	kv := &sim.SimKV{Env: env, G: env.Gen, St: sim.NewKVState("ref")}
	src := &sim.SimStore{Env: env, G: env.Gen, St: sim.NewStoreState("refsrc")}
	idx, err := index.New(kv)
	if err != nil {
		return nil, fmt.Errorf("reference index.New: %w", err)
	}
	idx.InitBlobSource(src)
	h := &idxHandle{idx: idx}
	if o.corpusOn {
		idx.Lock()
		c, err := idx.KeepInMemory()
		idx.Unlock()
		if err != nil {
			return nil, fmt.Errorf("reference KeepInMemory: %w", err)
		}
		h.corpus = c
	}
	seen := map[string]bool{}
	for _, i := range o.w.canonicalOrder(o.itemsOf(v)) {
		b := o.w.b[i]
		if seen[b.RefS] {
			continue
		}
		seen[b.RefS] = true
		if _, err := src.ReceiveBlob(ctx, b.Ref, bytes.NewReader(b.Data)); err != nil {
			return nil, fmt.Errorf("reference source put: %w", err)
		}
		if _, err := idx.ReceiveBlob(ctx, b.Ref, bytes.NewReader(b.Data)); err != nil {
			return nil, fmt.Errorf("reference index refused %s: %w", o.w.describe(i), err)
		}
	}
	idx.VerifAwaitReindex()
	if a, b, c := idx.VerifPending(); a+b+c != 0 {
		return nil, fmt.Errorf("reference index has pending blobs (%d/%d/%d) for state %s", a, b, c, key)
	}
	o.refs[key] = h
	o.out.Reached["reference-indexes-built"]++
	return h, nil
}

func (o *c14Oracle) refAnswer(v []int, opi int) (string, error) {
	op := &o.ops[opi]
	qk, _ := json.Marshal(op.Q)
	key := vecKey(v) + "|" + fmt.Sprint(op.noLock()) + string(qk)
	if a, ok := o.answers[key]; ok {
		return a, nil
	}
	h, err := o.ref(v)
	if err != nil {
		return "", err
	}
	if op.isQuery() && h.sh == nil && o.hub {
		h.sh = newSearchHandler(h.idx, h.corpus)
	}
	a := h.answerRead(o.w, op)
	o.answers[key] = a
	return a, nil
}

func (o *c14Oracle) describeItems(ds []*c14Delivery) string {
	if len(ds) == 0 {
		return "none"
	}
	var l []string
	for _, d := range ds {
		l = append(l, fmt.Sprintf("%s by writer %d [%d,%d]", o.w.describe(d.item), d.w, d.call, d.ret))
	}
	return strings.Join(l, "; ")
}

func clipS(s string, n int) string {
	if len(s) > n {
		return s[:n] + fmt.Sprintf("...(%d bytes)", len(s))
	}
	return s
}

func (o *c14Oracle) checkReads(reads []*c14Read) (*c14Verdict, string) {
	nw := len(o.writerIDs)
	matches := make([][][]int, len(reads))
	checked := make([]bool, len(reads))
	for ri, rd := range reads {
		op := &o.ops[rd.op]
		lo, hi := make([]int, nw), make([]int, nw)
		var open []*c14Delivery
		ncand := 1
		for k, id := range o.writerIDs {
			for _, d := range o.writers[id] {
				if d.ret < rd.call {
					lo[k]++
				}
				if d.call < rd.ret {
					hi[k]++
					if d.ret > rd.call {
						open = append(open, d)
					}
				}
			}
			ncand *= hi[k] - lo[k] + 1
		}
		if len(open) > 0 {
			o.out.Reached["read-overlaps-delivery"]++
			if op.isQuery() {
				o.out.Reached["query-during-write"]++
			}
			if op.noLock() {
				o.out.Reached["unlocked-read-during-write"]++
			}
		}
		if ncand > 1 {
			o.out.Reached["candidates>1"]++
		}
		if ncand > c14MaxCandidates {
			o.out.Reached["read-unchecked-too-many-open"]++
			continue
		}
		// enumerate the candidate states in lexicographic order
		v := append([]int(nil), lo...)
		var cands [][]int
		var answers []string
		for {
			a, err := o.refAnswer(v, rd.op)
			if err != nil {
				return nil, err.Error()
			}
			cands = append(cands, append([]int(nil), v...))
			answers = append(answers, a)
			if a == rd.ans {
				matches[ri] = append(matches[ri], append([]int(nil), v...))
			}
			k := nw - 1
			for k >= 0 {
				if v[k] < hi[k] {
					v[k]++
					break
				}
				v[k] = lo[k]
				k--
			}
			if k < 0 {
				break
			}
		}
		checked[ri] = true
		o.out.SubRuns++
		if len(matches[ri]) == 0 {
			var done []*c14Delivery
			for _, id := range o.writerIDs {
				for _, d := range o.writers[id] {
					if d.ret < rd.call {
						done = append(done, d)
					}
				}
			}
			var cs []string
			for i, c := range cands {
				cs = append(cs, fmt.Sprintf("state %v -> %q", c, clipS(answers[i], 400)))
			}
			return &c14Verdict{class: "index-read-not-linearizable", comp: op.methods(), op: rd.op,
				detail: fmt.Sprintf("reader %d: %s, called at %d and returned at %d, answered %q; no state of the index between the deliveries completed before the call and those begun before the return gives that answer on a reference index built sequentially. Prelude: %d blobs. Deliveries completed before the call: %s. Deliveries overlapping the read: %s. Reference answers (state = deliveries visible per writer %v): %s",
					rd.r, op.describe(), rd.call, rd.ret, clipS(rd.ans, 400), len(o.prelude), o.describeItems(done), o.describeItems(open), o.writerIDs, strings.Join(cs, "; "))}, ""
		}
		if len(matches[ri]) < len(cands) {
			o.out.Reached["read-distinguishes-candidates"]++
		}
		if len(open) > 0 && !vecLE(matches[ri][0], lo) {
			o.out.Reached["read-saw-open-delivery"]++
		}
	}
	// joint check: one matching state per read, forming a chain that respects
	// the reads' real-time order
	var order []int
	for ri := range reads {
		if checked[ri] {
			order = append(order, ri)
		}
	}
	sort.SliceStable(order, func(a, b int) bool { return reads[order[a]].call < reads[order[b]].call })
	compatible := func(ra int, va []int, rb int, vb []int) bool {
		le, ge := vecLE(va, vb), vecLE(vb, va)
		if !le && !ge {
			return false
		}
		if reads[ra].ret < reads[rb].call && !le {
			return false
		}
		if reads[rb].ret < reads[ra].call && !ge {
			return false
		}
		return true
	}
	chosen := make([][]int, len(reads))
	nodes, gaveUp := 0, false
	var rec func(k int) bool
	rec = func(k int) bool {
		if k == len(order) {
			return true
		}
		r := order[k]
		for _, v := range matches[r] {
			nodes++
			if nodes > 200000 {
				gaveUp = true
				return true
			}
			ok := true
			for j := 0; j < k && ok; j++ {
				ok = compatible(order[j], chosen[order[j]], r, v)
			}
			if ok {
				chosen[r] = v
				if rec(k + 1) {
					return true
				}
			}
		}
		return false
	}
	if !rec(0) {
		// name a pair of reads that cannot be reconciled, if there is one
		for a := 0; a < len(order); a++ {
			for b := a + 1; b < len(order); b++ {
				ra, rb := order[a], order[b]
				ok := false
				for _, va := range matches[ra] {
					for _, vb := range matches[rb] {
						if compatible(ra, va, rb, vb) {
							ok = true
						}
					}
				}
				if !ok {
					oa, ob := &o.ops[reads[ra].op], &o.ops[reads[rb].op]
					return &c14Verdict{class: "index-reads-not-jointly-linearizable", comp: oa.methods() + "|" + ob.methods(), op: reads[rb].op,
						detail: fmt.Sprintf("two reads cannot be placed in one sequential order of the deliveries: reader %d: %s [%d,%d] answered %q, explained only by states %v; reader %d: %s [%d,%d] answered %q, explained only by states %v (state = deliveries visible per writer %v; the states of two reads must be comparable and follow the reads' real-time order)",
							reads[ra].r, oa.describe(), reads[ra].call, reads[ra].ret, clipS(reads[ra].ans, 300), matches[ra],
							reads[rb].r, ob.describe(), reads[rb].call, reads[rb].ret, clipS(reads[rb].ans, 300), matches[rb], o.writerIDs)}, ""
				}
			}
		}
		var l []string
		for _, r := range order {
			l = append(l, fmt.Sprintf("reader %d: %s [%d,%d] states %v", reads[r].r, o.ops[reads[r].op].describe(), reads[r].call, reads[r].ret, matches[r]))
		}
		return &c14Verdict{class: "index-reads-not-jointly-linearizable", comp: "many", op: -1,
			detail: "the reads cannot be placed in one sequential order of the deliveries (each read with the states that explain its answer): " + clip(l, 12)}, ""
	}
	if gaveUp {
		o.out.Reached["joint-search-budget-exhausted"]++
	} else if len(order) > 1 {
		o.out.Reached["joint-order-found"]++
	}
	return nil, ""
}

// checkFinal: at quiescence the whole battery equals the reference built from
// everything that was delivered.
func (o *c14Oracle) checkFinal(live *idxHandle) (*c14Verdict, string) {
	full := make([]int, len(o.writerIDs))
	for k, id := range o.writerIDs {
		full[k] = len(o.writers[id])
	}
	h, err := o.ref(full)
	if err != nil {
		return nil, err.Error()
	}
	q := newQuestions(o.w, o.cfg)
	la := q.ask(live.idx, live.corpus, false)
	ra := q.ask(h.idx, h.corpus, false)
	if len(la) != len(ra) {
		return nil, fmt.Sprintf("battery length differs: %d vs %d", len(la), len(ra))
	}
	o.out.Reached["final-answers-compared"] += len(la)
	for i := range la {
		if la[i].key != ra[i].key || la[i].method != ra[i].method {
			return nil, "battery out of step"
		}
		if la[i].val != ra[i].val {
			return &c14Verdict{class: "index-final-state-differs", comp: la[i].method, op: len(o.ops),
				detail: fmt.Sprintf("after the writers finished and the index was quiescent, %s(%s) answers %q; an index fed the same %d blobs sequentially, dependencies first, answers %q", la[i].method, la[i].key, clipS(la[i].val, 400), len(o.itemsOf(full)), clipS(ra[i].val, 400))}, ""
		}
	}
	return nil, ""
}
